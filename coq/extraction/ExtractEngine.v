(* Extraction of the engine-core model runner (conditions, targets, policies, sets,
   compiler, obligations, engine).  Only ExtrOcamlBasic/ExtrOcamlString directives. *)
From Coq Require Extraction ExtrOcamlBasic ExtrOcamlString.
From Rbacx Require Import EngineRun.
Extraction Language OCaml.
Extraction "../ocaml/gen/engine.ml" EngineRun.run_line.
