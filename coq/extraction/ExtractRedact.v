(* Extraction of the Redact model runner.  Directives in effect are exactly those
   of ExtrOcamlBasic and ExtrOcamlString; numbers stay extracted inductives. *)
From Coq Require Extraction ExtrOcamlBasic ExtrOcamlString.
From Rbacx Require Import RedactRun.
Extraction Language OCaml.
Extraction "../ocaml/gen/redact.ml" RedactRun.run_line.
