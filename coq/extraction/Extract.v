(* Extract.v — extraction of the executable model.  Directives in effect are
   exactly those of ExtrOcamlBasic and ExtrOcamlString; numbers stay the
   extracted inductive types. *)
From Coq Require Extraction ExtrOcamlBasic ExtrOcamlString.
From Rbacx Require Import Run.
Extraction Language OCaml.
Extraction "../ocaml/gen/model.ml" run_line.
