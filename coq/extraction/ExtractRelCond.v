(* Extraction of the rel-condition frame model runner.  Directives in effect are exactly those
   of ExtrOcamlBasic and ExtrOcamlString; numbers stay extracted inductives. *)
From Coq Require Extraction ExtrOcamlBasic ExtrOcamlString.
From Rbacx Require Import RelCondRun.
Extraction Language OCaml.
Extraction "../ocaml/gen/relcond.ml" RelCondRun.run_line.
