(* Extraction of the Asgi model runner.  Directives in effect are exactly those
   of ExtrOcamlBasic and ExtrOcamlString; numbers stay extracted inductives. *)
From Coq Require Extraction ExtrOcamlBasic ExtrOcamlString.
From Rbacx Require Import AsgiRun.
Extraction Language OCaml.
Extraction "../ocaml/gen/asgi.ml" AsgiRun.run_line.
