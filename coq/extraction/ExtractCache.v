(* Extraction of the Cache model runner.  Directives in effect are exactly those
   of ExtrOcamlBasic and ExtrOcamlString; numbers stay extracted inductives. *)
From Coq Require Extraction ExtrOcamlBasic ExtrOcamlString.
From Rbacx Require Import CacheRun.
Extraction Language OCaml.
Extraction "../ocaml/gen/cache.ml" CacheRun.run_line.
