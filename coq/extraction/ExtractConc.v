(* Extraction of the Conc model runner.  Directives in effect are exactly those
   of ExtrOcamlBasic and ExtrOcamlString; numbers stay extracted inductives. *)
From Coq Require Extraction ExtrOcamlBasic ExtrOcamlString.
From Rbacx Require Import ConcRun.
Extraction Language OCaml.
Extraction "../ocaml/gen/conc.ml" ConcRun.run_line.
