(* Extraction of the Reload/Sources model runner.  Directives in effect are exactly those
   of ExtrOcamlBasic and ExtrOcamlString; numbers stay extracted inductives. *)
From Coq Require Extraction ExtrOcamlBasic ExtrOcamlString.
From Rbacx Require Import ReloadRun.
Extraction Language OCaml.
Extraction "../ocaml/gen/reload.ml" ReloadRun.run_line.
