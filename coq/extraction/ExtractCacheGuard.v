(* Extraction of the CacheGuard model runner.  Directives in effect are exactly those
   of ExtrOcamlBasic and ExtrOcamlString; numbers stay extracted inductives. *)
From Coq Require Extraction ExtrOcamlBasic ExtrOcamlString.
From Rbacx Require Import CacheGuardRun.
Extraction Language OCaml.
Extraction "../ocaml/gen/cacheguard.ml" CacheGuardRun.run_line.
