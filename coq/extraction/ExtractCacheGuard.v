(* Extraction of the CacheGuard model runner.  Directives in effect are exactly those
   of ExtrOcamlBasic and ExtrOcamlString; numbers stay extracted inductives.
   The runner's table is CacheGuardRRun.entries = CacheGuardRun.entries (the resolver-free model, unchanged)
   followed by cg.runR / cg.batchR (the model with a role resolver per guard, CacheGuardR.v). *)
From Coq Require Extraction ExtrOcamlBasic ExtrOcamlString.
From Rbacx Require Import CacheGuardRun CacheGuardRRun.
Extraction Language OCaml.
Extraction "../ocaml/gen/cacheguard.ml" CacheGuardRRun.run_line.
