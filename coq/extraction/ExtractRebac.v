(* Extraction of the Rebac model runner.  Directives in effect are exactly those
   of ExtrOcamlBasic and ExtrOcamlString; numbers stay extracted inductives. *)
From Coq Require Extraction ExtrOcamlBasic ExtrOcamlString.
From Rbacx Require Import RebacRun.
Extraction Language OCaml.
Extraction "../ocaml/gen/rebac.ml" RebacRun.run_line.
