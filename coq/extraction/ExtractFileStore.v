(* Extraction of the FileStore model runner.  Directives in effect are exactly those
   of ExtrOcamlBasic and ExtrOcamlString; numbers stay extracted inductives. *)
From Coq Require Extraction ExtrOcamlBasic ExtrOcamlString.
From Rbacx Require Import FileStoreRun.
Extraction Language OCaml.
Extraction "../ocaml/gen/filestore.ml" FileStoreRun.run_line.
