(* Extraction of the Roles model runner.  Directives in effect are exactly those
   of ExtrOcamlBasic and ExtrOcamlString; numbers stay extracted inductives. *)
From Coq Require Extraction ExtrOcamlBasic ExtrOcamlString.
From Rbacx Require Import RolesRun.
Extraction Language OCaml.
Extraction "../ocaml/gen/roles.ml" RolesRun.run_line.
