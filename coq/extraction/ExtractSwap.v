(* Extraction of the Swap model runner (current and pre-40ecad2 protocol).
   Directives in effect are exactly those of ExtrOcamlBasic and ExtrOcamlString. *)
From Coq Require Extraction ExtrOcamlBasic ExtrOcamlString.
From Rbacx Require Import SwapRun.
Extraction Language OCaml.
Extraction "../ocaml/gen/swap.ml" SwapRun.run_line.
