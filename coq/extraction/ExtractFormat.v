(* Extraction of the Format model runner.  Directives in effect are exactly those
   of ExtrOcamlBasic and ExtrOcamlString; numbers stay extracted inductives. *)
From Coq Require Extraction ExtrOcamlBasic ExtrOcamlString.
From Rbacx Require Import FormatRun.
Extraction Language OCaml.
Extraction "../ocaml/gen/format.ml" FormatRun.run_line.
