(* ReloadProofs.v — proofs about the reloader model Reload.v, for an arbitrary source over an
   arbitrary world: arithmetic of the back-off window; what one atomic step may touch; the
   safety invariant over all interleavings; the big-step reading of one check; sequential
   histories; the window bound over all interleavings; convergence and its converse ("stuck")
   for any source that is honest in a stable world. *)
From Coq Require Import List Bool Arith QArith Lqa Lia.
From Rbacx Require Import Reload.
Import ListNotations.
Local Open Scope Q_scope.

Lemma qltb_true a b : qltb a b = true <-> a < b.
Proof.
  unfold qltb. rewrite negb_true_iff. split; intro H.
  - apply Qnot_le_lt. intro L. apply Qle_bool_iff in L. congruence.
  - destruct (Qle_bool b a) eqn:E; auto. apply Qle_bool_iff in E. apply Qle_not_lt in E. contradiction.
Qed.
Lemma qltb_false a b : qltb a b = false <-> b <= a.
Proof.
  unfold qltb. rewrite negb_false_iff. apply Qle_bool_iff.
Qed.
Lemma qmax_cases a b : (a < b /\ qmax a b = b) \/ (b <= a /\ qmax a b = a).
Proof. unfold qmax. destruct (qltb a b) eqn:E; [left; apply qltb_true in E | right; apply qltb_false in E]; auto. Qed.
Lemma qmin_cases a b : (b < a /\ qmin a b = b) \/ (a <= b /\ qmin a b = a).
Proof. unfold qmin. destruct (qltb b a) eqn:E; [left; apply qltb_true in E | right; apply qltb_false in E]; auto. Qed.

Definition window (c : cfg) : Q := qmax fifth (bmax c * (1 + jratio c)).

Lemma register_error_bound c now u r :
  0 <= bmin c -> 0 <= bmax c -> 0 <= jratio c -> -1 <= u -> u <= 1 ->
  now + fifth <= suppress_until (register_error c now u r)
  /\ suppress_until (register_error c now u r) <= now + window c
  /\ 0 <= backoff (register_error c now u r) <= bmax c.
Proof.
  intros Hmin Hmax Hj Hu1 Hu2. unfold register_error, window; simpl.
  set (b := qmin (bmax c) (qmax (bmin c) (backoff r * 2))).
  assert (Hb : 0 <= b <= bmax c).
  { unfold b. destruct (qmin_cases (bmax c) (qmax (bmin c) (backoff r * 2))) as [[H1 H2]|[H1 H2]];
    rewrite H2; destruct (qmax_cases (bmin c) (backoff r * 2)) as [[H3 H4]|[H3 H4]]; rewrite H4 in *; lra. }
  assert (Hbj : 0 <= b * jratio c) by (apply Qmult_le_0_compat; lra).
  assert (Hju : b * jratio c * u <= b * jratio c) by nra.
  assert (Hbb : b * (1 + jratio c) <= bmax c * (1 + jratio c)) by nra.
  destruct (qmax_cases fifth (b + b * jratio c * u)) as [[H1 H2]|[H1 H2]]; rewrite H2;
  destruct (qmax_cases fifth (bmax c * (1 + jratio c))) as [[H3 H4]|[H3 H4]]; rewrite H4; unfold fifth in *; lra.
Qed.

(* doubling, clamping *)
Lemma register_error_backoff c now u r :
  backoff (register_error c now u r) = qmin (bmax c) (qmax (bmin c) (backoff r * 2)).
Proof. reflexivity. Qed.

Lemma register_error_doubles c now u r :
  bmin c <= backoff r * 2 -> backoff r * 2 <= bmax c ->
  backoff (register_error c now u r) == backoff r * 2.
Proof.
  intros H1 H2. rewrite register_error_backoff.
  destruct (qmin_cases (bmax c) (qmax (bmin c) (backoff r * 2))) as [[A B]|[A B]]; rewrite B;
  destruct (qmax_cases (bmin c) (backoff r * 2)) as [[C D]|[C D]]; rewrite D in *; lra.
Qed.

(* ---------- equality of tags ---------- *)
Lemma bytes_eqb_eq a b : bytes_eqb a b = true <-> a = b.
Proof.
  destruct a, b; simpl; split; intro H; try discriminate; try (apply Nat.eqb_eq in H; congruence);
  try (inversion H; apply Nat.eqb_refl).
Qed.
Lemma tag_eqb_eq x y : tag_eqb x y = true <-> x = y.
Proof.
  destruct x, y; simpl; split; intro H; try discriminate;
  repeat match goal with
  | H : _ && _ = true |- _ => apply andb_true_iff in H; destruct H
  | H : bytes_eqb _ _ = true |- _ => apply bytes_eqb_eq in H
  | H : Nat.eqb _ _ = true |- _ => apply Nat.eqb_eq in H
  end; subst; try reflexivity;
  inversion H; subst; rewrite ?Nat.eqb_refl; simpl;
  repeat match goal with |- context [bytes_eqb ?b ?b] => replace (bytes_eqb b b) with true by (symmetry; apply bytes_eqb_eq; reflexivity) end;
  reflexivity.
Qed.
Lemma same_tag_true e l : same_tag e l = true <-> exists t, e = Some t /\ l = Some t.
Proof.
  destruct e as [t|], l as [t'|]; simpl; split; intro H; try discriminate; try (destruct H as (x & A & B); discriminate).
  - apply tag_eqb_eq in H. subst. eauto.
  - destruct H as [x [A B]]. inversion A; inversion B; subst. apply tag_eqb_eq. reflexivity.
Qed.
Lemma same_tag_refl t : same_tag (Some t) (Some t) = true.
Proof. apply same_tag_true. eauto. Qed.

Section Generic.
Context {W St : Type}.
Variable c : cfg.
Variable src : source W St.

Notation sys := (sys W St).
Notation conf := (conf W St).
Notation label := (label W).

(* ---------- one step ---------- *)
Definition is_apply (p : pc) : Prop := match p with PApply _ _ _ => True | _ => False end.

(* only the apply step touches the guard, and it installs the document the check loaded *)
Lemma step_guard now u (s s' : sys) p p' :
  step c src now u s p = (s', p') ->
  (gd s' = gd s /\ p' <> PDone true \/ p = PDone true /\ p' = PDone true /\ s' = s)
  \/ exists now0 e d, p = PApply now0 e d /\ p' = PDone true /\ gd s' = set_policy d (gd s)
                      /\ rl s' = applied c e (rl s) /\ loaded s' = loaded s.
Proof.
  destruct p as [force|force now0 last|now0 e|now0 e d|now0|r]; simpl; intro H.
  - destruct (qltb now (suppress_until (rl s)) && negb force); inversion H; subst; left; left; split; auto; discriminate.
  - destruct (s_etag src (sst s) (world s)) as [st' r]. destruct force.
    + inversion H; subst; left; left; split; auto; discriminate.
    + destruct r as [raw|]; [destruct (same_tag (norm raw) last)|]; inversion H; subst; left; left; split; auto; discriminate.
  - destruct (s_load src (sst s) (world s)) as [st' r]. destruct r; inversion H; subst; left; left; split; auto; discriminate.
  - inversion H; subst. right. exists now0, e, d. simpl. auto.
  - inversion H; subst; left; left; split; auto; discriminate.
  - inversion H; subst. destruct r; [left; right; auto | left; left; split; auto; discriminate].
Qed.

(* the log of loaded documents only grows; a thread reaches PApply d only by a successful load of d *)
Lemma step_loaded now u (s s' : sys) p p' :
  step c src now u s p = (s', p') ->
  (forall x, In x (loaded s) -> In x (loaded s')) /\
  (forall n e d, p' = PApply n e d -> In d (loaded s')).
Proof.
  destruct p as [force|force now0 last|now0 e|now0 e d|now0|r]; simpl; intro H.
  - destruct (qltb now (suppress_until (rl s)) && negb force); inversion H; subst; split; auto; discriminate.
  - destruct (s_etag src (sst s) (world s)) as [st' r]. destruct force.
    + inversion H; subst; split; auto; discriminate.
    + destruct r as [raw|]; [destruct (same_tag (norm raw) last)|]; inversion H; subst; split; auto; discriminate.
  - destruct (s_load src (sst s) (world s)) as [st' r]. destruct r; inversion H; subst; simpl; split; auto; try discriminate.
    intros n e' d' E. inversion E; subst. auto.
  - inversion H; subst; split; auto; discriminate.
  - inversion H; subst; split; auto; discriminate.
  - inversion H; subst; split; auto; discriminate.
Qed.

(* ---------- all interleavings: the safety invariant ---------- *)
Definition tr (p : pc) : nat := match p with PDone true => 1 | _ => 0 end.
Definition count_true (l : list pc) : nat := fold_right (fun p n => (tr p + n)%nat) O l.
Definition apply_ok (lg : list doc) (p : pc) : Prop :=
  match p with PApply _ _ d => In d lg | _ => True end.

Definition safe (p0 : doc) (k0 : nat) (cf : conf) : Prop :=
  (policy (gd (cs cf)) = p0 \/ In (policy (gd (cs cf))) (loaded (cs cf)))
  /\ Forall (apply_ok (loaded (cs cf))) (thr cf)
  /\ sets (gd (cs cf)) = (k0 + count_true (thr cf))%nat.

Lemma count_true_app l1 l2 : count_true (l1 ++ l2) = (count_true l1 + count_true l2)%nat.
Proof. induction l1; simpl; auto. rewrite IHl1. lia. Qed.

Lemma replace_count i p p' l :
  nth_error l i = Some p -> (count_true (replace i p' l) + tr p = count_true l + tr p')%nat.
Proof.
  revert i. induction l as [|x l IH]; intros [|i] H; simpl in *; try discriminate.
  - inversion H; subst. lia.
  - specialize (IH _ H). lia.
Qed.
Lemma replace_Forall (P : pc -> Prop) i p' l : Forall P l -> P p' -> Forall P (replace i p' l).
Proof.
  revert i. induction l as [|x l IH]; intros [|i] H Hp; simpl; auto; inversion H; subst; constructor; auto.
Qed.
Lemma Forall_apply_ok_mono (l1 l2 : list doc) ps :
  (forall x, In x l1 -> In x l2) -> Forall (apply_ok l1) ps -> Forall (apply_ok l2) ps.
Proof.
  intros Hm H. induction H; constructor; auto. destruct x; simpl in *; auto.
Qed.

Lemma safe_exec p0 k0 cf l : safe p0 k0 cf -> safe p0 k0 (exec c src cf l).
Proof.
  intros (Hp & Hf & Hs). destruct l as [f|force|i now u]; simpl.
  - unfold safe; simpl. auto.
  - unfold safe; simpl. repeat split; auto.
    + apply Forall_app. split; auto. constructor; simpl; auto.
    + rewrite count_true_app. simpl. lia.
  - destruct (nth_error (thr cf) i) as [p|] eqn:E; [|unfold safe; auto].
    destruct (step c src now u (cs cf) p) as [s' p'] eqn:Es.
    pose proof (step_loaded _ _ _ _ _ _ Es) as [Hmono Hap].
    pose proof (replace_count i p p' (thr cf) E) as Hc.
    unfold safe; simpl.
    destruct (step_guard _ _ _ _ _ _ Es) as [[[Hg Hne]|(Hd & Hd' & Hss)]|(n0 & e & d & Hpp & Hp' & Hg & _ & Hl)].
    + rewrite Hg. repeat split.
      * destruct Hp; auto.
      * apply replace_Forall. { eapply Forall_apply_ok_mono; eauto. }
        destruct p'; simpl; auto. eapply Hap; eauto.
      * assert (tr p' = 0%nat) by (destruct p' as [| | | | |[|]]; simpl; auto; congruence).
        assert (tr p = 0%nat).
        { destruct p as [| | | | |[|]]; simpl; auto. simpl in Es. inversion Es; subst. congruence. }
        lia.
    + subst. repeat split; auto.
      * apply replace_Forall; simpl; auto.
      * simpl in Hc. lia.
    + subst. rewrite Hg. simpl. repeat split.
      * right. rewrite Hl. eapply Forall_forall in Hf; [|eapply nth_error_In; eauto]. exact Hf.
      * apply replace_Forall; simpl; auto. eapply Forall_apply_ok_mono; eauto.
      * simpl in Hc. lia.
Qed.

Theorem safe_run p0 k0 ls cf : safe p0 k0 cf -> safe p0 k0 (run c src ls cf).
Proof.
  revert cf. induction ls as [|l ls IH]; intros cf H; simpl; auto. apply IH. apply safe_exec. exact H.
Qed.

(* started with no check in flight *)
Corollary safe_from_start (s0 : sys) ls :
  let cf := run c src ls {| cs := s0; thr := [] |} in
  (policy (gd (cs cf)) = policy (gd s0) \/ In (policy (gd (cs cf))) (loaded (cs cf)))
  /\ sets (gd (cs cf)) = (sets (gd s0) + count_true (thr cf))%nat
  /\ Forall (apply_ok (loaded (cs cf))) (thr cf).
Proof.
  intro cf. destruct (safe_run (policy (gd s0)) (sets (gd s0)) ls {| cs := s0; thr := [] |}) as (A & B & C).
  - unfold safe; simpl. repeat split; auto.
  - auto.
Qed.

(* ---------- one whole check (sequential semantics) ---------- *)
Ltac crush_check :=
  unfold run_check;
  repeat (cbn [steps step set_world world sst rl gd n_etag n_load loaded fst snd];
          match goal with
          | |- context [if ?x then _ else _] => destruct x eqn:?
          | |- context [s_etag src ?a ?b] => destruct (s_etag src a b) as [? [?|]] eqn:?
          | |- context [s_load src ?a ?b] => destruct (s_load src a b) as [? [?|]] eqn:?
          end);
  cbn [steps step set_world world sst rl gd n_etag n_load loaded fst snd].

(* four steps are enough fuel: the check always returns a boolean *)
Lemma run_check_done force now u mid (s : sys) :
  exists r, snd (run_check c src force now u mid s) = PDone r.
Proof. crush_check; eauto. Qed.

(* a check that returns False leaves the guard (policy and cache-clear count), the log of loaded
   documents and the stored tag exactly as they were *)
Lemma run_check_false force now u mid (s : sys) :
  snd (run_check c src force now u mid s) = PDone false ->
  let s' := fst (run_check c src force now u mid s) in
  gd s' = gd s /\ loaded s' = loaded s /\ last_etag (rl s') = last_etag (rl s)
  /\ world s' = mid (world s).
Proof. crush_check; intro H; try discriminate; auto. Qed.

(* a check that returns True installed exactly the document its own load returned *)
Lemma run_check_true force now u mid (s : sys) :
  snd (run_check c src force now u mid s) = PDone true ->
  let s' := fst (run_check c src force now u mid s) in
  exists d, loaded s' = d :: loaded s /\ gd s' = set_policy d (gd s)
            /\ last_error (rl s') = false /\ backoff (rl s') = bmin c
            /\ suppress_until (rl s') = suppress_until (rl s)
            /\ n_load s' = S (n_load s) /\ world s' = mid (world s).
Proof. crush_check; intro H; try discriminate; eexists; repeat split; reflexivity. Qed.

(* ---------- big-step reading of one check ---------- *)
Definition is_err {A} (r : sres A) : bool := match r with SErr => true | SOk _ => false end.
Definition mk (w : W) (st : St) (r : reloader) (g : guard) (ne nl : nat) (lg : list doc) : sys :=
  {| world := w; sst := st; rl := r; gd := g; n_etag := ne; n_load := nl; loaded := lg |}.

Definition check_big (force : bool) (now u : Q) (mid : W -> W) (s : sys) : sys * pc :=
  let w' := mid (world s) in
  if qltb now (suppress_until (rl s)) && negb force then (set_world w' s, PDone false)   (* suppressed *)
  else
    let (st1, r1) := s_etag src (sst s) (world s) in
    let e := match r1 with SOk raw => norm raw | SErr => None end in
    if negb force && is_err r1 then                                                      (* etag() raised *)
      (mk w' st1 (register_error c now u (rl s)) (gd s) (S (n_etag s)) (n_load s) (loaded s), PDone false)
    else if negb force && same_tag e (last_etag (rl s)) then                             (* tag unchanged *)
      (mk w' st1 (rl s) (gd s) (S (n_etag s)) (n_load s) (loaded s), PDone false)
    else
      let (st2, r2) := s_load src st1 w' in
      match r2 with
      | SErr =>                                                                           (* load() raised *)
          (mk w' st2 (register_error c now u (rl s)) (gd s) (S (n_etag s)) (S (n_load s)) (loaded s), PDone false)
      | SOk d =>                                                                          (* applied *)
          (mk w' st2 (applied c e (rl s)) (set_policy d (gd s)) (S (n_etag s)) (S (n_load s)) (d :: loaded s),
           PDone true)
      end.

Lemma run_check_big force now u mid (s : sys) :
  run_check c src force now u mid s = check_big force now u mid s.
Proof.
  unfold check_big, mk.
  destruct (qltb now (suppress_until (rl s)) && negb force) eqn:E1.
  - unfold run_check. cbn [steps step]. rewrite E1. reflexivity.
  - destruct (s_etag src (sst s) (world s)) as [st1 r1] eqn:E2.
    unfold run_check. cbn [steps step]. rewrite E1. cbn [steps step]. rewrite E2.
    destruct force; cbn [negb andb].
    + cbn [steps step set_world world sst rl gd n_etag n_load loaded].
      destruct (s_load src st1 (mid (world s))) as [st2 [d|]]; reflexivity.
    + destruct r1 as [raw|]; cbn [is_err].
      * destruct (same_tag (norm raw) (last_etag (rl s))) eqn:E3; cbn [steps step set_world world sst rl gd n_etag n_load loaded].
        -- reflexivity.
        -- destruct (s_load src st1 (mid (world s))) as [st2 [d|]]; reflexivity.
      * reflexivity.
Qed.

(* ---------- sequential histories ---------- *)
Inductive sitem :=
| SEv (f : W -> W)                                        (* the world changes between two checks *)
| SCheck (force : bool) (now u : Q) (mid : W -> W).       (* one whole check; [mid] = change between etag() and load() *)

Definition seq_step (s : sys) (it : sitem) : sys :=
  match it with
  | SEv f => set_world (f (world s)) s
  | SCheck force now u mid => fst (run_check c src force now u mid s)
  end.
Definition run_seq (its : list sitem) (s : sys) : sys := fold_left seq_step its s.

(* when checks do not overlap the active policy is the most recently loaded document *)
Definition most_recent (p0 : doc) (s : sys) : Prop := policy (gd s) = hd p0 (loaded s).

Lemma most_recent_step p0 s it : most_recent p0 s -> most_recent p0 (seq_step s it).
Proof.
  unfold most_recent. destruct it as [f|force now u mid]; simpl; auto.
  destruct (run_check_done force now u mid s) as [[|] Hr].
  - destruct (run_check_true _ _ _ _ _ Hr) as (d & Hl & Hg & _). simpl in *. rewrite Hl, Hg. reflexivity.
  - destruct (run_check_false _ _ _ _ _ Hr) as (Hg & Hl & _). simpl in *. rewrite Hl, Hg. auto.
Qed.
Theorem most_recent_seq p0 its s : most_recent p0 s -> most_recent p0 (run_seq its s).
Proof.
  revert s. induction its as [|it its IH]; intros s H; simpl; auto. apply IH, most_recent_step, H.
Qed.

(* a whole check is one particular schedule of the interleaving semantics *)
Lemma nth_error_snoc (l : list pc) p : nth_error (l ++ [p]) (length l) = Some p.
Proof. induction l; simpl; auto. Qed.
Lemma replace_snoc (l : list pc) p p' : replace (length l) p' (l ++ [p]) = l ++ [p'].
Proof. induction l; simpl; auto. rewrite IHl. reflexivity. Qed.

Lemma exec_step_last (s : sys) ths p now u :
  exec c src {| cs := s; thr := ths ++ [p] |} (LStep (length ths) now u)
  = {| cs := fst (step c src now u s p); thr := ths ++ [snd (step c src now u s p)] |}.
Proof.
  unfold exec. cbn [thr cs]. rewrite nth_error_snoc. destruct (step c src now u s p) as [s' p'].
  rewrite replace_snoc. reflexivity.
Qed.

Lemma run_check_is_schedule force now u mid (s : sys) ths :
  let n := length ths in
  run c src [LSpawn force; LStep n now u; LStep n now u; LWorld mid; LStep n now u; LStep n now u]
      {| cs := s; thr := ths |}
  = {| cs := fst (run_check c src force now u mid s); thr := ths ++ [snd (run_check c src force now u mid s)] |}.
Proof.
  intro n. unfold run. cbn [fold_left]. unfold exec at 6. cbn [cs thr].
  unfold n. rewrite exec_step_last. rewrite exec_step_last.
  unfold exec at 3. cbn [cs thr]. rewrite exec_step_last. rewrite exec_step_last.
  unfold run_check. cbn [steps].
  destruct (step c src now u s (PStart force)) as [s1 p1]. cbn [fst snd].
  destruct (step c src now u s1 p1) as [s2 p2]. cbn [fst snd].
  destruct (step c src now u (set_world (mid (world s2)) s2) p2) as [s3 p3]. cbn [fst snd].
  destruct (step c src now u s3 p3) as [s4 p4]. reflexivity.
Qed.

(* ---------- the suppression window ---------- *)
Definition cfg_ok : Prop := 0 <= bmin c /\ 0 <= bmax c /\ 0 <= jratio c.

Definition pc_now (p : pc) : option Q :=
  match p with
  | PEtag _ n _ | PLoad n _ | PApply n _ _ | PErr n => Some n
  | _ => None
  end.
Definition now_le (T : Q) (p : pc) : Prop := match pc_now p with Some n => n <= T | None => True end.
Definition label_ok (T : Q) (l : label) : Prop :=
  match l with LStep _ now u => now <= T /\ -1 <= u /\ u <= 1 | _ => True end.

Lemma step_window T B now u (s s' : sys) p p' :
  cfg_ok -> T + window c <= B -> now <= T -> -1 <= u -> u <= 1 -> now_le T p ->
  suppress_until (rl s) <= B ->
  step c src now u s p = (s', p') ->
  suppress_until (rl s') <= B /\ now_le T p'.
Proof.
  intros (C1 & C2 & C3) HB Hn Hu1 Hu2 Hp Hs.
  destruct p as [force|force now0 last|now0 e|now0 e d|now0|r]; cbn [step]; intro H.
  - destruct (qltb now (suppress_until (rl s)) && negb force); inversion H; subst; split; auto; exact I || exact Hn.
  - destruct (s_etag src (sst s) (world s)) as [st' r]. destruct force.
    + inversion H; subst; split; auto.
    + destruct r as [raw|]; [destruct (same_tag (norm raw) last)|]; inversion H; subst; split; auto; exact I.
  - destruct (s_load src (sst s) (world s)) as [st' r]. destruct r; inversion H; subst; split; auto.
  - inversion H; subst; split; auto. exact I.
  - inversion H; subst. split; [|exact I]. cbn [rl].
    destruct (register_error_bound c now0 u (rl s) C1 C2 C3 Hu1 Hu2) as (_ & Hb & _).
    unfold now_le in Hp; simpl in Hp. lra.
  - inversion H; subst; split; auto.
Qed.

Definition win_inv (T B : Q) (cf : conf) : Prop :=
  suppress_until (rl (cs cf)) <= B /\ Forall (now_le T) (thr cf).

Lemma nth_error_Forall (P : pc -> Prop) l i p : Forall P l -> nth_error l i = Some p -> P p.
Proof. intros H E. eapply Forall_forall in H; eauto. eapply nth_error_In; eauto. Qed.

Lemma win_exec T B cf l :
  cfg_ok -> T + window c <= B -> label_ok T l -> win_inv T B cf -> win_inv T B (exec c src cf l).
Proof.
  intros Hc HB Hl (Hs & Hf). destruct l as [f|force|i now u]; cbn [exec].
  - split; auto.
  - split; auto. apply Forall_app; split; auto.
  - destruct (nth_error (thr cf) i) as [p|] eqn:E; [|split; auto].
    destruct (step c src now u (cs cf) p) as [s' p'] eqn:Es.
    destruct Hl as (H1 & H2 & H3).
    destruct (step_window T B now u _ _ _ _ Hc HB H1 H2 H3 (nth_error_Forall _ _ _ _ Hf E) Hs Es) as [A Bq].
    split; cbn [cs thr]; auto. apply replace_Forall; auto.
Qed.

(* over every interleaving: if no check so far read a clock value above T (and jitter draws are in
   [-1,1]) the window never extends beyond T + max(0.2, backoff_max*(1+jitter_ratio)) *)
Theorem window_run T B ls cf :
  cfg_ok -> T + window c <= B -> Forall (label_ok T) ls -> win_inv T B cf -> win_inv T B (run c src ls cf).
Proof.
  intros Hc HB. revert cf. induction ls as [|l ls IH]; intros cf Hl Hw; simpl; auto.
  inversion Hl; subst. apply IH; auto. apply win_exec; auto.
Qed.

(* one whole check: the window moves only on failure, and then to at most now + window, at least now + 0.2 *)
Lemma check_window force now u mid (s : sys) :
  cfg_ok -> -1 <= u -> u <= 1 ->
  let s' := fst (run_check c src force now u mid s) in
  suppress_until (rl s') = suppress_until (rl s)
  \/ (snd (run_check c src force now u mid s) = PDone false
      /\ now + fifth <= suppress_until (rl s') <= now + window c
      /\ last_error (rl s') = true
      /\ backoff (rl s') = qmin (bmax c) (qmax (bmin c) (backoff (rl s) * 2))).
Proof.
  intros (C1 & C2 & C3) Hu1 Hu2. rewrite run_check_big. unfold check_big.
  pose proof (register_error_bound c now u (rl s) C1 C2 C3 Hu1 Hu2) as (B1 & B2 & _).
  destruct (qltb now (suppress_until (rl s)) && negb force); cbn [fst snd]; auto.
  destruct (s_etag src (sst s) (world s)) as [st1 r1].
  destruct (negb force && is_err r1); cbn [fst snd mk rl]; [right; repeat split; auto|].
  destruct (negb force && same_tag _ _); cbn [fst snd mk rl]; auto.
  destruct (s_load src st1 (mid (world s))) as [st2 [d|]]; cbn [fst snd mk rl]; auto.
Qed.

(* an unforced check inside the window does nothing at all *)
Lemma check_suppressed now u mid (s : sys) :
  now < suppress_until (rl s) ->
  run_check c src false now u mid s = (set_world (mid (world s)) s, PDone false).
Proof.
  intro H. rewrite run_check_big. unfold check_big. apply qltb_true in H. rewrite H. reflexivity.
Qed.

(* a forced check ignores the window: it always calls load(), and applies whatever load() returns *)
Lemma check_forced now u mid (s : sys) :
  let st1 := fst (s_etag src (sst s) (world s)) in
  let s' := fst (run_check c src true now u mid s) in
  n_etag s' = S (n_etag s) /\ n_load s' = S (n_load s) /\
  match snd (s_load src st1 (mid (world s))) with
  | SOk d => snd (run_check c src true now u mid s) = PDone true /\ policy (gd s') = d
  | SErr => snd (run_check c src true now u mid s) = PDone false
  end.
Proof.
  rewrite run_check_big. unfold check_big. rewrite andb_false_r.
  destruct (s_etag src (sst s) (world s)) as [st1 r1]. cbn [negb andb fst].
  destruct (s_load src st1 (mid (world s))) as [st2 [d|]]; cbn [fst snd mk n_etag n_load gd set_policy policy]; auto.
Qed.

(* the failing / unchanged cases all return False *)
Lemma check_fails force now u mid (s : sys) :
  let r1 := snd (s_etag src (sst s) (world s)) in
  let st1 := fst (s_etag src (sst s) (world s)) in
  (force = false /\ r1 = SErr)                                                     (* etag() raised *)
  \/ (force = false /\ exists raw, r1 = SOk raw /\ same_tag (norm raw) (last_etag (rl s)) = true)   (* unchanged *)
  \/ snd (s_load src st1 (mid (world s))) = SErr ->                                (* load() raised *)
  snd (run_check c src force now u mid s) = PDone false.
Proof.
  intros r1 st1 Hc. rewrite run_check_big. unfold check_big.
  destruct (qltb now (suppress_until (rl s)) && negb force); auto.
  unfold r1, st1 in Hc. destruct (s_etag src (sst s) (world s)) as [st r]. cbn [fst snd] in Hc.
  destruct Hc as [[Hf Hr]|[[Hf (raw & Hr & Hs)]|Hl]].
  - subst. reflexivity.
  - subst. cbn [negb andb is_err]. rewrite Hs. reflexivity.
  - destruct (negb force && is_err r); auto. destruct (negb force && same_tag _ _); auto.
    destruct (s_load src st (mid (world s))) as [st2 r2]. cbn [snd] in Hl. subst. reflexivity.
Qed.

(* an unforced check at or after suppress_until consults the source *)
Lemma check_unsuppressed now u mid (s : sys) :
  suppress_until (rl s) <= now ->
  n_etag (fst (run_check c src false now u mid s)) = S (n_etag s).
Proof.
  intro H. rewrite run_check_big. unfold check_big. apply qltb_false in H. rewrite H. cbn [andb].
  destruct (s_etag src (sst s) (world s)) as [st1 r1].
  destruct (negb false && is_err r1); cbn [fst mk n_etag]; auto.
  destruct (negb false && same_tag _ _); cbn [fst mk n_etag]; auto.
  destruct (s_load src st1 (mid (world s))) as [st2 [d|]]; cbn [fst mk n_etag]; auto.
Qed.

End Generic.

(* ---------- convergence, for any source that is honest in the (from now on) stable world ---------- *)
Section Converge.
Context {W St : Type}.
Variable c : cfg.
Variable src : source W St.
Variable w : W.                  (* the world from the moment it stops changing *)
Variable d : doc.                (* the document it holds *)
Variable tg : option tag.        (* the tag the source reports for it; None: it reports none *)
Variable I : St -> Prop.         (* an invariant of the source's own state *)
Hypothesis Hetag : forall st, I st ->
  exists st' raw, s_etag src st w = (st', SOk raw) /\ norm raw = tg /\ I st'.
Hypothesis Hload : forall st, I st -> exists st', s_load src st w = (st', SOk d) /\ I st'.

Notation sys := (sys W St).

(* the stored tag does not lie: if it is the tag of the stable world, the engine has its document *)
Definition coh (s : sys) : Prop :=
  forall t, tg = Some t -> last_etag (rl s) = Some t -> policy (gd s) = d.

Definition settled (s : sys) : Prop :=
  world s = w /\ I (sst s) /\ policy (gd s) = d /\ last_etag (rl s) = tg.

Definition idw : W -> W := fun x => x.

(* a check during which the world becomes w (between etag() and load(), or earlier) keeps coherence *)
Lemma straddle_check force now u (s : sys) :
  I (sst s) -> I (fst (s_etag src (sst s) (world s))) -> coh s ->
  let s' := fst (run_check c src force now u (fun _ => w) s) in
  world s' = w /\ I (sst s') /\ coh s'.
Proof.
  intros HI HI1 Hc. rewrite run_check_big. unfold check_big.
  destruct (qltb now (suppress_until (rl s)) && negb force); cbn [fst].
  { unfold set_world; simpl. repeat split; auto. }
  destruct (s_etag src (sst s) (world s)) as [st1 r1]. cbn [fst] in HI1.
  destruct (negb force && is_err r1); cbn [fst].
  { unfold mk; simpl. repeat split; auto. }
  destruct (negb force && same_tag _ _); cbn [fst].
  { unfold mk; simpl. repeat split; auto. }
  destruct (Hload st1 HI1) as (st2 & E & HI2). rewrite E. cbn [fst].
  unfold mk, coh; simpl. repeat split; auto.
Qed.

(* one unforced check outside the window, entirely inside the stable world *)
Lemma stable_check now u (s : sys) :
  world s = w -> I (sst s) -> coh s -> suppress_until (rl s) <= now ->
  settled (fst (run_check c src false now u idw s))
  /\ suppress_until (rl (fst (run_check c src false now u idw s))) = suppress_until (rl s).
Proof.
  intros Hw HI Hc Hn. rewrite run_check_big. unfold check_big, idw.
  apply qltb_false in Hn. rewrite Hn. cbn [andb negb]. rewrite Hw.
  destruct (Hetag _ HI) as (st1 & raw & E1 & Ht & HI1). rewrite E1. cbn [is_err].
  destruct (same_tag (norm raw) (last_etag (rl s))) eqn:Es; cbn [fst].
  - apply same_tag_true in Es. destruct Es as (t & A & B).
    unfold settled, mk; simpl. repeat split; auto.
    + apply (Hc t); congruence.
    + congruence.
  - destruct (Hload _ HI1) as (st2 & E2 & HI2). rewrite E2. cbn [fst].
    unfold settled, mk; simpl. repeat split; auto.
Qed.

(* once settled, always settled; a source that reports a tag is not loaded again *)
Lemma settled_check force now u (s : sys) :
  settled s ->
  settled (fst (run_check c src force now u idw s))
  /\ (forall t, tg = Some t -> force = false ->
        snd (run_check c src force now u idw s) = PDone false
        /\ n_load (fst (run_check c src force now u idw s)) = n_load s
        /\ gd (fst (run_check c src force now u idw s)) = gd s)
  /\ (tg = None -> suppress_until (rl s) <= now ->
        snd (run_check c src force now u idw s) = PDone true).
Proof.
  intros (Hw & HI & Hp & Ht). rewrite run_check_big. unfold check_big, idw. rewrite Hw.
  destruct (qltb now (suppress_until (rl s)) && negb force) eqn:Esup; cbn [fst snd].
  { split; [|split].
    - unfold settled, set_world; simpl. auto.
    - intros; simpl; auto.
    - intros _ Hn. apply qltb_false in Hn. rewrite Hn in Esup. discriminate. }
  destruct (Hetag _ HI) as (st1 & raw & E1 & Hr & HI1). rewrite E1. cbn [is_err]. rewrite andb_false_r.
  rewrite Hr, Ht.
  destruct (Hload _ HI1) as (st2 & E2 & HI2). rewrite E2.
  destruct force; cbn [negb andb fst snd].
  - split; [|split].
    + unfold settled, mk; simpl. auto.
    + intros; discriminate.
    + auto.
  - destruct tg as [t|] eqn:Et.
    + rewrite same_tag_refl. cbn [fst snd]. split; [|split].
      * unfold settled, mk; simpl. repeat split; auto; congruence.
      * intros; unfold mk; simpl; auto.
      * discriminate.
    + cbn [same_tag fst snd]. split; [|split].
      * unfold settled, mk; simpl. repeat split; auto; congruence.
      * discriminate.
      * auto.
Qed.

(* any number of later checks, of any kind *)
Definition only_checks (its : list (@sitem W)) : Prop :=
  Forall (fun it => match it with SCheck _ _ _ mid => mid = idw | SEv _ => False end) its.

Lemma settled_seq its (s : sys) : only_checks its -> settled s -> settled (run_seq c src its s).
Proof.
  revert s. induction its as [|it its IH]; intros s Ho Hs; simpl; auto.
  inversion Ho; subst. apply IH; auto. destruct it as [f|force now u mid]; [contradiction|].
  subst. simpl. apply settled_check. exact Hs.
Qed.

(* the convergence theorem: a first check during which (or before which) the world became w, then one
   unforced check outside the window: settled *)
Theorem converge_two force1 now1 u1 now2 u2 (s : sys) :
  I (sst s) -> I (fst (s_etag src (sst s) (world s))) -> coh s ->
  let s1 := fst (run_check c src force1 now1 u1 (fun _ => w) s) in
  suppress_until (rl s1) <= now2 ->
  settled (fst (run_check c src false now2 u2 idw s1)).
Proof.
  intros HI HI1 Hc s1 Hn.
  destruct (straddle_check force1 now1 u1 s HI HI1 Hc) as (A & B & C).
  apply stable_check; auto.
Qed.

(* ---------- the other side of the tag gate: a stored tag equal to the source's tag blocks loading ---------- *)
Definition stuck (s : sys) : Prop := world s = w /\ I (sst s) /\ last_etag (rl s) = tg.

Definition unforced_checks (its : list (@sitem W)) : Prop :=
  Forall (fun it => match it with SCheck false _ _ mid => mid = idw | _ => False end) its.

Lemma stuck_check t now u (s : sys) :
  tg = Some t -> stuck s ->
  snd (run_check c src false now u idw s) = PDone false
  /\ gd (fst (run_check c src false now u idw s)) = gd s
  /\ n_load (fst (run_check c src false now u idw s)) = n_load s
  /\ stuck (fst (run_check c src false now u idw s)).
Proof.
  intros Et (Hw & HI & Hl). rewrite run_check_big. unfold check_big, idw. rewrite Hw.
  destruct (qltb now (suppress_until (rl s)) && negb false); cbn [fst snd].
  { unfold stuck, set_world; simpl. repeat split; auto. }
  destruct (Hetag _ HI) as (st1 & raw & E1 & Hr & HI1). rewrite E1. cbn [is_err negb andb].
  rewrite Hr, Hl, Et, same_tag_refl. cbn [fst snd]. unfold stuck, mk; simpl. repeat split; auto; congruence.
Qed.

Lemma stuck_seq t its (s : sys) :
  tg = Some t -> unforced_checks its -> stuck s ->
  gd (run_seq c src its s) = gd s /\ n_load (run_seq c src its s) = n_load s.
Proof.
  intros Et. revert s. induction its as [|it its IH]; intros s Hu Hs; simpl; auto.
  inversion Hu; subst. destruct it as [f|[|] now u mid]; try contradiction. subst mid.
  destruct (stuck_check t now u s Et Hs) as (_ & A & B & C). simpl.
  destruct (IH _ H2 C) as [D E]. split; congruence.
Qed.

End Converge.
