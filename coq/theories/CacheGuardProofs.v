(* CacheGuardProofs.v — proofs about CacheGuard.v: the cache invariant, transparency
   of the decision cache over every history (one or two guards sharing a cache, any
   cache meeting the C15 contract), its instances, and the counterexamples. *)
From Coq Require Import ZArith List Bool String Ascii Lia.
From Rbacx Require Import Value Cond Target Policy PolicySet Compiler Oblig Engine
  Cache CacheProofs CacheKey CacheKeyProofs CacheGuard.
Import ListNotations.
Local Open Scope string_scope.
Local Open Scope list_scope.

(* ------------------------------------------------------------------ *)
(* small list facts                                                    *)
(* ------------------------------------------------------------------ *)
Lemma unit_tt (u : unit) : u = tt. Proof. now destruct u. Qed.

Lemma Forall2_nth {A B} (P : A -> B -> Prop) l1 l2 n a b :
  Forall2 P l1 l2 -> nth_error l1 n = Some a -> nth_error l2 n = Some b -> P a b.
Proof.
  intros H. revert n. induction H; intros [|n]; simpl; try discriminate.
  - intros E1 E2. inversion E1; inversion E2; subst. assumption.
  - apply IHForall2.
Qed.

Lemma Forall2_nth_l {A B} (P : A -> B -> Prop) l1 l2 n b :
  Forall2 P l1 l2 -> nth_error l2 n = Some b -> exists a, nth_error l1 n = Some a.
Proof.
  intros H. revert n. induction H; intros [|n]; simpl; try discriminate; eauto.
Qed.

Lemma Forall2_put {A} (P : A -> raw -> Prop) o h l a x :
  Forall2 P o h -> nth_error o l = Some a -> P a x -> Forall2 P o (heap_put h l x).
Proof.
  intros H. revert l. induction H; intros [|n]; simpl; try discriminate.
  - intros E Hp. inversion E; subst. now constructor.
  - intros E Hp. constructor; auto.
Qed.

Lemma Forall2_len {A B} (P : A -> B -> Prop) l1 l2 : Forall2 P l1 l2 -> List.length l1 = List.length l2.
Proof. induction 1; simpl; congruence. Qed.

Lemma Forall2_snoc {A B} (P : A -> B -> Prop) l1 l2 a b :
  Forall2 P l1 l2 -> P a b -> Forall2 P (l1 ++ [a]) (l2 ++ [b]).
Proof. intros H Hp. apply Forall2_app; auto. Qed.

Lemma nth_error_snoc {A} (l : list A) x : nth_error (l ++ [x]) (List.length l) = Some x.
Proof. rewrite nth_error_app2 by lia. now rewrite Nat.sub_diag. Qed.

Lemma nth_error_snoc_old {A} (l : list A) x n a : nth_error l n = Some a -> nth_error (l ++ [x]) n = Some a.
Proof.
  intros H. rewrite nth_error_app1; auto. apply nth_error_Some. congruence.
Qed.

Lemma mutated_idem r : mutated (mutated r) = mutated r.
Proof. reflexivity. Qed.

(* ------------------------------------------------------------------ *)
(* caches: runs and the contract of C15                                *)
(* ------------------------------------------------------------------ *)
Section Contract.
  Variable T : Type.
  Variable teqb : T -> T -> bool.
  Hypothesis teqb_eq : forall a b, teqb a b = true <-> a = b.

  Notation K := (key T).
  Notation keq := (keqb T teqb).

  Lemma keqb_eq (a b : K) : keq a b = true <-> a = b.
  Proof.
    unfold keqb. destruct a as [t1 e1], b as [t2 e2]. simpl.
    rewrite andb_true_iff, teqb_eq, veqb_eq. split.
    - intros [-> ->]. reflexivity.
    - intros H. inversion H. auto.
  Qed.

  (* the state a cache object is in after a sequence of operations *)
  Definition c_run (M : cache_impl T) (ops : list (op K nat)) : cst M :=
    fold_left (fun c o => fst (c_step M o c)) ops (c_empty M).

  Lemma c_run_snoc M ops o : c_run M (ops ++ [o]) = fst (c_step M o (c_run M ops)).
  Proof. unfold c_run. now rewrite fold_left_app. Qed.

  (* the contract (c15_contract): a lookup that hits answers what an unbounded,
     never-expiring map would hold — for every operation sequence, key and clock *)
  Definition contract (M : cache_impl T) : Prop :=
    forall ops k now v,
      snd (c_step M (OGet k now) (c_run M ops)) = RHit v -> stored keq k ops = Some v.

  Lemma lru_run cap ops : c_run (lru_cache T teqb cap) ops = final keq cap ops empty.
  Proof.
    unfold c_run. simpl. generalize (@empty K nat).
    induction ops as [|o r IH]; intros s; [reflexivity|].
    simpl fold_left. rewrite IH. now rewrite final_cons.
  Qed.

  (* DefaultInMemoryCache, every capacity (TTLs and clock readings are arguments of the operations) *)
  Lemma lru_contract cap : contract (lru_cache T teqb cap).
  Proof.
    intros ops k now v H. rewrite lru_run in H. simpl in H.
    destruct (cache_contract K nat keq keqb_eq cap ops k now) as [E|[v' [E S]]].
    - simpl in H. rewrite E in H. discriminate.
    - simpl in H. rewrite E in H. inversion H; subst. exact S.
  Qed.

  Lemma lfind_lremove_same k (s : list (K * nat)) : lfind keq k (lremove keq k s) = None.
  Proof.
    induction s as [|[k' v] r IH]; simpl; auto.
    destruct (keq k k') eqn:E; simpl; auto. now rewrite E.
  Qed.
  Lemma lfind_lremove_other k k' (s : list (K * nat)) : keq k k' = false -> lfind keq k (lremove keq k' s) = lfind keq k s.
  Proof.
    intros N. induction s as [|[k2 v] r IH]; simpl; auto.
    destruct (keq k' k2) eqn:E; simpl.
    - apply keqb_eq in E. subst k2. rewrite N. exact IH.
    - destruct (keq k k2); auto.
  Qed.

  (* a dict-backed cache holds exactly the abstract map *)
  Lemma dict_exact ops k : lfind keq k (c_run (dict_cache T teqb) ops) = stored keq k ops.
  Proof.
    induction ops as [|o ops IH] using rev_ind; [reflexivity|].
    rewrite c_run_snoc, stored_snoc. simpl.
    destruct o as [k' now|k' v ttl t1 t2|k'|]; simpl.
    - exact IH.
    - destruct (keq k k') eqn:E; [reflexivity|]. rewrite lfind_lremove_other; auto.
    - destruct (keq k k') eqn:E.
      + apply keqb_eq in E. subst. apply lfind_lremove_same.
      + rewrite lfind_lremove_other; auto.
    - reflexivity.
  Qed.

  Lemma dict_contract : contract (dict_cache T teqb).
  Proof.
    intros ops k now v H. rewrite <- dict_exact. simpl in H.
    destruct (lfind keq k (c_run (dict_cache T teqb) ops)); [now inversion H|discriminate].
  Qed.
End Contract.

(* ------------------------------------------------------------------ *)
(* the invariant and transparency                                      *)
(* ------------------------------------------------------------------ *)
Section Transparency.
  Variable relh : rel_query -> unit -> bool * unit.
  Variable T : Type.
  Variable tag : value -> T.
  Variable teqb : T -> T -> bool.
  Hypothesis teqb_eq : forall a b, teqb a b = true <-> a = b.
  Variable norm : value -> value.
  Variable oblig : bool -> raw -> value -> option (bool * option string).
  Variable M : cache_impl T.
  Hypothesis M_contract : contract T teqb M.
  Variable copying : bool.

  (* the policies and envs a history mentions *)
  Variable Ps Es : list value.

  Notation K := (key T).
  Notation keq := (keqb T teqb).
  Notation state := (state unit T M).
  Notation decide_raw p e := (fst (guard_decide unit relh p e tt)).
  Notation ctx_of e := (get_key "context" e).
  Notation evalc := (eval_cached unit relh T tag norm oblig M copying).
  Notation runc := (run_cached unit relh T tag norm oblig M copying).

  (* H1: distinct policies of the history have distinct tags (sha3 collision-free,
     json.dumps(sort_keys=True) injective up to key order, no two policies of the
     history equal up to key order) *)
  Definition tag_inj : Prop := forall p q, In p Ps -> In q Ps -> tag p = tag q -> p = q.
  (* H2: requests of the history that share a key are decided alike by every policy of the history *)
  Definition key_respects_decision : Prop :=
    forall p e1 e2, In p Ps -> In e1 Es -> In e2 Es -> norm e1 = norm e2 -> decide_raw p e1 = decide_raw p e2.
  (* H3: the obligation checkers do not read raw["reason"] ... *)
  Definition reason_blind : Prop := forall w r c, oblig w (mutated r) c = oblig w r c.
  (* ... and a refusal is a refusal for every guard and every request with that key *)
  Definition refusal_stable : Prop :=
    forall w w' r e e', In e Es -> In e' Es -> norm e = norm e' ->
      failed_verdict (oblig w r (ctx_of e)) = true -> failed_verdict (oblig w' r (ctx_of e')) = true.

  Hypothesis H_tag : tag_inj.
  Hypothesis H_krd : key_respects_decision.
  Hypothesis H_blind : reason_blind.
  Hypothesis H_stable : refusal_stable.

  (* what a heap cell computed for (policy p, env e) may hold: the raw decision, or —
     after an unmet obligation under that key — the same dict with reason overwritten *)
  Definition cell_ok (o : value * value) (x : raw) : Prop :=
    In (fst o) Ps /\ In (snd o) Es /\
    exists r, decide_raw (fst o) (snd o) = ERaw r /\
      (x = r \/
       (x = mutated r /\ r_decision r = "permit" /\
        exists w e', In e' Es /\ norm e' = norm (snd o) /\ failed_verdict (oblig w r (ctx_of e')) = true)).

  Definition Inv (s1 s2 : bool) (s : state) : Prop :=
    exists log orig,
      s_cache unit T M s = c_run T M log /\
      Forall2 cell_ok orig (s_heap unit T M s) /\
      (forall k l, stored keq k log = Some l ->
         exists p e, nth_error orig l = Some (p, e) /\ k = (tag p, norm e)) /\
      In (g_policy (s_g1 unit T M s)) Ps /\ In (g_policy (s_g2 unit T M s)) Ps /\
      g_strict (s_g1 unit T M s) = s1 /\ g_strict (s_g2 unit T M s) = s2.

  (* the operation only mentions policies of Ps and builds envs of Es *)
  Definition hop_ok (s1 s2 : bool) (o : hop) : Prop :=
    match o with
    | HEval w req => forall e, build_env (if w then s2 else s1) req None = Some e -> In e Es
    | HSetPolicy _ p => In p Ps
    | _ => True
    end.

  Lemma finish_same_fields r x ctx w :
    r_decision x = r_decision r -> r_obligations x = r_obligations r -> r_rule_id x = r_rule_id r ->
    r_policy_id x = r_policy_id r -> oblig w x ctx = oblig w r ctx ->
    (r_reason x = r_reason r \/ (String.eqb (r_decision r) "permit" = true /\ failed_verdict (oblig w r ctx) = true)) ->
    finish (oblig w) x ctx = finish (oblig w) r ctx.
  Proof.
    intros E1 E2 E3 E4 E5 E6. unfold finish. rewrite E1, E2, E3, E4, E5.
    destruct E6 as [E6|[P F]].
    - now rewrite E6.
    - rewrite P. destruct (oblig w r ctx) as [[[|] ch]|]; simpl in F; try discriminate. reflexivity.
  Qed.

  (* a cell of (p, e0) read by guard w for a request env with the same key: the Decision is
     the one computed from the unspoilt raw decision *)
  Lemma finish_cell p e0 x r0 env w :
    cell_ok (p, e0) x -> decide_raw p e0 = ERaw r0 -> In env Es -> norm env = norm e0 ->
    finish (oblig w) x (ctx_of env) = finish (oblig w) r0 (ctx_of env).
  Proof.
    intros [_ [He0 [r [D C]]]] D0 Henv Hn. simpl in *. rewrite D0 in D. inversion D; subst r. clear D.
    destruct C as [->|[-> [P [w' [e' [He' [Hn' F]]]]]]]; [reflexivity|].
    apply finish_same_fields; try reflexivity.
    - apply H_blind.
    - right. split; [rewrite P; reflexivity|].
      apply (H_stable w' w r0 e' env); auto. congruence.
  Qed.

  Lemma cell_after p e0 x env w :
    cell_ok (p, e0) x -> In env Es -> norm env = norm e0 ->
    String.eqb (r_decision x) "permit" && failed_verdict (oblig w x (ctx_of env)) = true ->
    cell_ok (p, e0) (mutated x).
  Proof.
    intros [Hp [He0 [r [D C]]]] Henv Hn F. apply andb_true_iff in F. destruct F as [P F].
    apply String.eqb_eq in P. simpl in *.
    split; [exact Hp|]. split; [exact He0|]. exists r. split; [exact D|]. right.
    destruct C as [->|[-> [P' [w' [e' [He' [Hn' F']]]]]]].
    - split; [reflexivity|]. split; [exact P|]. exists w, env. auto.
    - split; [reflexivity|]. split; [exact P'|]. exists w', e'. auto.
  Qed.

  Lemma finish_at_some w ctx h l x :
    nth_error h l = Some x ->
    finish_at oblig w ctx h l =
      Some (if String.eqb (r_decision x) "permit" && failed_verdict (oblig w x ctx)
            then heap_put h l (mutated x) else h, finish (oblig w) x ctx).
  Proof. intros E. unfold finish_at. now rewrite E. Qed.

  Lemma guard_eval_unfold w strict p req env :
    build_env strict req None = Some env ->
    guard_eval unit relh (oblig w) strict p req None tt =
      match guard_decide unit relh p env tt with
      | (ERaw r, st') => (GDecision (finish (oblig w) r (ctx_of env)), st')
      | (EErr e, st') => (GRaise e, st')
      | (EOod, st') => (GOod, st')
      end.
  Proof. intros E. unfold guard_eval. now rewrite E. Qed.

  (* one evaluation: the invariant is kept and the answer is the uncached engine's *)
  Lemma eval_step s1 s2 w req (s : state) :
    Inv s1 s2 s -> hop_ok s1 s2 (HEval w req) ->
    let g := guard_of unit T M w s in
    Inv s1 s2 (fst (evalc w req s)) /\
    s_g1 unit T M (fst (evalc w req s)) = s_g1 unit T M s /\
    s_g2 unit T M (fst (evalc w req s)) = s_g2 unit T M s /\
    snd (snd (evalc w req s)) = fst (guard_eval unit relh (oblig w) (g_strict g) (g_policy g) req None tt).
  Proof.
    intros I Hok g.
    destruct I as [log [orig [Ec [Hcells [Hst [Hp1 [Hp2 [Hs1 Hs2]]]]]]]].
    assert (Hg : In (g_policy g) Ps) by (unfold g, guard_of; destruct w; assumption).
    assert (Hgs : g_strict g = if w then s2 else s1) by (unfold g, guard_of; destruct w; assumption).
    unfold eval_cached. fold g.
    destruct (build_env (g_strict g) req None) as [env|] eqn:Eenv.
    2:{ simpl. repeat split; auto.
        - exists log, orig. repeat split; auto.
        - unfold guard_eval. now rewrite Eenv. }
    assert (Henv : In env Es) by (apply Hok; rewrite <- Hgs; exact Eenv).
    rewrite (guard_eval_unfold w _ _ _ _ Eenv).
    cbv zeta.
    set (k := (tag (g_policy g), norm env)).
    destruct (c_step M (OGet k _) (s_cache unit T M s)) as [c1 r] eqn:Eget.
    set (log1 := log ++ [OGet k (s_now unit T M s)]).
    assert (Ec1 : c1 = c_run T M log1).
    { unfold log1. rewrite c_run_snoc, <- Ec, Eget. reflexivity. }
    assert (Hst1 : forall k' l, stored keq k' log1 = Some l ->
                     exists p e, nth_error orig l = Some (p, e) /\ k' = (tag p, norm e)).
    { intros k' l. unfold log1. rewrite stored_snoc. apply Hst. }
    (* is it a hit on an existing cell? *)
    destruct (match r with
              | RHit l => match nth_error (s_heap unit T M s) l with Some x => Some (l, x) | None => None end
              | _ => None
              end) as [[l x]|] eqn:Efound.
    - (* hit *)
      destruct r as [|l'| |]; try discriminate.
      destruct (nth_error (s_heap unit T M s) l') as [x'|] eqn:Hl; [|discriminate].
      inversion Efound; subst l' x'. clear Efound.
      assert (Sk : stored keq k log = Some l).
      { apply (M_contract log k (s_now unit T M s)). rewrite <- Ec. exact (f_equal snd Eget). }
      destruct (Hst _ _ Sk) as [p [e0 [Ho Ek]]].
      unfold k in Ek. inversion Ek as [[Et En]]. clear Ek.
      assert (Hcell : cell_ok (p, e0) x) by (eapply Forall2_nth; eauto).
      assert (Hpp : In p Ps) by apply Hcell.
      assert (Epol : g_policy g = p) by (apply H_tag; auto).
      destruct Hcell as [Hc1 [Hc2 [r0 [D0 C0]]]]. simpl in Hc1, Hc2, D0.
      assert (Hcell : cell_ok (p, e0) x) by (split; [|split]; simpl; eauto).
      assert (Dn : decide_raw (g_policy g) env = ERaw r0).
      { rewrite Epol. rewrite (H_krd p env e0); auto. }
      destruct (guard_decide unit relh (g_policy g) env tt) as [res st'] eqn:Edec.
      simpl in Dn. subst res.
      set (h1 := if copying then s_heap unit T M s ++ [x] else s_heap unit T M s).
      set (l1 := if copying then List.length (s_heap unit T M s) else l).
      set (orig1 := if copying then orig ++ [(p, e0)] else orig).
      assert (E1 : (if copying then (s_heap unit T M s ++ [x], List.length (s_heap unit T M s))
                    else (s_heap unit T M s, l)) = (h1, l1)) by (unfold h1, l1; destruct copying; reflexivity).
      rewrite E1.
      assert (Hl1 : nth_error h1 l1 = Some x).
      { unfold h1, l1. destruct copying; [apply nth_error_snoc|exact Hl]. }
      assert (Ho1 : nth_error orig1 l1 = Some (p, e0)).
      { unfold orig1, l1. destruct copying; [|exact Ho].
        rewrite <- (Forall2_len _ _ _ Hcells). apply nth_error_snoc. }
      assert (Hcells1 : Forall2 cell_ok orig1 h1).
      { unfold orig1, h1. destruct copying; [apply Forall2_snoc; auto|exact Hcells]. }
      assert (Hst2 : forall k' l0, stored keq k' log1 = Some l0 ->
                       exists p' e', nth_error orig1 l0 = Some (p', e') /\ k' = (tag p', norm e')).
      { intros k' l0 S0. destruct (Hst1 _ _ S0) as [p' [e' [N0 K0]]]. exists p', e'. split; auto.
        unfold orig1. destruct copying; [apply nth_error_snoc_old|]; exact N0. }
      rewrite (finish_at_some w _ _ _ _ Hl1). simpl.
      repeat split; auto.
      + exists log1, orig1. simpl. repeat split; auto.
        destruct (String.eqb (r_decision x) "permit" && failed_verdict (oblig w x (ctx_of env))) eqn:F; [|exact Hcells1].
        apply (Forall2_put _ _ _ _ (p, e0)); auto. apply (cell_after p e0 x env w); auto.
      + f_equal. apply (finish_cell p e0 x r0 env w); auto.
    - (* miss *)
      clear Efound.
      rewrite (unit_tt (s_rel unit T M s)).
      destruct (guard_decide unit relh (g_policy g) env tt) as [res st'] eqn:Edec.
      destruct res as [x|e|].
      + set (l := List.length (s_heap unit T M s)).
        set (h1 := s_heap unit T M s ++ [x]).
        set (h2 := if copying then h1 ++ [x] else h1).
        set (lc := if copying then Datatypes.S l else l).
        set (orig2 := if copying then (orig ++ [(g_policy g, env)]) ++ [(g_policy g, env)] else orig ++ [(g_policy g, env)]).
        assert (E2 : (if copying then (h1 ++ [x], Datatypes.S l) else (h1, l)) = (h2, lc))
          by (unfold h2, lc; destruct copying; reflexivity).
        rewrite E2.
        assert (Hclean : cell_ok (g_policy g, env) x).
        { split; [exact Hg|]. split; [exact Henv|]. exists x. simpl. rewrite Edec. auto. }
        assert (Hlen : List.length orig = l) by (unfold l; apply (Forall2_len _ _ _ Hcells)).
        assert (Hcells2 : Forall2 cell_ok orig2 h2).
        { unfold orig2, h2, h1. destruct copying; repeat apply Forall2_snoc; auto. }
        assert (Hl2 : nth_error h2 l = Some x).
        { unfold h2, h1, l. destruct copying; [apply nth_error_snoc_old|]; apply nth_error_snoc. }
        assert (Ho2 : nth_error orig2 l = Some (g_policy g, env)).
        { unfold orig2. rewrite <- Hlen. destruct copying; [apply nth_error_snoc_old|]; apply nth_error_snoc. }
        assert (Hoc : nth_error orig2 lc = Some (g_policy g, env)).
        { unfold orig2, lc. rewrite <- Hlen. destruct copying; [|apply nth_error_snoc].
          replace (Datatypes.S (List.length orig)) with (List.length (orig ++ [(g_policy g, env)]))
            by (rewrite app_length; simpl; lia).
          apply nth_error_snoc. }
        set (oset := OSet k lc (g_ttl g) (s_now unit T M s) (s_now unit T M s)).
        set (log2 := log1 ++ [oset]).
        assert (Ec2 : fst (c_step M oset c1) = c_run T M log2).
        { unfold log2. rewrite c_run_snoc, <- Ec1. reflexivity. }
        assert (Hst3 : forall k' l0, stored keq k' log2 = Some l0 ->
                         exists p' e', nth_error orig2 l0 = Some (p', e') /\ k' = (tag p', norm e')).
        { intros k' l0. unfold log2, oset. rewrite stored_snoc.
          destruct (keq k' k) eqn:Ek.
          - intros S0. inversion S0; subst l0. apply (keqb_eq T teqb teqb_eq) in Ek. subst k'.
            exists (g_policy g), env. split; [exact Hoc|reflexivity].
          - intros S0. destruct (Hst1 _ _ S0) as [p' [e' [N0 K0]]]. exists p', e'. split; auto.
            unfold orig2. destruct copying; repeat apply nth_error_snoc_old; exact N0. }
        rewrite (finish_at_some w _ _ _ _ Hl2). simpl.
        repeat split; auto.
        exists log2, orig2. simpl. repeat split; auto.
        destruct (String.eqb (r_decision x) "permit" && failed_verdict (oblig w x (ctx_of env))) eqn:F; [|exact Hcells2].
        apply (Forall2_put _ _ _ _ (g_policy g, env)); auto. apply (cell_after (g_policy g) env x env w); auto.
      + simpl. repeat split; auto. exists log1, orig. simpl. repeat split; auto.
      + simpl. repeat split; auto. exists log1, orig. simpl. repeat split; auto.
  Qed.

  Lemma clear_step s1 s2 (s : state) : Inv s1 s2 s -> Inv s1 s2 (clear_cache unit T M s).
  Proof.
    intros [log [orig [Ec [Hcells [Hst [Hp1 [Hp2 [Hs1 Hs2]]]]]]]].
    exists (log ++ [OClear]), orig. unfold clear_cache. simpl. repeat split; auto.
    - rewrite c_run_snoc, <- Ec. reflexivity.
    - intros k l. rewrite stored_snoc. discriminate.
  Qed.

  Lemma set_policy_step s1 s2 w p (s : state) : Inv s1 s2 s -> In p Ps -> Inv s1 s2 (set_policy unit T M w p s).
  Proof.
    intros I Hp. unfold set_policy. apply clear_step.
    destruct I as [log [orig [Ec [Hcells [Hst [Hp1 [Hp2 [Hs1 Hs2]]]]]]]].
    exists log, orig. simpl. destruct w; simpl; repeat split; auto.
  Qed.

  Lemma tick_step s1 s2 dt (s : state) : Inv s1 s2 s -> Inv s1 s2 (tick unit T M dt s).
  Proof.
    intros [log [orig I]]. exists log, orig. exact I.
  Qed.

  Lemma init_inv g1 g2 : In (g_policy g1) Ps -> In (g_policy g2) Ps ->
    Inv (g_strict g1) (g_strict g2) (init unit T M g1 g2 tt).
  Proof.
    intros H1 H2. exists [], []. simpl. repeat split; auto. intros k l. discriminate.
  Qed.

  (* every history: invariant at the end, answers = the uncached engines' answers *)
  Lemma run_transparent s1 s2 h : forall (s : state),
    Inv s1 s2 s -> Forall (hop_ok s1 s2) h ->
    Inv s1 s2 (fst (runc h s)) /\
    map snd (snd (runc h s)) = run_ref unit relh oblig h (s_g1 unit T M s) (s_g2 unit T M s) tt.
  Proof.
    induction h as [|o h IH]; intros s I Hh; [split; [exact I|reflexivity]|].
    inversion Hh as [|? ? Ho Hr]; subst.
    destruct o as [w req|w p|w|dt]; simpl.
    - destruct (eval_step s1 s2 w req s I Ho) as [I1 [G1 [G2 Eo]]].
      destruct (evalc w req s) as [sa oa] eqn:Ev. simpl in I1, G1, G2, Eo.
      destruct (IH sa I1 Hr) as [I2 E2].
      destruct (runc h sa) as [sb os] eqn:Er. simpl in *.
      split; [exact I2|].
      unfold guard_of in Eo.
      destruct (guard_eval unit relh (oblig w) (g_strict (if w then s_g2 unit T M s else s_g1 unit T M s))
                  (g_policy (if w then s_g2 unit T M s else s_g1 unit T M s)) req None tt) as [o' st'] eqn:Eg.
      simpl in Eo. rewrite Eo, (unit_tt st'), E2, G1, G2. reflexivity.
    - assert (I1 := set_policy_step s1 s2 w p s I Ho).
      destruct (IH _ I1 Hr) as [I2 E2]. split; [exact I2|].
      rewrite E2. unfold set_policy, clear_cache. simpl. destruct w; reflexivity.
    - assert (I1 := clear_step s1 s2 s I).
      destruct (IH _ I1 Hr) as [I2 E2]. split; [exact I2|]. rewrite E2. reflexivity.
    - assert (I1 := tick_step s1 s2 dt s I).
      destruct (IH _ I1 Hr) as [I2 E2]. split; [exact I2|]. rewrite E2. reflexivity.
  Qed.

  (* what the invariant says about every lookup that hits *)
  Lemma inv_hit s1 s2 (s : state) k now l :
    Inv s1 s2 s -> snd (c_step M (OGet k now) (s_cache unit T M s)) = RHit l ->
    exists p e r x, k = (tag p, norm e) /\ In p Ps /\ In e Es /\ decide_raw p e = ERaw r /\
      nth_error (s_heap unit T M s) l = Some x /\
      (x = r \/ (x = mutated r /\ r_decision r = "permit" /\
                 exists w e', In e' Es /\ norm e' = norm e /\ failed_verdict (oblig w r (ctx_of e')) = true)).
  Proof.
    intros [log [orig [Ec [Hcells [Hst _]]]]] Hh.
    rewrite Ec in Hh. apply M_contract in Hh.
    destruct (Hst _ _ Hh) as [p [e [Ho Ek]]].
    assert (exists x, nth_error (s_heap unit T M s) l = Some x) as [x Hx].
    { destruct (nth_error (s_heap unit T M s) l) as [x|] eqn:E; [eauto|].
      apply nth_error_None in E. rewrite <- (Forall2_len _ _ _ Hcells) in E.
      apply nth_error_None in E. congruence. }
    destruct (Forall2_nth _ _ _ _ _ _ Hcells Ho Hx) as [C1 [C2 [r [D C]]]].
    exists p, e, r, x. simpl in *. repeat split; auto.
  Qed.
End Transparency.

(* ------------------------------------------------------------------ *)
(* statements over whole histories                                     *)
(* ------------------------------------------------------------------ *)
Definition policies_all (g1 g2 : gcfg) (h : list hop) : list value :=
  g_policy g1 :: g_policy g2 :: policies_of h.
Definition envs_all (g1 g2 : gcfg) (h : list hop) : list value :=
  envs_of (g_strict g1) (g_strict g2) h.

Lemma hops_ok Ps Es s1 s2 h :
  (forall p, In p (policies_of h) -> In p Ps) ->
  (forall e, In e (envs_of s1 s2 h) -> In e Es) ->
  Forall (hop_ok Ps Es s1 s2) h.
Proof.
  induction h as [|o h IH]; intros HP HE; constructor.
  - destruct o as [w req|w p|w|dt]; simpl; auto.
    + intros e Eb. apply HE. simpl. rewrite Eb. now left.
    + apply HP. simpl. now left.
  - apply IH.
    + intros p Hp. apply HP. destruct o; simpl; auto.
    + intros e He. apply HE. destruct o as [w req|w p|w|dt]; simpl; auto.
      destruct (build_env (if w then s2 else s1) req None); simpl; auto.
Qed.

Section Whole.
  Variable relh : rel_query -> unit -> bool * unit.
  Variable T : Type.
  Variable tag : value -> T.
  Variable teqb : T -> T -> bool.
  Hypothesis teqb_eq : forall a b, teqb a b = true <-> a = b.
  Variable norm : value -> value.
  Variable oblig : bool -> raw -> value -> option (bool * option string).
  Variable M : cache_impl T.
  Hypothesis M_contract : contract T teqb M.
  Variable copying : bool.
  Variables g1 g2 : gcfg.
  Variable h : list hop.

  Let Ps := policies_all g1 g2 h.
  Let Es := envs_all g1 g2 h.
  Hypothesis H_tag : tag_inj T tag Ps.
  Hypothesis H_krd : key_respects_decision relh norm Ps Es.
  Hypothesis H_blind : reason_blind oblig.
  Hypothesis H_stable : refusal_stable norm oblig Es.

  Lemma whole_run :
    Inv relh T tag teqb norm oblig M Ps Es (g_strict g1) (g_strict g2)
        (fst (run_cached unit relh T tag norm oblig M copying h (init unit T M g1 g2 tt))) /\
    map snd (snd (run_cached unit relh T tag norm oblig M copying h (init unit T M g1 g2 tt)))
    = run_ref unit relh oblig h g1 g2 tt.
  Proof.
    apply (run_transparent relh T tag teqb teqb_eq norm oblig M M_contract copying Ps Es
             H_tag H_krd H_blind H_stable (g_strict g1) (g_strict g2) h (init unit T M g1 g2 tt)).
    - apply init_inv; unfold Ps, policies_all; simpl; auto.
    - apply hops_ok.
      + intros p Hp. unfold Ps, policies_all. simpl. auto.
      + intros e He. exact He.
  Qed.

  (* transparency: the answers of the engines with the cache are the answers of engines without *)
  Theorem transparent :
    map snd (snd (run_cached unit relh T tag norm oblig M copying h (init unit T M g1 g2 tt)))
    = run_ref unit relh oblig h g1 g2 tt.
  Proof. exact (proj2 whole_run). Qed.

  (* the invariant: whatever a lookup can return after the history is the raw decision of the policy
     named by the key's tag on a request with the key's normal form (reason possibly overwritten after a
     refusal under that very key) *)
  Theorem invariant : forall k now l,
    let s := fst (run_cached unit relh T tag norm oblig M copying h (init unit T M g1 g2 tt)) in
    snd (c_step M (OGet k now) (s_cache unit T M s)) = RHit l ->
    exists p e r x, k = (tag p, norm e) /\ In p Ps /\ In e Es /\
      fst (guard_decide unit relh p e tt) = ERaw r /\
      nth_error (s_heap unit T M s) l = Some x /\
      (x = r \/ (x = mutated r /\ r_decision r = "permit" /\
                 exists w e', In e' Es /\ norm e' = norm e /\
                   failed_verdict (oblig w r (get_key "context" e')) = true)).
  Proof.
    intros k now l s. apply (inv_hit relh T tag teqb norm oblig M M_contract Ps Es (g_strict g1) (g_strict g2)).
    exact (proj1 whole_run).
  Qed.
End Whole.

(* ------------------------------------------------------------------ *)
(* discharging the side conditions                                     *)
(* ------------------------------------------------------------------ *)
Lemma builtin_blind : reason_blind builtin_both.
Proof. intros w r c. reflexivity. Qed.

Lemma ctx_same_key e e' : canon e = canon e' -> canon (get_key "context" e) = canon (get_key "context" e').
Proof. intros H. rewrite <- !get_key_canon. now rewrite H. Qed.

Lemma builtin_stable_canon Es : refusal_stable canon builtin_both Es.
Proof.
  intros w w' r e e' _ _ Hn. unfold builtin_both, builtin_oblig.
  now rewrite (check_canon (r_decision r) (r_obligations r) _ _ (ctx_same_key e e' Hn)).
Qed.

Lemma builtin_stable_exact Es : refusal_stable (fun v => v) builtin_both Es.
Proof. intros w w' r e e' _ _ Hn. simpl in Hn. subst e'. auto. Qed.

(* key_respects_decision, PROVED for key-safe requests (CacheKeyProofs.decide_canon) *)
Lemma krd_key_safe relh Ps Es : (forall e, In e Es -> key_safe e = true) -> key_respects_decision relh canon Ps Es.
Proof.
  intros Hs p e1 e2 _ H1 H2 Hn. f_equal. apply decide_canon_key_safe; auto.
Qed.

(* ... and trivially when the key is the env as given *)
Lemma krd_exact relh Ps Es : key_respects_decision relh (fun v => v) Ps Es.
Proof. intros p e1 e2 _ _ _ Hn. simpl in Hn. now subst. Qed.

Section Instances.
  Variable relh : rel_query -> unit -> bool * unit.
  Variable T : Type.
  Variable tag : value -> T.
  Variable teqb : T -> T -> bool.
  Hypothesis teqb_eq : forall a b, teqb a b = true <-> a = b.
  Variable M : cache_impl T.
  Hypothesis M_contract : contract T teqb M.

  (* the code as it is (sort_keys), built-in checker, key-safe requests *)
  Theorem transparent_key_safe copying g1 g2 h :
    tag_inj T tag (policies_all g1 g2 h) ->
    (forall e, In e (envs_all g1 g2 h) -> key_safe e = true) ->
    map snd (snd (run_cached unit relh T tag canon builtin_both M copying h (init unit T M g1 g2 tt)))
    = run_ref unit relh builtin_both h g1 g2 tt.
  Proof.
    intros Ht Hs. apply (transparent relh T tag teqb teqb_eq canon builtin_both M M_contract copying g1 g2 h Ht).
    - apply krd_key_safe. exact Hs.
    - apply builtin_blind.
    - apply builtin_stable_canon.
  Qed.

  (* an engine keyed on the env as given: no condition on the requests at all *)
  Theorem transparent_exact_key copying g1 g2 h :
    tag_inj T tag (policies_all g1 g2 h) ->
    map snd (snd (run_cached unit relh T tag (fun v => v) builtin_both M copying h (init unit T M g1 g2 tt)))
    = run_ref unit relh builtin_both h g1 g2 tt.
  Proof.
    intros Ht. apply (transparent relh T tag teqb teqb_eq (fun v => v) builtin_both M M_contract copying g1 g2 h Ht).
    - apply krd_exact.
    - apply builtin_blind.
    - apply builtin_stable_exact.
  Qed.
End Instances.


(* ------------------------------------------------------------------ *)
(* instances named by props/C08.v                                      *)
(* ------------------------------------------------------------------ *)
Lemma builtin_conditions : reason_blind builtin_both /\ forall Es, refusal_stable canon builtin_both Es.
Proof. exact (conj builtin_blind builtin_stable_canon). Qed.

Lemma tag_of_sorted_text (T : Type) (hash : value -> T) (Ps : list value) :
  (forall a b, hash a = hash b -> a = b) ->
  (forall p q, In p Ps -> In q Ps -> canon p = canon q -> p = q) ->
  tag_inj T (fun p => hash (canon p)) Ps.
Proof. intros Hh Hc p q Hp Hq E. apply Hc; auto. Qed.

Lemma lru_instance (relh : rel_query -> unit -> bool * unit) (T : Type) (tag : value -> T) (teqb : T -> T -> bool) :
  (forall a b, teqb a b = true <-> a = b) ->
  forall (cap : Z) (g1 g2 : gcfg) (h : list hop),
  tag_inj T tag (policies_all g1 g2 h) ->
  (forall e, In e (envs_all g1 g2 h) -> key_safe e = true) ->
  map snd (snd (run_cached unit relh T tag canon builtin_both (lru_cache T teqb cap) false h
                  (init unit T (lru_cache T teqb cap) g1 g2 tt)))
  = run_ref unit relh builtin_both h g1 g2 tt.
Proof.
  intros E cap g1 g2 h.
  exact (transparent_key_safe relh T tag teqb E (lru_cache T teqb cap) (lru_contract T teqb E cap) false g1 g2 h).
Qed.

Lemma dict_instance (relh : rel_query -> unit -> bool * unit) (T : Type) (tag : value -> T) (teqb : T -> T -> bool) :
  (forall a b, teqb a b = true <-> a = b) ->
  forall (copying : bool) (g1 g2 : gcfg) (h : list hop),
  tag_inj T tag (policies_all g1 g2 h) ->
  (forall e, In e (envs_all g1 g2 h) -> key_safe e = true) ->
  map snd (snd (run_cached unit relh T tag canon builtin_both (dict_cache T teqb) copying h
                  (init unit T (dict_cache T teqb) g1 g2 tt)))
  = run_ref unit relh builtin_both h g1 g2 tt.
Proof.
  intros E copying g1 g2 h.
  exact (transparent_key_safe relh T tag teqb E (dict_cache T teqb) (dict_contract T teqb E) copying g1 g2 h).
Qed.

Lemma one_guard_instance (relh : rel_query -> unit -> bool * unit) (T : Type) (tag : value -> T) (teqb : T -> T -> bool) :
  (forall a b, teqb a b = true <-> a = b) ->
  forall (M : cache_impl T), contract T teqb M ->
  forall (copying : bool) (g : gcfg) (h : list hop),
  tag_inj T tag (policies_all g g h) ->
  (forall e, In e (envs_all g g h) -> key_safe e = true) ->
  map snd (snd (run_cached unit relh T tag canon builtin_both M copying h (init unit T M g g tt)))
  = run_ref unit relh builtin_both h g g tt.
Proof. intros E M C copying g h. exact (transparent_key_safe relh T tag teqb E M C copying g g h). Qed.

(* ------------------------------------------------------------------ *)
(* a hit re-judges the obligations                                     *)
(* ------------------------------------------------------------------ *)
Lemma eval_hit S relh T tag norm oblig (M : cache_impl T) copying w req (s : state S T M) env c1 l x :
  let g := guard_of S T M w s in
  build_env (g_strict g) req None = Some env ->
  c_step M (OGet (tag (g_policy g), norm env) (s_now S T M s)) (s_cache S T M s) = (c1, RHit l) ->
  nth_error (s_heap S T M s) l = Some x ->
  snd (eval_cached S relh T tag norm oblig M copying w req s)
  = (true, GDecision (finish (oblig w) x (get_key "context" env))).
Proof.
  intros g Eb Eg Hl. unfold eval_cached. fold g. rewrite Eb. cbv zeta. rewrite Eg, Hl.
  destruct copying.
  - rewrite (finish_at_some oblig w _ _ _ x (nth_error_snoc _ _)). reflexivity.
  - rewrite (finish_at_some oblig w _ _ _ x Hl). reflexivity.
Qed.

Lemma finish_refused oblig r ctx ch :
  r_decision r = "permit" -> oblig r ctx = Some (false, ch) ->
  finish oblig r ctx =
  {| d_allowed := false; d_effect := "deny"; d_obligations := r_obligations r; d_challenge := ch;
     d_rule_id := r_rule_id r; d_policy_id := r_policy_id r; d_reason := "obligation_failed" |}.
Proof. intros P O. unfold finish. rewrite P, O. reflexivity. Qed.

(* ------------------------------------------------------------------ *)
(* near-duplicates have different keys                                 *)
(* ------------------------------------------------------------------ *)
Definition get_path (path : list string) (e : value) : value := fold_left (fun v k => get_key k v) path e.

Lemma key_path path : forall e1 e2, canon e1 = canon e2 -> canon (get_path path e1) = canon (get_path path e2).
Proof.
  induction path as [|k r IH]; intros e1 e2 H; [exact H|].
  simpl. apply IH. rewrite <- !get_key_canon. now rewrite H.
Qed.

(* two requests with one key agree, at every path, on every value in which no object has two keys:
   scalars with their JSON type, lists of scalars with their order *)
Lemma key_separates path e1 e2 :
  canon e1 = canon e2 -> order_free (get_path path e1) = true -> get_path path e1 = get_path path e2.
Proof. intros H O. apply order_free_same_key; auto. now apply key_path. Qed.

Lemma build_env_flag strict req e : build_env strict req None = Some e -> has_key "__strict_types__" e = strict.
Proof.
  unfold build_env.
  destruct (match py_or (get_key "roles" (get_key "subject" req)) (VList []) with VList l => Some (VList l) | _ => None end); [|discriminate].
  destruct (obj_or_empty (get_key "attrs" (get_key "subject" req))); [|discriminate].
  destruct (obj_or_empty (get_key "attrs" (get_key "resource" req))); [|discriminate].
  destruct (obj_or_empty (get_key "context" req)); [|discriminate].
  intros H. inversion H. destruct strict; reflexivity.
Qed.

Lemma strict_flag_in_key req e1 e2 :
  build_env true req None = Some e1 -> build_env false req None = Some e2 -> canon e1 <> canon e2.
Proof.
  intros H1 H2 E. apply build_env_flag in H1. apply build_env_flag in H2.
  rewrite <- has_key_canon in H1. rewrite <- has_key_canon in H2. rewrite E in H1. congruence.
Qed.

(* ------------------------------------------------------------------ *)
(* concrete instance: what harness/c08.py runs (tags = key-sorted policy) *)
(* ------------------------------------------------------------------ *)
Definition no_rel (_ : rel_query) (_ : unit) : bool * unit := (false, tt).
Definition vs (s : string) : value := VStr s.
Definition vi (z : Z) : value := VNum (NInt z).

Definition mk_req (roles : list value) (rattrs ctx : list (string * value)) : value :=
  VObj [("subject", VObj [("id", vs "u1"); ("roles", VList roles); ("attrs", VObj [])]);
        ("action", vs "read");
        ("resource", VObj [("type", vs "doc"); ("id", vs "7"); ("attrs", VObj rattrs)]);
        ("context", VObj ctx)].

Definition meta_ab : value := VObj [("a", vi 1); ("b", vi 2)].
Definition meta_ba : value := VObj [("b", vi 2); ("a", vi 1)].

(* permit read on doc whose attribute meta "is" {"a":1,"b":2} (lax target matching compares str()) *)
Definition pol_meta : value :=
  VObj [("algorithm", vs "deny-overrides");
        ("rules", VList [VObj [("id", vs "m1"); ("effect", vs "permit"); ("actions", VList [vs "read"]);
                               ("resource", VObj [("type", vs "doc"); ("attrs", VObj [("meta", meta_ab)])])]])].
(* permit read, obligation require_mfa *)
Definition pol_mfa : value :=
  VObj [("algorithm", vs "deny-overrides");
        ("rules", VList [VObj [("id", vs "o1"); ("effect", vs "permit"); ("actions", VList [vs "read"]);
                               ("resource", VObj [("type", vs "doc")]);
                               ("obligations", VList [VObj [("type", vs "require_mfa")]])]])].
(* permit when the attribute n is the number 1 (==: True and 1.0 too), deny-overrides *)
Definition pol_num : value :=
  VObj [("algorithm", vs "deny-overrides");
        ("rules", VList [VObj [("id", vs "n1"); ("effect", vs "permit"); ("actions", VList [vs "read"]);
                               ("resource", VObj [("type", vs "doc")]);
                               ("condition", VObj [("==", VList [VObj [("attr", vs "resource.attrs.n")]; vi 1])])]])].

Definition gc (strict : bool) (p : value) (ttl : option Z) : gcfg := {| g_strict := strict; g_policy := p; g_ttl := ttl |}.

Definition run_faithful (M : cache_impl value) (copying : bool) (g1 g2 : gcfg) (h : list hop) : list (bool * gres) :=
  snd (run_cached unit no_rel value canon canon builtin_both M copying h (init unit value M g1 g2 tt)).
Definition run_uncached (g1 g2 : gcfg) (h : list hop) : list gres := run_ref unit no_rel builtin_both h g1 g2 tt.

(* F16: same key, different str(): the second evaluation is a hit carrying the first one's permit *)
Definition f16_history : list hop :=
  [HEval false (mk_req [vs "a"] [("meta", meta_ab)] []); HEval false (mk_req [vs "a"] [("meta", meta_ba)] [])].

Lemma refuted_key_order :
  exists g1 g2 h,
    tag_inj value canon (policies_all g1 g2 h) /\
    map snd (run_faithful (lru_cache value veqb 64) false g1 g2 h) <> run_uncached g1 g2 h.
Proof.
  exists (gc false pol_meta (Some 300%Z)), (gc false pol_meta (Some 300%Z)), f16_history. split.
  - intros p q Hp Hq _. simpl in Hp, Hq.
    destruct Hp as [<-|[<-|[]]]; destruct Hq as [<-|[<-|[]]]; reflexivity.
  - vm_compute. intros H. discriminate H.
Qed.

(* the witness is outside the proved class, as it must be *)
Lemma f16_not_key_safe : exists e, In e (envs_all (gc false pol_meta None) (gc false pol_meta None) f16_history) /\ key_safe e = false.
Proof. eexists. split; [left; reflexivity|]. vm_compute. reflexivity. Qed.

(* with the key taken on the env as given the same history is transparent *)
Lemma f16_history_exact_key :
  map snd (snd (run_cached unit no_rel value canon (fun v => v) builtin_both (lru_cache value veqb 64) false f16_history
                  (init unit value (lru_cache value veqb 64) (gc false pol_meta (Some 300%Z)) (gc false pol_meta (Some 300%Z)) tt)))
  = run_uncached (gc false pol_meta (Some 300%Z)) (gc false pol_meta (Some 300%Z)) f16_history.
Proof. vm_compute. reflexivity. Qed.

(* OUTSIDE the statement's quantifier: a second guard with ANOTHER obligation checker on a cache that
   stores references.  Guard 1 (built-in checker) refuses and writes reason = "obligation_failed" into the
   cached dict; guard 2 (a checker that accepts) is then served that dict. *)
Definition accept_all (_ : raw) (_ : value) : option (bool * option string) := Some (true, None).
Definition two_checkers (w : bool) := if w then accept_all else builtin_oblig.
Definition leak_history : list hop := [HEval false (mk_req [vs "a"] [] []); HEval true (mk_req [vs "a"] [] [])].
Definition run_two_checkers (copying : bool) : list (bool * gres) :=
  snd (run_cached unit no_rel value canon canon two_checkers (dict_cache value veqb) copying leak_history
         (init unit value (dict_cache value veqb) (gc false pol_mfa None) (gc false pol_mfa None) tt)).

Lemma other_checker_leaks :
  map snd (run_two_checkers false)
    <> run_ref unit no_rel two_checkers leak_history (gc false pol_mfa None) (gc false pol_mfa None) tt
  /\ map snd (run_two_checkers true)
    = run_ref unit no_rel two_checkers leak_history (gc false pol_mfa None) (gc false pol_mfa None) tt.
Proof. split; [vm_compute; intros H; discriminate H|vm_compute; reflexivity]. Qed.

(* decidable-equality instance used by the runner *)
Lemma veqb_iff : forall a b : value, veqb a b = true <-> a = b.
Proof. exact veqb_eq. Qed.
