(* RebacProofs.v — specification (an inductive least fixpoint that does not
   mention the search) and proofs about the Rebac model (property C12). *)
From Coq Require Import List Bool String Ascii Arith ZArith Lia.
From Rbacx Require Import Value Rebac.
Import ListNotations.
Local Open Scope nat_scope.

(* ===================================================================== *)
(* Specification                                                          *)
(* ===================================================================== *)
(* NOTE (what the code does, and what [derivable] therefore says): check()
   tests the direct tuples of EVERY node it visits, whether or not the rewrite
   rule of that relation mentions This(); This() itself adds nothing.  So "a
   direct tuple (subject, relation, object) whose caveat holds" derives the node
   regardless of the rule, and a relation without rule is decided by its direct
   tuples alone. *)
Section Spec.
  Variable cfg : config.

  (* a tuple counts if it has no caveat, or its caveat is registered and its
     predicate returns a true value (not absent, not false, not raising) *)
  Definition caveat_ok (c : option string) : Prop :=
    c = None \/ exists name, c = Some name /\ alookup name (c_reg cfg) = Some (Some true).

  Definition Direct (n : node) : Prop :=
    exists t, In t (c_store cfg) /\ n = (t_subj t, t_rel t, t_res t) /\ caveat_ok (t_cav t).

  (* one rewrite step out of expression e for subject s on object obj *)
  Inductive Rewrite (s obj : string) : expr -> node -> Prop :=
  | rw_computed : forall r, Rewrite s obj (Computed r) (s, r, obj)
  | rw_ttu : forall ts cu t,
      In t (c_store cfg) -> t_rel t = ts -> t_res t = obj ->
      has_colon (t_subj t) = true ->            (* the edge's subject is an object reference *)
      caveat_ok (t_cav t) ->
      Rewrite s obj (TTU ts cu) (s, cu, t_subj t)
  | rw_union : forall l e n, In e l -> Rewrite s obj e n -> Rewrite s obj (Union l) n.

  Definition Step (n n' : node) : Prop :=
    let '(s, rel, obj) := n in
    exists e, lookup_expr (c_rules cfg) (ref_type obj) rel = Some e /\ Rewrite s obj e n'.

  (* derivable d n: n is established by exactly d rewrite steps followed by a direct tuple *)
  Inductive derivable : nat -> node -> Prop :=
  | der_direct : forall n, Direct n -> derivable 0 n
  | der_step : forall d n n', Step n n' -> derivable d n' -> derivable (S d) n.

  Definition derivable_within (D : Z) (n : node) : Prop :=
    exists d, (Z.of_nat d <= D)%Z /\ derivable d n.
End Spec.

(* ===================================================================== *)
(* Basic facts                                                            *)
(* ===================================================================== *)
Lemma node_eqb_eq a b : node_eqb a b = true <-> a = b.
Proof.
  destruct a as [[s1 r1] o1], b as [[s2 r2] o2]. unfold node_eqb.
  rewrite !andb_true_iff, !String.eqb_eq. split.
  - intros [[-> ->] ->]. reflexivity.
  - intros H. inversion H. auto.
Qed.
Lemma node_eqb_refl a : node_eqb a a = true.
Proof. apply node_eqb_eq. reflexivity. Qed.
Lemma node_eqb_neq a b : node_eqb a b = false <-> a <> b.
Proof. rewrite <- node_eqb_eq. destruct (node_eqb a b); split; congruence. Qed.

Lemma nmem_In n l : nmem n l = true <-> In n l.
Proof.
  unfold nmem. rewrite existsb_exists. split.
  - intros [y [Hy He]]. apply node_eqb_eq in He. subst. assumption.
  - intros H. exists n. split; [assumption|apply node_eqb_refl].
Qed.
Lemma nmem_nIn n l : nmem n l = false <-> ~ In n l.
Proof. rewrite <- nmem_In. destruct (nmem n l); split; congruence. Qed.

Lemma in_dfr st rel res t :
  In t (direct_for_resource st rel res) <-> In t st /\ t_res t = res /\ t_rel t = rel.
Proof.
  unfold direct_for_resource. rewrite filter_In, andb_true_iff, !String.eqb_eq. tauto.
Qed.

(* nested induction principle for expressions *)
Section ExprInd.
  Variable P : expr -> Prop.
  Hypothesis HThis : P This.
  Hypothesis HComp : forall r, P (Computed r).
  Hypothesis HTTU : forall ts cu, P (TTU ts cu).
  Hypothesis HUnion : forall l, Forall P l -> P (Union l).
  Hypothesis HUnk : P Unknown.
  Fixpoint expr_ind' (e : expr) : P e :=
    match e with
    | This => HThis
    | Computed r => HComp r
    | TTU ts cu => HTTU ts cu
    | Union l => HUnion l ((fix go (l : list expr) : Forall P l :=
                              match l with
                              | [] => Forall_nil P
                              | x :: r => Forall_cons x (expr_ind' x) (go r)
                              end) l)
    | Unknown => HUnk
    end.
End ExprInd.

(* ---------------- caveats ---------------- *)
Lemma caveat_holds_true reg name :
  caveat_holds reg name = true <-> alookup name reg = Some (Some true).
Proof.
  unfold caveat_holds. destruct (alookup name reg) as [[[|]|]|]; split; congruence.
Qed.

Definition caveat_okb (reg : registry) (c : option string) : bool :=
  match c with None => true | Some name => caveat_holds reg name end.

Lemma caveat_okb_iff cfg c : caveat_okb (c_reg cfg) c = true <-> caveat_ok cfg c.
Proof.
  unfold caveat_okb, caveat_ok. destruct c as [name|].
  - rewrite caveat_holds_true. split.
    + intros H. right. exists name. auto.
    + intros [H|[nm [H1 H2]]]; [discriminate|]. inversion H1; subst. assumption.
  - split; auto.
Qed.

(* ---------------- _direct_allowed = Direct ---------------- *)
Lemma direct_scan_iff reg s ts :
  direct_scan reg s ts = true <->
  exists t, In t ts /\ t_subj t = s /\ caveat_okb reg (t_cav t) = true.
Proof.
  induction ts as [|t r IH]; simpl.
  - split; [discriminate|intros [t [[] _]]].
  - destruct (String.eqb (t_subj t) s) eqn:E; simpl.
    + apply String.eqb_eq in E.
      destruct (t_cav t) as [c|] eqn:Hc.
      * assert (Hh : caveat_holds reg c = true \/ (caveat_holds reg c = false /\
                     match alookup c reg with Some (Some true) => False | _ => True end)).
        { unfold caveat_holds. destruct (alookup c reg) as [[[|]|]|]; auto. }
        destruct Hh as [Hh|[Hh Hm]].
        -- assert (Hl : alookup c reg = Some (Some true)) by (apply caveat_holds_true; exact Hh).
           rewrite Hl. split; [intros _|reflexivity].
           exists t. repeat split; auto. unfold caveat_okb. rewrite Hc. exact Hh.
        -- assert (Hgo : match alookup c reg with
                         | Some (Some b) => if b then true else direct_scan reg s r
                         | _ => direct_scan reg s r end = direct_scan reg s r).
           { destruct (alookup c reg) as [[[|]|]|]; try reflexivity. contradiction. }
           rewrite Hgo, IH. split.
           ++ intros [t' [Hin Ht']]. exists t'. split; [now right|exact Ht'].
           ++ intros [t' [[<-|Hin] [Hs Hk]]].
              ** unfold caveat_okb in Hk. rewrite Hc in Hk. congruence.
              ** exists t'. auto.
      * split; [intros _|reflexivity]. exists t. repeat split; auto.
        unfold caveat_okb. rewrite Hc. reflexivity.
    + rewrite IH. split.
      * intros [t' [Hin Ht']]. exists t'. split; [now right|exact Ht'].
      * intros [t' [[<-|Hin] [Hs Hk]]].
        -- apply String.eqb_neq in E. contradiction.
        -- exists t'. auto.
Qed.

Lemma direct_allowed_iff cfg n : direct_allowed cfg n = true <-> Direct cfg n.
Proof.
  destruct n as [[s rel] obj]. unfold direct_allowed, Direct.
  rewrite direct_scan_iff. split.
  - intros [t [Hin [Hs Hk]]]. apply in_dfr in Hin. destruct Hin as [Hin [Hres Hrel]].
    exists t. split; [assumption|]. split; [subst; reflexivity|]. apply caveat_okb_iff. assumption.
  - intros [t [Hin [Heq Hk]]]. inversion Heq; subst. exists t.
    split; [apply in_dfr; auto|]. split; [reflexivity|]. apply caveat_okb_iff. assumption.
Qed.

(* ---------------- _expand = Rewrite ---------------- *)
Lemma expand_iff cfg e : forall s obj n,
  In n (expand (c_store cfg) (c_reg cfg) e s obj) <-> Rewrite cfg s obj e n.
Proof.
  induction e using expr_ind'; intros s obj n; simpl.
  - split; [intros []|intros H; inversion H].
  - split.
    + intros [<-|[]]. constructor.
    + intros H; inversion H; subst. now left.
  - rewrite in_flat_map. split.
    + intros [t [Hin Hn]]. apply in_dfr in Hin. destruct Hin as [Hin [Hres Hrel]].
      destruct (has_colon (t_subj t)) eqn:Hc; simpl in Hn; [|destruct Hn].
      assert (Hk : caveat_okb (c_reg cfg) (t_cav t) = true /\ n = (s, cu, t_subj t)).
      { unfold caveat_okb. destruct (t_cav t) as [c|].
        - destruct (caveat_holds (c_reg cfg) c); [|destruct Hn].
          destruct Hn as [<-|[]]. auto.
        - destruct Hn as [<-|[]]. auto. }
      destruct Hk as [Hk ->]. apply rw_ttu; auto. apply caveat_okb_iff. assumption.
    + intros H; inversion H as [|ts' cu' t Hin Hrel Hres Hc Hk|]; subst.
      exists t. split; [apply in_dfr; auto|].
      rewrite Hc. simpl.
      apply caveat_okb_iff in Hk. unfold caveat_okb in Hk.
      destruct (t_cav t) as [c|]; [rewrite Hk|]; now left.
  - rewrite in_flat_map. split.
    + intros [e [Hin Hn]]. rewrite Forall_forall in H. apply (H e Hin) in Hn.
      eapply rw_union; eauto.
    + intros Hr; inversion Hr; subst. exists e. split; [assumption|].
      rewrite Forall_forall in H. apply (H e); assumption.
  - split; [intros []|intros H; inversion H].
Qed.

Definition succs (cfg : config) (n : node) : list node :=
  let '(s, rel, obj) := n in
  match lookup_expr (c_rules cfg) (ref_type obj) rel with
  | None => []
  | Some e => expand (c_store cfg) (c_reg cfg) e s obj
  end.

Lemma succs_iff cfg n n' : In n' (succs cfg n) <-> Step cfg n n'.
Proof.
  destruct n as [[s rel] obj]. unfold succs, Step.
  destruct (lookup_expr (c_rules cfg) (ref_type obj) rel) as [e|].
  - rewrite expand_iff. split.
    + intros H. exists e. auto.
    + intros [e' [He Hr]]. inversion He; subst. assumption.
  - split; [intros []|intros [e [He _]]; discriminate].
Qed.

(* ---------------- drop_seen ---------------- *)
Lemma drop_seen_incl q seen x : In x (drop_seen q seen) -> In x q.
Proof.
  induction q as [|[n d] q IH]; simpl; [auto|].
  destruct (nmem n seen); [intros H; right; auto|auto].
Qed.
Lemma drop_seen_head q seen n d r : drop_seen q seen = (n, d) :: r -> nmem n seen = false.
Proof.
  induction q as [|[n0 d0] q IH]; simpl; [discriminate|].
  destruct (nmem n0 seen) eqn:E; [assumption|]. intros H; inversion H; subst. assumption.
Qed.
Lemma drop_seen_keeps q seen n d : In (n, d) q -> ~ In n seen -> In (n, d) (drop_seen q seen).
Proof.
  induction q as [|[n0 d0] q IH]; simpl; [auto|]. intros Hin Hns.
  destruct (nmem n0 seen) eqn:E; [|exact Hin].
  destruct Hin as [Heq|Hin]; [|auto]. inversion Heq; subst. apply nmem_In in E. contradiction.
Qed.

(* one iteration of the loop, in uniform shape *)
Lemma bfs_step cfg hit fuel q seen v clk :
  bfs cfg hit (S fuel) q seen v clk =
  match drop_seen q seen with
  | [] => Some (OEnd, v)
  | (n, d) :: q' =>
      if (Z.of_nat (S v) >? c_max_nodes cfg)%Z then Some (ONodes, S v)
      else if (Z.of_nat d >? c_max_depth cfg)%Z then bfs cfg hit fuel q' (n :: seen) (S v) clk
      else if hit clk then Some (ODeadline, S v)
      else if direct_allowed cfg n then Some (OTrue, S v)
      else bfs cfg hit fuel (q' ++ map (fun n' => (n', S d)) (succs cfg n)) (n :: seen) (S v) (S clk)
  end.
Proof.
  cbn [bfs]. destruct (drop_seen q seen) as [|[[[s rel] obj] d] q']; [reflexivity|]. unfold succs.
  destruct (lookup_expr (c_rules cfg) (ref_type obj) rel); [reflexivity|].
  simpl map. rewrite app_nil_r. reflexivity.
Qed.

(* the specification read through the executable [direct_allowed]/[succs] *)
Inductive derivB (cfg : config) : nat -> node -> Prop :=
| derB_direct : forall n, direct_allowed cfg n = true -> derivB cfg 0 n
| derB_step : forall d n n', In n' (succs cfg n) -> derivB cfg d n' -> derivB cfg (S d) n.

Lemma derivB_iff cfg d n : derivB cfg d n <-> derivable cfg d n.
Proof.
  split; intros H; induction H.
  - constructor. apply direct_allowed_iff. assumption.
  - econstructor; [apply succs_iff; eassumption|assumption].
  - constructor. apply direct_allowed_iff. assumption.
  - econstructor; [apply succs_iff; eassumption|assumption].
Qed.

(* ===================================================================== *)
(* Soundness: whatever max_nodes and the deadline oracle are              *)
(* ===================================================================== *)
Section Search.
  Variable cfg : config.
  Variable hit : nat -> bool.
  Variable root : node.
  Let md := c_max_depth cfg.

  (* reach d n: a rewrite path of length d from the root to n *)
  Inductive reach : nat -> node -> Prop :=
  | reach0 : reach 0 root
  | reachS : forall d n n', reach d n -> In n' (succs cfg n) -> reach (S d) n'.

  Lemma reach_derivB d n : reach d n -> forall e, derivB cfg e n -> derivB cfg (d + e) root.
  Proof.
    induction 1 as [|d n n' Hr IH Hs]; intros e He; [exact He|].
    replace (S d + e) with (d + S e) by lia. apply IH. econstructor; eassumption.
  Qed.

  Lemma bfs_sound fuel : forall q seen v clk v',
    (forall n d, In (n, d) q -> reach d n) ->
    bfs cfg hit fuel q seen v clk = Some (OTrue, v') ->
    exists d, (Z.of_nat d <= md)%Z /\ derivB cfg d root.
  Proof.
    induction fuel as [|fuel IH]; intros q seen v clk v' Hq H; [discriminate|].
    rewrite bfs_step in H.
    destruct (drop_seen q seen) as [|[n d] q0] eqn:Hq0; [discriminate|].
    assert (Hq0' : forall n0 d0, In (n0, d0) ((n, d) :: q0) -> reach d0 n0).
    { intros n0 d0 Hin. apply Hq. eapply drop_seen_incl. rewrite Hq0. exact Hin. }
    assert (Hq' : forall n0 d0, In (n0, d0) q0 -> reach d0 n0) by (intros; apply Hq0'; now right).
    destruct (Z.of_nat (S v) >? c_max_nodes cfg)%Z; [discriminate|].
    destruct (Z.of_nat d >? c_max_depth cfg)%Z eqn:Hd; [eapply IH; eauto|].
    destruct (hit clk); [discriminate|].
    destruct (direct_allowed cfg n) eqn:Hdir.
    - exists d. split; [unfold md; lia|].
      replace d with (d + 0) by lia. eapply reach_derivB; [apply Hq0'; now left|].
      constructor. assumption.
    - eapply IH; [|exact H]. intros n0 d0 Hin. apply in_app_or in Hin. destruct Hin as [Hin|Hin]; [auto|].
      apply in_map_iff in Hin. destruct Hin as [x [Hx Hin]]. inversion Hx; subst.
      econstructor; [apply Hq0'; now left|assumption].
  Qed.

  (* =================================================================== *)
  (* Completeness: the BFS invariant                                      *)
  (* =================================================================== *)
  Fixpoint nondecr (q : list (node * nat)) : Prop :=
    match q with
    | [] => True
    | (_, d) :: r => (forall n' d', In (n', d') r -> d <= d') /\ nondecr r
    end.
  (* queue depths are non-decreasing and span at most two consecutive levels *)
  Definition level_inv (q : list (node * nat)) : Prop :=
    nondecr q /\ match q with
                 | [] => True
                 | (_, dh) :: _ => forall n d, In (n, d) q -> d <= S dh
                 end.
  (* every seen node was popped within the depth limit: it is not a direct match
     and all its successors are seen or waiting *)
  Definition expanded (q : list (node * nat)) (seen : list node) : Prop :=
    forall s, In s seen ->
      direct_allowed cfg s = false /\
      forall n2, In n2 (succs cfg s) -> In n2 seen \/ exists d, In (n2, d) q.
  (* a waiting, unseen node from which a direct match is still within the limit *)
  Definition promising (q : list (node * nat)) (seen : list node) : Prop :=
    exists n d e, In (n, d) q /\ ~ In n seen /\ (Z.of_nat (d + e) <= md)%Z /\ derivB cfg e n.

  Lemma nondecr_app dh l : forall r,
    nondecr r -> (forall n d, In (n, d) r -> d <= S dh) ->
    nondecr (r ++ map (fun n' => (n', S dh)) l).
  Proof.
    induction r as [|[n d] r IH]; simpl; intros Hn Hb.
    - induction l as [|x l IHl]; simpl; [exact I|]. split; [|exact IHl].
      intros n' d' Hin. apply in_map_iff in Hin. destruct Hin as [y [Hy _]]. inversion Hy. lia.
    - destruct Hn as [Hle Hn]. split.
      + intros n' d' Hin. apply in_app_or in Hin. destruct Hin as [Hin|Hin]; [eapply Hle; eauto|].
        apply in_map_iff in Hin. destruct Hin as [y [Hy _]]. inversion Hy; subst.
        apply (Hb n d). now left.
      + apply IH; [assumption|]. intros n0 d0 Hin. apply (Hb n0 d0). now right.
  Qed.

  Lemma level_inv_tail n d q : level_inv ((n, d) :: q) -> level_inv q.
  Proof.
    intros [[Hle Hn] Hb]. split; [assumption|].
    destruct q as [|[n1 d1] q']; [exact I|].
    intros n0 d0 Hin. specialize (Hb n0 d0 (or_intror Hin)).
    specialize (Hle n1 d1 (or_introl eq_refl)). lia.
  Qed.

  Lemma level_inv_push n d q l :
    level_inv ((n, d) :: q) -> level_inv (q ++ map (fun n' => (n', S d)) l).
  Proof.
    intros [[Hle Hn] Hb]. split.
    - apply nondecr_app; [assumption|]. intros n0 d0 Hin. apply (Hb n0 d0). now right.
    - destruct q as [|[n1 d1] q']; simpl.
      + destruct l as [|x l]; simpl; [exact I|].
        intros n0 d0 [Heq|Hin]; [inversion Heq; lia|].
        apply in_map_iff in Hin. destruct Hin as [y [Hy _]]. inversion Hy. lia.
      + specialize (Hle n1 d1 (or_introl eq_refl)).
        intros n0 d0 [Heq|Hin].
        * inversion Heq; subst. lia.
        * apply in_app_or in Hin. destruct Hin as [Hin|Hin].
          -- specialize (Hb n0 d0 (or_intror (or_intror Hin))). lia.
          -- apply in_map_iff in Hin. destruct Hin as [y [Hy _]]. inversion Hy. lia.
  Qed.

  (* follow a derivation through seen nodes until it leaves them: it leaves into the queue *)
  Lemma chase q seen D :
    expanded q seen -> (forall n d, In (n, d) q -> d <= D) ->
    forall e n, derivB cfg e n -> (In n seen \/ exists d, In (n, d) q) ->
    (Z.of_nat (D + e) <= md)%Z -> promising q seen.
  Proof.
    intros Hex HD e n Hder. induction Hder as [n Hdir|e n n' Hs Hder IH]; intros Hin Hb.
    - destruct (nmem n seen) eqn:Hm.
      + apply nmem_In in Hm. destruct (Hex n Hm) as [Hf _]. congruence.
      + apply nmem_nIn in Hm. destruct Hin as [Hin|[d Hin]]; [contradiction|].
        exists n, d, 0. repeat split; auto.
        * specialize (HD n d Hin). lia.
        * constructor. assumption.
    - destruct (nmem n seen) eqn:Hm.
      + apply nmem_In in Hm. destruct (Hex n Hm) as [_ Hsucc].
        apply IH; [apply Hsucc; assumption|lia].
      + apply nmem_nIn in Hm. destruct Hin as [Hin|[d Hin]]; [contradiction|].
        exists n, d, (S e). repeat split; auto.
        * specialize (HD n d Hin). lia.
        * econstructor; eassumption.
  Qed.

  Lemma level_inv_drop seen : forall q, level_inv q -> level_inv (drop_seen q seen).
  Proof.
    induction q as [|[n d] q IH]; simpl; [auto|]. intros H.
    destruct (nmem n seen); [apply IH; eapply level_inv_tail; eauto|exact H].
  Qed.

  Lemma bfs_complete fuel : forall q seen v clk v',
    level_inv q -> expanded q seen -> promising q seen ->
    bfs cfg hit fuel q seen v clk <> Some (OEnd, v').
  Proof.
    induction fuel as [|fuel IH]; intros q0 seen v clk v' Hlv0 Hex0 Hp0; [discriminate|].
    rewrite bfs_step.
    (* the invariant survives dropping the seen heads *)
    assert (Hlv : level_inv (drop_seen q0 seen)) by (apply level_inv_drop; assumption).
    assert (Hex : expanded (drop_seen q0 seen) seen).
    { intros s Hs. destruct (Hex0 s Hs) as [Hd Hsucc]. split; [assumption|].
      intros n2 Hn2. destruct (nmem n2 seen) eqn:E; [left; apply nmem_In; assumption|].
      apply nmem_nIn in E. destruct (Hsucc n2 Hn2) as [|[d2 Hq]]; [contradiction|].
      right. exists d2. apply drop_seen_keeps; assumption. }
    assert (Hp : promising (drop_seen q0 seen) seen).
    { destruct Hp0 as [n [d [e [Hin [Hns [Hb Hder]]]]]]. exists n, d, e. repeat split; auto.
      apply drop_seen_keeps; assumption. }
    destruct (drop_seen q0 seen) as [|[h dh] q] eqn:Hq0.
    { destruct Hp as [n [d [e [[] _]]]]. }
    pose proof (drop_seen_head _ _ _ _ _ Hq0) as Hm. clear Hlv0 Hex0 Hp0 Hq0.
    destruct Hp as [n [d [e [Hin [Hns [Hb Hder]]]]]].
    assert (Hdh : dh <= d).
    { destruct Hin as [Heq|Hin]; [inversion Heq; lia|]. destruct Hlv as [[Hle _] _]. eapply Hle; eauto. }
    apply nmem_nIn in Hm.
    destruct (Z.of_nat (S v) >? c_max_nodes cfg)%Z; [discriminate|].
    destruct (Z.of_nat dh >? c_max_depth cfg)%Z eqn:Hd; [unfold md in Hb; lia|].
    destruct (hit clk); [discriminate|].
    destruct (direct_allowed cfg h) eqn:Hdir; [discriminate|].
    assert (Hlv' : level_inv (q ++ map (fun n' => (n', S dh)) (succs cfg h)))
      by (eapply level_inv_push; eauto).
    assert (Hex' : expanded (q ++ map (fun n' => (n', S dh)) (succs cfg h)) (h :: seen)).
    { intros s [<-|Hs].
      - split; [assumption|]. intros n2 Hn2. right. exists (S dh).
        apply in_or_app. right. apply in_map_iff. exists n2. auto.
      - destruct (Hex s Hs) as [Hd' Hsucc]. split; [assumption|].
        intros n2 Hn2. destruct (Hsucc n2 Hn2) as [Hs2|[d2 [Heq|Hq]]].
        + left. now right.
        + inversion Heq; subst. left. now left.
        + right. exists d2. apply in_or_app. now left. }
    apply IH; auto.
    destruct (node_eqb n h) eqn:Hnh.
    - apply node_eqb_eq in Hnh. subst n.
      inversion Hder as [n0 Hdir0|e' n0 n' Hs Hder']; subst; [congruence|].
      eapply (chase _ _ (S dh) Hex'); [| exact Hder' | |].
      + intros n0 d0 Hin0. apply in_app_or in Hin0. destruct Hin0 as [Hin0|Hin0].
        * destruct Hlv as [_ Hbd]. apply (Hbd n0 d0). now right.
        * apply in_map_iff in Hin0. destruct Hin0 as [y [Hy _]]. inversion Hy. lia.
      + right. exists (S dh). apply in_or_app. right. apply in_map_iff. exists n'. auto.
      + lia.
    - apply node_eqb_neq in Hnh.
      exists n, d, e. repeat split; auto.
      + apply in_or_app. left. destruct Hin as [Heq|Hin]; [inversion Heq; congruence|assumption].
      + intros [Heq|Hs]; [congruence|contradiction].
  Qed.
End Search.

(* ===================================================================== *)
(* Termination: the fuel of [run] is never exhausted                      *)
(* ===================================================================== *)
Lemma alookup_in {A} k (l : list (string * A)) a : alookup k l = Some a -> In (k, a) l.
Proof.
  induction l as [|[k' a'] l IH]; simpl; [discriminate|].
  destruct (String.eqb k k') eqn:E.
  - apply String.eqb_eq in E. intros H; inversion H; subst. now left.
  - intros H. right. auto.
Qed.

Lemma lookup_expr_in rules ty rel e : lookup_expr rules ty rel = Some e -> In e (all_exprs rules).
Proof.
  unfold lookup_expr, all_exprs. destruct (alookup ty rules) as [m|] eqn:Hm; [|discriminate].
  intros He. apply alookup_in in Hm. apply alookup_in in He.
  apply in_flat_map. exists (ty, m). split; [assumption|].
  simpl. apply in_map_iff. exists (rel, e). auto.
Qed.

(* shape of what _expand yields: same subject; a relation named by the expression;
   the same object or the subject of a stored tuple *)
Lemma expand_shape st reg e : forall s obj n,
  In n (expand st reg e s obj) ->
  exists r o, n = (s, r, o) /\ In r (expr_rels e) /\ (o = obj \/ In o (map t_subj st)).
Proof.
  induction e using expr_ind'; intros s obj n; simpl; try solve [intros []].
  - intros [<-|[]]. exists r, obj. repeat split; simpl; auto.
  - rewrite in_flat_map. intros [t [Hin Hn]]. apply in_dfr in Hin. destruct Hin as [Hin _].
    assert (Hn' : n = (s, cu, t_subj t)).
    { destruct (has_colon (t_subj t)); simpl in Hn; [|destruct Hn].
      destruct (t_cav t) as [c|]; [destruct (caveat_holds reg c); [|destruct Hn]|];
        destruct Hn as [<-|[]]; reflexivity. }
    exists cu, (t_subj t). split; [assumption|]. split; [simpl; auto|]. right. apply in_map. assumption.
  - rewrite in_flat_map. intros [e [Hin Hn]]. rewrite Forall_forall in H.
    destruct (H e Hin _ _ _ Hn) as [r [o [-> [Hr Ho]]]]. exists r, o. split; [reflexivity|]. split; [|assumption].
    apply in_flat_map. exists e. auto.
Qed.

Lemma filter_len_le {A} (f : A -> bool) l : List.length (filter f l) <= List.length l.
Proof. induction l as [|x l IH]; simpl; [lia|]. destruct (f x); simpl; lia. Qed.

Lemma universe_closed cfg root n n' :
  In n (universe cfg root) -> In n' (succs cfg n) -> In n' (universe cfg root).
Proof.
  destruct root as [[s0 r0] o0]. unfold universe.
  set (objs := o0 :: map t_subj (c_store cfg)).
  set (rest := flat_map (fun r => map (fun o => (s0, r, o)) objs) (rule_rels (c_rules cfg))).
  intros Hn Hs.
  assert (Hshape : exists rel obj, n = (s0, rel, obj) /\ In obj objs).
  { destruct Hn as [<-|Hn].
    - exists r0, o0. split; [reflexivity|now left].
    - apply in_flat_map in Hn. destruct Hn as [r [_ Hn]]. apply in_map_iff in Hn.
      destruct Hn as [o [<- Ho]]. exists r, o. auto. }
  destruct Hshape as [rel [obj [-> Hobj]]]. unfold succs in Hs.
  destruct (lookup_expr (c_rules cfg) (ref_type obj) rel) as [e|] eqn:He; [|destruct Hs].
  apply expand_shape in Hs. destruct Hs as [r [o [-> [Hr Ho]]]].
  right. apply in_flat_map. exists r. split.
  - unfold rule_rels. apply in_flat_map. exists e. split; [eapply lookup_expr_in; eauto|assumption].
  - apply in_map_iff. exists o. split; [reflexivity|].
    destruct Ho as [->|Ho]; [assumption|]. now right.
Qed.

Lemma root_in_universe cfg root : In root (universe cfg root).
Proof. destruct root as [[s r] o]. now left. Qed.

(* members of a list not yet seen *)
Definition fresh (U seen : list node) : nat :=
  List.length (filter (fun u => negb (nmem u seen)) U).

Lemma fresh_le U n seen : fresh U (n :: seen) <= fresh U seen.
Proof.
  unfold fresh. induction U as [|u U IH]; simpl in *; [lia|].
  destruct (node_eqb u n); simpl; [destruct (nmem u seen); simpl; lia|].
  destruct (nmem u seen); simpl; lia.
Qed.
Lemma fresh_lt U n seen : In n U -> nmem n seen = false -> fresh U (n :: seen) < fresh U seen.
Proof.
  unfold fresh. induction U as [|u U IH]; simpl in *; [intros []|]. intros [->|Hin] Hm.
  - rewrite node_eqb_refl, Hm. simpl. pose proof (fresh_le U n seen) as Hle. unfold fresh in Hle. simpl in Hle. lia.
  - specialize (IH Hin Hm).
    destruct (node_eqb u n); simpl; [destruct (nmem u seen); simpl; lia|].
    destruct (nmem u seen); simpl; lia.
Qed.

Lemma bfs_terminates cfg hit root fuel : forall q seen v clk,
  (forall n d, In (n, d) q -> In n (universe cfg root)) ->
  fresh (universe cfg root) seen < fuel ->
  exists r, bfs cfg hit fuel q seen v clk = Some r.
Proof.
  induction fuel as [|fuel IH]; intros q seen v clk Hq Hf; [lia|].
  rewrite bfs_step.
  destruct (drop_seen q seen) as [|[n d] q0] eqn:Hq0; [eauto|].
  pose proof (drop_seen_head _ _ _ _ _ Hq0) as Hm.
  assert (Hq0' : forall n0 d0, In (n0, d0) ((n, d) :: q0) -> In n0 (universe cfg root)).
  { intros n0 d0 Hin. eapply Hq. eapply drop_seen_incl. rewrite Hq0. exact Hin. }
  assert (Hq' : forall n0 d0, In (n0, d0) q0 -> In n0 (universe cfg root)) by (intros; eapply Hq0'; right; eauto).
  assert (HnU : In n (universe cfg root)) by (eapply Hq0'; left; eauto).
  destruct (Z.of_nat (S v) >? c_max_nodes cfg)%Z; [eauto|].
  pose proof (fresh_lt _ _ _ HnU Hm) as Hlt.
  destruct (Z.of_nat d >? c_max_depth cfg)%Z.
  { apply IH; [assumption|lia]. }
  destruct (hit clk); [eauto|].
  destruct (direct_allowed cfg n); [eauto|].
  apply IH; [|lia].
  intros n0 d0 Hin. apply in_app_or in Hin. destruct Hin as [Hin|Hin]; [eauto|].
  apply in_map_iff in Hin. destruct Hin as [x [Hx Hin]]. inversion Hx; subst.
  eapply universe_closed; eauto.
Qed.

Theorem run_total cfg hit root : exists o v, run cfg hit root = Some (o, v).
Proof.
  unfold run. destruct (bfs_terminates cfg hit root (fuel_for cfg root) [(root, 0)] [] 0 0) as [[o v] H].
  - intros n d [Heq|[]]. inversion Heq; subst. apply root_in_universe.
  - unfold fuel_for, node_bound, fresh. simpl.
    assert (Hf : List.length (filter (fun _ : node => true) (universe cfg root))
                 <= List.length (universe cfg root)) by apply filter_len_le.
    lia.
  - eauto.
Qed.

(* a node budget of [node_bound] is never exhausted, and without a deadline hit
   the run ends by OTrue or OEnd *)
Lemma bfs_no_limit cfg hit root fuel : forall q seen v clk o v',
  (forall k, hit k = false) ->
  (Z.of_nat (node_bound cfg root) <= c_max_nodes cfg)%Z ->
  (forall n d, In (n, d) q -> In n (universe cfg root)) ->
  v + fresh (universe cfg root) seen <= node_bound cfg root ->
  bfs cfg hit fuel q seen v clk = Some (o, v') -> o = OTrue \/ o = OEnd.
Proof.
  induction fuel as [|fuel IH]; intros q seen v clk o v' Hh Hmn Hq Hv H; [discriminate|].
  rewrite bfs_step in H.
  destruct (drop_seen q seen) as [|[n d] q0] eqn:Hq0; [inversion H; auto|].
  pose proof (drop_seen_head _ _ _ _ _ Hq0) as Hm.
  assert (Hq0' : forall n0 d0, In (n0, d0) ((n, d) :: q0) -> In n0 (universe cfg root)).
  { intros n0 d0 Hin. eapply Hq. eapply drop_seen_incl. rewrite Hq0. exact Hin. }
  assert (Hq' : forall n0 d0, In (n0, d0) q0 -> In n0 (universe cfg root)) by (intros; eapply Hq0'; right; eauto).
  assert (HnU : In n (universe cfg root)) by (eapply Hq0'; left; eauto).
  pose proof (fresh_lt _ _ _ HnU Hm) as Hlt.
  destruct (Z.of_nat (S v) >? c_max_nodes cfg)%Z eqn:Hn; [exfalso; apply Z.gtb_lt in Hn; lia|].
  destruct (Z.of_nat d >? c_max_depth cfg)%Z.
  { eapply IH; [exact Hh|exact Hmn|exact Hq'| |exact H]. lia. }
  rewrite Hh in H.
  destruct (direct_allowed cfg n); [inversion H; auto|].
  eapply IH; [exact Hh|exact Hmn| |  |exact H].
  - intros n0 d0 Hin. apply in_app_or in Hin. destruct Hin as [Hin|Hin]; [eauto|].
    apply in_map_iff in Hin. destruct Hin as [x [Hx Hin]]. inversion Hx; subst.
    eapply universe_closed; eauto.
  - lia.
Qed.

(* ===================================================================== *)
(* The theorems about check                                               *)
(* ===================================================================== *)
(* a limit fired in this run: the `visits > max_nodes` or the deadline test returned False *)
Definition limit_hit (cfg : config) (hit : nat -> bool) (root : node) : Prop :=
  exists v, run cfg hit root = Some (ONodes, v) \/ run cfg hit root = Some (ODeadline, v).

Lemma root_reach cfg root : forall n d, In (n, d) [(root, 0)] -> reach cfg root d n.
Proof. intros n d [Heq|[]]. inversion Heq; subst. constructor. Qed.

Theorem check_sound cfg hit s rel obj :
  check cfg hit s rel obj = true ->
  derivable_within cfg (c_max_depth cfg) (s, rel, obj).
Proof.
  unfold check, check_node, run.
  destruct (bfs cfg hit _ _ _ _ _) as [[o v]|] eqn:H; [|discriminate].
  destruct o; try discriminate. intros _.
  destruct (bfs_sound cfg hit (s, rel, obj) _ _ _ _ _ _ (root_reach cfg _) H) as [d [Hd Hder]].
  exists d. split; [assumption|]. apply derivB_iff. assumption.
Qed.

Lemma run_not_end cfg hit root v :
  derivable_within cfg (c_max_depth cfg) root -> run cfg hit root <> Some (OEnd, v).
Proof.
  intros [d [Hd Hder]]. unfold run. apply bfs_complete.
  - split; [simpl; split; [intros ? ? []|exact I]|].
    intros n0 d0 [Heq|[]]. inversion Heq. lia.
  - intros s [].
  - exists root, 0, d. repeat split; auto.
    + now left.
    + apply derivB_iff. assumption.
Qed.

Theorem check_complete cfg hit s rel obj :
  derivable_within cfg (c_max_depth cfg) (s, rel, obj) ->
  check cfg hit s rel obj = true \/ limit_hit cfg hit (s, rel, obj).
Proof.
  intros Hder. destruct (run_total cfg hit (s, rel, obj)) as [o [v H]].
  destruct o.
  - left. unfold check, check_node. rewrite H. reflexivity.
  - exfalso. eapply run_not_end; eauto.
  - right. exists v. auto.
  - right. exists v. auto.
Qed.

Lemma run_no_limit cfg hit root o v :
  (forall k, hit k = false) ->
  (Z.of_nat (node_bound cfg root) <= c_max_nodes cfg)%Z ->
  run cfg hit root = Some (o, v) -> o = OTrue \/ o = OEnd.
Proof.
  intros Hh Hmn H. unfold run in H.
  eapply (bfs_no_limit cfg hit root); [exact Hh|exact Hmn| | |exact H].
  - intros n d [Heq|[]]. inversion Heq; subst. apply root_in_universe.
  - unfold fresh, node_bound. simpl. apply filter_len_le.
Qed.

Theorem check_complete_unlimited cfg hit s rel obj :
  (forall k, hit k = false) ->
  (Z.of_nat (node_bound cfg (s, rel, obj)) <= c_max_nodes cfg)%Z ->
  derivable_within cfg (c_max_depth cfg) (s, rel, obj) ->
  check cfg hit s rel obj = true.
Proof.
  intros Hh Hmn Hder. destruct (run_total cfg hit (s, rel, obj)) as [o [v H]].
  unfold check, check_node. rewrite H.
  destruct (run_no_limit _ _ _ _ _ Hh Hmn H) as [->| ->]; [reflexivity|].
  exfalso. eapply run_not_end; eauto.
Qed.

Theorem check_exact cfg hit s rel obj :
  (forall k, hit k = false) ->
  (Z.of_nat (node_bound cfg (s, rel, obj)) <= c_max_nodes cfg)%Z ->
  (check cfg hit s rel obj = true <-> derivable_within cfg (c_max_depth cfg) (s, rel, obj)).
Proof.
  intros Hh Hmn. split; [apply check_sound|apply check_complete_unlimited; assumption].
Qed.

(* the limits do not enter the specification *)
Lemma derivable_same cfg1 cfg2 :
  c_store cfg1 = c_store cfg2 -> c_rules cfg1 = c_rules cfg2 -> c_reg cfg1 = c_reg cfg2 ->
  forall d n, derivable cfg1 d n -> derivable cfg2 d n.
Proof.
  intros Hst Hru Hre.
  assert (Hk : forall c, caveat_ok cfg1 c -> caveat_ok cfg2 c).
  { unfold caveat_ok. rewrite Hre. auto. }
  assert (Hrw : forall s obj e n, Rewrite cfg1 s obj e n -> Rewrite cfg2 s obj e n).
  { intros s obj e n H. induction H.
    - constructor.
    - apply rw_ttu; auto. rewrite <- Hst. assumption.
    - eapply rw_union; eauto. }
  intros d n H. induction H as [n [t [Hin [Hn Hc]]]|d n n' Hs Hd IH].
  - constructor. exists t. rewrite <- Hst. auto.
  - eapply der_step; [|exact IH]. destruct n as [[s rel] obj]. destruct Hs as [e [He Hr]].
    exists e. rewrite <- Hru. auto.
Qed.
Lemma derivable_limits cfg md mn d n : derivable (with_limits cfg md mn) d n <-> derivable cfg d n.
Proof. split; apply derivable_same; reflexivity. Qed.

Theorem within_b_spec cfg root :
  within_b cfg root = true <-> derivable_within cfg (c_max_depth cfg) root.
Proof.
  destruct root as [[s rel] obj]. unfold within_b.
  set (cfg' := with_limits cfg (c_max_depth cfg) (Z.of_nat (node_bound cfg (s, rel, obj)))).
  assert (He : check cfg' (fun _ => false) s rel obj = true <->
               derivable_within cfg' (c_max_depth cfg') (s, rel, obj)).
  { apply check_exact; [reflexivity|]. change (node_bound cfg' (s, rel, obj)) with (node_bound cfg (s, rel, obj)).
    simpl. lia. }
  unfold check in He. rewrite He. unfold derivable_within. simpl.
  split; intros [d [Hd H]]; exists d; (split; [assumption|]);
    apply (derivable_limits cfg (c_max_depth cfg) (Z.of_nat (node_bound cfg (s, rel, obj))) d); exact H.
Qed.

(* limits only fail closed: a limit that fires answers False, and an answer True
   obtained under any limits is also the answer of every more generous,
   deadline-free configuration *)
Theorem limits_fail_closed cfg hit s rel obj :
  (limit_hit cfg hit (s, rel, obj) -> check cfg hit s rel obj = false) /\
  (check cfg hit s rel obj = true ->
   forall md' mn', (c_max_depth cfg <= md')%Z ->
     (Z.of_nat (node_bound cfg (s, rel, obj)) <= mn')%Z ->
     check (with_limits cfg md' mn') (fun _ => false) s rel obj = true).
Proof.
  split.
  - intros [v [H|H]]; unfold check, check_node; rewrite H; reflexivity.
  - intros H md' mn' Hmd Hmn. apply check_sound in H. destruct H as [d [Hd H]].
    apply check_complete_unlimited; [reflexivity|exact Hmn|].
    exists d. split; [simpl; lia|]. apply derivable_limits. exact H.
Qed.

(* ---------------- batch_check ---------------- *)
Lemma bfs_ext cfg h1 h2 fuel : (forall k, h1 k = h2 k) ->
  forall q seen v clk, bfs cfg h1 fuel q seen v clk = bfs cfg h2 fuel q seen v clk.
Proof.
  intros He. induction fuel as [|fuel IH]; intros q seen v clk; [reflexivity|].
  rewrite !bfs_step, He. destruct (drop_seen q seen) as [|[n d] q0]; [reflexivity|].
  repeat match goal with |- context [if ?b then _ else _] => destruct b end; auto.
Qed.
Lemma check_node_ext cfg h1 h2 t : (forall k, h1 k = h2 k) -> check_node cfg h1 t = check_node cfg h2 t.
Proof. intros He. unfold check_node, run. rewrite (bfs_ext cfg h1 h2 _ He). reflexivity. Qed.

Lemma batch_loop_spec cfg hits h : (forall j k, hits j k = h k) ->
  forall triples j memo,
    (forall t b, memo_get t memo = Some b -> b = check_node cfg h t) ->
    batch_loop cfg hits j triples memo = map (check_node cfg h) triples.
Proof.
  intros He. induction triples as [|t ts IH]; intros j memo Hm; simpl; [reflexivity|].
  destruct (memo_get t memo) as [b|] eqn:Hg.
  - rewrite (Hm t b Hg). f_equal. apply IH. assumption.
  - rewrite (check_node_ext cfg (hits j) h t (He j)). f_equal. apply IH.
    intros t' b'. simpl. destruct (node_eqb t' t) eqn:E.
    + apply node_eqb_eq in E. subst. intros Hb; inversion Hb. reflexivity.
    + apply Hm.
Qed.

Theorem batch_is_map cfg hits h triples : (forall j k, hits j k = h k) ->
  batch_check cfg hits triples = map (check_node cfg h) triples.
Proof. intros He. unfold batch_check. apply batch_loop_spec; [assumption|]. intros t b H; discriminate. Qed.

(* ---------------- caveats ---------------- *)
(* the store as the checker effectively reads it: tuples whose caveat does not
   hold removed, the others unconditional *)
Definition uncaveated (t : rtuple) : rtuple := mkT (t_subj t) (t_rel t) (t_res t) None.
Definition strip (cfg : config) : config :=
  mkCfg (map uncaveated (filter (fun t => caveat_okb (c_reg cfg) (t_cav t)) (c_store cfg)))
        (c_rules cfg) [] (c_max_depth cfg) (c_max_nodes cfg).

Lemma strip_in cfg t' :
  In t' (c_store (strip cfg)) <->
  exists t, In t (c_store cfg) /\ caveat_ok cfg (t_cav t) /\ t' = uncaveated t.
Proof.
  simpl. rewrite in_map_iff. split.
  - intros [t [Ht Hin]]. apply filter_In in Hin. destruct Hin as [Hin Hk].
    exists t. split; [assumption|]. split; [apply caveat_okb_iff; assumption|auto].
  - intros [t [Hin [Hk ->]]]. exists t. split; [reflexivity|]. apply filter_In.
    split; [assumption|apply caveat_okb_iff; assumption].
Qed.

Lemma Direct_strip cfg n : Direct cfg n <-> Direct (strip cfg) n.
Proof.
  unfold Direct. split.
  - intros [t [Hin [Hn Hk]]]. exists (uncaveated t). split; [apply strip_in; eauto|].
    split; [exact Hn|now left].
  - intros [t' [Hin [Hn _]]]. apply strip_in in Hin. destruct Hin as [t [Hin [Hk ->]]].
    exists t. auto.
Qed.

Lemma Rewrite_strip cfg s obj e n : Rewrite cfg s obj e n <-> Rewrite (strip cfg) s obj e n.
Proof.
  split; intros H; induction H.
  - constructor.
  - apply (rw_ttu (strip cfg) s obj ts cu (uncaveated t)); auto.
    + apply strip_in. eauto.
    + now left.
  - eapply rw_union; eauto.
  - constructor.
  - apply strip_in in H. destruct H as [t0 [Hin [Hk ->]]]. simpl in *.
    apply (rw_ttu cfg s obj ts cu t0); auto.
  - eapply rw_union; eauto.
Qed.

Theorem derivable_strip cfg d n : derivable cfg d n <-> derivable (strip cfg) d n.
Proof.
  split; intros H; induction H.
  - constructor. apply -> Direct_strip. assumption.
  - eapply der_step; [|eassumption]. destruct n as [[s rel] obj]. destruct H as [e [He Hr]].
    exists e. split; [exact He|]. apply -> Rewrite_strip. assumption.
  - constructor. apply <- Direct_strip. assumption.
  - eapply der_step; [|eassumption]. destruct n as [[s rel] obj]. destruct H as [e [He Hr]].
    exists e. split; [exact He|]. apply <- Rewrite_strip. assumption.
Qed.

Theorem caveat_cases reg name :
  (alookup name reg = None -> caveat_holds reg name = false) /\          (* unregistered *)
  (alookup name reg = Some None -> caveat_holds reg name = false) /\     (* predicate raises *)
  (alookup name reg = Some (Some false) -> caveat_holds reg name = false) /\
  (alookup name reg = Some (Some true) -> caveat_holds reg name = true).
Proof. unfold caveat_holds. repeat split; intros ->; reflexivity. Qed.

Theorem caveats_count_only_when_true cfg hit s rel obj :
  (forall d n, derivable cfg d n <-> derivable (strip cfg) d n) /\
  (check cfg hit s rel obj = true ->
   derivable_within (strip cfg) (c_max_depth cfg) (s, rel, obj)).
Proof.
  split; [intros; apply derivable_strip|].
  intros H. apply check_sound in H. destruct H as [d [Hd H]]. exists d. split; [assumption|].
  apply -> derivable_strip. assumption.
Qed.

(* ---------------- the deadline oracle of a scripted clock ---------------- *)
Lemma hit_of_clock_spec ms clock k :
  hit_of_clock ms clock k = true <-> (clock (S k) > clock 0%nat + ms * 1000000)%Z.
Proof. unfold hit_of_clock. rewrite Z.gtb_ltb, Z.ltb_lt. lia. Qed.

Theorem no_deadline_hit ms clock :
  (forall k, (clock (S k) <= clock 0%nat + ms * 1000000)%Z) ->
  forall k, hit_of_clock ms clock k = false.
Proof.
  intros H k. destruct (hit_of_clock ms clock k) eqn:E; [|reflexivity].
  apply hit_of_clock_spec in E. specialize (H k). lia.
Qed.
