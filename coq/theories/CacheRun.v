(* CacheRun.v — wire entry points for the Cache model (keys: Python str,
   values: JSON values, time: integer clock units). *)
From Coq Require Import List Bool String ZArith.
From Rbacx Require Import Value Wire Cache.
Import ListNotations.
Local Open Scope string_scope.

Definition sop := @op string value.
Definition sstore := @store string value.

Definition dec_int (v : value) : option Z :=
  match v with VNum (NInt z) => Some z | _ => None end.
Definition dec_ttl (v : value) : option (option Z) :=
  match v with
  | VNull => Some None
  | VNum (NInt z) => Some (Some z)
  | _ => None
  end.

(* ["g",k,now] | ["s",k,v,ttl,t1,t2] | ["d",k] | ["c"] *)
Definition dec_op (v : value) : option sop :=
  match v with
  | VList [VStr "g"; VStr k; t] =>
      match dec_int t with Some t' => Some (OGet k t') | None => None end
  | VList [VStr "s"; VStr k; x; ttl; t1; t2] =>
      match dec_ttl ttl, dec_int t1, dec_int t2 with
      | Some ttl', Some a, Some b => Some (OSet k x ttl' a b)
      | _, _, _ => None
      end
  | VList [VStr "d"; VStr k] => Some (ODelete k)
  | VList [VStr "c"] => Some OClear
  | _ => None
  end.

Definition enc_result (r : @result value) : value :=
  match r with
  | RMiss => vtag "miss" []
  | RHit v => vtag "hit" [v]
  | RDone => vtag "done" []
  | RRaise => vtag "raise" [vstr "KeyError"]
  end.

Definition enc_entry (e : @entry string value) : value :=
  VList [vstr (ekey e); evalue e; vopt vint (eexp e)].
Definition enc_store (s : sstore) : value := VList (map enc_entry s).

(* cache.run cap ops full  ->  [results, per-op stores (full) or sizes, final store] *)
Definition run_cache (args : list value) : value :=
  match args with
  | [c; VList ops; VBool full] =>
      match dec_int c, opt_all (map dec_op ops) with
      | Some cap, Some ops' =>
          let sts := states String.eqb cap ops' empty in
          let '(fin, rs) := run String.eqb cap ops' empty in
          VList [VList (map enc_result rs);
                 VList (map (fun s => if full then enc_store s else vnat (List.length s)) sts);
                 enc_store fin]
      | _, _ => vtag "ood" []
      end
  | _ => vtag "badargs" []
  end.

(* cache.lru cap ops -> [results, final (key,value) list] of the textbook LRU reference *)
Definition run_lru (args : list value) : value :=
  match args with
  | [c; VList ops] =>
      match dec_int c, opt_all (map dec_op ops) with
      | Some cap, Some ops' =>
          let '(fin, rs) := lru_run String.eqb cap ops' [] in
          VList [VList (map enc_result rs);
                 VList (map (fun kv => VList [vstr (fst kv); snd kv]) fin)]
      | _, _ => vtag "ood" []
      end
  | _ => vtag "badargs" []
  end.

Definition entries : list (string * (list value -> value)) :=
  [("cache.run", run_cache); ("cache.lru", run_lru)].

Definition run_line : string -> string := run_with entries.
