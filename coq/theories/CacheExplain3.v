(* CacheExplain3.v — C03 (compiled path = reference evaluation of the most specific matching tier;
   rules whose target does not match never matter) and C05 (targets match as documented, lax and
   strict) lifted to the ENGINE (Compiler.guard_decide / Engine.guard_eval) and THROUGH the
   decision cache, over every history.

   CompilerProofs.v speaks of the compiled function (compiled_decide), TargetProofs.v of
   match_resource.  Guard._decide_async (guard_decide) uses the compiled function when there is one
   AND it does not raise; when it raises (any exception; it is logged) the interpreter decides —
   over ALL rules of the policy, not over the selected tier.  The statements below say what each
   of the two paths gives:
   * compiled path  (the reference evaluation of the tier does not raise): guard_decide is
     eres_sim-equal (same decision, reported rule, obligations, policy id) to the reference
     evaluation [evaluate] of the policy restricted to the rules of the most specific tier holding
     a matching rule, in document order (c03_compiled_eq_reference transported);
   * fallback path  (the reference evaluation of the tier raises w — then so does the compiled
     function): guard_decide IS [evaluate] of the whole policy (every rule, document order).  The two
     coincide when the rules outside the tier are not applicable (c03_not_applicable_irrelevant), and
     the fallback path is never taken when no rule of the tier raises.
   CacheExplain.v / CacheExplain2.v: every answer of the cached engines at a site of a history is
   guard_eval on the policy held there (cached_answer_builtin, cached_decision_parts); composed
   with the above, the statements hold for every answer — hits included — of any history.
   Vocabulary (site, evals_in, policy_at, guard_strict) as in CacheExplain.v. *)
From Coq Require Import ZArith List Bool String Ascii Lia.
From Rbacx Require Import Value Cond Target Policy PolicySet Compiler Oblig Engine
  PolicyProofs PolicySetProofs TargetProofs CompilerProofs ObligProofs EngineProofs
  Cache CacheProofs CacheKey CacheKeyProofs CacheGuard CacheGuardProofs CacheExplain CacheExplain2.
Import ListNotations.
Local Open Scope string_scope.
Local Open Scope list_scope.

(* ------------------------------------------------------------------ *)
(* similarity of Decisions (what raw_sim leaves of a Decision)         *)
(* ------------------------------------------------------------------ *)
(* same verdict, effect, obligations, challenge, reported rule and policy id; the reason text is not
   compared (as in C03's raw_sim; C11 pins it down whenever a rule is reported) *)
Definition decision_sim (d1 d2 : decision) : Prop :=
  d_allowed d1 = d_allowed d2 /\ d_effect d1 = d_effect d2 /\ d_obligations d1 = d_obligations d2 /\
  d_challenge d1 = d_challenge d2 /\ d_rule_id d1 = d_rule_id d2 /\ d_policy_id d1 = d_policy_id d2.

Inductive gres_sim : gres -> gres -> Prop :=
| gs_dec d1 d2 : decision_sim d1 d2 -> gres_sim (GDecision d1) (GDecision d2)
| gs_raise w : gres_sim (GRaise w) (GRaise w)
| gs_ood : gres_sim GOod GOod.

(* what Guard makes of the answer of its decision function, with the built-in obligation checker *)
Definition gres_of (e : eres) (ctx : value) : gres :=
  match e with
  | ERaw r => GDecision (finish builtin_oblig r ctx)
  | EErr w => GRaise w
  | EOod => GOod
  end.

Lemma raw_sim_refl r : raw_sim r r.
Proof. unfold raw_sim. repeat split; reflexivity. Qed.
Lemma raw_sim_sym a b : raw_sim a b -> raw_sim b a.
Proof. unfold raw_sim. intros (H1 & H2 & H3 & H4). repeat split; symmetry; assumption. Qed.
Lemma raw_sim_trans a b c : raw_sim a b -> raw_sim b c -> raw_sim a c.
Proof. unfold raw_sim. intros (H1 & H2 & H3 & H4) (K1 & K2 & K3 & K4). repeat split; congruence. Qed.
Lemma eres_sim_refl e : eres_sim e e.
Proof. destruct e; constructor. apply raw_sim_refl. Qed.
Lemma eres_sim_sym a b : eres_sim a b -> eres_sim b a.
Proof. intros H. destruct H; constructor. apply raw_sim_sym. assumption. Qed.
Lemma eres_sim_trans a b c : eres_sim a b -> eres_sim b c -> eres_sim a c.
Proof.
  intros H K. destruct H; inversion K; subst; constructor.
  eapply raw_sim_trans; eassumption.
Qed.

Lemma decision_sim_refl d : decision_sim d d.
Proof. unfold decision_sim. repeat split; reflexivity. Qed.
Lemma decision_sim_sym a b : decision_sim a b -> decision_sim b a.
Proof. unfold decision_sim. intros (H1 & H2 & H3 & H4 & H5 & H6). repeat split; symmetry; assumption. Qed.
Lemma gres_sim_refl g : gres_sim g g.
Proof. destruct g; constructor. apply decision_sim_refl. Qed.
Lemma gres_sim_sym a b : gres_sim a b -> gres_sim b a.
Proof. intros H. destruct H; constructor. apply decision_sim_sym. assumption. Qed.

(* the gate (finish with the built-in checker) looks at decision, obligations, rule and policy id only *)
Lemma finish_sim r1 r2 ctx :
  raw_sim r1 r2 -> decision_sim (finish builtin_oblig r1 ctx) (finish builtin_oblig r2 ctx).
Proof.
  intros (H1 & H2 & H3 & H4). unfold finish, builtin_oblig. rewrite <- H1, <- H2, <- H3, <- H4.
  destruct (String.eqb (r_decision r1) "permit").
  - destruct (check (r_decision r1) (r_obligations r1) ctx) as [[ok ch]| | |];
      unfold decision_sim; simpl; repeat split; reflexivity.
  - unfold decision_sim; simpl; repeat split; reflexivity.
Qed.

Lemma gres_of_sim e1 e2 ctx : eres_sim e1 e2 -> gres_sim (gres_of e1 ctx) (gres_of e2 ctx).
Proof. intros H. destruct H; simpl; constructor. apply finish_sim. assumption. Qed.

(* guard_eval = gres_of guard_decide on the built environment *)
Lemma guard_eval_gres_of relh strict policy req resolved env :
  build_env strict req resolved = Some env ->
  fst (guard_eval unit relh builtin_oblig strict policy req resolved tt)
  = gres_of (fst (guard_decide unit relh policy env tt)) (get_key "context" env).
Proof.
  intros Hb. unfold guard_eval. rewrite Hb.
  destruct (guard_decide unit relh policy env tt) as [[r|w|] u]; reflexivity.
Qed.

(* ------------------------------------------------------------------ *)
(* rules whose action or resource target does not match (C05's functions) *)
(* ------------------------------------------------------------------ *)
(* the rule is an object whose action list is readable and either does not list the request's
   action (nor "*"), or whose resource target is answered "no match" by match_resource *)
Definition target_mismatch (action : string) (resource : value) (strict : option bool) (r : value) : bool :=
  is_obj r &&
  match is_candidate action r with
  | Some false => true
  | Some true => match match_resource (rule_resource r) resource strict with Ok false => true | _ => false end
  | None => false
  end.

(* l' is l with such rules inserted anywhere (read backwards: removed) *)
Inductive adds_mismatching (action : string) (resource : value) (strict : option bool)
  : list value -> list value -> Prop :=
| am_nil : adds_mismatching action resource strict [] []
| am_keep r l l' : adds_mismatching action resource strict l l' ->
                   adds_mismatching action resource strict (r :: l) (r :: l')
| am_add r l l' : target_mismatch action resource strict r = true ->
                  adds_mismatching action resource strict l l' ->
                  adds_mismatching action resource strict l (r :: l').

Lemma mismatch_not_matching action rt resource strict r :
  target_mismatch action resource strict r = true -> matching action rt resource strict r = false.
Proof.
  unfold target_mismatch, matching. intros H. apply andb_true_iff in H. destruct H as [_ H].
  destruct (is_candidate action r) as [[|]|]; try discriminate.
  - destruct (categorize r rt); [|reflexivity].
    destruct (match_resource (rule_resource r) resource strict) as [[|]| | |]; try discriminate.
    apply andb_false_r.
  - reflexivity.
Qed.

Lemma adds_mismatching_nonmatching action rt resource strict l l' :
  adds_mismatching action resource strict l l' -> adds_nonmatching action rt resource strict l l'.
Proof.
  intros H. induction H as [|r l l' H IH|r l l' Hm H IH].
  - constructor.
  - apply an_keep. exact IH.
  - apply an_add; [apply mismatch_not_matching; exact Hm|exact IH].
Qed.

Section EngineTier.
  Variable rel : rel_query -> bool.
  Notation relh := (relh_pure rel).

  (* such a rule is not applicable for the interpreter either *)
  Lemma mismatch_is_na action env r :
    env_action env = Some action ->
    target_mismatch action (py_or (get_key "resource" env) (VObj []))
                    (if strict_of env then Some true else None) r = true ->
    is_na rel r env.
  Proof.
    intros Hact Hm. unfold target_mismatch in Hm. apply andb_true_iff in Hm. destruct Hm as [Ho Hm].
    destruct r as [| | | | |kvs|]; try discriminate Ho.
    unfold is_na, rule_outcome. rewrite Hact. unfold match_actions. unfold is_candidate in Hm.
    destruct (string_actions (VObj kvs)) as [acts|]; [|discriminate Hm].
    unfold mem_str in Hm.
    destruct (existsb (String.eqb action) acts || existsb (String.eqb "*") acts).
    - fold (rule_resource (VObj kvs)).
      destruct (match_resource (rule_resource (VObj kvs)) (py_or (get_key "resource" env) (VObj []))
                  (if strict_of env then Some true else None)) as [[|]| | |]; try discriminate Hm.
      eexists; reflexivity.
    - eexists; reflexivity.
  Qed.

  Lemma adds_mismatching_drops action env l l' :
    env_action env = Some action ->
    adds_mismatching action (py_or (get_key "resource" env) (VObj []))
                     (if strict_of env then Some true else None) l l' ->
    drops rel env l' l.
  Proof.
    intros Hact H. induction H as [|r l l' H IH|r l l' Hm H IH].
    - constructor.
    - apply drops_keep. exact IH.
    - apply drops_drop; [apply (mismatch_is_na action env r Hact Hm)|exact IH].
  Qed.

  (* ---------------------------------------------------------------- *)
  (* small facts about the two decision functions                      *)
  (* ---------------------------------------------------------------- *)
  (* under C03's hypotheses compile() succeeds: Guard has a compiled function *)
  Lemma compilable_single kvs al rules :
    has_key "policies" (VObj kvs) = false -> compiled_algo (VObj kvs) = Some al ->
    policy_rules (VObj kvs) = Some rules -> forallb is_obj rules = true ->
    compilable (VObj kvs) = true.
  Proof.
    intros Hk Ha Hr Ho. unfold compilable. rewrite Hk.
    unfold compiled_algo in Ha. unfold policy_rules in Hr.
    destruct (py_or (get_key "rules" (VObj kvs)) (VList [])) as [| | | |l| |]; try discriminate Hr.
    inversion Hr; subst l.
    destruct (py_or (get_key "algorithm" (VObj kvs)) (VStr "permit-overrides")); try discriminate Ha.
    rewrite Ho. reflexivity.
  Qed.

  (* an explicit algorithm is read alike by the compiler and by the interpreter (no F12) *)
  Lemma explicit_algo_interp p al :
    py_truthy (get_key "algorithm" p) = true -> compiled_algo p = Some al ->
    policy_algo None p = Some (algo_of_string al).
  Proof.
    unfold compiled_algo, policy_algo, py_or. intros ->.
    destruct (get_key "algorithm" p) as [| | |s| | |]; try discriminate.
    destruct (is_ascii_str s); [|discriminate]. intros H; inversion H; reflexivity.
  Qed.

  Lemma literal_algo al T : algo_of_string al <> OtherAlgo ->
    policy_algo None (VObj [("algorithm", VStr al); ("rules", VList T)]) = Some (algo_of_string al).
  Proof. intros H. destruct (known_algo al H) as [E|[E|E]]; rewrite E; reflexivity. Qed.

  (* a rule list none of whose rules raises never makes evaluate raise *)
  Lemma loop_no_raise al env : forall l a,
    (forall rule, In rule l -> forall w, outcome_of rel rule env <> OErr w) ->
    forall w, fst (loop unit relh al l env a tt) <> LErr w.
  Proof.
    induction l as [|r l IH]; intros a H w; [simpl; discriminate|].
    pose proof (H r (or_introl eq_refl)) as Hr. unfold outcome_of in Hr.
    assert (Hl : forall rule, In rule l -> forall w0, outcome_of rel rule env <> OErr w0)
      by (intros rule Hin; apply H; now right).
    simpl. destruct (rule_outcome unit relh r env tt) as [[|reason|w'|] []]; simpl in Hr.
    - destruct (rule_effect r) as [eff|]; [|simpl; discriminate].
      destruct (a_broke (apply_rule al a r eff)); [simpl; discriminate|]. apply IH. exact Hl.
    - apply IH. exact Hl.
    - exfalso. apply (Hr w'). reflexivity.
    - simpl. discriminate.
  Qed.

  Lemma evaluate_no_raise kvs env l :
    policy_rules (VObj kvs) = Some l ->
    (forall rule, In rule l -> forall w, outcome_of rel rule env <> OErr w) ->
    forall w, fst (evaluate unit relh None (VObj kvs) env tt) <> EErr w.
  Proof.
    intros Hr H w. unfold evaluate. destruct (policy_algo None (VObj kvs)) as [al|]; [|simpl; discriminate].
    rewrite Hr. pose proof (loop_no_raise al env l acc0 H) as Hl.
    destruct (loop unit relh al l env acc0 tt) as [[a|w'|] []]; simpl in *.
    - destruct (raw_of_acc (finalize al a)); simpl; discriminate.
    - exfalso. apply (Hl w'). reflexivity.
    - discriminate.
  Qed.

  (* the reference policy of C03: the policy's algorithm over the rules of the selected tier *)
  Definition tier_policy (al : string) (rt : option string) (bs : list (nat * value)) (rules : list value) : value :=
    VObj [("algorithm", VStr al); ("rules", VList (tier_rules rt (best_tier bs) rules))].

  (* ================================================================ *)
  (* (1) guard_decide on a single policy = reference evaluation of the *)
  (*     most specific matching tier; both Guard paths                 *)
  (* ================================================================ *)
  Theorem guard_single_is_tier_reference kvs env al rules action rt bs :
    let policy := VObj kvs in
    let resource := py_or (get_key "resource" env) (VObj []) in
    let strict := if strict_of env then Some true else None in
    has_key "policies" policy = false ->
    compiled_algo policy = Some al -> algo_of_string al <> OtherAlgo ->
    policy_rules policy = Some rules -> forallb is_obj rules = true ->
    env_action env = Some action ->
    (if is_null (get_key "action" env) then Some "" else py_str (get_key "action" env)) = Some action ->
    (if is_null (get_key "type" resource) then Some None
     else option_map Some (py_str (get_key "type" resource))) = Some rt ->
    buckets action rt resource strict rules = Ok bs ->
    (* Guard holds a compiled function for this policy ... *)
    compilable policy = true /\
    match fst (evaluate unit relh None (tier_policy al rt bs rules) env tt) with
    | EErr _ =>
        (* ... it raised (as the reference evaluation of the tier does): the interpreter decides,
           over every rule of the policy *)
        fst (guard_decide unit relh policy env tt) = fst (evaluate unit relh None policy env tt)
    | ref =>
        (* ... it answered: Guard answers what it answered = the reference evaluation of the tier *)
        eres_sim ref (fst (guard_decide unit relh policy env tt)) /\
        guard_decide unit relh policy env tt = compiled_decide unit relh policy env tt
    end.
  Proof.
    cbv zeta. intros Hk Ha Hkn Hr Ho Hact Hact' Hrt Hb.
    pose proof (compiled_eq_reference rel kvs env al rules action rt bs Hk Ha Hkn Hr Ho Hact Hact' Hrt Hb) as Hs.
    cbv zeta in Hs.
    pose proof (compilable_single kvs al rules Hk Ha Hr Ho) as Hc.
    split; [exact Hc|].
    unfold guard_decide. rewrite Hc. unfold tier_policy.
    destruct (compiled_decide unit relh (VObj kvs) env tt) as [c u]. destruct u.
    remember (fst (evaluate unit relh None
                     (VObj [("algorithm", VStr al); ("rules", VList (tier_rules rt (best_tier bs) rules))]) env tt))
      as ref eqn:Eref.
    assert (Hs' : eres_sim ref c) by exact Hs.
    clear Eref Hs. destruct Hs' as [r1 r2 Hrr|w|].
    - cbv beta iota. split; [constructor; exact Hrr|reflexivity].
    - cbv beta iota. unfold interpret. rewrite Hk. reflexivity.
    - cbv beta iota. split; [constructor|reflexivity].
  Qed.

  (* the compiled path, from a hypothesis on the rules: no rule of the selected tier raises *)
  Corollary guard_single_tier_no_raise kvs env al rules action rt bs :
    let policy := VObj kvs in
    let resource := py_or (get_key "resource" env) (VObj []) in
    let strict := if strict_of env then Some true else None in
    has_key "policies" policy = false ->
    compiled_algo policy = Some al -> algo_of_string al <> OtherAlgo ->
    policy_rules policy = Some rules -> forallb is_obj rules = true ->
    env_action env = Some action ->
    (if is_null (get_key "action" env) then Some "" else py_str (get_key "action" env)) = Some action ->
    (if is_null (get_key "type" resource) then Some None
     else option_map Some (py_str (get_key "type" resource))) = Some rt ->
    buckets action rt resource strict rules = Ok bs ->
    (forall rule, In rule (tier_rules rt (best_tier bs) rules) -> forall w, outcome_of rel rule env <> OErr w) ->
    eres_sim (fst (evaluate unit relh None (tier_policy al rt bs rules) env tt))
             (fst (guard_decide unit relh policy env tt)).
  Proof.
    cbv zeta. intros Hk Ha Hkn Hr Ho Hact Hact' Hrt Hb Hnr.
    destruct (guard_single_is_tier_reference kvs env al rules action rt bs Hk Ha Hkn Hr Ho Hact Hact' Hrt Hb)
      as [_ H].
    pose proof (evaluate_no_raise _ env _ (literal_rules (VStr al) (tier_rules rt (best_tier bs) rules)) Hnr) as Hn.
    fold (tier_policy al rt bs rules) in Hn.
    destruct (fst (evaluate unit relh None (tier_policy al rt bs rules) env tt)) as [r|w|].
    - apply H.
    - exfalso. apply (Hn w). reflexivity.
    - apply H.
  Qed.

  (* when the rules outside the selected tier are not applicable (c03_not_applicable_irrelevant), the
     two paths coincide: Guard's answer, the tier reference and the interpreter over the whole policy
     are all eres_sim-equal *)
  Corollary guard_single_paths_coincide kvs env al rules action rt bs :
    let policy := VObj kvs in
    let resource := py_or (get_key "resource" env) (VObj []) in
    let strict := if strict_of env then Some true else None in
    has_key "policies" policy = false ->
    compiled_algo policy = Some al -> algo_of_string al <> OtherAlgo ->
    py_truthy (get_key "algorithm" policy) = true ->
    policy_rules policy = Some rules -> forallb is_obj rules = true ->
    env_action env = Some action ->
    (if is_null (get_key "action" env) then Some "" else py_str (get_key "action" env)) = Some action ->
    (if is_null (get_key "type" resource) then Some None
     else option_map Some (py_str (get_key "type" resource))) = Some rt ->
    buckets action rt resource strict rules = Ok bs ->
    drops rel env rules (tier_rules rt (best_tier bs) rules) ->
    eres_sim (fst (evaluate unit relh None (tier_policy al rt bs rules) env tt))
             (fst (guard_decide unit relh policy env tt)) /\
    eres_sim (fst (evaluate unit relh None (tier_policy al rt bs rules) env tt))
             (fst (evaluate unit relh None policy env tt)).
  Proof.
    cbv zeta. intros Hk Ha Hkn Hex Hr Ho Hact Hact' Hrt Hb Hd.
    destruct (guard_single_is_tier_reference kvs env al rules action rt bs Hk Ha Hkn Hr Ho Hact Hact' Hrt Hb)
      as [_ H].
    assert (Hfull : eres_sim (fst (evaluate unit relh None (tier_policy al rt bs rules) env tt))
                             (fst (evaluate unit relh None (VObj kvs) env tt))).
    { apply eres_sim_sym. unfold tier_policy.
      apply (evaluate_drops rel kvs _ (algo_of_string al) rules (tier_rules rt (best_tier bs) rules) env
               (explicit_algo_interp _ _ Hex Ha) (literal_algo al _ Hkn) Hkn Hr (literal_rules _ _) Hd). }
    split; [|exact Hfull].
    destruct (fst (evaluate unit relh None (tier_policy al rt bs rules) env tt)) as [r|w|].
    - apply H.
    - rewrite H. exact Hfull.
    - apply H.
  Qed.

  (* the same at the level of guard_eval: the answer of Guard on a request *)
  Theorem guard_eval_single_is_tier_reference strictf kvs req resolved env al rules action rt bs :
    let policy := VObj kvs in
    let resource := py_or (get_key "resource" env) (VObj []) in
    let strict := if strict_of env then Some true else None in
    build_env strictf req resolved = Some env ->
    has_key "policies" policy = false ->
    compiled_algo policy = Some al -> algo_of_string al <> OtherAlgo ->
    policy_rules policy = Some rules -> forallb is_obj rules = true ->
    env_action env = Some action ->
    (if is_null (get_key "action" env) then Some "" else py_str (get_key "action" env)) = Some action ->
    (if is_null (get_key "type" resource) then Some None
     else option_map Some (py_str (get_key "type" resource))) = Some rt ->
    buckets action rt resource strict rules = Ok bs ->
    match fst (evaluate unit relh None (tier_policy al rt bs rules) env tt) with
    | EErr _ =>
        fst (guard_eval unit relh builtin_oblig strictf policy req resolved tt)
        = gres_of (fst (evaluate unit relh None policy env tt)) (get_key "context" env)
    | ref =>
        gres_sim (gres_of ref (get_key "context" env))
                 (fst (guard_eval unit relh builtin_oblig strictf policy req resolved tt))
    end.
  Proof.
    cbv zeta. intros Hbe Hk Ha Hkn Hr Ho Hact Hact' Hrt Hb.
    destruct (guard_single_is_tier_reference kvs env al rules action rt bs Hk Ha Hkn Hr Ho Hact Hact' Hrt Hb)
      as [_ H].
    rewrite (guard_eval_gres_of relh strictf (VObj kvs) req resolved env Hbe).
    destruct (fst (evaluate unit relh None (tier_policy al rt bs rules) env tt)) as [r|w|].
    - apply gres_of_sim. apply H.
    - rewrite H. reflexivity.
    - apply gres_of_sim. apply H.
  Qed.

  (* ================================================================ *)
  (* (2) rules whose target does not match the request never matter    *)
  (* ================================================================ *)
  (* the compiled function cannot raise when no rule of the policy does *)
  Lemma compiled_no_raise kvs env al rules action rt bs :
    let policy := VObj kvs in
    let resource := py_or (get_key "resource" env) (VObj []) in
    let strict := if strict_of env then Some true else None in
    has_key "policies" policy = false ->
    compiled_algo policy = Some al -> policy_rules policy = Some rules ->
    (if is_null (get_key "action" env) then Some "" else py_str (get_key "action" env)) = Some action ->
    (if is_null (get_key "type" resource) then Some None
     else option_map Some (py_str (get_key "type" resource))) = Some rt ->
    buckets action rt resource strict rules = Ok bs ->
    (forall rule, In rule rules -> forall w, outcome_of rel rule env <> OErr w) ->
    forall w, fst (compiled_decide unit relh policy env tt) <> EErr w.
  Proof.
    cbv zeta. intros Hk Ha Hr Hact' Hrt Hb Hnr w.
    unfold compiled_decide. rewrite Hk, Ha, Hr, Hact', Hrt, Hb.
    apply (evaluate_no_raise _ env _ (literal_rules (VStr al) (select bs))).
    intros rule Hin. apply Hnr. apply (selected_rules_subset _ _ _ _ _ _ Hb). exact Hin.
  Qed.

  (* transport of c03_nonmatching_irrelevant, compiled path: with C03's own notion of a non-matching
     rule (matching = false), as long as the compiled function does not raise *)
  Theorem guard_decide_nonmatching_compiled kvs kvs' env al rules rules' action rt bs bs' :
    let policy := VObj kvs in
    let policy' := VObj kvs' in
    let resource := py_or (get_key "resource" env) (VObj []) in
    let strict := if strict_of env then Some true else None in
    has_key "policies" policy = false -> has_key "policies" policy' = false ->
    compiled_algo policy = Some al -> compiled_algo policy' = Some al ->
    policy_rules policy = Some rules -> policy_rules policy' = Some rules' ->
    forallb is_obj rules = true -> forallb is_obj rules' = true ->
    (if is_null (get_key "action" env) then Some "" else py_str (get_key "action" env)) = Some action ->
    (if is_null (get_key "type" resource) then Some None
     else option_map Some (py_str (get_key "type" resource))) = Some rt ->
    adds_nonmatching action rt resource strict rules rules' ->
    buckets action rt resource strict rules = Ok bs ->
    buckets action rt resource strict rules' = Ok bs' ->
    (forall w, fst (compiled_decide unit relh policy env tt) <> EErr w) ->
    guard_decide unit relh policy' env tt = guard_decide unit relh policy env tt.
  Proof.
    cbv zeta. intros Hk Hk' Ha Ha' Hr Hr' Ho Ho' Hact' Hrt Hadd Hb Hb' Hnr.
    unfold guard_decide.
    rewrite (compilable_single kvs al rules Hk Ha Hr Ho), (compilable_single kvs' al rules' Hk' Ha' Hr' Ho').
    rewrite (compiled_ignores_nonmatching rel kvs kvs' env al rules rules' action rt bs bs'
               Hk Hk' Ha Ha' Hr Hr' Hact' Hrt Hadd Hb Hb').
    destruct (compiled_decide unit relh (VObj kvs) env tt) as [[r|w|] u]; try reflexivity.
    exfalso. apply (Hnr w). reflexivity.
  Qed.

  (* both paths: rules whose action or resource target does not match (match_actions / match_resource
     say so) may be added or removed; on the fallback path the interpreter sees them as not applicable *)
  Theorem guard_decide_mismatching kvs kvs' env al rules rules' action rt bs bs' :
    let policy := VObj kvs in
    let policy' := VObj kvs' in
    let resource := py_or (get_key "resource" env) (VObj []) in
    let strict := if strict_of env then Some true else None in
    has_key "policies" policy = false -> has_key "policies" policy' = false ->
    compiled_algo policy = Some al -> compiled_algo policy' = Some al -> algo_of_string al <> OtherAlgo ->
    py_truthy (get_key "algorithm" policy) = true -> py_truthy (get_key "algorithm" policy') = true ->
    policy_rules policy = Some rules -> policy_rules policy' = Some rules' ->
    forallb is_obj rules = true -> forallb is_obj rules' = true ->
    env_action env = Some action ->
    (if is_null (get_key "action" env) then Some "" else py_str (get_key "action" env)) = Some action ->
    (if is_null (get_key "type" resource) then Some None
     else option_map Some (py_str (get_key "type" resource))) = Some rt ->
    adds_mismatching action resource strict rules rules' ->
    buckets action rt resource strict rules = Ok bs ->
    buckets action rt resource strict rules' = Ok bs' ->
    eres_sim (fst (guard_decide unit relh policy' env tt)) (fst (guard_decide unit relh policy env tt)) /\
    ((forall w, fst (compiled_decide unit relh policy env tt) <> EErr w) ->
     guard_decide unit relh policy' env tt = guard_decide unit relh policy env tt).
  Proof.
    cbv zeta. intros Hk Hk' Ha Ha' Hkn Hex Hex' Hr Hr' Ho Ho' Hact Hact' Hrt Hadd Hb Hb'.
    pose proof (adds_mismatching_nonmatching action rt _ _ _ _ Hadd) as Hnm.
    split.
    - unfold guard_decide.
      rewrite (compilable_single kvs al rules Hk Ha Hr Ho), (compilable_single kvs' al rules' Hk' Ha' Hr' Ho').
      rewrite (compiled_ignores_nonmatching rel kvs kvs' env al rules rules' action rt bs bs'
                 Hk Hk' Ha Ha' Hr Hr' Hact' Hrt Hnm Hb Hb').
      destruct (compiled_decide unit relh (VObj kvs) env tt) as [[r|w|] u]; destruct u;
        try apply eres_sim_refl.
      unfold interpret. rewrite Hk, Hk'.
      apply (evaluate_drops rel kvs' kvs (algo_of_string al) rules' rules env
               (explicit_algo_interp _ _ Hex' Ha') (explicit_algo_interp _ _ Hex Ha) Hkn Hr' Hr
               (adds_mismatching_drops action env rules rules' Hact Hadd)).
    - intros Hnr.
      exact (guard_decide_nonmatching_compiled kvs kvs' env al rules rules' action rt bs bs'
               Hk Hk' Ha Ha' Hr Hr' Ho Ho' Hact' Hrt Hnm Hb Hb' Hnr).
  Qed.

  (* the Decision of guard_eval (finish builtin_oblig): unchanged *)
  Theorem guard_nonmatching_rules_irrelevant strictf kvs kvs' req resolved env al rules rules' action rt bs bs' :
    let policy := VObj kvs in
    let policy' := VObj kvs' in
    let resource := py_or (get_key "resource" env) (VObj []) in
    let strict := if strict_of env then Some true else None in
    build_env strictf req resolved = Some env ->
    has_key "policies" policy = false -> has_key "policies" policy' = false ->
    compiled_algo policy = Some al -> compiled_algo policy' = Some al -> algo_of_string al <> OtherAlgo ->
    py_truthy (get_key "algorithm" policy) = true -> py_truthy (get_key "algorithm" policy') = true ->
    policy_rules policy = Some rules -> policy_rules policy' = Some rules' ->
    forallb is_obj rules = true -> forallb is_obj rules' = true ->
    env_action env = Some action ->
    (if is_null (get_key "action" env) then Some "" else py_str (get_key "action" env)) = Some action ->
    (if is_null (get_key "type" resource) then Some None
     else option_map Some (py_str (get_key "type" resource))) = Some rt ->
    adds_mismatching action resource strict rules rules' ->
    buckets action rt resource strict rules = Ok bs ->
    buckets action rt resource strict rules' = Ok bs' ->
    (* same verdict, effect, obligations, challenge, reported rule, policy id — on either Guard path *)
    gres_sim (fst (guard_eval unit relh builtin_oblig strictf policy' req resolved tt))
             (fst (guard_eval unit relh builtin_oblig strictf policy req resolved tt)) /\
    (* and the very same answer, reason text included, on the compiled path *)
    ((forall w, fst (compiled_decide unit relh policy env tt) <> EErr w) ->
     guard_eval unit relh builtin_oblig strictf policy' req resolved tt
     = guard_eval unit relh builtin_oblig strictf policy req resolved tt).
  Proof.
    cbv zeta. intros Hbe Hk Hk' Ha Ha' Hkn Hex Hex' Hr Hr' Ho Ho' Hact Hact' Hrt Hadd Hb Hb'.
    destruct (guard_decide_mismatching kvs kvs' env al rules rules' action rt bs bs'
                Hk Hk' Ha Ha' Hkn Hex Hex' Hr Hr' Ho Ho' Hact Hact' Hrt Hadd Hb Hb') as [Hs He].
    split.
    - rewrite (guard_eval_gres_of relh strictf (VObj kvs') req resolved env Hbe),
              (guard_eval_gres_of relh strictf (VObj kvs) req resolved env Hbe).
      apply gres_of_sim. exact Hs.
    - intros Hnr. unfold guard_eval. rewrite Hbe, (He Hnr). reflexivity.
  Qed.

  (* with C03's own relation (matching = false), on the compiled path *)
  Theorem guard_nonmatching_rules_irrelevant_compiled oblig strictf kvs kvs' req resolved env al rules rules'
          action rt bs bs' :
    let policy := VObj kvs in
    let policy' := VObj kvs' in
    let resource := py_or (get_key "resource" env) (VObj []) in
    let strict := if strict_of env then Some true else None in
    build_env strictf req resolved = Some env ->
    has_key "policies" policy = false -> has_key "policies" policy' = false ->
    compiled_algo policy = Some al -> compiled_algo policy' = Some al ->
    policy_rules policy = Some rules -> policy_rules policy' = Some rules' ->
    forallb is_obj rules = true -> forallb is_obj rules' = true ->
    (if is_null (get_key "action" env) then Some "" else py_str (get_key "action" env)) = Some action ->
    (if is_null (get_key "type" resource) then Some None
     else option_map Some (py_str (get_key "type" resource))) = Some rt ->
    adds_nonmatching action rt resource strict rules rules' ->
    buckets action rt resource strict rules = Ok bs ->
    buckets action rt resource strict rules' = Ok bs' ->
    (forall rule, In rule rules -> forall w, outcome_of rel rule env <> OErr w) ->
    guard_eval unit relh oblig strictf policy' req resolved tt
    = guard_eval unit relh oblig strictf policy req resolved tt.
  Proof.
    cbv zeta. intros Hbe Hk Hk' Ha Ha' Hr Hr' Ho Ho' Hact' Hrt Hadd Hb Hb' Hnr.
    unfold guard_eval. rewrite Hbe.
    rewrite (guard_decide_nonmatching_compiled kvs kvs' env al rules rules' action rt bs bs'
               Hk Hk' Ha Ha' Hr Hr' Ho Ho' Hact' Hrt Hadd Hb Hb'
               (compiled_no_raise kvs env al rules action rt bs Hk Ha Hr Hact' Hrt Hb Hnr)).
    reflexivity.
  Qed.
End EngineTier.

(* ------------------------------------------------------------------ *)
(* (3) C05 at engine level: the deciding rule's target matches, in the *)
(*     documented sense, in the Guard's type mode                      *)
(* ------------------------------------------------------------------ *)
(* the mode match_resource works in: the caller's flag, else the legacy key of the resource dict *)
Definition effective_strict (sa : option bool) (resource : value) : bool :=
  match sa with Some b => b | None => py_truthy (get_key "__strict_types__" resource) end.

(* match_resource answered "match": the target is {} or all three clauses of C05 hold *)
Definition target_clauses (strict : bool) (rdef resource : value) : Prop :=
  rdef = VObj [] \/
  exists k kvs res, rdef = VObj (k :: kvs) /\ resource = VObj res /\
    type_clause strict (get_key "type" rdef) (get_key "type" resource) = Ok true /\
    id_clause strict (get_key "id" rdef) (get_key "id" resource) = Ok true /\
    (match attrs_of rdef with
     | VObj r_attrs => match attrs_of resource with
                       | VObj res_attrs => attrs_clause strict r_attrs res_attrs
                       | _ => Ok false end
     | _ => Ok true end) = Ok true.

Lemma match_resource_true_clauses rdef resource sa :
  match_resource rdef resource sa = Ok true -> target_clauses (effective_strict sa resource) rdef resource.
Proof.
  unfold match_resource, target_clauses, effective_strict.
  destruct rdef as [| | | | |[|k kvs]|]; try discriminate.
  - intros _. now left.
  - destruct resource as [| | | | |res|]; try discriminate. intros H. right. exists k, kvs, res.
    split; [reflexivity|]. split; [reflexivity|].
    set (strict := match sa with Some b => b | None => py_truthy (get_key "__strict_types__" (VObj res)) end) in *.
    destruct (type_clause strict (get_key "type" (VObj (k :: kvs))) (get_key "type" (VObj res))) as [[|]| | |];
      unfold rbind at 1 in H; cbv beta iota delta [negb] in H; try discriminate H.
    destruct (id_clause strict (get_key "id" (VObj (k :: kvs))) (get_key "id" (VObj res))) as [[|]| | |];
      unfold rbind at 1 in H; cbv beta iota delta [negb] in H; try discriminate H.
    split; [reflexivity|]. split; [reflexivity|]. exact H.
Qed.

(* the clauses, read off C05's characterisation (c05_type_lax / c05_type_strict, c05_id_lax /
   c05_id_strict, c05_attr_each): lax compares str() forms, strict compares typed values *)
Lemma type_clause_true strict r_type res_type strs :
  is_null r_type = false -> strs_of (allowed_of r_type) = Some strs -> ~ In "*" strs ->
  type_clause strict r_type res_type = Ok true ->
  if strict then is_str res_type = true /\ forallb is_str (allowed_of r_type) = true /\
                 existsb (fun x => py_eq x res_type) (allowed_of r_type) = true
  else is_null res_type = false /\ exists t, py_str res_type = Some t /\ In t strs.
Proof.
  intros Hn Hs Hw H. destruct strict.
  - rewrite (type_clause_strict _ _ _ Hn Hs Hw) in H. destruct res_type; try discriminate H.
    destruct (forallb is_str (allowed_of r_type)); [|discriminate H]. injection H as E. auto.
  - rewrite (type_clause_lax _ _ _ Hn Hs Hw) in H. destruct (is_null res_type); [discriminate H|].
    split; [reflexivity|]. destruct (py_str res_type) as [t|]; [|discriminate H]. injection H as E.
    exists t. split; [reflexivity|]. apply mem_str_In. exact E.
Qed.

Lemma id_clause_true strict r_id res_id :
  is_null r_id = false -> id_clause strict r_id res_id = Ok true ->
  is_null res_id = false /\
  (if strict then py_eq res_id r_id = true
   else exists a, py_str res_id = Some a /\ py_str r_id = Some a).
Proof.
  intros Hn H. unfold id_clause in H. rewrite Hn in H.
  destruct (is_null res_id); [discriminate H|]. split; [reflexivity|].
  destruct strict.
  - destruct (nested_nan r_id || nested_nan res_id); [discriminate H|]. injection H as E. exact E.
  - destruct (py_str res_id) as [a|]; [|discriminate H]. destruct (py_str r_id) as [b|]; [|discriminate H].
    injection H as E. apply String.eqb_eq in E. subst b. eauto.
Qed.

Lemma attrs_clause_true strict res_attrs : forall r_attrs,
  attrs_clause strict r_attrs res_attrs = Ok true ->
  forall k v, In (k, v) r_attrs -> exists rv, assoc k res_attrs = Some rv /\ attr_clause strict v rv = Ok true.
Proof.
  induction r_attrs as [|[k0 v0] rest IH]; intros H k v Hin; [destruct Hin|].
  simpl in H. destruct (assoc k0 res_attrs) as [rv|] eqn:A; [|discriminate H].
  destruct (attr_clause strict v0 rv) as [[|]| | |] eqn:C; simpl in H; try discriminate H.
  destruct Hin as [E|Hin].
  - inversion E; subst. eauto.
  - apply IH; assumption.
Qed.

(* the documented table, for a target that matched in mode [strict] *)
Theorem target_clauses_table strict rdef resource :
  target_clauses strict rdef resource ->
  (* type: a named type (no "*") — lax: the request type's str() is listed; strict: the request type is
     a string equal to a listed string *)
  (forall strs, is_null (get_key "type" rdef) = false ->
     strs_of (allowed_of (get_key "type" rdef)) = Some strs -> ~ In "*" strs ->
     if strict then is_str (get_key "type" resource) = true /\
                    forallb is_str (allowed_of (get_key "type" rdef)) = true /\
                    existsb (fun x => py_eq x (get_key "type" resource)) (allowed_of (get_key "type" rdef)) = true
     else is_null (get_key "type" resource) = false /\
          exists t, py_str (get_key "type" resource) = Some t /\ In t strs) /\
  (* id: the request carries an id — lax: equal str() forms; strict: Python == on the typed values *)
  (is_null (get_key "id" rdef) = false ->
     is_null (get_key "id" resource) = false /\
     if strict then py_eq (get_key "id" resource) (get_key "id" rdef) = true
     else exists a, py_str (get_key "id" resource) = Some a /\ py_str (get_key "id" rdef) = Some a) /\
  (* attrs: every listed key is present in the request's attributes and its clause holds *)
  (forall r_attrs k v, attrs_of rdef = VObj r_attrs -> In (k, v) r_attrs ->
     exists res_attrs rv, attrs_of resource = VObj res_attrs /\ assoc k res_attrs = Some rv /\
                          attr_clause strict v rv = Ok true).
Proof.
  intros [->|(k & kvs & res & -> & -> & Ht & Hi & Ha)].
  - split; [|split].
    + intros strs Hn. discriminate Hn.
    + intros Hn. discriminate Hn.
    + intros r_attrs k v E Hin. vm_compute in E. inversion E; subst. destruct Hin.
  - split; [|split].
    + intros strs Hn Hs Hw. exact (type_clause_true strict _ _ strs Hn Hs Hw Ht).
    + intros Hn. exact (id_clause_true strict _ _ Hn Hi).
    + intros r_attrs k0 v E Hin. rewrite E in Ha.
      destruct (attrs_of (VObj res)) as [| | | | |res_attrs|]; try discriminate Ha.
      destruct (attrs_clause_true strict res_attrs r_attrs Ha k0 v Hin) as (rv & A & C).
      exists res_attrs, rv. auto.
Qed.

(* the environment Guard builds: type mode and shape of the resource dict *)
Lemma engine_effective_strict strict req resolved env :
  build_env strict req resolved = Some env ->
  strict_of env = strict /\
  effective_strict (if strict_of env then Some true else None) (py_or (get_key "resource" env) (VObj [])) = strict.
Proof.
  intros Hb. destruct (build_env_mode strict req resolved env Hb) as [Hs Hl]. split; [exact Hs|].
  rewrite Hs. unfold effective_strict. destruct strict; [reflexivity|exact Hl].
Qed.

Lemma build_env_resource strict req resolved env :
  build_env strict req resolved = Some env ->
  exists rattrs, obj_or_empty (get_key "attrs" (get_key "resource" req)) = Some rattrs /\
    py_or (get_key "resource" env) (VObj [])
    = VObj [("type", get_key "type" (get_key "resource" req)); ("id", get_key "id" (get_key "resource" req));
            ("attrs", rattrs)].
Proof.
  unfold build_env.
  destruct (match py_or (get_key "roles" (get_key "subject" req)) (VList []) with VList l => Some (VList l) | _ => None end);
    [|discriminate].
  destruct (obj_or_empty (get_key "attrs" (get_key "subject" req))); [|discriminate].
  destruct (obj_or_empty (get_key "attrs" (get_key "resource" req))) as [rattrs|]; [|discriminate].
  destruct (obj_or_empty (get_key "context" req)); [|discriminate].
  intros H; inversion H; subst env. exists rattrs. split; [reflexivity|]. destruct strict; reflexivity.
Qed.

Section EngineTarget.
  Variable rel : rel_query -> bool.
  Notation relh := (relh_pure rel).

  (* the rule's action list names the request's action, or "*" (c05_actions) *)
  Definition action_matches (rule env : value) : Prop :=
    match env_action env with
    | Some a => match_actions rule a = Ok true
    | None => exists acts, string_actions rule = Some acts /\ In "*" acts   (* a non-string action name *)
    end.

  Lemma applicable_action_matches rule env : applicable rel rule env -> action_matches rule env.
  Proof.
    unfold applicable, outcome_of, rule_outcome, action_matches. destruct rule as [| | | | |kvs|]; try discriminate.
    destruct (env_action env) as [a|].
    - destruct (match_actions (VObj kvs) a) as [[|]| | |]; try discriminate. reflexivity.
    - destruct (string_actions (VObj kvs)) as [acts|]; [|discriminate].
      destruct (existsb (String.eqb "*") acts) eqn:E; [|discriminate].
      intros _. exists acts. split; [reflexivity|]. apply mem_str_In. exact E.
  Qed.

  (* applicable => the target matched, clause by clause, in the mode of the environment *)
  Lemma applicable_target_clauses rule env :
    applicable rel rule env ->
    action_matches rule env /\
    match_resource (rule_resource rule) (py_or (get_key "resource" env) (VObj []))
                   (if strict_of env then Some true else None) = Ok true /\
    target_clauses (effective_strict (if strict_of env then Some true else None)
                                     (py_or (get_key "resource" env) (VObj [])))
                   (rule_resource rule) (py_or (get_key "resource" env) (VObj [])).
  Proof.
    intros Happ. split; [exact (applicable_action_matches rule env Happ)|].
    pose proof (applicable_target_matches rel rule env Happ) as Hm. split; [exact Hm|].
    exact (match_resource_true_clauses _ _ _ Hm).
  Qed.

  (* a Decision's reported rule: a rule of the policy with that id whose action matches and whose
     resource target matches the request's resource by match_resource in the Guard's type mode — hence
     (target_clauses_table) by the documented type / id / attrs table, lax or strict *)
  Theorem guard_target_semantics strict kvs req resolved d s oblig :
    tree_ok (VObj kvs) ->
    guard_eval unit relh oblig strict (VObj kvs) req resolved tt = (GDecision d, tt) ->
    d_rule_id d = Some s -> (has_key "policies" (VObj kvs) = true -> s <> "") ->
    exists env rule,
      build_env strict req resolved = Some env /\
      In rule (all_rules (VObj kvs)) /\ rule_id rule = VStr s /\ applicable rel rule env /\
      action_matches rule env /\
      match_resource (rule_resource rule) (py_or (get_key "resource" env) (VObj []))
                     (if strict then Some true else None) = Ok true /\
      target_clauses strict (rule_resource rule) (py_or (get_key "resource" env) (VObj [])).
  Proof.
    intros Ht H Hs Hne.
    destruct (rule_id_truthful rel strict kvs req resolved d s oblig Ht H Hs Hne)
      as (env & rule & eff & Hb & Hin & Happ & Hid & _).
    destruct (applicable_target_clauses rule env Happ) as (Ha & Hm & Hc).
    destruct (engine_effective_strict strict req resolved env Hb) as [Hso He].
    rewrite He in Hc. rewrite Hso in Hm.
    exists env, rule. repeat (split; [assumption|]). exact Hc.
  Qed.

  (* read the other way: a rule id all of whose bearers mismatch the request's resource is never reported *)
  Corollary guard_mismatching_rule_never_decides strict kvs req resolved d s oblig env :
    tree_ok (VObj kvs) ->
    guard_eval unit relh oblig strict (VObj kvs) req resolved tt = (GDecision d, tt) ->
    build_env strict req resolved = Some env ->
    (has_key "policies" (VObj kvs) = true -> s <> "") ->
    (forall rule, In rule (all_rules (VObj kvs)) -> rule_id rule = VStr s ->
       match_resource (rule_resource rule) (py_or (get_key "resource" env) (VObj []))
                      (if strict then Some true else None) <> Ok true) ->
    d_rule_id d <> Some s.
  Proof.
    intros Ht H Hb Hne Hmis Hs.
    destruct (guard_target_semantics strict kvs req resolved d s oblig Ht H Hs Hne)
      as (env' & rule & Hb' & Hin & Hid & _ & _ & Hm & _).
    rewrite Hb in Hb'. inversion Hb'; subst env'. exact (Hmis rule Hin Hid Hm).
  Qed.
End EngineTarget.

(* ------------------------------------------------------------------ *)
(* (4) the same at every site of a history on the cached engines       *)
(* ------------------------------------------------------------------ *)
Section Through3.
  Variable rel : rel_query -> bool.
  Notation relh := (relh_pure rel).
  Variable T : Type.
  Variable tag : value -> T.
  Variable teqb : T -> T -> bool.
  Hypothesis teqb_eq : forall a b, teqb a b = true <-> a = b.
  Variable M : cache_impl T.
  Hypothesis M_contract : contract T teqb M.
  Variable copying : bool.
  Variables g1 g2 : gcfg.
  Variable h : list hop.
  Hypothesis H_tag : tag_inj T tag (policies_all g1 g2 h).
  Hypothesis H_safe : forall e, In e (envs_all g1 g2 h) -> key_safe e = true.

  Notation outs := (snd (run_cached unit relh T tag canon builtin_both M copying h (init unit T M g1 g2 tt))).

  (* (1) through the cache: whatever is answered at a site — hit or miss, Decision, exception or
     out-of-domain — while the guard holds a single policy is the gate applied to the reference
     evaluation of the most specific matching tier (compiled path), resp. to the interpreter's
     evaluation of the whole policy (fallback path) *)
  Theorem single_is_tier_reference_cached pre w req post hit o kvs env al rules action rt bs :
    let policy := VObj kvs in
    let resource := py_or (get_key "resource" env) (VObj []) in
    let strict := if strict_of env then Some true else None in
    h = pre ++ HEval w req :: post ->
    nth_error outs (evals_in pre) = Some (hit, o) ->
    policy_at w pre g1 g2 = policy ->
    build_env (guard_strict w g1 g2) req None = Some env ->
    has_key "policies" policy = false ->
    compiled_algo policy = Some al -> algo_of_string al <> OtherAlgo ->
    policy_rules policy = Some rules -> forallb is_obj rules = true ->
    env_action env = Some action ->
    (if is_null (get_key "action" env) then Some "" else py_str (get_key "action" env)) = Some action ->
    (if is_null (get_key "type" resource) then Some None
     else option_map Some (py_str (get_key "type" resource))) = Some rt ->
    buckets action rt resource strict rules = Ok bs ->
    match fst (evaluate unit relh None (tier_policy al rt bs rules) env tt) with
    | EErr _ => o = gres_of (fst (evaluate unit relh None policy env tt)) (get_key "context" env)
    | ref => gres_sim (gres_of ref (get_key "context" env)) o
    end.
  Proof.
    cbv zeta. intros Eh Hn Ek Hbe Hk Ha Hkn Hr Ho Hact Hact' Hrt Hb.
    rewrite (cached_answer_builtin rel T tag teqb teqb_eq M M_contract copying g1 g2 h H_tag H_safe
               pre w req post hit o Eh Hn).
    rewrite Ek.
    exact (guard_eval_single_is_tier_reference rel (guard_strict w g1 g2) kvs req None env al rules action rt bs
             Hbe Hk Ha Hkn Hr Ho Hact Hact' Hrt Hb).
  Qed.

  (* the Decision form, from cached_decision_parts: d = finish (raw decision r, THIS request's context),
     r is the raw decision of the policy held at the site, and r is raw_sim-equal to the tier's reference
     decision (compiled path) or IS the interpreter's decision on the whole policy (fallback path) *)
  Theorem single_tier_decision_cached pre w req post hit d kvs env al rules action rt bs :
    let policy := VObj kvs in
    let resource := py_or (get_key "resource" env) (VObj []) in
    let strict := if strict_of env then Some true else None in
    h = pre ++ HEval w req :: post ->
    nth_error outs (evals_in pre) = Some (hit, GDecision d) ->
    policy_at w pre g1 g2 = policy ->
    build_env (guard_strict w g1 g2) req None = Some env ->
    has_key "policies" policy = false ->
    compiled_algo policy = Some al -> algo_of_string al <> OtherAlgo ->
    policy_rules policy = Some rules -> forallb is_obj rules = true ->
    env_action env = Some action ->
    (if is_null (get_key "action" env) then Some "" else py_str (get_key "action" env)) = Some action ->
    (if is_null (get_key "type" resource) then Some None
     else option_map Some (py_str (get_key "type" resource))) = Some rt ->
    buckets action rt resource strict rules = Ok bs ->
    exists k r,
      get_key "context" env = VObj k /\ guard_decide unit relh policy env tt = (ERaw r, tt) /\
      d = finish builtin_oblig r (VObj k) /\
      match fst (evaluate unit relh None (tier_policy al rt bs rules) env tt) with
      | ERaw r0 => raw_sim r0 r /\ decision_sim (finish builtin_oblig r0 (VObj k)) d
      | EErr _ => fst (evaluate unit relh None policy env tt) = ERaw r
      | EOod => False
      end.
  Proof.
    cbv zeta. intros Eh Hn Ek Hbe Hk Ha Hkn Hr Ho Hact Hact' Hrt Hb.
    destruct (cached_decision_parts rel T tag teqb teqb_eq M M_contract copying g1 g2 h H_tag H_safe
                pre w req post hit d Eh Hn) as (env' & k & r & Hbe' & Hctx & Hg & Hd).
    rewrite Hbe in Hbe'. inversion Hbe'; subst env'. clear Hbe'. rewrite Ek in Hg.
    exists k, r. split; [exact Hctx|]. split; [exact Hg|]. split; [exact Hd|].
    destruct (guard_single_is_tier_reference rel kvs env al rules action rt bs Hk Ha Hkn Hr Ho Hact Hact' Hrt Hb)
      as [_ H].
    rewrite Hg in H. change (fst (ERaw r, tt)) with (ERaw r) in H.
    destruct (fst (evaluate unit relh None (tier_policy al rt bs rules) env tt)) as [r0|w0|];
      cbv beta iota in H |- *.
    - destruct H as [Hs _]. inversion Hs as [a b Hab| |]; subst.
      split; [exact Hab|]. apply finish_sim. exact Hab.
    - symmetry. exact H.
    - destruct H as [Hs _]. inversion Hs.
  Qed.

  (* (2) through the cache: the answer at a site where the guard holds the policy WITH the rules whose
     target mismatches the request is (up to the reason text on the fallback path; exactly on the compiled
     path) what a guard holding the policy WITHOUT them answers, and vice versa *)
  Theorem nonmatching_rules_irrelevant_cached pre w req post hit o kvs kvs' env al rules rules' action rt bs bs' :
    let policy := VObj kvs in
    let policy' := VObj kvs' in
    let resource := py_or (get_key "resource" env) (VObj []) in
    let strict := if strict_of env then Some true else None in
    h = pre ++ HEval w req :: post ->
    nth_error outs (evals_in pre) = Some (hit, o) ->
    build_env (guard_strict w g1 g2) req None = Some env ->
    has_key "policies" policy = false -> has_key "policies" policy' = false ->
    compiled_algo policy = Some al -> compiled_algo policy' = Some al -> algo_of_string al <> OtherAlgo ->
    py_truthy (get_key "algorithm" policy) = true -> py_truthy (get_key "algorithm" policy') = true ->
    policy_rules policy = Some rules -> policy_rules policy' = Some rules' ->
    forallb is_obj rules = true -> forallb is_obj rules' = true ->
    env_action env = Some action ->
    (if is_null (get_key "action" env) then Some "" else py_str (get_key "action" env)) = Some action ->
    (if is_null (get_key "type" resource) then Some None
     else option_map Some (py_str (get_key "type" resource))) = Some rt ->
    adds_mismatching action resource strict rules rules' ->
    buckets action rt resource strict rules = Ok bs ->
    buckets action rt resource strict rules' = Ok bs' ->
    (policy_at w pre g1 g2 = policy' ->
       gres_sim o (fst (guard_eval unit relh builtin_oblig (guard_strict w g1 g2) policy req None tt)) /\
       ((forall w0, fst (compiled_decide unit relh policy env tt) <> EErr w0) ->
        o = fst (guard_eval unit relh builtin_oblig (guard_strict w g1 g2) policy req None tt))) /\
    (policy_at w pre g1 g2 = policy ->
       gres_sim o (fst (guard_eval unit relh builtin_oblig (guard_strict w g1 g2) policy' req None tt)) /\
       ((forall w0, fst (compiled_decide unit relh policy env tt) <> EErr w0) ->
        o = fst (guard_eval unit relh builtin_oblig (guard_strict w g1 g2) policy' req None tt))).
  Proof.
    cbv zeta. intros Eh Hn Hbe Hk Hk' Ha Ha' Hkn Hex Hex' Hr Hr' Ho Ho' Hact Hact' Hrt Hadd Hb Hb'.
    pose proof (cached_answer_builtin rel T tag teqb teqb_eq M M_contract copying g1 g2 h H_tag H_safe
                  pre w req post hit o Eh Hn) as Eo.
    destruct (guard_nonmatching_rules_irrelevant rel (guard_strict w g1 g2) kvs kvs' req None env al rules rules'
                action rt bs bs' Hbe Hk Hk' Ha Ha' Hkn Hex Hex' Hr Hr' Ho Ho' Hact Hact' Hrt Hadd Hb Hb')
      as [Hs He].
    split; intros Ek; rewrite Ek in Eo; rewrite Eo.
    - split; [exact Hs|]. intros Hnr. rewrite (He Hnr). reflexivity.
    - split; [apply gres_sim_sym; exact Hs|]. intros Hnr. rewrite (He Hnr). reflexivity.
  Qed.

  (* (3) through the cache *)
  Hypothesis H_tree : forall p, In p (policies_all g1 g2 h) -> tree_ok p.

  Theorem target_semantics_cached pre w req post hit d s :
    h = pre ++ HEval w req :: post ->
    nth_error outs (evals_in pre) = Some (hit, GDecision d) ->
    d_rule_id d = Some s ->
    (has_key "policies" (policy_at w pre g1 g2) = true -> s <> "") ->
    exists env rule,
      build_env (guard_strict w g1 g2) req None = Some env /\
      In rule (all_rules (policy_at w pre g1 g2)) /\ rule_id rule = VStr s /\ applicable rel rule env /\
      action_matches rule env /\
      match_resource (rule_resource rule) (py_or (get_key "resource" env) (VObj []))
                     (if guard_strict w g1 g2 then Some true else None) = Ok true /\
      target_clauses (guard_strict w g1 g2) (rule_resource rule) (py_or (get_key "resource" env) (VObj [])).
  Proof.
    intros Eh Hn Hs Hne.
    destruct (cached_decision_builtin rel T tag teqb teqb_eq M M_contract copying g1 g2 h H_tag H_safe
                pre w req post hit d Eh Hn) as (kvs & Ek & G).
    assert (Htk : tree_ok (VObj kvs)).
    { rewrite <- Ek. apply H_tree. rewrite Eh. apply policy_at_in. }
    rewrite Ek in *.
    exact (guard_target_semantics rel (guard_strict w g1 g2) kvs req None d s builtin_oblig Htk G Hs Hne).
  Qed.

  Theorem mismatching_rule_never_decides_cached pre w req post hit d s env :
    h = pre ++ HEval w req :: post ->
    nth_error outs (evals_in pre) = Some (hit, GDecision d) ->
    build_env (guard_strict w g1 g2) req None = Some env ->
    (has_key "policies" (policy_at w pre g1 g2) = true -> s <> "") ->
    (forall rule, In rule (all_rules (policy_at w pre g1 g2)) -> rule_id rule = VStr s ->
       match_resource (rule_resource rule) (py_or (get_key "resource" env) (VObj []))
                      (if guard_strict w g1 g2 then Some true else None) <> Ok true) ->
    d_rule_id d <> Some s.
  Proof.
    intros Eh Hn Hb Hne Hmis Hs.
    destruct (target_semantics_cached pre w req post hit d s Eh Hn Hs Hne)
      as (env' & rule & Hb' & Hin & Hid & _ & _ & Hm & _).
    rewrite Hb in Hb'. inversion Hb'; subst env'. exact (Hmis rule Hin Hid Hm).
  Qed.
End Through3.

(* ------------------------------------------------------------------ *)
(* (5) non-vacuity                                                     *)
(* ------------------------------------------------------------------ *)
Definition mk_rule (id eff act : string) (res : list (string * value)) : value :=
  VObj [("id", vs id); ("effect", vs eff); ("actions", VList [vs act]); ("resource", VObj res)].
Definition rule_p7 : value := mk_rule "p7" "permit" "read" [("type", vs "doc"); ("id", vs "7")].  (* id-specific *)
Definition rule_d : value := mk_rule "d" "deny" "read" [("type", vs "doc")].                       (* type-only *)
Definition rule_img : value := mk_rule "i" "deny" "read" [("type", vs "img")].                     (* other type *)
Definition rule_w : value := mk_rule "w" "deny" "write" [("type", vs "doc")].                      (* other action *)
Definition rule_n7 : value := mk_rule "n7" "permit" "read" [("type", vs "doc"); ("id", vi 7)].    (* id = the number 7 *)
(* deny-overrides over [permit doc/7 ; deny doc]: the interpreter over all rules denies, the compiled
   function evaluates the id-specific tier only and permits *)
Definition tier_kvs : list (string * value) :=
  [("algorithm", vs "deny-overrides"); ("rules", VList [rule_p7; rule_d])].
(* the same with two rules whose target does not match a read of doc/7 *)
Definition tier_kvs' : list (string * value) :=
  [("algorithm", vs "deny-overrides"); ("rules", VList [rule_img; rule_p7; rule_w; rule_d])].
Definition num_kvs : list (string * value) :=
  [("algorithm", vs "deny-overrides"); ("rules", VList [rule_n7; rule_d])].
Definition treq : value := mk_req [vs "a"] [] [].            (* read doc/"7" *)
Definition tenv : value := match build_env false treq None with Some e => e | None => VNull end.
Definition tenv_s : value := match build_env true treq None with Some e => e | None => VNull end.
Definition tbs : list (nat * value) := [(0%nat, rule_p7); (2%nat, rule_d)].
Definition raw_p7 : raw :=
  {| r_decision := "permit"; r_reason := "matched"; r_rule_id := Some "p7"; r_obligations := []; r_policy_id := None |}.
Definition raw_d : raw :=
  {| r_decision := "deny"; r_reason := "explicit_deny"; r_rule_id := Some "d"; r_obligations := []; r_policy_id := None |}.
Notation relh0 := (relh_pure (fun _ => false)).
Ltac vc := vm_compute; reflexivity.

(* the tier decides: Guard permits by the id-specific rule although the interpreter over all rules denies *)
Example t_tier_decides :
  fst (guard_decide unit relh0 (VObj tier_kvs) tenv tt) = ERaw raw_p7 /\
  fst (evaluate unit relh0 None (VObj tier_kvs) tenv tt) = ERaw raw_d /\
  fst (evaluate unit relh0 None (tier_policy "deny-overrides" (Some "doc") tbs [rule_p7; rule_d]) tenv tt)
  = ERaw raw_p7 /\
  tier_rules (Some "doc") (best_tier tbs) [rule_p7; rule_d] = [rule_p7].
Proof. split; [vc|]. split; [vc|]. split; vc. Qed.

(* the hypotheses of guard_single_is_tier_reference hold of that policy and request *)
Record c03_hyps (kvs : list (string * value)) (env : value) (al : string) (rules : list value)
       (action : string) (rt : option string) (bs : list (nat * value)) : Prop := {
  hy_single : has_key "policies" (VObj kvs) = false;
  hy_algo : compiled_algo (VObj kvs) = Some al;
  hy_known : algo_of_string al <> OtherAlgo;
  hy_explicit : py_truthy (get_key "algorithm" (VObj kvs)) = true;
  hy_rules : policy_rules (VObj kvs) = Some rules;
  hy_objs : forallb is_obj rules = true;
  hy_action : env_action env = Some action;
  hy_action' : (if is_null (get_key "action" env) then Some "" else py_str (get_key "action" env)) = Some action;
  hy_rt : (if is_null (get_key "type" (py_or (get_key "resource" env) (VObj []))) then Some None
           else option_map Some (py_str (get_key "type" (py_or (get_key "resource" env) (VObj []))))) = Some rt;
  hy_buckets : buckets action rt (py_or (get_key "resource" env) (VObj []))
                       (if strict_of env then Some true else None) rules = Ok bs
}.

Example t_hypotheses :
  build_env false treq None = Some tenv /\
  c03_hyps tier_kvs tenv "deny-overrides" [rule_p7; rule_d] "read" (Some "doc") tbs /\
  c03_hyps tier_kvs' tenv "deny-overrides" [rule_img; rule_p7; rule_w; rule_d] "read" (Some "doc") tbs.
Proof.
  split; [vc|]. split; constructor; try vc; vm_compute; discriminate.
Qed.

(* the theorem applied: Guard's raw decision is eres_sim-equal to the reference evaluation of tier 0 *)
Example t_guard_is_tier_reference :
  eres_sim (fst (evaluate unit relh0 None (tier_policy "deny-overrides" (Some "doc") tbs [rule_p7; rule_d]) tenv tt))
           (fst (guard_decide unit relh0 (VObj tier_kvs) tenv tt)).
Proof.
  destruct t_hypotheses as (_ & H & _). destruct H.
  destruct (guard_single_is_tier_reference (fun _ => false) tier_kvs tenv "deny-overrides" [rule_p7; rule_d]
              "read" (Some "doc") tbs hy_single0 hy_algo0 hy_known0 hy_rules0 hy_objs0 hy_action0 hy_action'0
              hy_rt0 hy_buckets0) as [_ Hm].
  destruct t_tier_decides as (_ & _ & E & _). rewrite E in Hm |- *. apply Hm.
Qed.

(* rule_img and rule_w mismatch the request (other type; other action): they may be added *)
Example t_adds :
  adds_mismatching "read" (py_or (get_key "resource" tenv) (VObj [])) (if strict_of tenv then Some true else None)
                   [rule_p7; rule_d] [rule_img; rule_p7; rule_w; rule_d].
Proof.
  apply am_add; [vc|]. apply am_keep. apply am_add; [vc|]. apply am_keep. apply am_nil.
Qed.

Example t_nonmatching_irrelevant :
  guard_eval unit relh0 builtin_oblig false (VObj tier_kvs') treq None tt
  = guard_eval unit relh0 builtin_oblig false (VObj tier_kvs) treq None tt.
Proof.
  destruct t_hypotheses as (Hb & H & H'). destruct H, H'.
  apply (guard_nonmatching_rules_irrelevant (fun _ => false) false tier_kvs tier_kvs' treq None tenv "deny-overrides"
           [rule_p7; rule_d] [rule_img; rule_p7; rule_w; rule_d] "read" (Some "doc") tbs tbs
           Hb hy_single0 hy_single1 hy_algo0 hy_algo1 hy_known0 hy_explicit0 hy_explicit1 hy_rules0 hy_rules1
           hy_objs0 hy_objs1 hy_action0 hy_action'0 hy_rt0 t_adds hy_buckets0 hy_buckets1).
  intros w. vm_compute. discriminate.
Qed.

(* a history with hits on DefaultInMemoryCache(4): evaluate (miss); the same (HIT); set_policy(the policy
   with the two mismatching rules); the same request (miss); again (HIT) — all permit by p7 *)
Definition tg : gcfg := gc false (VObj tier_kvs) None.
Definition th : list hop :=
  [HEval false treq; HEval false treq; HSetPolicy false (VObj tier_kvs'); HEval false treq; HEval false treq].
Definition touts : list (bool * gres) := run_faithful (lru_cache value veqb 4) false tg tg th.

Example t_answers :
  map summary touts =
  [(false, Some (true, Some "p7", "matched")); (true, Some (true, Some "p7", "matched"));
   (false, Some (true, Some "p7", "matched")); (true, Some (true, Some "p7", "matched"))].
Proof. vc. Qed.

Lemma tree_ok_rules kvs s rules :
  has_key "policies" (VObj kvs) = false ->
  get_key "algorithm" (VObj kvs) = VStr s -> is_ascii_str s = true -> algo_of_string (str_lower s) <> OtherAlgo ->
  policy_rules (VObj kvs) = Some rules ->
  Forall (fun rule => rule_effect rule = Some "permit" \/ rule_effect rule = Some "deny") rules ->
  tree_ok (VObj kvs).
Proof.
  intros Hk Ha Hs Hal Hr Hf. apply (tree_ok_single kvs s Hk Ha Hs Hal).
  intros rule eff Hin He. unfold own_rules in Hin. rewrite Hr in Hin.
  rewrite Forall_forall in Hf. destruct (Hf rule Hin) as [E|E]; rewrite E in He; inversion He; auto.
Qed.

Example t_trees : tree_ok (VObj tier_kvs) /\ tree_ok (VObj tier_kvs') /\ tree_ok (VObj num_kvs).
Proof.
  split; [|split].
  - apply (tree_ok_rules _ "deny-overrides" [rule_p7; rule_d]); try reflexivity; [vm_compute; discriminate|].
    repeat constructor; vc.
  - apply (tree_ok_rules _ "deny-overrides" [rule_img; rule_p7; rule_w; rule_d]); try reflexivity;
      [vm_compute; discriminate|].
    constructor; [right; vc|]. constructor; [left; vc|]. constructor; [right; vc|]. constructor; [right; vc|].
    constructor.
  - apply (tree_ok_rules _ "deny-overrides" [rule_n7; rule_d]); try reflexivity; [vm_compute; discriminate|].
    constructor; [left; vc|]. constructor; [right; vc|]. constructor.
Qed.

Example t_history_hypotheses :
  tag_inj value canon (policies_all tg tg th) /\
  (forall e, In e (envs_all tg tg th) -> key_safe e = true) /\
  (forall p, In p (policies_all tg tg th) -> tree_ok p).
Proof.
  destruct t_trees as (T1 & T2 & _).
  split; [|split].
  - intros p q Hp Hq E.
    assert (D : veqb (canon (VObj tier_kvs)) (canon (VObj tier_kvs')) = false) by vc.
    assert (N : canon (VObj tier_kvs) <> canon (VObj tier_kvs')) by (intros X; apply veqb_eq in X; congruence).
    simpl in Hp, Hq.
    repeat (destruct Hp as [<-|Hp]); repeat (destruct Hq as [<-|Hq]); try reflexivity; try contradiction;
      try (exfalso; apply N; exact E); try (exfalso; apply N; symmetry; exact E).
  - intros e He. vm_compute in He.
    repeat (destruct He as [<-|He]; [vm_compute; reflexivity|]). contradiction.
  - intros p Hp. simpl in Hp. repeat (destruct Hp as [<-|Hp]; [assumption|]). contradiction.
Qed.

(* (1) at the first HIT: what is served is the gate applied to the reference decision of tier 0 *)
Example t_hit_is_tier_reference :
  forall o, nth_error touts 1 = Some (true, o) -> gres_sim (gres_of (ERaw raw_p7) (VObj [])) o.
Proof.
  destruct t_history_hypotheses as (Htag & Hsafe & _).
  destruct t_hypotheses as (Hb & H & _). destruct H.
  intros o Hn.
  pose proof (single_is_tier_reference_cached (fun _ => false) value canon veqb veqb_eq (lru_cache value veqb 4)
                (lru_contract value veqb veqb_eq 4) false tg tg th Htag Hsafe
                [HEval false treq] false treq
                [HSetPolicy false (VObj tier_kvs'); HEval false treq; HEval false treq]
                true o tier_kvs tenv "deny-overrides" [rule_p7; rule_d] "read" (Some "doc") tbs
                eq_refl Hn eq_refl Hb hy_single0 hy_algo0 hy_known0 hy_rules0 hy_objs0 hy_action0 hy_action'0
                hy_rt0 hy_buckets0) as Hm.
  clear Hn.
  destruct t_tier_decides as (_ & _ & E & _). rewrite E in Hm.
  assert (Ec : get_key "context" tenv = VObj []) by vc. rewrite Ec in Hm. exact Hm.
Qed.

(* (2) at the second HIT (the guard then holds the policy with the mismatching rules): what is served is
   what a guard holding the policy without them answers *)
Example t_hit_nonmatching_irrelevant :
  forall o, nth_error touts 3 = Some (true, o) ->
  o = fst (guard_eval unit relh0 builtin_oblig false (VObj tier_kvs) treq None tt).
Proof.
  destruct t_history_hypotheses as (Htag & Hsafe & _).
  destruct t_hypotheses as (Hb & H & H'). destruct H, H'.
  intros o Hn.
  destruct (nonmatching_rules_irrelevant_cached (fun _ => false) value canon veqb veqb_eq (lru_cache value veqb 4)
              (lru_contract value veqb veqb_eq 4) false tg tg th Htag Hsafe
              [HEval false treq; HEval false treq; HSetPolicy false (VObj tier_kvs'); HEval false treq] false treq []
              true o tier_kvs tier_kvs' tenv "deny-overrides"
              [rule_p7; rule_d] [rule_img; rule_p7; rule_w; rule_d] "read" (Some "doc") tbs tbs
              eq_refl Hn Hb hy_single0 hy_single1 hy_algo0 hy_algo1 hy_known0 hy_explicit0 hy_explicit1
              hy_rules0 hy_rules1 hy_objs0 hy_objs1 hy_action0 hy_action'0 hy_rt0 t_adds hy_buckets0 hy_buckets1)
    as [Hadded _].
  clear Hn.
  destruct (Hadded eq_refl) as [_ Heq]. apply Heq. intros w. vm_compute. discriminate.
Qed.

Example t_hits_exist :
  (exists d, nth_error touts 1 = Some (true, GDecision d) /\ d_allowed d = true /\ d_rule_id d = Some "p7") /\
  (exists d, nth_error touts 3 = Some (true, GDecision d) /\ d_allowed d = true /\ d_rule_id d = Some "p7").
Proof. split; vm_compute; eexists; repeat split. Qed.

(* (3) lax vs strict: rule n7 names the id 7 (a number), the request the id "7" (a string).  Lax compares
   str() forms: n7 matches, its tier decides (permit).  Strict compares typed values: n7 mismatches and is
   never the deciding rule; the type-only deny decides.  Two guards (lax, strict) holding that policy and
   SHARING one cache: miss, miss, HIT (lax: permit n7), HIT (strict: deny d) *)
Definition ug1 : gcfg := gc false (VObj num_kvs) None.
Definition ug2 : gcfg := gc true (VObj num_kvs) None.
Definition uh : list hop := [HEval false treq; HEval true treq; HEval false treq; HEval true treq].
Definition uouts : list (bool * gres) := run_faithful (lru_cache value veqb 4) false ug1 ug2 uh.

Example u_answers :
  map summary uouts =
  [(false, Some (true, Some "n7", "matched")); (false, Some (false, Some "d", "explicit_deny"));
   (true, Some (true, Some "n7", "matched")); (true, Some (false, Some "d", "explicit_deny"))].
Proof. vc. Qed.

Example u_modes :
  match_resource (rule_resource rule_n7) (py_or (get_key "resource" tenv) (VObj [])) None = Ok true /\
  match_resource (rule_resource rule_n7) (py_or (get_key "resource" tenv_s) (VObj [])) (Some true) = Ok false.
Proof. split; vc. Qed.

Example u_history_hypotheses :
  tag_inj value canon (policies_all ug1 ug2 uh) /\
  (forall e, In e (envs_all ug1 ug2 uh) -> key_safe e = true) /\
  (forall p, In p (policies_all ug1 ug2 uh) -> tree_ok p).
Proof.
  destruct t_trees as (_ & _ & T3).
  split; [|split].
  - intros p q Hp Hq _. simpl in Hp, Hq.
    repeat (destruct Hp as [<-|Hp]); repeat (destruct Hq as [<-|Hq]); try reflexivity; contradiction.
  - intros e He. vm_compute in He.
    repeat (destruct He as [<-|He]; [vm_compute; reflexivity|]). contradiction.
  - intros p Hp. simpl in Hp. repeat (destruct Hp as [<-|Hp]; [assumption|]). contradiction.
Qed.

(* the strict guard's HIT never reports n7 (mismatching_rule_never_decides_cached), the lax guard's HIT
   reports a rule whose target matched by the lax table (target_semantics_cached) *)
Example u_strict_hit_not_n7 :
  forall d, nth_error uouts 3 = Some (true, GDecision d) -> d_rule_id d <> Some "n7".
Proof.
  destruct u_history_hypotheses as (Htag & Hsafe & Htree).
  intros d Hn.
  apply (mismatching_rule_never_decides_cached (fun _ => false) value canon veqb veqb_eq (lru_cache value veqb 4)
           (lru_contract value veqb veqb_eq 4) false ug1 ug2 uh Htag Hsafe Htree
           [HEval false treq; HEval true treq; HEval false treq] true treq [] true d "n7" tenv_s eq_refl Hn).
  - vc.
  - intros Hk. vm_compute in Hk. discriminate Hk.
  - clear Hn. intros rule Hin Hid. vm_compute in Hin.
    destruct Hin as [<-|[<-|[]]].
    + vm_compute. discriminate.
    + vm_compute in Hid. discriminate Hid.
Qed.

Example u_lax_hit_matches :
  forall d, nth_error uouts 2 = Some (true, GDecision d) -> d_rule_id d = Some "n7" ->
  exists env rule,
    build_env false treq None = Some env /\ In rule (all_rules (VObj num_kvs)) /\ rule_id rule = VStr "n7" /\
    target_clauses false (rule_resource rule) (py_or (get_key "resource" env) (VObj [])).
Proof.
  destruct u_history_hypotheses as (Htag & Hsafe & Htree).
  intros d Hn Hs.
  destruct (target_semantics_cached (fun _ => false) value canon veqb veqb_eq (lru_cache value veqb 4)
              (lru_contract value veqb veqb_eq 4) false ug1 ug2 uh Htag Hsafe Htree
              [HEval false treq; HEval true treq] false treq [HEval true treq] true d "n7" eq_refl Hn Hs
              (fun Hk => ltac:(vm_compute in Hk; discriminate Hk)))
    as (env & rule & Hb & Hin & Hid & _ & _ & _ & Hc).
  exists env, rule. repeat (split; [assumption|]). exact Hc.
Qed.

Example u_hits_exist :
  (exists d, nth_error uouts 2 = Some (true, GDecision d) /\ d_rule_id d = Some "n7" /\ d_allowed d = true) /\
  (exists d, nth_error uouts 3 = Some (true, GDecision d) /\ d_rule_id d = Some "d" /\ d_allowed d = false).
Proof. split; vm_compute; eexists; repeat split. Qed.
