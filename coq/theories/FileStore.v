(* FileStore.v — model of rbacx.store.file_store (atomic_write, FilePolicySource)
   and of the part of rbacx.store.policy_loader that load() uses
   (src/rbacx/store/file_store.py:13-110, src/rbacx/store/policy_loader.py:10-77).
   Executable definitions only.

   The world: ONE directory, a finite map  name -> (content bytes, mtime_ns);
   st_size is the length of the content.  A binding list whose first binding of
   a name wins; [remove] deletes every binding of a name, [bind] puts the new
   binding in front, so the operations keep "at most one binding per name".

   Every step of atomic_write has an [outcome] supplied by a script:
     Done  – the step completes,
     Fail  – the step raises (an OSError, say): the Python exception then travels
             through the with / try-finally structure exactly as in the code,
     Crash – the process dies before the step has any effect: nothing runs
             afterwards, not even the finally clause. *)
From Coq Require Import List Bool String Ascii ZArith.
From Rbacx Require Import Value.
Import ListNotations.
Local Open Scope string_scope.

Definition bytes := string.

Record file := mkFile { f_data : bytes; f_mtime : Z }.
Definition fsys := list (string * file).

Fixpoint lookup (p : string) (fs : fsys) : option file :=
  match fs with
  | [] => None
  | (q, f) :: r => if String.eqb p q then Some f else lookup p r
  end.
Fixpoint remove (p : string) (fs : fsys) : fsys :=
  match fs with
  | [] => []
  | (q, f) :: r => if String.eqb p q then remove p r else (q, f) :: remove p r
  end.
Definition bind (p : string) (f : file) (fs : fsys) : fsys := (p, f) :: remove p fs.
Definition listing (fs : fsys) : list string := map fst fs.

Fixpoint stake (n : nat) (s : string) : string :=
  match n, s with
  | S n', String c r => String c (stake n' r)
  | _, _ => EmptyString
  end.
Fixpoint sdrop (n : nat) (s : string) : string :=
  match n, s with
  | S n', String c r => sdrop n' r
  | _, _ => s
  end.

(* ------------------------------------------------------------------ *)
(* atomic_write                                                        *)
(* ------------------------------------------------------------------ *)
Inductive outcome := Done | Fail | Crash.
Inductive ev := EMkstemp | EFdopen | EPiece | EClose | EReplace | EUnlink.
Inductive result :=
| Returned                (* atomic_write returned None *)
| Raised (at_step : ev)   (* the exception of this step is the one that leaves atomic_write *)
| Crashed.                (* the process died inside atomic_write *)
Definition trace := list (ev * fsys).   (* completed steps, each with the file system right after it *)

(* One outcome per step of the code.  f.write(data) hands the bytes to the
   buffered file object; how they reach the disk is the I/O layer's business:
   [k_pieces] lists the sizes of the pieces that reach the temp file one after
   the other while write() runs, each with its own outcome; what is left is
   flushed by close() (the implicit __exit__ of the with block). *)
Record script := mkScript {
  k_mkstemp : outcome;
  k_fdopen  : outcome;
  k_pieces  : list (nat * outcome);
  k_close   : outcome;
  k_replace : outcome;
  k_unlink  : outcome }.

Definition tmp_prefix : string := ".rbacx.tmp.".

(* tempfile.mkstemp(prefix=".rbacx.tmp.", dir=directory): candidate random
   names are tried in turn (O_CREAT|O_EXCL) until one does not exist; when they
   run out it raises FileExistsError. *)
Fixpoint pick_name (cands : list string) (fs : fsys) : option string :=
  match cands with
  | [] => None
  | c :: r => match lookup (tmp_prefix ++ c) fs with
              | None => Some (tmp_prefix ++ c)
              | Some _ => pick_name r fs
              end
  end.

Definition append_to (p : string) (s : bytes) (now : Z) (fs : fsys) : fsys :=
  match lookup p fs with
  | Some f => bind p (mkFile (f_data f ++ s) now) fs
  | None => fs
  end.

(* os.replace(src, dst): None = FileNotFoundError (src missing) *)
Definition rename (src dst : string) (fs : fsys) : option fsys :=
  match lookup src fs with
  | Some f => Some (bind dst f (remove src fs))
  | None => None
  end.

Inductive wres := WOk | WRaised | WCrashed.

(* f.write(data): returns what happened, the bytes still buffered, the file
   system, and the steps completed. *)
Fixpoint write_pieces (tmp : string) (now : Z) (rest : bytes) (ps : list (nat * outcome)) (fs : fsys)
  : wres * bytes * fsys * trace :=
  match ps with
  | [] => (WOk, rest, fs, [])
  | (_, Crash) :: _ => (WCrashed, rest, fs, [])
  | (_, Fail) :: _ => (WRaised, rest, fs, [])
  | (n, Done) :: ps' =>
      let fs' := append_to tmp (stake n rest) now fs in
      match write_pieces tmp now (sdrop n rest) ps' fs' with
      | (w, rest', fs'', tr) => (w, rest', fs'', (EPiece, fs') :: tr)
      end
  end.

Inductive body_res := BOk | BRaised (e : ev) | BCrashed.

(* the body of the try block:
       with os.fdopen(fd, "w", encoding=encoding) as f:
           f.write(data)
       os.replace(tmp, path)                                           *)
Definition body (tmp path : string) (data : bytes) (now : Z) (sc : script) (fs1 : fsys)
  : body_res * fsys * trace :=
  match k_fdopen sc with
  | Crash => (BCrashed, fs1, [])
  | Fail => (BRaised EFdopen, fs1, [])          (* the descriptor leaks; nothing else happens *)
  | Done =>
    match write_pieces tmp now data (k_pieces sc) fs1 with
    | (WCrashed, _, fs2, trw) => (BCrashed, fs2, (EFdopen, fs1) :: trw)
    | (w, rest, fs2, trw) =>
      (* leaving the with block — normally or by the exception of write() — closes f *)
      match k_close sc with
      | Crash => (BCrashed, fs2, (EFdopen, fs1) :: trw)
      | Fail => (BRaised EClose, fs2, (EFdopen, fs1) :: trw)   (* replaces a pending write error *)
      | Done =>
        let fs3 := match w with WOk => append_to tmp rest now fs2 | _ => fs2 end in
        let tr3 : trace := ((EFdopen, fs1) :: trw ++ [(EClose, fs3)])%list in
        match w with
        | WOk =>
          match k_replace sc with
          | Crash => (BCrashed, fs3, tr3)
          | Fail => (BRaised EReplace, fs3, tr3)
          | Done =>
            match rename tmp path fs3 with
            | None => (BRaised EReplace, fs3, tr3)
            | Some fs4 => (BOk, fs4, (tr3 ++ [(EReplace, fs4)])%list)
            end
          end
        | _ => (BRaised EPiece, fs3, tr3)        (* the write error goes on to the finally clause *)
        end
      end
    end
  end.

Record wresult := mkRes { r_out : result; r_trace : trace; r_fs : fsys }.

(* finally: try: os.unlink(tmp) except FileNotFoundError: pass
   [remove] of a missing name is the identity: that is the swallowed
   FileNotFoundError.  A Fail here is any other OSError: it replaces whatever
   exception was on its way, and the temp file (if still there) stays. *)
Definition finally_unlink (tmp : string) (ku : outcome) (b : body_res) (fs : fsys) (tr : trace) : wresult :=
  match b with
  | BCrashed => mkRes Crashed tr fs
  | _ =>
    match ku with
    | Crash => mkRes Crashed tr fs
    | Fail => mkRes (Raised EUnlink) tr fs
    | Done =>
      let fs' := remove tmp fs in
      mkRes (match b with BRaised e => Raised e | _ => Returned end) (tr ++ [(EUnlink, fs')])%list fs'
    end
  end.

Definition atomic_write (fs : fsys) (path : string) (data : bytes) (now : Z) (cands : list string) (sc : script)
  : wresult :=
  match k_mkstemp sc with
  | Crash => mkRes Crashed [] fs
  | Fail => mkRes (Raised EMkstemp) [] fs
  | Done =>
    match pick_name cands fs with
    | None => mkRes (Raised EMkstemp) [] fs
    | Some tmp =>
      let fs1 := bind tmp (mkFile "" now) fs in
      match body tmp path data now sc fs1 with
      | (b, fs2, tr) => finally_unlink tmp (k_unlink sc) b fs2 ((EMkstemp, fs1) :: tr)
      end
    end
  end.

Definition is_replace (e : ev) : bool := match e with EReplace => true | _ => false end.
Definition has_replace (tr : trace) : bool := existsb (fun x => is_replace (fst x)) tr.
Definition replaced (r : wresult) : bool := has_replace (r_trace r).

(* ------------------------------------------------------------------ *)
(* what the rest of the world can do to the file between two calls    *)
(* ------------------------------------------------------------------ *)
Inductive wop :=
| WNone
| WSet (c : bytes) (m : Z)      (* any (re)write in place or re-creation: content c, mtime m *)
| WTouch (m : Z)                (* os.utime: mtime only *)
| WDelete
| WAtomic (data : bytes) (now : Z) (cands : list string) (sc : script).   (* atomic_write, with its faults *)

Definition apply_wop (path : string) (w : wop) (fs : fsys) : fsys :=
  match w with
  | WNone => fs
  | WSet c m => bind path (mkFile c m) fs
  | WTouch m => match lookup path fs with
                | Some f => bind path (mkFile (f_data f) m) fs
                | None => fs
                end
  | WDelete => remove path fs
  | WAtomic data now cands sc => r_fs (atomic_write fs path data now cands sc)
  end.

(* ------------------------------------------------------------------ *)
(* policy_loader: format by extension                                  *)
(* ------------------------------------------------------------------ *)
Inductive fmt := FJson | FYaml.

(* _detect_format(filename=path) with fmt=None, content_type=None *)
Definition detect_format (filename : string) : fmt :=
  if String.eqb filename "" then FJson
  else
    let fn := str_lower filename in
    if str_suffix ".yaml" fn || str_suffix ".yml" fn then FYaml
    else if str_suffix ".json" fn then FJson
    else FJson.

(* ------------------------------------------------------------------ *)
(* FilePolicySource                                                    *)
(* ------------------------------------------------------------------ *)
Section Source.
  Variable H : Type.                            (* sha256 hex digests *)
  Variable h : bytes -> H.                      (* hashlib.sha256(content).hexdigest() *)
  Variable json_loads : bytes -> res value.     (* decode as UTF-8 (text mode) + json.loads *)
  Variable yaml_safe_load : bytes -> res value. (* decode as UTF-8 (text mode) + yaml.safe_load *)
  Variable schema_ok : value -> bool.           (* jsonschema.validate against policy.schema.json *)

  Record config := mkCfg { c_path : string; c_incl_mtime : bool; c_validate : bool }.

  (* _cached_stat_sig, _cached_sha *)
  Record source := mkSrc { csig : option (nat * Z); csha : option H }.
  Definition fresh : source := mkSrc None None.

  Definition sig_eqb (a b : nat * Z) : bool := Nat.eqb (fst a) (fst b) && Z.eqb (snd a) (snd b).

  (* _stat_sig: None = FileNotFoundError *)
  Definition stat_sig (p : string) (fs : fsys) : option (nat * Z) :=
    match lookup p fs with
    | Some f => Some (String.length (f_data f), f_mtime f)
    | None => None
    end.

  Inductive tagres :=
  | TagNone                          (* etag() returned None *)
  | Tag (sha : H) (mt : option Z)    (* sha, or f"{sha}:{mtime_ns}" *)
  | TagRaise.                        (* FileNotFoundError out of _hash_file *)

  Definition mk_tag (cfg : config) (sha : H) (sg : nat * Z) : tagres :=
    if c_incl_mtime cfg then Tag sha (Some (snd sg)) else Tag sha None.

  (* etag() = _ensure_content_sha() + formatting.  [mid] is what the rest of the
     world does to the file between the os.stat of _stat_sig and the open of
     _hash_file (WNone in a sequential history). *)
  Definition etag_call (cfg : config) (mid : wop) (fs : fsys) (s : source) : tagres * source * fsys :=
    let sigo := stat_sig (c_path cfg) fs in
    let fs' := apply_wop (c_path cfg) mid fs in
    match sigo with
    | None => (TagNone, mkSrc None None, fs')
    | Some sg =>
      let rehash :=
        match lookup (c_path cfg) fs' with
        | None => (TagRaise, s, fs')                    (* raised before the cache fields are assigned *)
        | Some f => let sha := h (f_data f) in (mk_tag cfg sha sg, mkSrc (Some sg) (Some sha), fs')
        end in
      (* if self._cached_stat_sig != sig or self._cached_sha is None: *)
      match csha s with
      | None => rehash
      | Some sha =>
        if match csig s with Some c => sig_eqb c sg | None => false end
        then (mk_tag cfg sha sg, s, fs')
        else rehash
      end
    end.

  (* _parse_yaml *)
  Definition parse_yaml (text : bytes) : res value :=
    data <- yaml_safe_load text ;;
    match data with
    | VNull => Ok (VObj [])
    | VObj kvs => Ok (VObj kvs)
    | _ => Raise "ValueError"
    end.

  Definition parse_policy_text (text : bytes) (filename : string) : res value :=
    match detect_format filename with
    | FJson => json_loads text
    | FYaml => parse_yaml text
    end.

  (* what load() must return for a given file at the path *)
  Definition parse_file (cfg : config) (fo : option file) : res value :=
    match fo with
    | None => Raise "FileNotFoundError"
    | Some f =>
      policy <- parse_policy_text (f_data f) (c_path cfg) ;;
      if c_validate cfg && negb (schema_ok policy) then Raise "ValidationError" else Ok policy
    end.

  Definition load (cfg : config) (fs : fsys) : res value := parse_file cfg (lookup (c_path cfg) fs).

  (* ---------------- histories ---------------- *)
  Inductive op :=
  | OWorld (w : wop)
  | OEtag (mid : wop)
  | OLoad.

  Inductive obs :=
  | ObsTag (t : tagres)
  | ObsLoad (r : res value).

  (* observations, each with the file that is at the path when the call returns *)
  Fixpoint run (cfg : config) (ops : list op) (fs : fsys) (s : source) : list (option file * obs) :=
    match ops with
    | [] => []
    | OWorld w :: r => run cfg r (apply_wop (c_path cfg) w fs) s
    | OEtag mid :: r =>
      match etag_call cfg mid fs s with
      | (t, s', fs') => (lookup (c_path cfg) fs', ObsTag t) :: run cfg r fs' s'
      end
    | OLoad :: r => (lookup (c_path cfg) fs, ObsLoad (load cfg fs)) :: run cfg r fs s
    end.

  (* the file at the path at every call boundary of the history *)
  Fixpoint visited (path : string) (ops : list op) (fs : fsys) : list (option file) :=
    lookup path fs ::
    match ops with
    | [] => []
    | OWorld w :: r => visited path r (apply_wop path w fs)
    | OEtag mid :: r => visited path r (apply_wop path mid fs)
    | OLoad :: r => visited path r fs
    end.
End Source.

(* Decidable forms of the two hypotheses on histories that the etag theorems
   carry (their soundness is proved in FileStoreProofs.v): no change of the file
   inside an etag() call; (size, mtime) determines the content along the history. *)
Definition sig_pair_ok (a b : option file) : bool :=
  match a, b with
  | Some f1, Some f2 =>
      if Nat.eqb (String.length (f_data f1)) (String.length (f_data f2)) && Z.eqb (f_mtime f1) (f_mtime f2)
      then String.eqb (f_data f1) (f_data f2) else true
  | _, _ => true
  end.
Definition sig_determines_b (vs : list (option file)) : bool :=
  forallb (fun a => forallb (sig_pair_ok a) vs) vs.
Definition quiet_b (ops : list op) : bool :=
  forallb (fun o => match o with OEtag WNone => true | OEtag _ => false | _ => true end) ops.
