(* RebacRun.v — wire entry points for the Rebac model (runner "rebac"). *)
From Coq Require Import List Bool String ZArith.
From Rbacx Require Import Value Wire Rebac.
Import ListNotations.
Local Open Scope string_scope.

Definition dec_str (v : value) : option string :=
  match v with VStr s => Some s | _ => None end.
Definition dec_int (v : value) : option Z :=
  match v with VNum (NInt z) => Some z | _ => None end.
Definition dec_list {A} (f : value -> option A) (v : value) : option (list A) :=
  match v with VList l => opt_all (map f l) | _ => None end.

(* [subject, relation, resource, caveat-or-null] *)
Definition dec_tuple (v : value) : option rtuple :=
  match v with
  | VList [VStr s; VStr r; VStr o; VNull] => Some (mkT s r o None)
  | VList [VStr s; VStr r; VStr o; VStr c] => Some (mkT s r o (Some c))
  | _ => None
  end.
Definition enc_tuple (t : rtuple) : value :=
  VList [VStr (t_subj t); VStr (t_rel t); VStr (t_res t); vopt vstr (t_cav t)].

(* "this" | ["cu", r] | ["ttu", ts, cu] | ["union", [e...]] | ["unknown", ...] *)
Fixpoint dec_expr (v : value) : option expr :=
  match v with
  | VStr "this" => Some This
  | VList [VStr "cu"; VStr r] => Some (Computed r)
  | VList [VStr "ttu"; VStr ts; VStr cu] => Some (TTU ts cu)
  | VList [VStr "union"; VList es] =>
      match opt_all (map dec_expr es) with Some l => Some (Union l) | None => None end
  | VList (VStr "unknown" :: _) => Some Unknown
  | _ => None
  end.

(* {type: {relation: expr} | null} | null   (a null/empty inner map is `or {}`) *)
Definition dec_relmap (v : value) : option (list (string * expr)) :=
  match v with
  | VNull => Some []
  | VObj kvs => opt_all (map (fun kv => match dec_expr (snd kv) with
                                        | Some e => Some (fst kv, e) | None => None end) kvs)
  | _ => None
  end.
Definition dec_rules (v : value) : option rulemap :=
  match v with
  | VNull => Some []
  | VObj kvs => opt_all (map (fun kv => match dec_relmap (snd kv) with
                                        | Some m => Some (fst kv, m) | None => None end) kvs)
  | _ => None
  end.

(* {name: true | false | "raise"} ; unregistered names are absent *)
Definition dec_reg (v : value) : option registry :=
  match v with
  | VNull => Some []
  | VObj kvs => opt_all (map (fun kv => match snd kv with
                                        | VBool b => Some (fst kv, Some b)
                                        | VStr "raise" => Some (fst kv, None)
                                        | _ => None end) kvs)
  | _ => None
  end.

Definition dec_node (v : value) : option node :=
  match v with VList [VStr s; VStr r; VStr o] => Some (s, r, o) | _ => None end.

(* scripted clock [start, [read0, read1, ...], rest] *)
Definition dec_clock (v : value) : option (nat -> Z) :=
  match v with
  | VList [VNum (NInt start); reads; VNum (NInt rest)] =>
      match dec_list dec_int reads with
      | Some rs => Some (fun k => match k with O => start | S k' => nth k' rs rest end)
      | None => None
      end
  | _ => None
  end.

Definition outcome_name (o : outcome) : string :=
  match o with OTrue => "true" | OEnd => "end" | ONodes => "nodes" | ODeadline => "deadline" end.

(* limits item: [max_depth, max_nodes, deadline_ms, start, reads, rest] *)
Definition run_one (st : store) (ru : rulemap) (rg : registry) (q : node) (lim : value) : value :=
  match lim with
  | VList [VNum (NInt md); VNum (NInt mn); VNum (NInt dms); start; reads; rest] =>
      match dec_clock (VList [start; reads; rest]) with
      | Some clock =>
          let cfg := mkCfg st ru rg md mn in
          match run cfg (hit_of_clock dms clock) q with
          | Some (o, v) => VList [VStr (outcome_name o); vnat v; vbool (within_b cfg q)]
          | None => vtag "fuel" []
          end
      | None => vtag "ood" []
      end
  | _ => vtag "ood" []
  end.

(* rebac.multi store rules reg queries limits -> per query, per limits item: [outcome, visits, within] *)
Definition run_multi (args : list value) : value :=
  match args with
  | [st; ru; rg; qs; VList lims] =>
      match dec_list dec_tuple st, dec_rules ru, dec_reg rg, dec_list dec_node qs with
      | Some st', Some ru', Some rg', Some qs' =>
          VList (map (fun q => VList (map (run_one st' ru' rg' q) lims)) qs')
      | _, _, _, _ => vtag "ood" []
      end
  | _ => vtag "badargs" []
  end.

(* rebac.batch store rules reg max_depth max_nodes deadline_ms scripts triples -> [bool...]
   scripts = one clock per call of check made by the batch; further calls read 0 for ever *)
Definition run_batch (args : list value) : value :=
  match args with
  | [st; ru; rg; VNum (NInt md); VNum (NInt mn); VNum (NInt dms); scripts; ts] =>
      match dec_list dec_tuple st, dec_rules ru, dec_reg rg, dec_list dec_clock scripts, dec_list dec_node ts with
      | Some st', Some ru', Some rg', Some cl, Some ts' =>
          let hits := fun j => hit_of_clock dms (nth j cl (fun _ => 0%Z)) in
          VList (map vbool (batch_check (mkCfg st' ru' rg' md mn) hits ts'))
      | _, _, _, _, _ => vtag "ood" []
      end
  | _ => vtag "badargs" []
  end.

(* rebac.store store lookups -> per lookup the tuples returned, in order
   lookup = ["res", relation, resource] | ["subj", subject, relation] *)
Definition run_store (args : list value) : value :=
  match args with
  | [st; VList qs] =>
      match dec_list dec_tuple st with
      | Some st' =>
          VList (map (fun q => match q with
                               | VList [VStr "res"; VStr rel; VStr res] =>
                                   VList (map enc_tuple (direct_for_resource st' rel res))
                               | VList [VStr "subj"; VStr subj; VStr rel] =>
                                   VList (map enc_tuple (by_subject st' subj rel))
                               | _ => vtag "ood" []
                               end) qs)
      | None => vtag "ood" []
      end
  | _ => vtag "badargs" []
  end.

(* rebac.split ref -> object type used for the rule lookup *)
Definition run_split (args : list value) : value :=
  match args with
  | [VStr ref] => VStr (ref_type ref)
  | _ => vtag "badargs" []
  end.

Definition entries : list (string * (list value -> value)) :=
  [("rebac.multi", run_multi); ("rebac.batch", run_batch);
   ("rebac.store", run_store); ("rebac.split", run_split)].

Definition run_line : string -> string := run_with entries.
