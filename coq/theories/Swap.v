(* Swap.v — model of policy replacement against concurrent evaluations
   (src/rbacx/core/engine.py: Guard.set_policy / _install_policy /
   _current_policy_version / _evaluate_core_async / _decide_async / _cache_key /
   clear_cache, with the cache of src/rbacx/core/cache.py seen through its
   get/set/clear contract).  Executable definitions only; proofs in SwapProofs.v.

   Part 1: a small generic interleaving semantics (threads = nat -> local state,
           any enabled thread may take its next atomic step; environment steps).
   Part 2: the protocol as it is in /repo now (commit 40ecad2): fields published
           under Guard._state_lock with the counter _policy_version.
   Part 3: the protocol as it was before that commit (no lock, no counter), kept
           only for the regression theorem c09_refuted_unlocked. *)
From Coq Require Import List Bool Arith.
Import ListNotations.

(* ====================================================================== *)
(* Part 1 — generic interleaving                                            *)
(* ====================================================================== *)
Inductive label (X : Type) := Run (i : nat) | Env (x : X).
Arguments Run {X} i.
Arguments Env {X} x.

Section Interleave.
  Variables shared local envlab : Type.
  (* thread i takes its next atomic step; None = not enabled (blocked / finished) *)
  Variable tstep : nat -> shared -> local -> option (shared * local).
  Variable estep : envlab -> shared -> shared.

  Record conf := mkConf { sh : shared; th : nat -> local }.

  Definition upd (f : nat -> local) (i : nat) (l : local) : nat -> local :=
    fun j => if Nat.eqb j i then l else f j.

  Definition cstep (c : conf) (l : label envlab) : option conf :=
    match l with
    | Run i => match tstep i (sh c) (th c i) with
               | Some (s', l') => Some (mkConf s' (upd (th c) i l'))
               | None => None
               end
    | Env x => Some (mkConf (estep x (sh c)) (th c))
    end.

  (* a schedule; a label whose thread is not enabled is skipped and reported *)
  Fixpoint run (c : conf) (sched : list (label envlab)) : conf * list bool :=
    match sched with
    | [] => (c, [])
    | l :: r => match cstep c l with
                | Some c' => let (cf, fl) := run c' r in (cf, true :: fl)
                | None => let (cf, fl) := run c r in (cf, false :: fl)
                end
    end.

  Inductive reachable (c0 : conf) : conf -> Prop :=
  | reach_init : reachable c0 c0
  | reach_step : forall c l c', reachable c0 c -> cstep c l = Some c' -> reachable c0 c'.
End Interleave.

Arguments mkConf {shared local} sh th.
Arguments sh {shared local} c.
Arguments th {shared local} c.
Arguments upd {local} f i l j.
Arguments cstep {shared local envlab} tstep estep c l.
Arguments run {shared local envlab} tstep estep c sched.
Arguments reachable {shared local envlab} tstep estep c0 c.

(* ====================================================================== *)
(* Part 2 — the current protocol                                            *)
(* ====================================================================== *)
Section Swap.
  (* policies are identified by their content: installing the same document twice
     is installing the same [policy].  tag_of = sha3 of the canonical JSON, None
     when json.dumps fails (then the engine does not use the cache at all). *)
  Variables policy tag env decision : Type.
  Variable tag_of : policy -> option tag.
  Variable compile_ok : policy -> bool.          (* compile_policy(policy) does not raise *)
  Variable decide : policy -> env -> decision.   (* the raw decision of a policy on a request env *)
  Variable tag_eqb : tag -> tag -> bool.
  Variable env_eqb : env -> env -> bool.
  Variable has_cache : bool.                     (* Guard(cache=...) given or None *)

  (* self._compiled: a closure that remembers the policy it was compiled from;
     None when compilation raised (the evaluation then interprets self.policy) *)
  Definition comp_of (p : policy) : option policy := if compile_ok p then Some p else None.

  (* observable events, newest first in s_log.  The log is ghost state: no step
     reads it (log_is_ghost in SwapProofs.v). *)
  Inductive event :=
  | EvStart (t : nat) (e : env)                 (* an evaluation is entered *)
  | EvRet (t : nat) (e : env) (d : decision)    (* ... and returns raw decision d *)
  | UpStart (u : nat) (p : policy)              (* set_policy(p) is entered *)
  | Pub (u : nat) (p : policy)                  (* self.policy = p *)
  | UpRet (u : nat) (p : policy).               (* set_policy(p) returns *)

  (* Guard._state_lock: who holds it (the role is fixed by the acquiring step) *)
  Inductive lockst := Free | HeldU (u : nat) | HeldE (t : nat).

  (* the cache seen through get/set/clear: a finite map (tag, env) -> decision *)
  Definition cache_t := list (tag * env * decision).
  Definition key_eqb (k : tag) (e : env) (x : tag * env * decision) : bool :=
    tag_eqb k (fst (fst x)) && env_eqb e (snd (fst x)).
  Fixpoint c_get (k : tag) (e : env) (c : cache_t) : option decision :=
    match c with
    | [] => None
    | x :: r => if key_eqb k e x then Some (snd x) else c_get k e r
    end.
  Definition c_del (k : tag) (e : env) (c : cache_t) : cache_t :=
    filter (fun x => negb (key_eqb k e x)) c.
  Definition c_set (k : tag) (e : env) (d : decision) (c : cache_t) : cache_t :=
    (k, e, d) :: c_del k e c.

  Record shared := mkS {
    s_policy : policy;            (* Guard.policy *)
    s_etag : option tag;          (* Guard.policy_etag *)
    s_comp : option policy;       (* Guard._compiled *)
    s_ver : nat;                  (* Guard._policy_version *)
    s_lock : lockst;              (* Guard._state_lock *)
    s_cache : cache_t;            (* Guard.cache *)
    s_log : list event            (* ghost *)
  }.
  Definition with_policy s p := mkS p (s_etag s) (s_comp s) (s_ver s) (s_lock s) (s_cache s) (s_log s).
  Definition with_etag s k := mkS (s_policy s) k (s_comp s) (s_ver s) (s_lock s) (s_cache s) (s_log s).
  Definition with_comp s f := mkS (s_policy s) (s_etag s) f (s_ver s) (s_lock s) (s_cache s) (s_log s).
  Definition with_ver s v := mkS (s_policy s) (s_etag s) (s_comp s) v (s_lock s) (s_cache s) (s_log s).
  Definition with_lock s l := mkS (s_policy s) (s_etag s) (s_comp s) (s_ver s) l (s_cache s) (s_log s).
  Definition with_cache s c := mkS (s_policy s) (s_etag s) (s_comp s) (s_ver s) (s_lock s) c (s_log s).
  Definition emit (ev : event) s := mkS (s_policy s) (s_etag s) (s_comp s) (s_ver s) (s_lock s) (s_cache s) (ev :: s_log s).

  (* what a thread does: a sequence of calls *)
  Inductive op := OpEval (e : env) | OpSet (p : policy).

  (* program counter = the next atomic step, with the live Python locals *)
  Inductive pc :=
  | Idle
  (* set_policy(p) -> _install_policy(p); etag and compiled are computed first, locally *)
  | UAcq (p : policy)            (* with lock:  (acquire) *)
  | UWPol (p : policy)           (* self.policy = policy *)
  | UWTag (p : policy)           (* self.policy_etag = etag *)
  | UWComp (p : policy)          (* self._compiled = compiled *)
  | UInc (p : policy)            (* self._policy_version += 1 *)
  | URel (p : policy)            (* (release) *)
  | UClear (p : policy)          (* self.clear_cache(); return *)
  (* _evaluate_core_async(env) *)
  | EAcq1 (e : env)                                   (* version = self._current_policy_version(): acquire *)
  | ERdV1 (e : env)                                   (*   return self._policy_version *)
  | ERel1 (e : env) (v0 : nat)                        (*   release *)
  | ERdTag (e : env) (v0 : nat)                       (* key = self._cache_key(env): reads self.policy_etag *)
  | EGet (e : env) (v0 : nat) (k : tag)               (* cached = cache.get(key) *)
  | ERdComp (e : env) (v0 : nat) (ok : option tag)    (* fn = self._compiled *)
  | ERdPol (e : env) (v0 : nat) (ok : option tag) (fn : option policy)   (* policy = self.policy *)
  | ECompute (e : env) (v0 : nat) (ok : option tag) (fn : option policy) (pol : policy)
                                                      (* raw = fn(env)  /  decide_policy(policy, env) *)
  | EAcq2 (e : env) (v0 : nat) (k : tag) (raw : decision)   (* if key and self._current_policy_version() == version: acquire *)
  | ERdV2 (e : env) (v0 : nat) (k : tag) (raw : decision)
  | ERel2 (e : env) (v0 : nat) (k : tag) (raw : decision) (v1 : nat)
  | ESet (e : env) (k : tag) (raw : decision)         (* cache.set(key, raw, ttl) *)
  | EFin (e : env) (d : decision).                    (* return *)

  Definition local := (list op * pc)%type.

  Definition tstep (i : nat) (s : shared) (l : local) : option (shared * local) :=
    let (todo, c) := l in
    match c with
    | Idle =>
        match todo with
        | [] => None
        | OpEval e :: r => Some (emit (EvStart i e) s, (r, EAcq1 e))
        | OpSet p :: r => Some (emit (UpStart i p) s, (r, UAcq p))
        end
    | UAcq p => match s_lock s with
                | Free => Some (with_lock s (HeldU i), (todo, UWPol p))
                | _ => None
                end
    | UWPol p => Some (emit (Pub i p) (with_policy s p), (todo, UWTag p))
    | UWTag p => Some (with_etag s (tag_of p), (todo, UWComp p))
    | UWComp p => Some (with_comp s (comp_of p), (todo, UInc p))
    | UInc p => Some (with_ver s (S (s_ver s)), (todo, URel p))
    | URel p => Some (with_lock s Free, (todo, UClear p))
    | UClear p => Some (emit (UpRet i p) (with_cache s []), (todo, Idle))
    | EAcq1 e => match s_lock s with
                 | Free => Some (with_lock s (HeldE i), (todo, ERdV1 e))
                 | _ => None
                 end
    | ERdV1 e => Some (s, (todo, ERel1 e (s_ver s)))
    | ERel1 e v0 => Some (with_lock s Free,
                          (todo, if has_cache then ERdTag e v0 else ERdComp e v0 None))
    | ERdTag e v0 => Some (s, (todo, match s_etag s with
                                     | Some k => EGet e v0 k
                                     | None => ERdComp e v0 None      (* if not etag: return None *)
                                     end))
    | EGet e v0 k => Some (s, (todo, match c_get k e (s_cache s) with
                                     | Some d => EFin e d             (* hit: raw = cached *)
                                     | None => ERdComp e v0 (Some k)
                                     end))
    | ERdComp e v0 ok => Some (s, (todo, ERdPol e v0 ok (s_comp s)))
    | ERdPol e v0 ok fn => Some (s, (todo, ECompute e v0 ok fn (s_policy s)))
    | ECompute e v0 ok fn pol =>
        let raw := match fn with Some q => decide q e | None => decide pol e end in
        Some (s, (todo, match ok with
                        | Some k => EAcq2 e v0 k raw
                        | None => EFin e raw                           (* `if key and ...` short-circuits *)
                        end))
    | EAcq2 e v0 k raw => match s_lock s with
                          | Free => Some (with_lock s (HeldE i), (todo, ERdV2 e v0 k raw))
                          | _ => None
                          end
    | ERdV2 e v0 k raw => Some (s, (todo, ERel2 e v0 k raw (s_ver s)))
    | ERel2 e v0 k raw v1 => Some (with_lock s Free,
                                   (todo, if Nat.eqb v1 v0 then ESet e k raw else EFin e raw))
    | ESet e k raw => Some (with_cache s (c_set k e raw (s_cache s)), (todo, EFin e raw))
    | EFin e d => Some (emit (EvRet i e d) s, (todo, Idle))
    end.

  (* environment step: the cache forgets an entry (LRU eviction, TTL expiry) *)
  Inductive envlab := Drop (k : tag) (e : env).
  Definition estep (x : envlab) (s : shared) : shared :=
    match x with Drop k e => with_cache s (c_del k e (s_cache s)) end.

  (* the state a constructed Guard(p0) is in: __init__ installs p0 once *)
  Definition init_shared (p0 : policy) : shared :=
    mkS p0 (tag_of p0) (comp_of p0) 1 Free [] [].
  Definition init (p0 : policy) (progs : nat -> list op) : conf shared local :=
    mkConf (init_shared p0) (fun i => (progs i, Idle)).

  Definition sstep := cstep tstep estep.
  Definition sreach (p0 : policy) (progs : nat -> list op) := reachable tstep estep (init p0 progs).

  (* ---------- reading the log (newest first) ---------- *)
  (* the policy most recently published *)
  Fixpoint cur (p0 : policy) (lg : list event) : policy :=
    match lg with
    | [] => p0
    | Pub _ p :: _ => p
    | _ :: r => cur p0 r
    end.
  (* the policies published in a segment *)
  Fixpoint pubs (lg : list event) : list policy :=
    match lg with
    | [] => []
    | Pub _ p :: r => p :: pubs r
    | _ :: r => pubs r
    end.
  (* the policies that were current at some moment since thread t's latest EvStart *)
  Fixpoint win (p0 : policy) (t : nat) (lg : list event) : list policy :=
    match lg with
    | [] => []
    | EvStart t' _ :: r => if Nat.eqb t' t then [cur p0 r] else win p0 t r
    | Pub _ p :: r => p :: win p0 t r
    | _ :: r => win p0 t r
    end.
  (* threads inside set_policy *)
  Fixpoint inflight (lg : list event) : list nat :=
    match lg with
    | [] => []
    | UpStart u _ :: r => u :: inflight r
    | UpRet u _ :: r => remove Nat.eq_dec u (inflight r)
    | _ :: r => inflight r
    end.
  Definition quiescent (lg : list event) : bool :=
    match inflight lg with [] => true | _ => false end.
  Definition is_start (t : nat) (ev : event) : bool :=
    match ev with EvStart t' _ => Nat.eqb t' t | _ => false end.
  Definition is_upstart (ev : event) : bool :=
    match ev with UpStart _ _ => true | _ => false end.
  Definition no_start (t : nat) (lg : list event) : bool := forallb (fun ev => negb (is_start t ev)) lg.
  Definition no_upstart (lg : list event) : bool := forallb (fun ev => negb (is_upstart ev)) lg.
End Swap.

Arguments OpEval {policy env} e.
Arguments OpSet {policy env} p.
Arguments EvStart {policy env decision} t e.
Arguments EvRet {policy env decision} t e d.
Arguments UpStart {policy env decision} u p.
Arguments Pub {policy env decision} u p.
Arguments UpRet {policy env decision} u p.
Arguments Drop {tag env} k e.
Arguments s_policy {policy tag env decision} s.
Arguments s_etag {policy tag env decision} s.
Arguments s_comp {policy tag env decision} s.
Arguments s_ver {policy tag env decision} s.
Arguments s_lock {policy tag env decision} s.
Arguments s_cache {policy tag env decision} s.
Arguments s_log {policy tag env decision} s.
Arguments mkS {policy tag env decision}.
Arguments Idle {policy tag env decision}.
Arguments UAcq {policy tag env decision} p.
Arguments UWPol {policy tag env decision} p.
Arguments UWTag {policy tag env decision} p.
Arguments UWComp {policy tag env decision} p.
Arguments UInc {policy tag env decision} p.
Arguments URel {policy tag env decision} p.
Arguments UClear {policy tag env decision} p.
Arguments EAcq1 {policy tag env decision} e.
Arguments ERdV1 {policy tag env decision} e.
Arguments ERel1 {policy tag env decision} e v0.
Arguments ERdTag {policy tag env decision} e v0.
Arguments EGet {policy tag env decision} e v0 k.
Arguments ERdComp {policy tag env decision} e v0 ok.
Arguments ERdPol {policy tag env decision} e v0 ok fn.
Arguments ECompute {policy tag env decision} e v0 ok fn pol.
Arguments EAcq2 {policy tag env decision} e v0 k raw.
Arguments ERdV2 {policy tag env decision} e v0 k raw.
Arguments ERel2 {policy tag env decision} e v0 k raw v1.
Arguments ESet {policy tag env decision} e k raw.
Arguments EFin {policy tag env decision} e d.

(* ====================================================================== *)
(* Part 3 — the protocol before commit 40ecad2 (regression model)           *)
(* set_policy:  self.policy = policy; self.policy_etag = sha3(self.policy);  *)
(*              self._compiled = compile(self.policy); cache.clear()         *)
(* evaluation:  key from self.policy_etag; cache.get; fn = self._compiled;   *)
(*              (self.policy on fallback); compute; cache.set(key, raw)      *)
(* ====================================================================== *)
Section OldSwap.
  Variables policy tag env decision : Type.
  Variable tag_of : policy -> option tag.
  Variable compile_ok : policy -> bool.
  Variable decide : policy -> env -> decision.
  Variable tag_eqb : tag -> tag -> bool.
  Variable env_eqb : env -> env -> bool.

  Notation event := (event policy env decision).
  Notation cache_t := (cache_t tag env decision).
  Notation op := (op policy env).

  Record oshared := mkO {
    o_policy : policy; o_etag : option tag; o_comp : option policy;
    o_cache : cache_t; o_log : list event
  }.

  Inductive opc :=
  | OIdle
  | OWPol (p : policy) | OWTag | OWComp | OClear (p : policy)
  | ORdTag (e : env) | OGet (e : env) (k : tag)
  | ORdComp (e : env) (ok : option tag)
  | ORdPol (e : env) (ok : option tag) (fn : option policy)
  | OCompute (e : env) (ok : option tag) (fn : option policy) (pol : policy)
  | OSet (e : env) (k : tag) (raw : decision)
  | OFin (e : env) (d : decision).

  Definition olocal := (list op * opc)%type.

  Definition ostep (i : nat) (s : oshared) (l : olocal) : option (oshared * olocal) :=
    let (todo, c) := l in
    let lg := o_log s in
    match c with
    | OIdle =>
        match todo with
        | [] => None
        | OpEval e :: r => Some (mkO (o_policy s) (o_etag s) (o_comp s) (o_cache s) (EvStart i e :: lg), (r, ORdTag e))
        | OpSet p :: r => Some (mkO (o_policy s) (o_etag s) (o_comp s) (o_cache s) (UpStart i p :: lg), (r, OWPol p))
        end
    | OWPol p => Some (mkO p (o_etag s) (o_comp s) (o_cache s) (Pub i p :: lg), (todo, OWTag))
    | OWTag => Some (mkO (o_policy s) (tag_of (o_policy s)) (o_comp s) (o_cache s) lg, (todo, OWComp))
    | OWComp => Some (mkO (o_policy s) (o_etag s) (comp_of _ compile_ok (o_policy s)) (o_cache s) lg,
                      (todo, OClear (o_policy s)))
    | OClear p => Some (mkO (o_policy s) (o_etag s) (o_comp s) [] (UpRet i p :: lg), (todo, OIdle))
    | ORdTag e => Some (s, (todo, match o_etag s with Some k => OGet e k | None => ORdComp e None end))
    | OGet e k => Some (s, (todo, match c_get _ _ _ tag_eqb env_eqb k e (o_cache s) with
                                  | Some d => OFin e d
                                  | None => ORdComp e (Some k)
                                  end))
    | ORdComp e ok => Some (s, (todo, ORdPol e ok (o_comp s)))
    | ORdPol e ok fn => Some (s, (todo, OCompute e ok fn (o_policy s)))
    | OCompute e ok fn pol =>
        let raw := match fn with Some q => decide q e | None => decide pol e end in
        Some (s, (todo, match ok with Some k => OSet e k raw | None => OFin e raw end))
    | OSet e k raw => Some (mkO (o_policy s) (o_etag s) (o_comp s)
                                (c_set _ _ _ tag_eqb env_eqb k e raw (o_cache s)) lg, (todo, OFin e raw))
    | OFin e d => Some (mkO (o_policy s) (o_etag s) (o_comp s) (o_cache s) (EvRet i e d :: lg), (todo, OIdle))
    end.

  Definition oestep (x : unit) (s : oshared) : oshared := s.

  Definition oinit (p0 : policy) (progs : nat -> list op) : conf oshared olocal :=
    mkConf (mkO p0 (tag_of p0) (comp_of _ compile_ok p0) [] []) (fun i => (progs i, OIdle)).
  Definition oreach (p0 : policy) (progs : nat -> list op) := reachable ostep oestep (oinit p0 progs).
End OldSwap.

Arguments o_policy {policy tag env decision} o.
Arguments o_etag {policy tag env decision} o.
Arguments o_comp {policy tag env decision} o.
Arguments o_cache {policy tag env decision} o.
Arguments o_log {policy tag env decision} o.

(* ====================================================================== *)
(* Part 4 — concrete instance (runner, witnesses, examples)                 *)
(* policies, tags and request envs are numbers; policy p has tag p unless    *)
(* listed as not serialisable; the decision of policy p on env e is the      *)
(* pair (p, e), which the harness maps to the real decision.                 *)
(* ====================================================================== *)
Definition nmem (x : nat) (l : list nat) : bool := existsb (Nat.eqb x) l.
Definition ntag_of (untagged : list nat) (p : nat) : option nat :=
  if nmem p untagged then None else Some p.
Definition ncompile_ok (uncompilable : list nat) (p : nat) : bool := negb (nmem p uncompilable).
Definition ndecide (p e : nat) : nat * nat := (p, e).
Definition nprogs (l : list (list (op nat nat))) (i : nat) : list (op nat nat) := nth i l [].

Definition ntstep (untagged uncompilable : list nat) (has_cache : bool) :=
  tstep nat nat nat (nat * nat) (ntag_of untagged) (ncompile_ok uncompilable) ndecide Nat.eqb Nat.eqb has_cache.
Definition nestep := estep nat nat nat (nat * nat) Nat.eqb Nat.eqb.
Definition ninit (untagged uncompilable : list nat) (p0 : nat) (progs : list (list (op nat nat))) :=
  init nat nat nat (nat * nat) (ntag_of untagged) (ncompile_ok uncompilable) p0 (nprogs progs).

Definition notstep (untagged uncompilable : list nat) :=
  ostep nat nat nat (nat * nat) (ntag_of untagged) (ncompile_ok uncompilable) ndecide Nat.eqb Nat.eqb.
Definition noinit (untagged uncompilable : list nat) (p0 : nat) (progs : list (list (op nat nat))) :=
  oinit nat nat nat (nat * nat) (ntag_of untagged) (ncompile_ok uncompilable) p0 (nprogs progs).
