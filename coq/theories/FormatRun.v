(* FormatRun.v — wire entry points for the Format model (runner "format"). *)
From Coq Require Import ZArith List Bool String Ascii.
From Rbacx Require Import Value Wire Cond Target Policy PolicySet Compiler Engine Schema Format.
Import ListNotations.
Local Open Scope string_scope.

Definition dec_optstr (v : value) : option (option string) :=
  match v with VNull => Some None | VStr s => Some (Some s) | _ => None end.

Definition run_detect (args : list value) : value :=
  match args with
  | [fn; ct; fm] =>
      match dec_optstr fn, dec_optstr ct, dec_optstr fm with
      | Some a, Some b, Some c => VStr (pfmt_name (detect_format a b c))
      | _, _, _ => vtag "ood" []
      end
  | _ => vtag "badargs" []
  end.

Definition dec_cmd (v : value) : option cmd :=
  match v with
  | VStr "validate" => Some CValidate
  | VStr "check" => Some CCheck
  | VStr "lint" => Some CLint
  | _ => None
  end.
Definition dec_bools (l : list value) : option (list bool) :=
  opt_all (map (fun x => match x with VBool b => Some b | _ => None end) l).
Definition dec_targets (v : value) : option targets :=
  match v with
  | VList [VStr "doc"; VBool b] => Some (TDoc b)
  | VList [VStr "children"; VList l] => option_map TChildren (dec_bools l)
  | VList [VStr "escapes"; VStr e] => Some (TEscapes e)
  | _ => None
  end.
Definition dec_lint (v : value) : option lint_res :=
  match v with
  | VNum (NInt z) => if (z <? 0)%Z then None else Some (LIssues (Z.to_nat z))
  | VList [VStr "escapes"; VStr e] => Some (LEscapes e)
  | _ => None
  end.
Definition enc_out (o : cli_out) : value :=
  match o with
  | Rc n => vtag "rc" [vnat n]
  | Escapes e => vtag "escapes" [VStr e]
  end.
Definition enc_targets (t : targets) : value :=
  match t with
  | TDoc b => vtag "doc" [VBool b]
  | TChildren l => vtag "children" [VList (map VBool l)]
  | TEscapes e => vtag "escapes" [VStr e]
  end.

(* cli.rc cmd parse dep_missing strict targets lint *)
Definition run_rc (args : list value) : value :=
  match args with
  | [c; parse; VBool dep; VBool strict; t; l] =>
      match dec_cmd c, dec_optstr parse, dec_targets t, dec_lint l with
      | Some c', Some p, Some t', Some l' => enc_out (cli_rc c' p dep strict t' l')
      | _, _, _, _ => vtag "ood" []
      end
  | _ => vtag "badargs" []
  end.

(* cli.main cmd policyset strict dep_missing parsed lint ; parsed = ["doc", v] | ["fail", exn] *)
Definition run_main (args : list value) : value :=
  match args with
  | [c; VBool ps; VBool strict; VBool dep; p; l] =>
      match dec_cmd c, dec_lint l,
            (match p with
             | VList [VStr "doc"; d] => Some (PDoc d)
             | VList [VStr "fail"; VStr e] => Some (PFail e)
             | _ => None end) with
      | Some c', Some l', Some p' => enc_out (cli_main c' ps strict dep p' l')
      | _, _, _ => vtag "ood" []
      end
  | _ => vtag "badargs" []
  end.

Definition run_targets (args : list value) : value :=
  match args with
  | [VBool ps; d] => enc_targets (targets_of ps d)
  | _ => vtag "badargs" []
  end.

Definition enc_issue (i : issue) : value :=
  VList [VStr (match i_code i with
               | PotentiallyUnreachable => "POTENTIALLY_UNREACHABLE"
               | OverlappedByDeny => "OVERLAPPED_BY_DENY" end);
         vnat (i_later i); vnat (i_earlier i)].
Definition enc_res {A} (f : A -> value) (r : res A) : value :=
  match r with
  | Ok a => vtag "Ok" [f a]
  | TypeErr => vtag "TypeErr" []
  | Raise w => vtag "Raise" [VStr w]
  | Ood => vtag "Ood" []
  end.
Definition run_lint_cross (args : list value) : value :=
  match args with
  | [p] => enc_res (fun l => VList (map enc_issue l)) (lint_cross p)
  | _ => vtag "badargs" []
  end.
Definition run_lint_cross_set (args : list value) : value :=
  match args with
  | [p] => enc_res (fun l => VList (map (fun pi => VList [vnat (fst pi); enc_issue (snd pi)]) l)) (lint_cross_set p)
  | _ => vtag "badargs" []
  end.
Definition run_lint_algo (args : list value) : value :=
  match args with
  | [p] => vopt VStr (lint_algo p)
  | _ => vtag "badargs" []
  end.

Definition run_fill (args : list value) : value :=
  match args with [p] => fill_deep p | _ => vtag "badargs" [] end.
Definition run_fill_top (args : list value) : value :=
  match args with [p] => fill_default p | _ => vtag "badargs" [] end.
Definition run_with_algo (args : list value) : value :=
  match args with [VStr a; p] => with_algorithm a p | _ => vtag "badargs" [] end.
Definition run_unnamed (args : list value) : value :=
  match args with [p] => VBool (algo_unnamed p) | _ => vtag "badargs" [] end.

Definition entries : list (string * (list value -> value)) :=
  [("format.detect", run_detect);
   ("cli.rc", run_rc); ("cli.main", run_main); ("cli.targets", run_targets);
   ("lint.cross", run_lint_cross); ("lint.cross_set", run_lint_cross_set); ("lint.algo", run_lint_algo);
   ("default.fill", run_fill); ("default.fill_top", run_fill_top); ("default.with_algo", run_with_algo);
   ("default.unnamed", run_unnamed)].

Definition run_line : string -> string := run_with entries.
