(* Roles.v — model of rbacx.core.roles.StaticRoleResolver.expand
   (src/rbacx/core/roles.py:14-26).  Executable definitions only. *)
From Coq Require Import List Bool String Arith.
From Rbacx Require Import Value.
Import ListNotations.
Local Open Scope string_scope.
Local Open Scope nat_scope.

Definition graph := list (string * list string).   (* a Python dict: first binding of a key wins *)

Fixpoint parents (g : graph) (r : string) : list string :=       (* graph.get(r, []) *)
  match g with
  | [] => []
  | (k, ps) :: g' => if String.eqb r k then ps else parents g' r
  end.

Definition mem (x : string) (l : list string) : bool := existsb (String.eqb x) l.

(* The while loop.  [stack] is held top-first: Python pops from the end of its
   list and appends parents at the end, so pushing parents p1..pn one by one
   leaves pn on top: rev ps ++ stack.  [out] is the visited set (a list without
   duplicates, newest first).  None = fuel exhausted. *)
Fixpoint expand_loop (fuel : nat) (g : graph) (stack out : list string) : option (list string) :=
  match stack with
  | [] => Some out
  | r :: stack' =>
      match fuel with
      | O => None
      | S fuel' =>
          if mem r out then expand_loop fuel' g stack' out
          else expand_loop fuel' g (rev (parents g r) ++ stack') (r :: out)
      end
  end.

(* sorted(out) on strings: Python orders str by code point, which on UTF-8 is
   byte order = String.leb. *)
Fixpoint insert (x : string) (l : list string) : list string :=
  match l with
  | [] => [x]
  | y :: r => if String.leb x y then x :: l else y :: insert x r
  end.
Fixpoint isort (l : list string) : list string :=
  match l with [] => [] | x :: r => insert x (isort r) end.

Definition total_edges (g : graph) : nat :=
  fold_right (fun kv n => List.length (snd kv) + n) 0 g.

Definition expand_fuel (g : graph) (roles : list string) : nat :=
  List.length roles + total_edges g + 1.

Definition expand (g : graph) (roles : list string) : option (list string) :=
  match roles with
  | [] => Some []                                   (* if not roles: return [] *)
  | _ => match expand_loop (expand_fuel g roles) g (rev roles) [] with
         | Some out => Some (isort out)
         | None => None
         end
  end.
