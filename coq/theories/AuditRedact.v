(* AuditRedact.v — a Guard whose `logger_sink` is a `DecisionLogger` (C11 x C19).

   Engine.v / EngineProofs.v model one evaluation of Guard._evaluate_core_async
   (`guard_eval`: env construction, decision, obligation gate, Decision) and the audit
   step after it (`audit_payload env d`, `emit`): the dict handed to
   `self.logger_sink.log(payload)`, src/rbacx/core/engine.py:312-320

       payload = {"env": env, "decision": d.effect, "allowed": d.allowed,
                  "rule_id": d.rule_id, "policy_id": d.policy_id,
                  "reason": d.reason, "obligations": d.obligations}

   with an ARBITRARY sink.  Redact.v / RedactProofs.v model DecisionLogger
   (src/rbacx/logging/decision_logger.py:86-167): `log c payload u size` with the payload
   an ARBITRARY dict.  C11 says the payload agrees with the Decision; C19 says what the
   logger does to a payload.  This file plugs the first into the second, so that the
   statements speak of the record that reaches the audit log for an evaluation.

   The bridge is one definition.  `audit_payload env d` is the value
   `VObj [("env", env); ("decision", ..); ..]`; Redact.log takes the dict as its item
   list `list (string * value)` (it is `payload.get(..)` / `dict(payload)` on a dict:
   decision_logger.py:92,95,155-157).  [audit_fields env d] is that item list, and
   [audit_payload_fields] says `audit_payload env d = VObj (audit_fields env d)` (by
   computation: same keys, same order, same values).  Nothing else is converted: the env
   is the same `Value.value` tree in both models, the Decision's fields are encoded in
   the payload exactly as EngineProofs.audit_payload does.

   [logger_log c u size p] is DecisionLogger(c).log(p) on a payload VALUE ([dict_items]
   reads the items of a dict); [records_of] applies it to what `emit` handed to the sink
   ([e_logged]); [eval_logged] is the whole thing: evaluate, then (only when a Decision
   was produced — an exception of the evaluation leaves _evaluate_core_async before the
   audit step) hand the payload to the logger.

   Inputs of one `log` call, all universally quantified in the theorems:
     c     the logger's configuration (Redact.config: sample_rate, redactions given /
           not given, use_default_redactions, redact_in_place, smart_sampling, category
           rates, max_env_bytes) — `Redact.init kwargs` builds it from keyword arguments
     u     the value random.random() returns (consumed only if the rate test needs it)
     size  UTF-8 length of json.dumps(redacted env) as Python computes it (None: raised)

   What is NOT modelled here (as in the two models): the text rendering of the record
   (`as_json` / f"decision {safe}"), the logging framework behind `self.logger.log`, the
   metrics sink, the decision cache (CacheExplain.v carries guard_eval's facts through
   it; the audit step is after the cache and identical for hits and misses,
   engine.py:254-328). *)
From Coq Require Import ZArith List Bool String Ascii Lia.
From Rbacx Require Import Value Cond Target Policy PolicySet Compiler Oblig Engine
  PolicyProofs PolicySetProofs ObligProofs EngineProofs Redact RedactProofs.
Import ListNotations.
Local Open Scope string_scope.

(* ================================================================== *)
(* (1) the bridge                                                       *)
(* ================================================================== *)
(* the items of the payload dict, engine.py:312-320, in insertion order *)
Definition audit_fields (env : value) (d : decision) : list (string * value) :=
  [("env", env); ("decision", VStr (d_effect d)); ("allowed", VBool (d_allowed d));
   ("rule_id", match d_rule_id d with Some s => VStr s | None => VNull end);
   ("policy_id", match d_policy_id d with Some v => v | None => VNull end);
   ("reason", VStr (d_reason d)); ("obligations", VList (d_obligations d))].

Theorem audit_payload_fields env d : audit_payload env d = VObj (audit_fields env d).
Proof. reflexivity. Qed.

(* a dict value as Redact.log reads it *)
Definition dict_items (p : value) : list (string * value) :=
  match p with VObj k => k | _ => [] end.

(* DecisionLogger(c).log(p) *)
Definition logger_log (c : config) (u : nview) (size : option Z) (p : value) : lres :=
  log c (dict_items p) u size.
(* the same as one of `emit`'s arbitrary sinks (true = returned normally; the model's
   only other answer is "outside the modelled domain") *)
Definition logger_sink (c : config) (u : nview) (size : option Z) (p : value) : bool :=
  match logger_log c u size p with LOod => false | _ => true end.
(* what the logger made of everything the Guard handed to its sink *)
Definition records_of (c : config) (u : nview) (size : option Z) (e : emitted) : list lres :=
  map (logger_log c u size) (e_logged e).

(* the argument of Redact.log IS the Engine model's audit payload: exactly one call per
   evaluation, on audit_fields env d *)
Theorem bridge_payload_is_log_argument c u size lg inc env d :
  records_of c u size (emit lg inc env d) = [log c (audit_fields env d) u size].
Proof. reflexivity. Qed.

(* one evaluation of a Guard(policy, logger_sink=DecisionLogger(c)): the answer of the
   evaluation and the logger's records *)
Definition eval_logged (S : Type) (relh : rel_query -> S -> bool * S)
           (oblig : raw -> value -> option (bool * option string))
           (strict : bool) (policy req : value) (resolved : option value) (st : S)
           (c : config) (u : nview) (size : option Z) : (gres * S) * list lres :=
  let r := guard_eval S relh oblig strict policy req resolved st in
  (r, match fst r, build_env strict req resolved with
      | GDecision d, Some env =>
          records_of c u size (emit (logger_sink c u size) (fun _ => true) env d)
      | _, _ => []
      end).

Theorem eval_logged_records S relh oblig strict policy req resolved st st' d env c u size :
  guard_eval S relh oblig strict policy req resolved st = (GDecision d, st') ->
  build_env strict req resolved = Some env ->
  snd (eval_logged S relh oblig strict policy req resolved st c u size)
  = [log c (audit_fields env d) u size].
Proof. intros Hg Hb. unfold eval_logged. rewrite Hg, Hb. reflexivity. Qed.

(* nothing is logged when the evaluation raised or is outside the model *)
Theorem eval_logged_no_decision S relh oblig strict policy req resolved st c u size :
  (forall d, fst (guard_eval S relh oblig strict policy req resolved st) <> GDecision d) ->
  snd (eval_logged S relh oblig strict policy req resolved st c u size) = [].
Proof.
  intros Hn. unfold eval_logged. simpl.
  destruct (fst (guard_eval S relh oblig strict policy req resolved st)) as [d|w|]; try reflexivity.
  exfalso. apply (Hn d). reflexivity.
Qed.

(* ================================================================== *)
(* facts about the two sides used below                                 *)
(* ================================================================== *)
(* the env the engine builds is a dict *)
Lemma build_env_obj strict req resolved env :
  build_env strict req resolved = Some env -> exists kvs, env = VObj kvs.
Proof.
  unfold build_env. intros H.
  destruct (match py_or (get_key "roles" (get_key "subject" req)) (VList []) with
            | VList l => Some (VList l) | _ => None end); [|discriminate].
  destruct (obj_or_empty (get_key "attrs" (get_key "subject" req))); [|discriminate].
  destruct (obj_or_empty (get_key "attrs" (get_key "resource" req))); [|discriminate].
  destruct (obj_or_empty (get_key "context" req)); [|discriminate].
  inversion H. eexists. reflexivity.
Qed.

(* effect and allowed flag of a Decision the engine returns go together *)
Lemma guard_eval_effect S relh oblig strict policy req resolved st st' d :
  guard_eval S relh oblig strict policy req resolved st = (GDecision d, st') ->
  d_effect d = (if d_allowed d then "permit" else "deny").
Proof.
  unfold guard_eval. destruct (build_env strict req resolved) as [env|]; [|discriminate].
  destruct (guard_decide S relh policy env st) as [[r|w|] s']; try discriminate.
  intros H. inversion H. unfold finish.
  destruct (String.eqb (r_decision r) "permit"); [|reflexivity].
  destruct (oblig r (get_key "context" env)) as [[[|] ch]|]; reflexivity.
Qed.

(* `safe = dict(payload); safe["env"] = out` on the engine's payload: the audit payload
   of the same Decision around another env *)
Lemma upsert_env_audit out env d : upsert "env" out (audit_fields env d) = audit_fields out d.
Proof. reflexivity. Qed.

(* what an emitted record is, for any payload *)
Lemma log_emitted_inv c payload u size draws safe caller raised :
  log c payload u size = LEmitted draws safe caller raised ->
  should_drop c payload u = (false, draws) /\
  exists out, safe = VObj (upsert "env" out payload) /\
    ((raised = true /\ out = failed_marker /\ redact c payload = RedRaised caller) \/
     (raised = false /\ exists renv, redact c payload = RedOk renv caller /\
        match c_max c, size with
        | Some b, Some n => ((n <= b)%Z -> out = VObj renv) /\ ((b < n)%Z -> out = marker n)
        | _, _ => out = VObj renv
        end)).
Proof.
  unfold log. destruct (should_drop c payload u) as [drop k]. destruct drop; [discriminate|].
  destruct (redact c payload) as [renv cl|cl|]; try discriminate; intros E; inversion E; subst;
    (split; [reflexivity|]); eexists; (split; [reflexivity|]).
  - right. split; [reflexivity|]. exists renv. split; [reflexivity|].
    destruct (c_max c) as [b|]; [|reflexivity]. destruct size as [n|]; [|reflexivity].
    destruct (n >? b)%Z eqn:En; rewrite Z.gtb_ltb in En.
    + apply Z.ltb_lt in En. split; [intros; lia|reflexivity].
    + apply Z.ltb_ge in En. split; [reflexivity|intros; lia].
  - left. repeat split.
Qed.

(* with an env that is a dict the logger's answer is in the model unless the
   configured redaction specs are outside it (flatten's TOod) *)
Lemma redact_in_model c payload kvs :
  assoc "env" payload = Some (VObj kvs) ->
  snd (flatten (effective_specs c)) <> TOod ->
  redact c payload <> RedOod.
Proof.
  intros He Hn. unfold redact. rewrite He.
  destruct (effective_specs c) as [|sp specs]; [discriminate|].
  destruct (flatten (sp :: specs)) as [ops term]. destruct term; try discriminate.
  exfalso. apply Hn. reflexivity.
Qed.

Lemma log_emits c payload u size k kvs :
  assoc "env" payload = Some (VObj kvs) ->
  should_drop c payload u = (false, k) ->
  snd (flatten (effective_specs c)) <> TOod ->
  exists safe caller raised, log c payload u size = LEmitted k safe caller raised.
Proof.
  intros He Hd Hn. pose proof (redact_in_model c payload kvs He Hn) as Hr.
  unfold log. rewrite Hd. destruct (redact c payload); [| |contradiction]; do 3 eexists; reflexivity.
Qed.

(* ================================================================== *)
(* (2) the emitted record agrees with the decision and is redacted      *)
(* ================================================================== *)
(* For every evaluation that returns a Decision d on the built env, every logger
   configuration c, draw u and size: if the sampling rule selects the record
   (log ... = LEmitted ...), then
   (a) the record is the audit payload OF THE SAME DECISION around another env [out]:
       all six decision fields — "decision" (effect), "allowed", "rule_id", "policy_id",
       "reason", "obligations" — are preserved unchanged, in their places, and no key is
       added or removed; only "env" is rebound;
   (b) [out] is one of: the fail-closed marker (redaction raised), the size marker
       (max_env_bytes exceeded: C19's size bound, both sides of the boundary), or the
       redacted env of Redact.redact; and C19's non-leakage holds for the whole record
       under C19's own hypothesis [secret_hyps] on the engine's payload.
   The placeholders at the configured paths are [logged_placeholders_at_paths] below. *)
Theorem logged_record_agrees_and_is_redacted :
  forall (S : Type) (relh : rel_query -> S -> bool * S)
         (oblig : raw -> value -> option (bool * option string))
         strict policy req resolved (st st' : S) d env
         c u size draws safe caller raised,
  guard_eval S relh oblig strict policy req resolved st = (GDecision d, st') ->
  build_env strict req resolved = Some env ->
  log c (audit_fields env d) u size = LEmitted draws safe caller raised ->
  (* (a) C11's agreement survives redaction *)
  (exists out, safe = audit_payload out d /\
     ((raised = true /\ out = failed_marker /\
       redact c (audit_fields env d) = RedRaised caller) \/
      (raised = false /\ exists renv,
         redact c (audit_fields env d) = RedOk renv caller /\
         match c_max c, size with
         | Some b, Some n => ((n <= b)%Z -> out = VObj renv) /\ ((b < n)%Z -> out = marker n)
         | _, _ => out = VObj renv
         end))) /\
  get_key "decision" safe = VStr (d_effect d) /\
  get_key "allowed" safe = VBool (d_allowed d) /\
  get_key "rule_id" safe = match d_rule_id d with Some s => VStr s | None => VNull end /\
  get_key "policy_id" safe = match d_policy_id d with Some v => v | None => VNull end /\
  get_key "reason" safe = VStr (d_reason d) /\
  get_key "obligations" safe = VList (d_obligations d) /\
  map fst (dict_items safe) = map fst (audit_fields env d) /\
  (* (b) C19's non-leakage, with C19's hypotheses *)
  (forall s, secret_hyps s c (audit_fields env d) = true -> occurs s safe = false).
Proof.
  intros S relh oblig strict policy req resolved st st' d env c u size draws safe caller raised
         _ _ Hl.
  destruct (log_emitted_inv _ _ _ _ _ _ _ _ Hl) as (_ & out & Hs & Hout).
  rewrite upsert_env_audit in Hs. subst safe.
  split; [exists out; split; [reflexivity|exact Hout]|].
  repeat (split; [reflexivity|]).
  intros s Hh. exact (secret_gone s c _ u size draws _ caller raised Hh Hl).
Qed.

(* the same without the evaluation: any env, any Decision value (the hypotheses on the
   evaluation above only say where env and d come from) *)
Theorem logged_record_shape c env d u size draws safe caller raised :
  log c (audit_fields env d) u size = LEmitted draws safe caller raised ->
  exists out, safe = audit_payload out d.
Proof.
  intros Hl. destruct (log_emitted_inv _ _ _ _ _ _ _ _ Hl) as (_ & out & Hs & _).
  exists out. rewrite Hs. reflexivity.
Qed.

(* ---------- C11 through the logger: the RECORD explains itself ---------- *)
(* a record that names a rule names an applicable rule of the policy with the recorded
   effect / flag / reason (EngineProofs.rule_id_truthful read off the record) *)
Theorem logged_rule_id_truthful :
  forall rel strict kvs req resolved d s oblig env c u size draws safe caller raised,
  tree_ok (VObj kvs) ->
  guard_eval unit (relh_pure rel) oblig strict (VObj kvs) req resolved tt = (GDecision d, tt) ->
  build_env strict req resolved = Some env ->
  log c (audit_fields env d) u size = LEmitted draws safe caller raised ->
  get_key "rule_id" safe = VStr s -> (has_key "policies" (VObj kvs) = true -> s <> "") ->
  exists rule eff,
    In rule (all_rules (VObj kvs)) /\ applicable rel rule env /\ rule_id rule = VStr s /\
    rule_effect rule = Some eff /\
    ((eff = "deny" /\ get_key "decision" safe = VStr "deny" /\ get_key "allowed" safe = VBool false /\
      get_key "reason" safe = VStr "explicit_deny") \/
     (eff = "permit" /\ get_key "obligations" safe = VList (rule_obls rule) /\
      ((get_key "decision" safe = VStr "permit" /\ get_key "allowed" safe = VBool true /\
        get_key "reason" safe = VStr "matched") \/
       (get_key "decision" safe = VStr "deny" /\ get_key "allowed" safe = VBool false /\
        get_key "reason" safe = VStr "obligation_failed")))).
Proof.
  intros rel strict kvs req resolved d s oblig env c u size draws safe caller raised
         Ht Hg Hb Hl Hrid Hne.
  destruct (logged_record_shape _ _ _ _ _ _ _ _ _ Hl) as [out ->].
  assert (Hs : d_rule_id d = Some s).
  { change (get_key "rule_id" (audit_payload out d))
      with (match d_rule_id d with Some s' => VStr s' | None => VNull end) in Hrid.
    destruct (d_rule_id d); inversion Hrid; reflexivity. }
  destruct (rule_id_truthful rel strict kvs req resolved d s oblig Ht Hg Hs Hne)
    as (env' & rule & eff & Hb' & Hin & Happ & Hid & Heff & Hcase).
  rewrite Hb in Hb'. inversion Hb'; subst env'.
  exists rule, eff. repeat (split; [assumption|]).
  change (get_key "decision" (audit_payload out d)) with (VStr (d_effect d)).
  change (get_key "allowed" (audit_payload out d)) with (VBool (d_allowed d)).
  change (get_key "reason" (audit_payload out d)) with (VStr (d_reason d)).
  change (get_key "obligations" (audit_payload out d)) with (VList (d_obligations d)).
  destruct Hcase as [(-> & -> & -> & ->)|(-> & -> & [(-> & -> & ->)|(-> & -> & ->)])].
  - left. repeat split.
  - right. repeat split. left. repeat split.
  - right. repeat split. right. repeat split.
Qed.

(* a record without a rule id is a deny whose recorded reason is no_match or a mismatch
   some rule of the policy exhibited on this request *)
Theorem logged_no_rule_reason :
  forall rel strict kvs req resolved d oblig env c u size draws safe caller raised,
  guard_eval unit (relh_pure rel) oblig strict (VObj kvs) req resolved tt = (GDecision d, tt) ->
  build_env strict req resolved = Some env ->
  log c (audit_fields env d) u size = LEmitted draws safe caller raised ->
  get_key "rule_id" safe = VNull ->
  exists reason, get_key "reason" safe = VStr reason /\
                 exhibited rel env (all_rules (VObj kvs)) reason /\
                 get_key "allowed" safe = VBool false /\ get_key "decision" safe = VStr "deny".
Proof.
  intros rel strict kvs req resolved d oblig env c u size draws safe caller raised Hg Hb Hl Hrid.
  destruct (logged_record_shape _ _ _ _ _ _ _ _ _ Hl) as [out ->].
  assert (Hs : d_rule_id d = None).
  { change (get_key "rule_id" (audit_payload out d))
      with (match d_rule_id d with Some s' => VStr s' | None => VNull end) in Hrid.
    destruct (d_rule_id d); [discriminate|reflexivity]. }
  destruct (no_rule_reason rel strict kvs req resolved d oblig Hg Hs) as (env' & Hb' & Hex & Ha & He).
  rewrite Hb in Hb'. inversion Hb'; subst env'.
  exists (d_reason d). split; [reflexivity|]. split; [exact Hex|].
  change (get_key "allowed" (audit_payload out d)) with (VBool (d_allowed d)).
  change (get_key "decision" (audit_payload out d)) with (VStr (d_effect d)).
  rewrite Ha, He. split; reflexivity.
Qed.

(* ---------- C19's size bound on the engine's payload ---------- *)
Theorem logged_size_bound :
  forall c env d u n b renv caller draws,
  should_drop c (audit_fields env d) u = (false, draws) ->
  redact c (audit_fields env d) = RedOk renv caller ->
  c_max c = Some b ->
  exists out, log c (audit_fields env d) u (Some n)
              = LEmitted draws (audit_payload out d) caller false /\
              ((n <= b)%Z -> out = VObj renv) /\ ((b < n)%Z -> out = marker n).
Proof.
  intros c env d u n b renv caller draws Hd Hr Hm.
  destruct (size_bound c _ u n b renv caller draws Hd Hr Hm) as (safe & Hl & H1 & H2).
  destruct (logged_record_shape _ _ _ _ _ _ _ _ _ Hl) as [out Hs].
  exists out. rewrite Hl, Hs. split; [reflexivity|].
  inversion Hs; subst safe.
  split; intros H; [specialize (H1 H)|specialize (H2 H)]; simpl in *; congruence.
Qed.

(* ---------- placeholders at ALL configured paths ---------- *)
(* C19 states "the placeholder is at the path" for one write (c19_placeholder_at_path).
   For the record the logger emits, every configured path must survive the LATER writes;
   it does when the paths are well formed and pairwise part at a dict key
   ([paths_disjoint], decidable; the default redaction set is: [default_paths_disjoint]).
   A path that is a prefix of a later one, or equal to it, is excluded (the later write
   replaces or rewrites what the earlier one wrote). *)
Fixpoint diverge (p q : list step) : bool :=
  match p, q with
  | KS a :: p', KS b :: q' => if String.eqb a b then diverge p' q' else true
  | IS a :: p', IS b :: q' => if Nat.eqb a b then diverge p' q' else false
  | _, _ => false
  end.

Definition pos_of (o : op) : option (list step) :=
  match fst o with [] => None | _ => steps_of (fst o) end.

Fixpoint paths_disjoint (ops : list op) : bool :=
  match ops with
  | [] => true
  | o :: r =>
      match pos_of o with
      | Some p => forallb (fun o' => match pos_of o' with Some q => diverge p q | None => false end) r
                  && paths_disjoint r
      | None => false
      end
  end.

Lemma diverge_split : forall p q, diverge p q = true ->
  exists c k k' r r', p = (c ++ KS k :: r)%list /\ q = (c ++ KS k' :: r')%list /\ k <> k'.
Proof.
  induction p as [|[a|a] p IH]; intros q H; simpl in H; try discriminate.
  - destruct q as [|[b|b] q]; try discriminate. destruct (String.eqb a b) eqn:E.
    + apply String.eqb_eq in E. subst b.
      destruct (IH q H) as (c & k & k' & r & r' & -> & -> & Hn).
      exists (KS a :: c), k, k', r, r'. repeat split; auto.
    + exists [], a, b, p, q. repeat split. apply String.eqb_neq. exact E.
  - destruct q as [|[b|b] q]; try discriminate. destruct (Nat.eqb a b) eqn:E; [|discriminate].
    apply Nat.eqb_eq in E. subst b.
    destruct (IH q H) as (c & k & k' & r & r' & -> & -> & Hn).
    exists (IS a :: c), k, k', r, r'. repeat split; auto.
Qed.

(* on a well-formed path, reading the path is reading the position it denotes *)
Lemma get_segs_lookup : forall segs pos e,
  steps_of segs = Some pos -> get_segs segs e = lookup pos e.
Proof.
  induction segs as [|s rest IH]; intros pos e H.
  - simpl in H. inversion H. reflexivity.
  - destruct s as [k|k i| |]; simpl in H; try discriminate.
    + destruct (steps_of rest) as [p|] eqn:E; [|discriminate]. inversion H; subst pos.
      simpl. destruct e as [| | | | |kvs|]; try reflexivity.
      destruct (assoc k kvs); [apply IH; reflexivity|reflexivity].
    + destruct (i <? 0)%Z eqn:Ei; [discriminate|].
      destruct (steps_of rest) as [p|] eqn:E; [|discriminate]. inversion H; subst pos.
      simpl. destruct e as [| | | | |kvs|]; try reflexivity.
      destruct (assoc k kvs) as [[| | | |l0| |]|]; try reflexivity.
      rewrite (norm_idx_nonneg _ _ Ei).
      destruct (nth_error l0 (Z.to_nat i)); [apply IH; reflexivity|reflexivity].
Qed.

Lemma run_ops_preserve : forall r st p x,
  (forall o', In o' r -> exists q, pos_of o' = Some q /\ diverge p q = true) ->
  lookup p (VObj (a_work st)) = Some x ->
  lookup p (VObj (a_work (run_ops r st))) = Some x.
Proof.
  induction r as [|o r IH]; intros st p x Hd Hl; [exact Hl|].
  rewrite run_ops_cons. apply IH; [intros o' Ho'; apply Hd; now right|].
  rewrite step_op_work. destruct (Hd o (or_introl eq_refl)) as (q & Hq & Hdv).
  destruct (diverge_split _ _ Hdv) as (c & k & k' & r1 & r2 & -> & -> & Hn).
  assert (Hs : steps_of (fst o) = Some (c ++ KS k' :: r2)%list).
  { unfold pos_of in Hq. destruct (fst o); [discriminate|exact Hq]. }
  rewrite (frame_key (fst o) (snd o) (VObj (a_work st)) c k k' r1 r2 Hs Hn). exact Hl.
Qed.

Lemma run_ops_placeholders : forall ops st,
  paths_disjoint ops = true ->
  forall o, In o ops -> get_segs (fst o) (VObj (a_work (run_ops ops st))) = Some (snd o).
Proof.
  induction ops as [|o0 r IH]; intros st Hd o Ho; [destruct Ho|].
  simpl in Hd. destruct (pos_of o0) as [p|] eqn:Hp; [|discriminate].
  apply andb_true_iff in Hd. destruct Hd as [Hf Hr].
  rewrite run_ops_cons. destruct Ho as [<-|Ho]; [|apply IH; assumption].
  assert (Hne : fst o0 <> [] /\ steps_of (fst o0) = Some p).
  { unfold pos_of in Hp. destruct (fst o0); [discriminate|]. split; [discriminate|exact Hp]. }
  destruct Hne as [Hne Hs].
  rewrite (get_segs_lookup _ _ _ Hs). apply run_ops_preserve.
  - intros o' Ho'. rewrite forallb_forall in Hf. specialize (Hf o' Ho').
    destruct (pos_of o'); [eexists; split; [reflexivity|exact Hf]|discriminate].
  - rewrite step_op_work. rewrite <- (get_segs_lookup _ _ _ Hs).
    apply (placeholder_at_path _ _ _ p Hne Hs). reflexivity.
Qed.

Lemma redact_done c payload kvs ops :
  assoc "env" payload = Some (VObj kvs) ->
  flatten (effective_specs c) = (ops, TDone) ->
  exists renv caller, redact c payload = RedOk renv caller /\
    forall o, paths_disjoint ops = true -> In o ops -> get_segs (fst o) (VObj renv) = Some (snd o).
Proof.
  intros He Hf. unfold redact. rewrite He.
  destruct (effective_specs c) as [|sp specs].
  - rewrite flatten_nil in Hf. inversion Hf; subst ops. do 2 eexists. split; [reflexivity|].
    intros o _ [].
  - rewrite Hf. do 2 eexists. split; [reflexivity|].
    intros o Hd Ho. apply run_ops_placeholders; assumption.
Qed.

(* every configured path reads its placeholder in the emitted record: specs in the model
   that do not raise (flatten .. = (ops, TDone)), well-formed pairwise parting paths, and
   the record not replaced by the size marker (no bound, no size, or within the bound).
   Note that apply_obligations CREATES a missing path (c19_placeholder_at_path): the
   placeholder is there whether or not the request carried the field. *)
Theorem logged_placeholders_at_paths :
  forall strict req resolved env d c u size draws safe caller raised ops,
  build_env strict req resolved = Some env ->
  flatten (effective_specs c) = (ops, TDone) -> paths_disjoint ops = true ->
  log c (audit_fields env d) u size = LEmitted draws safe caller raised ->
  (forall b n, c_max c = Some b -> size = Some n -> (n <= b)%Z) ->
  raised = false /\
  forall segs ph, In (segs, ph) ops -> get_segs segs (get_key "env" safe) = Some ph.
Proof.
  intros strict req resolved env d c u size draws safe caller raised ops Hb Hf Hd Hl Hsz.
  destruct (build_env_obj _ _ _ _ Hb) as [kvs ->].
  destruct (redact_done c (audit_fields (VObj kvs) d) kvs ops eq_refl Hf) as (renv & cl & Hr & Hp).
  destruct (log_emitted_inv _ _ _ _ _ _ _ _ Hl) as (_ & out & Hs & Hout).
  rewrite upsert_env_audit in Hs. subst safe.
  destruct Hout as [(_ & _ & Hr')|(-> & renv' & Hr' & Hm)]; [rewrite Hr in Hr'; discriminate|].
  split; [reflexivity|]. rewrite Hr in Hr'. inversion Hr'; subst renv' cl.
  assert (Ho : out = VObj renv).
  { destruct (c_max c) as [b|] eqn:Eb; [|exact Hm]. destruct size as [n|]; [|exact Hm].
    apply (proj1 Hm). apply (Hsz b n); reflexivity. }
  subst out. intros segs ph Hin. exact (Hp (segs, ph) Hd Hin).
Qed.

(* the opt-in default redaction set *)
Definition default_ops : list op := fst (flatten default_redactions).
Lemma default_flatten : flatten default_redactions = (default_ops, TDone).
Proof. vm_compute. reflexivity. Qed.
Lemma default_paths_disjoint : paths_disjoint default_ops = true.
Proof. vm_compute. reflexivity. Qed.

Definition default_redacted_paths : list string :=
  ["subject.attrs.password"; "subject.attrs.token"; "subject.attrs.mfa_code";
   "context.headers.authorization"; "context.cookies"; "resource.attrs.secret";
   "subject.attrs.email"; "subject.attrs.phone"].

(* DecisionLogger(use_default_redactions=True) with `redactions` not given: in every
   record emitted for an evaluation, each of the eight redact paths reads "[REDACTED]" and
   context.ip reads "***" *)
Theorem logged_default_redactions :
  forall strict req resolved env d c u size draws safe caller raised,
  build_env strict req resolved = Some env ->
  c_redactions c = None -> c_usedef c = true ->
  log c (audit_fields env d) u size = LEmitted draws safe caller raised ->
  (forall b n, c_max c = Some b -> size = Some n -> (n <= b)%Z) ->
  raised = false /\
  (forall p, In p default_redacted_paths ->
             get_segs (parse_path p) (get_key "env" safe) = Some (VStr "[REDACTED]")) /\
  get_segs (parse_path "context.ip") (get_key "env" safe) = Some (VStr "***").
Proof.
  intros strict req resolved env d c u size draws safe caller raised Hb Hn Hu Hl Hsz.
  assert (Hf : flatten (effective_specs c) = (default_ops, TDone)).
  { unfold effective_specs. rewrite Hn, Hu. exact default_flatten. }
  destruct (logged_placeholders_at_paths strict req resolved env d c u size draws safe caller raised
              default_ops Hb Hf default_paths_disjoint Hl Hsz) as [Hr Hp].
  split; [exact Hr|]. split.
  - intros p Hin. apply Hp. simpl in Hin.
    repeat (destruct Hin as [<-|Hin]; [vm_compute; tauto|]). destruct Hin.
  - apply Hp. vm_compute. tauto.
Qed.

(* ================================================================== *)
(* (3) the caller's env and the returned decision                       *)
(* ================================================================== *)
(* redact_in_place=False (the default): the env object the engine built — and with it
   everything reachable from it: the attrs/context values the env shares with the
   caller's Subject / Resource / Context objects — is after the call what it was before,
   whatever the specs, the sampling and the size bound.  (The Decision holds no reference
   into the env; its obligations list is the payload's "obligations", which
   [logged_record_agrees_and_is_redacted] shows unchanged.)  C19's
   c19_caller_env_untouched on the engine's payload. *)
Theorem caller_env_untouched_by_logging :
  forall strict req resolved env d c u size draws safe caller raised,
  build_env strict req resolved = Some env ->
  c_inplace c = false ->
  log c (audit_fields env d) u size = LEmitted draws safe caller raised ->
  caller = Some env /\ build_env strict req resolved = Some env.
Proof.
  intros strict req resolved env d c u size draws safe caller raised Hb Hi Hl.
  split; [|exact Hb].
  exact (log_caller_untouched c _ u size draws safe caller raised Hi Hl).
Qed.

(* redact_in_place=True: the engine's env object keeps exactly its top-level keys
   (subject, action, resource, context [, __strict_types__]); the logger writes below
   them (C19's c19_inplace_caller_account on the engine's payload) *)
Theorem inplace_env_keeps_its_keys :
  forall strict req resolved kvs d c u size draws safe caller raised,
  build_env strict req resolved = Some (VObj kvs) ->
  log c (audit_fields (VObj kvs) d) u size = LEmitted draws safe caller raised ->
  exists kvs', caller = Some (VObj kvs') /\ map fst kvs' = map fst kvs.
Proof.
  intros strict req resolved kvs d c u size draws safe caller raised _ Hl.
  pose proof (redact_inplace_keys c (audit_fields (VObj kvs) d) kvs eq_refl) as H.
  destruct (log_emitted_inv _ _ _ _ _ _ _ _ Hl) as (_ & out & _ & Hout).
  destruct Hout as [(_ & _ & Hr)|(_ & renv & Hr & _)]; rewrite Hr in H; exact H.
Qed.

(* sinks_inert for this sink: the answer of the evaluation (Decision, raise, state) does
   not depend on the logger: not on its configuration, not on the draw (dropped or
   emitted), not on the size, not on whether redaction raised or was in place *)
Theorem logging_inert :
  forall S relh oblig strict policy req resolved st c u size,
  fst (eval_logged S relh oblig strict policy req resolved st c u size)
  = guard_eval S relh oblig strict policy req resolved st.
Proof. reflexivity. Qed.

Corollary logging_inert_two_loggers :
  forall S relh oblig strict policy req resolved st c1 u1 size1 c2 u2 size2,
  fst (eval_logged S relh oblig strict policy req resolved st c1 u1 size1)
  = fst (eval_logged S relh oblig strict policy req resolved st c2 u2 size2).
Proof. reflexivity. Qed.

(* the same on EngineProofs.emit: the decision `emit` returns with the DecisionLogger as
   its sink is d, and the record is made from the payload emit logged *)
Theorem emit_with_decision_logger c u size inc env d :
  let e := emit (logger_sink c u size) inc env d in
  e_decision e = d /\ records_of c u size e = [log c (audit_fields env d) u size].
Proof. split; reflexivity. Qed.

(* ================================================================== *)
(* (4) sampling: which decisions always reach the log                   *)
(* ================================================================== *)
(* the category _should_drop_by_sampling computes from the payload, in terms of the
   Decision *)
Definition decision_class (d : decision) : string :=
  if negb (d_allowed d) then "deny"
  else match d_obligations d with [] => "permit" | _ => "permit_with_obligations" end.

Lemma payload_denied_decision env d :
  payload_denied (audit_fields env d) = String.eqb (d_effect d) "deny" || negb (d_allowed d).
Proof. reflexivity. Qed.
Lemma payload_obligations_decision env d :
  payload_has_obligations (audit_fields env d)
  = match d_obligations d with [] => false | _ => true end.
Proof. reflexivity. Qed.

Theorem category_of_evaluated_decision :
  forall S relh oblig strict policy req resolved (st st' : S) d env,
  guard_eval S relh oblig strict policy req resolved st = (GDecision d, st') ->
  category (audit_fields env d) = decision_class d.
Proof.
  intros S relh oblig strict policy req resolved st st' d env Hg.
  pose proof (guard_eval_effect _ _ _ _ _ _ _ _ _ _ Hg) as He.
  unfold category, decision_class. simpl. rewrite He.
  destruct (d_allowed d); simpl; [|reflexivity]. destruct (d_obligations d); reflexivity.
Qed.

(* smart sampling with the default category rates: every deny (effect "deny", or not
   allowed — for an evaluated Decision the two coincide, guard_eval_effect) and every
   permit that carries obligations is emitted, whatever sample_rate is, for every draw in
   [0,1): it is not dropped, and (specs inside the model) a record comes out *)
Theorem denies_and_obliged_permits_always_logged :
  forall (S : Type) (relh : rel_query -> S -> bool * S)
         (oblig : raw -> value -> option (bool * option string))
         strict policy req resolved (st st' : S) d env c u size,
  guard_eval S relh oblig strict policy req resolved st = (GDecision d, st') ->
  build_env strict req resolved = Some env ->
  c_smart c = true -> c_strategy c = default_strategy -> in_unit u ->
  d_effect d = "deny" \/ d_allowed d = false \/ d_obligations d <> [] ->
  should_drop c (audit_fields env d) u = (false, 1%nat) /\
  (forall k, log c (audit_fields env d) u size <> LDropped k) /\
  (snd (flatten (effective_specs c)) <> TOod ->
   exists safe caller raised,
     log c (audit_fields env d) u size = LEmitted 1 safe caller raised /\
     snd (eval_logged S relh oblig strict policy req resolved st c u size)
     = [LEmitted 1 safe caller raised]).
Proof.
  intros S relh oblig strict policy req resolved st st' d env c u size Hg Hb Hs Hst Hu Hc.
  assert (Hcat : payload_denied (audit_fields env d) = true \/
                 payload_has_obligations (audit_fields env d) = true).
  { rewrite payload_denied_decision, payload_obligations_decision.
    destruct Hc as [->|[->|Ho]].
    - left. reflexivity.
    - left. apply orb_true_r.
    - right. destruct (d_obligations d); [contradiction|reflexivity]. }
  destruct (sampling_smart_default c _ u size Hs Hst Hcat Hu) as [Hd Hnd].
  split; [exact Hd|]. split; [exact Hnd|].
  intros Hood. destruct (build_env_obj _ _ _ _ Hb) as [kvs ->].
  destruct (log_emits c (audit_fields (VObj kvs) d) u size 1 kvs eq_refl Hd Hood)
    as (safe & caller & raised & Hl).
  exists safe, caller, raised. split; [exact Hl|].
  rewrite (eval_logged_records _ _ _ _ _ _ _ _ _ _ _ _ _ _ Hg Hb). rewrite Hl. reflexivity.
Qed.

(* the remaining class: a plain permit is sampled at sample_rate under the default
   category rates (so it can be dropped: C19's c19_sampling_smart_rate0 / rate1 apply
   with eff_rate = sample_rate) *)
Theorem plain_permit_sampled_at_rate :
  forall S relh oblig strict policy req resolved (st st' : S) d env c,
  guard_eval S relh oblig strict policy req resolved st = (GDecision d, st') ->
  c_strategy c = default_strategy ->
  d_allowed d = true -> d_obligations d = [] ->
  category (audit_fields env d) = "permit" /\ eff_rate c (audit_fields env d) = c_rate c.
Proof.
  intros S relh oblig strict policy req resolved st st' d env c Hg Hst Ha Ho.
  assert (Hc : category (audit_fields env d) = "permit").
  { rewrite (category_of_evaluated_decision _ _ _ _ _ _ _ _ _ _ env Hg).
    unfold decision_class. rewrite Ha, Ho. reflexivity. }
  split; [exact Hc|]. unfold eff_rate. rewrite Hc, Hst. reflexivity.
Qed.

(* legacy sampling (smart_sampling=False) on the engine's payload: C19's two laws *)
Theorem legacy_rate0_logs_nothing :
  forall S relh oblig strict policy req resolved (st st' : S) d env c u size,
  guard_eval S relh oblig strict policy req resolved st = (GDecision d, st') ->
  build_env strict req resolved = Some env ->
  c_smart c = false -> f_le (c_rate c) nv_zero = true ->
  eval_logged S relh oblig strict policy req resolved st c u size = ((GDecision d, st'), [LDropped 0]).
Proof.
  intros S relh oblig strict policy req resolved st st' d env c u size Hg Hb Hs Hr.
  unfold eval_logged. rewrite Hg, Hb. cbn [fst]. rewrite bridge_payload_is_log_argument.
  rewrite (sampling_rate0 c _ u size Hs Hr). reflexivity.
Qed.

(* ================================================================== *)
(* (5) non-vacuity                                                      *)
(* ================================================================== *)
(* policy: permit "read" on doc with an MFA obligation (rule r1).  The request's context
   carries an Authorization header, a client address and the MFA flag. *)
Definition ar_secret := "S3CR3T".
Definition ar_policy : value :=
  VObj [("id", VStr "p1"); ("algorithm", VStr "deny-overrides");
        ("rules", VList [VObj [("id", VStr "r1"); ("effect", VStr "permit");
                               ("actions", VList [VStr "read"]);
                               ("resource", VObj [("type", VStr "doc")]);
                               ("obligations", VList [VObj [("type", VStr "require_mfa")]])]])].
Definition ar_req : value :=
  VObj [("subject", VObj [("id", VStr "u"); ("roles", VList []); ("attrs", VObj [])]);
        ("action", VStr "read");
        ("resource", VObj [("type", VStr "doc"); ("id", VStr "1"); ("attrs", VObj [])]);
        ("context", VObj [("headers", VObj [("authorization", VStr ("Bearer " ++ ar_secret));
                                            ("accept", VStr "text/html")]);
                          ("ip", VStr "10.0.0.1"); ("mfa", VBool true)])].
Definition ar_decision : decision :=
  {| d_allowed := true; d_effect := "permit";
     d_obligations := [VObj [("type", VStr "require_mfa")]]; d_challenge := None;
     d_rule_id := Some "r1"; d_policy_id := None; d_reason := "matched" |}.
(* DecisionLogger(use_default_redactions=True, smart_sampling=True, sample_rate=0) *)
Definition ar_kwargs : list (string * value) :=
  [("use_default_redactions", VBool true); ("smart_sampling", VBool true);
   ("sample_rate", VNum (NInt 0))].
Definition ar_half : nview := NvFin 1 (-1).

Definition ar_env : value :=
  VObj [("subject", VObj [("id", VStr "u"); ("roles", VList []); ("attrs", VObj [])]);
        ("action", VStr "read");
        ("resource", VObj [("type", VStr "doc"); ("id", VStr "1"); ("attrs", VObj [])]);
        ("context", VObj [("headers", VObj [("authorization", VStr ("Bearer " ++ ar_secret));
                                            ("accept", VStr "text/html")]);
                          ("ip", VStr "10.0.0.1"); ("mfa", VBool true)])].
(* the record: the decision fields as the engine reported them; "[REDACTED]" at
   context.headers.authorization (the sibling header is kept), "***" at context.ip, and
   the other default paths created with their placeholder *)
Definition ar_record : value :=
  VObj [("env",
         VObj [("subject", VObj [("id", VStr "u"); ("roles", VList []);
                                 ("attrs", VObj [("password", VStr "[REDACTED]");
                                                 ("token", VStr "[REDACTED]");
                                                 ("mfa_code", VStr "[REDACTED]");
                                                 ("email", VStr "[REDACTED]");
                                                 ("phone", VStr "[REDACTED]")])]);
               ("action", VStr "read");
               ("resource", VObj [("type", VStr "doc"); ("id", VStr "1");
                                  ("attrs", VObj [("secret", VStr "[REDACTED]")])]);
               ("context", VObj [("headers", VObj [("authorization", VStr "[REDACTED]");
                                                   ("accept", VStr "text/html")]);
                                 ("ip", VStr "***"); ("mfa", VBool true);
                                 ("cookies", VStr "[REDACTED]")])]);
        ("decision", VStr "permit"); ("allowed", VBool true); ("rule_id", VStr "r1");
        ("policy_id", VNull); ("reason", VStr "matched");
        ("obligations", VList [VObj [("type", VStr "require_mfa")]])].

Example ar_tree_ok : tree_ok ar_policy.
Proof.
  unfold tree_ok, ar_policy. rewrite single_leaves by reflexivity.
  constructor; [|constructor]. split.
  - right. exists "deny-overrides". split; [reflexivity|]. split; [reflexivity|]. vm_compute. discriminate.
  - intros rule eff Hin. vm_compute in Hin. destruct Hin as [<-|[]]. vm_compute. intros H; inversion H. now left.
Qed.

(* evaluated, then logged: a permit with obligations, so emitted although sample_rate=0;
   the caller's env is what it was; the hypotheses of the transported theorems hold
   (secret_hyps for the bearer token, in_unit for the draw, disjoint default paths) *)
Example ar_example :
  exists c, init ar_kwargs = Some c /\
  guard_eval unit (relh_pure (fun _ => false)) builtin_oblig false ar_policy ar_req None tt
    = (GDecision ar_decision, tt) /\
  build_env false ar_req None = Some ar_env /\
  eval_logged unit (relh_pure (fun _ => false)) builtin_oblig false ar_policy ar_req None tt c ar_half None
    = ((GDecision ar_decision, tt), [LEmitted 1 ar_record (Some ar_env) false]) /\
  get_segs (parse_path "context.headers.authorization") (get_key "env" ar_record)
    = Some (VStr "[REDACTED]") /\
  get_key "decision" ar_record = VStr (d_effect ar_decision) /\
  get_key "allowed" ar_record = VBool (d_allowed ar_decision) /\
  get_key "rule_id" ar_record = VStr "r1" /\
  get_key "reason" ar_record = VStr (d_reason ar_decision) /\
  occurs ar_secret ar_env = true /\ occurs ar_secret ar_record = false /\
  secret_hyps ar_secret c (audit_fields ar_env ar_decision) = true /\
  decision_class ar_decision = "permit_with_obligations" /\
  in_unit ar_half.
Proof.
  eexists. split; [vm_compute; reflexivity|].
  repeat (split; [vm_compute; reflexivity|]).
  split; vm_compute; reflexivity.
Qed.

(* the same request without the MFA flag: refused (obligation_failed), a deny: emitted
   too, with the same redactions; and with legacy sampling at rate 0 nothing is logged
   while the decision is the same *)
Definition ar_req_no_mfa : value :=
  VObj [("subject", VObj [("id", VStr "u"); ("roles", VList []); ("attrs", VObj [])]);
        ("action", VStr "read");
        ("resource", VObj [("type", VStr "doc"); ("id", VStr "1"); ("attrs", VObj [])]);
        ("context", VObj [("headers", VObj [("authorization", VStr ("Bearer " ++ ar_secret))])])].
Example ar_example_deny :
  exists c c0, init ar_kwargs = Some c /\ init [("sample_rate", VNum (NInt 0))] = Some c0 /\
  match eval_logged unit (relh_pure (fun _ => false)) builtin_oblig false ar_policy ar_req_no_mfa None tt
                    c ar_half None with
  | ((GDecision d, _), [LEmitted 1 safe (Some env) false]) =>
      d_allowed d = false /\ d_effect d = "deny" /\ d_reason d = "obligation_failed" /\
      safe <> audit_payload env d /\
      get_key "decision" safe = VStr "deny" /\ get_key "allowed" safe = VBool false /\
      get_key "rule_id" safe = VStr "r1" /\ get_key "reason" safe = VStr "obligation_failed" /\
      get_segs (parse_path "context.headers.authorization") (get_key "env" safe)
        = Some (VStr "[REDACTED]") /\
      occurs ar_secret env = true /\ occurs ar_secret safe = false /\
      eval_logged unit (relh_pure (fun _ => false)) builtin_oblig false ar_policy ar_req_no_mfa None tt
                  c0 ar_half None = ((GDecision d, tt), [LDropped 0])
  | _ => False
  end.
Proof.
  do 2 eexists. split; [vm_compute; reflexivity|]. split; [vm_compute; reflexivity|].
  vm_compute. repeat split; try reflexivity. discriminate.
Qed.
