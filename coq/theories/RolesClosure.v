(* RolesClosure.v — expand g is a closure operator on sets of roles (property
   C18): extensive, monotone, idempotent, and blind to the order and repetition
   of the roles it is given.  Proofs only, all consequences of
   RolesProofs.expand_closure. *)
From Coq Require Import List String Relations.
From Rbacx Require Import Value Roles RolesProofs.
Import ListNotations.

(* extensive: every given role is in the answer *)
Theorem expand_extensive g roles l :
  expand g roles = Some l -> incl roles l.
Proof.
  intros H r Hr. apply (expand_closure g roles l H). exists r. split; [exact Hr|apply rt_refl].
Qed.

(* monotone: more roles in, more roles out *)
Theorem expand_monotone g roles roles' l l' :
  expand g roles = Some l -> expand g roles' = Some l' -> incl roles roles' -> incl l l'.
Proof.
  intros H H' Hi x Hx. apply (expand_closure g roles l H) in Hx. destruct Hx as [r [Hr Hc]].
  apply (expand_closure g roles' l' H'). exists r. split; [apply Hi; exact Hr|exact Hc].
Qed.

(* the given roles matter only as a set *)
Theorem expand_roles_set g roles roles' l l' :
  expand g roles = Some l -> expand g roles' = Some l' ->
  (forall r, In r roles <-> In r roles') -> forall x, In x l <-> In x l'.
Proof.
  intros H H' He x. split; [apply (expand_monotone g roles roles' l l' H H')|apply (expand_monotone g roles' roles l' l H' H)];
    intros r Hr; apply He; exact Hr.
Qed.

(* idempotent: expanding an answer adds nothing *)
Theorem expand_idempotent g roles l l2 :
  expand g roles = Some l -> expand g l = Some l2 -> forall x, In x l2 <-> In x l.
Proof.
  intros H H2 x. split.
  - intros Hx. apply (expand_closure g l l2 H2) in Hx. destruct Hx as [m [Hm Hc]].
    apply (expand_closure g roles l H) in Hm. destruct Hm as [r [Hr Hc']].
    apply (expand_closure g roles l H). exists r. split; [exact Hr|eapply rt_trans; eauto].
  - intros Hx. apply (expand_extensive g l l2 H2). exact Hx.
Qed.

(* the answer is closed under the inheritance edges *)
Theorem expand_closed g roles l :
  expand g roles = Some l -> forall x y, In x l -> edge g x y -> In y l.
Proof.
  intros H x y Hx He. apply (expand_closure g roles l H) in Hx. destruct Hx as [r [Hr Hc]].
  apply (expand_closure g roles l H). exists r. split; [exact Hr|].
  eapply rt_trans; [exact Hc|apply rt_step; exact He].
Qed.

(* union: the answer for roles1 ++ roles2 is the union of the two answers *)
Theorem expand_union g r1 r2 l1 l2 l :
  expand g r1 = Some l1 -> expand g r2 = Some l2 -> expand g (r1 ++ r2) = Some l ->
  forall x, In x l <-> In x l1 \/ In x l2.
Proof.
  intros H1 H2 H x. rewrite (expand_closure g _ _ H x), (expand_closure g _ _ H1 x), (expand_closure g _ _ H2 x).
  split.
  - intros [r [Hr Hc]]. apply in_app_or in Hr. destruct Hr as [Hr|Hr]; [left|right]; exists r; auto.
  - intros [[r [Hr Hc]]|[r [Hr Hc]]]; exists r; (split; [apply in_or_app; auto|exact Hc]).
Qed.
