(* CacheExplain.v — the explanation theorems of C01 / C11 THROUGH the decision cache.

   EngineProofs.v explains one uncached evaluation (guard_eval): a permit has an
   applicable, satisfied permit rule; a reported rule id names an applicable rule with
   the reported effect; no reported rule = deny with an exhibited reason.
   CacheGuardProofs.v proves the cache transparent over every history (run_cached =
   run_ref).  This file composes the two, so that the explanations hold for every
   answer — cache hits included — of ANY history of evaluate / set_policy / clear_cache /
   clock operations on one or two guards that share a cache, and speak of the policy
   the evaluating guard holds AT THAT POINT of the history.

   Vocabulary.
   * a SITE of a history h is a decomposition  h = pre ++ HEval w req :: post ; the
     answer to that evaluation is the [evals_in pre]-th element of the answer list
     (answer lists have one entry per HEval, in order: run_ref_length, site_exists).
   * [policy_at w pre g1 g2]: the policy guard w holds after the operations [pre]
     = the argument of the last HSetPolicy w _ in pre, else its initial policy
     (last_set_some / last_set_none say exactly that).
   * [guard_strict w g1 g2]: the type mode of guard w (no operation changes it).

   The relationship checker is [relh_pure rel] for an arbitrary oracle [rel], the form
   in which the uncached theorems are stated; its state is unit as in C08.
   No hypothesis is added to those of c08_transparent_key_safe and of the uncached
   theorems: "the policy is an object (VObj kvs)" of the uncached statements is not
   needed here, because an evaluation against a non-object policy never answers a
   Decision (guard_eval_decision_obj). *)
From Coq Require Import ZArith List Bool String Ascii Lia.
From Rbacx Require Import Value Cond Target Policy PolicySet Compiler Oblig Engine
  PolicyProofs PolicySetProofs ObligProofs EngineProofs
  Cache CacheProofs CacheKey CacheKeyProofs CacheGuard CacheGuardProofs.
Import ListNotations.
Local Open Scope string_scope.
Local Open Scope list_scope.

(* ------------------------------------------------------------------ *)
(* the policy a guard holds at a point of a history                    *)
(* ------------------------------------------------------------------ *)
Definition sets_policy (w : bool) (o : hop) : option value :=
  match o with
  | HSetPolicy w' p => if Bool.eqb w w' then Some p else None
  | _ => None
  end.

(* the argument of the LAST set_policy addressed to guard w in pre *)
Fixpoint last_set (w : bool) (pre : list hop) : option value :=
  match pre with
  | [] => None
  | o :: r => match last_set w r with Some p => Some p | None => sets_policy w o end
  end.

Definition policy_at (w : bool) (pre : list hop) (g1 g2 : gcfg) : value :=
  match last_set w pre with
  | Some p => p
  | None => g_policy (if w then g2 else g1)
  end.

Definition guard_strict (w : bool) (g1 g2 : gcfg) : bool := g_strict (if w then g2 else g1).

(* number of evaluations in a history = position of the next answer *)
Fixpoint evals_in (pre : list hop) : nat :=
  match pre with
  | [] => O
  | HEval _ _ :: r => Datatypes.S (evals_in r)
  | _ :: r => evals_in r
  end.

(* last_set is what its name says *)
Lemma last_set_none w pre : last_set w pre = None <-> forall q, ~ In (HSetPolicy w q) pre.
Proof.
  induction pre as [|o r IH]; simpl.
  - split; [intros _ q []|reflexivity].
  - destruct (last_set w r) as [p|].
    + split; [discriminate|]. intros H. exfalso.
      assert (N : forall q, ~ In (HSetPolicy w q) r) by (intros q Hq; apply (H q); now right).
      apply IH in N. discriminate.
    + destruct IH as [IH1 _]. specialize (IH1 eq_refl).
      destruct o as [w' req|w' p|w'|dt]; simpl;
        try (split; [intros _ q [Hq|Hq]; [discriminate|apply (IH1 q Hq)]|reflexivity]).
      destruct (Bool.eqb w w') eqn:E.
      * apply eqb_prop in E. subst w'. split; [discriminate|]. intros H. exfalso. apply (H p). now left.
      * split; [|reflexivity]. intros _ q [Hq|Hq]; [|apply (IH1 q Hq)].
        inversion Hq; subst. rewrite eqb_reflx in E. discriminate.
Qed.

Lemma last_set_some w pre p :
  last_set w pre = Some p <->
  exists a b, pre = a ++ HSetPolicy w p :: b /\ forall q, ~ In (HSetPolicy w q) b.
Proof.
  revert p. induction pre as [|o r IH]; intros p; simpl.
  - split; [discriminate|]. intros (a & b & E & _). destruct a; discriminate.
  - destruct (last_set w r) as [p'|] eqn:L.
    + split.
      * intros H. inversion H; subst p'. destruct (proj1 (IH p) eq_refl) as (a & b & -> & Hb).
        exists (o :: a), b. split; [reflexivity|exact Hb].
      * intros (a & b & E & Hb). destruct a as [|o' a]; simpl in E; inversion E; subst.
        -- apply last_set_none in Hb. congruence.
        -- apply (proj2 (IH p)). exists a, b. split; [reflexivity|exact Hb].
    + split.
      * intros H. destruct o as [w' req|w' p0|w'|dt]; simpl in H; try discriminate.
        destruct (Bool.eqb w w') eqn:E; [|discriminate]. apply eqb_prop in E. subst w'. inversion H; subst p0.
        exists [], r. split; [reflexivity|]. apply last_set_none. exact L.
      * intros (a & b & E & Hb). destruct a as [|o' a]; simpl in E; inversion E; subst.
        -- simpl. rewrite eqb_reflx. reflexivity.
        -- exfalso. assert (X : @None value = Some p).
           { apply (proj2 (IH p)). exists a, b. split; [reflexivity|exact Hb]. }
           discriminate.
Qed.

Lemma last_set_in w pre p : last_set w pre = Some p -> In p (policies_of pre).
Proof.
  induction pre as [|o r IH]; simpl; [discriminate|].
  destruct (last_set w r) as [p'|].
  - intros H. inversion H; subst. destruct o; simpl; auto.
  - destruct o as [w' req|w' p0|w'|dt]; simpl; try discriminate.
    destruct (Bool.eqb w w'); [|discriminate]. intros H. inversion H. now left.
Qed.

Lemma policies_of_app a b : policies_of (a ++ b) = policies_of a ++ policies_of b.
Proof. induction a as [|o a IH]; [reflexivity|]. destruct o; simpl; rewrite IH; reflexivity. Qed.

(* the policy held at a site is one of the policies the history mentions *)
Lemma policy_at_in w pre rest g1 g2 : In (policy_at w pre g1 g2) (policies_all g1 g2 (pre ++ rest)).
Proof.
  unfold policy_at, policies_all. destruct (last_set w pre) as [p|] eqn:L.
  - right. right. rewrite policies_of_app. apply in_or_app. left. apply (last_set_in w pre p L).
  - destruct w; simpl; auto.
Qed.

(* policy_at in words: the argument of the last set_policy addressed to that guard, else its initial policy *)
Lemma policy_at_spec w pre g1 g2 :
  (forall a b p, pre = a ++ HSetPolicy w p :: b -> (forall q, ~ In (HSetPolicy w q) b) ->
     policy_at w pre g1 g2 = p) /\
  ((forall q, ~ In (HSetPolicy w q) pre) -> policy_at w pre g1 g2 = g_policy (if w then g2 else g1)).
Proof.
  split.
  - intros a b p E Hb. unfold policy_at.
    rewrite (proj2 (last_set_some w pre p)); [reflexivity|]. exists a, b. split; assumption.
  - intros H. unfold policy_at. rewrite (proj2 (last_set_none w pre) H). reflexivity.
Qed.

(* ------------------------------------------------------------------ *)
(* 1. the reference run, answer by answer                              *)
(* ------------------------------------------------------------------ *)
Section Ref.
  Variable relh : rel_query -> unit -> bool * unit.
  Variable oblig : bool -> raw -> value -> option (bool * option string).

  (* one answer per evaluation *)
  Lemma run_ref_length h : forall g1 g2, List.length (run_ref unit relh oblig h g1 g2 tt) = evals_in h.
  Proof.
    induction h as [|o h IH]; intros g1 g2; [reflexivity|].
    destruct o as [w req|w p|w|dt]; simpl; auto.
    destruct (guard_eval unit relh (oblig w) (g_strict (if w then g2 else g1))
                (g_policy (if w then g2 else g1)) req None tt) as [a u]. destruct u.
    simpl. now rewrite IH.
  Qed.

  (* the answer at a site is guard_eval — Decision, raise or out-of-domain alike — of the
     evaluating guard's checker and type mode on the policy that guard holds at that point *)
  Lemma run_ref_nth pre : forall g1 g2 w req post,
    nth_error (run_ref unit relh oblig (pre ++ HEval w req :: post) g1 g2 tt) (evals_in pre)
    = Some (fst (guard_eval unit relh (oblig w) (guard_strict w g1 g2) (policy_at w pre g1 g2) req None tt)).
  Proof.
    induction pre as [|o pre IH]; intros g1 g2 w req post.
    - unfold policy_at, guard_strict. simpl.
      destruct (guard_eval unit relh (oblig w) (g_strict (if w then g2 else g1))
                  (g_policy (if w then g2 else g1)) req None tt) as [a u]. reflexivity.
    - destruct o as [w' req'|w' p|w'|dt].
      + simpl.
        destruct (guard_eval unit relh (oblig w') (g_strict (if w' then g2 else g1))
                    (g_policy (if w' then g2 else g1)) req' None tt) as [a u]. destruct u.
        simpl. rewrite IH. unfold policy_at. simpl. destruct (last_set w pre); reflexivity.
      + simpl. rewrite IH. unfold policy_at, guard_strict. simpl.
        destruct (last_set w pre); destruct w, w'; reflexivity.
      + simpl. rewrite IH. unfold policy_at. simpl. destruct (last_set w pre); reflexivity.
      + simpl. rewrite IH. unfold policy_at. simpl. destruct (last_set w pre); reflexivity.
  Qed.
End Ref.

(* every position of an answer list belongs to exactly one site *)
Lemma site_exists h : forall i, i < evals_in h ->
  exists pre w req post, h = pre ++ HEval w req :: post /\ evals_in pre = i.
Proof.
  induction h as [|o h IH]; intros i Hi; [simpl in Hi; lia|].
  destruct o as [w req|w p|w|dt]; simpl in Hi.
  - destruct i as [|i].
    + exists [], w, req, h. split; reflexivity.
    + destruct (IH i) as (pre & w' & req' & post & -> & E); [lia|].
      exists (HEval w req :: pre), w', req', post. split; [reflexivity|]. simpl. now rewrite E.
  - destruct (IH i Hi) as (pre & w' & req' & post & -> & E).
    exists (HSetPolicy w p :: pre), w', req', post. split; [reflexivity|exact E].
  - destruct (IH i Hi) as (pre & w' & req' & post & -> & E).
    exists (HClear w :: pre), w', req', post. split; [reflexivity|exact E].
  - destruct (IH i Hi) as (pre & w' & req' & post & -> & E).
    exists (HTick dt :: pre), w', req', post. split; [reflexivity|exact E].
Qed.

Lemma site_unique pre : forall pre' w req post w' req' post',
  pre ++ HEval w req :: post = pre' ++ HEval w' req' :: post' -> evals_in pre = evals_in pre' ->
  pre = pre' /\ w = w' /\ req = req' /\ post = post'.
Proof.
  induction pre as [|o pre IH]; intros pre' w req post w' req' post' E N.
  - destruct pre' as [|o' pre']; simpl in *.
    + inversion E. auto.
    + inversion E; subst o'. simpl in N. discriminate.
  - destruct pre' as [|o' pre']; simpl in E.
    + inversion E; subst o. simpl in N. discriminate.
    + inversion E; subst o'.
      assert (N' : evals_in pre = evals_in pre') by (destruct o; simpl in N; congruence).
      destruct (IH _ _ _ _ _ _ _ H1 N') as (-> & -> & -> & ->). auto.
Qed.

(* a Decision is never answered against a policy that is not an object
   (Guard would raise AttributeError on policy.get) *)
Lemma guard_eval_decision_obj (S : Type) relh oblig strict p req resolved (st st' : S) d :
  guard_eval S relh oblig strict p req resolved st = (GDecision d, st') -> exists kvs, p = VObj kvs.
Proof.
  unfold guard_eval. destruct (build_env strict req resolved) as [env|]; [|discriminate].
  destruct p as [| | | | |kvs|]; try (cbn; discriminate). eauto.
Qed.

(* ------------------------------------------------------------------ *)
(* the cached run, answer by answer                                    *)
(* ------------------------------------------------------------------ *)
Section CachedAnswer.
  Variable relh : rel_query -> unit -> bool * unit.
  Variable T : Type.
  Variable tag : value -> T.
  Variable teqb : T -> T -> bool.
  Hypothesis teqb_eq : forall a b, teqb a b = true <-> a = b.
  Variable norm : value -> value.
  Variable oblig : bool -> raw -> value -> option (bool * option string).
  Variable M : cache_impl T.
  Hypothesis M_contract : contract T teqb M.
  Variable copying : bool.
  Variables g1 g2 : gcfg.
  Variable h : list hop.
  Hypothesis H_tag : tag_inj T tag (policies_all g1 g2 h).
  Hypothesis H_krd : key_respects_decision relh norm (policies_all g1 g2 h) (envs_all g1 g2 h).
  Hypothesis H_blind : reason_blind oblig.
  Hypothesis H_stable : refusal_stable norm oblig (envs_all g1 g2 h).

  Notation outs := (snd (run_cached unit relh T tag norm oblig M copying h (init unit T M g1 g2 tt))).

  (* general form (any key normal form and checkers meeting the C08 conditions): whatever the
     cached engines answer at a site — hit or miss — is guard_eval on the policy held there *)
  Lemma cached_answer pre w req post hit o :
    h = pre ++ HEval w req :: post ->
    nth_error outs (evals_in pre) = Some (hit, o) ->
    o = fst (guard_eval unit relh (oblig w) (guard_strict w g1 g2) (policy_at w pre g1 g2) req None tt).
  Proof.
    intros Eh Hn.
    pose proof (transparent relh T tag teqb teqb_eq norm oblig M M_contract copying g1 g2 h
                  H_tag H_krd H_blind H_stable) as Tr.
    apply (map_nth_error snd) in Hn. rewrite Tr in Hn. simpl in Hn.
    rewrite Eh in Hn. rewrite run_ref_nth in Hn. inversion Hn. reflexivity.
  Qed.

  (* every site has an answer, every answer has a site *)
  Lemma cached_length : List.length outs = evals_in h.
  Proof.
    pose proof (transparent relh T tag teqb teqb_eq norm oblig M M_contract copying g1 g2 h
                  H_tag H_krd H_blind H_stable) as Tr.
    rewrite <- (map_length snd). rewrite Tr. apply run_ref_length.
  Qed.

  Lemma cached_answer_site i a :
    nth_error outs i = Some a ->
    exists pre w req post, h = pre ++ HEval w req :: post /\ evals_in pre = i.
  Proof.
    intros Hn. apply site_exists. rewrite <- cached_length. apply nth_error_Some. congruence.
  Qed.
End CachedAnswer.

(* ------------------------------------------------------------------ *)
(* 2./3. C01 and C11 through the cache                                 *)
(* ------------------------------------------------------------------ *)
Section Explained.
  Variable rel : rel_query -> bool.
  Notation relh := (relh_pure rel).
  Variable T : Type.
  Variable tag : value -> T.
  Variable teqb : T -> T -> bool.
  Hypothesis teqb_eq : forall a b, teqb a b = true <-> a = b.
  Variable M : cache_impl T.
  Hypothesis M_contract : contract T teqb M.
  Variable copying : bool.
  Variables g1 g2 : gcfg.
  Variable h : list hop.
  Hypothesis H_tag : tag_inj T tag (policies_all g1 g2 h).
  (* every policy of the history is well formed (C01/C11's tree_ok; implied by schema validity, C06) *)
  Hypothesis H_tree : forall p, In p (policies_all g1 g2 h) -> tree_ok p.

  (* ---------- any checkers meeting the C08 conditions (C11 speaks of any checker) ---------- *)
  Section AnyChecker.
    Variable norm : value -> value.
    Variable oblig : bool -> raw -> value -> option (bool * option string).
    Hypothesis H_krd : key_respects_decision relh norm (policies_all g1 g2 h) (envs_all g1 g2 h).
    Hypothesis H_blind : reason_blind oblig.
    Hypothesis H_stable : refusal_stable norm oblig (envs_all g1 g2 h).

    Notation outs := (snd (run_cached unit relh T tag norm oblig M copying h (init unit T M g1 g2 tt))).

    (* a cached Decision at a site is the uncached evaluation, in the form the uncached theorems take *)
    Lemma cached_decision pre w req post hit d :
      h = pre ++ HEval w req :: post ->
      nth_error outs (evals_in pre) = Some (hit, GDecision d) ->
      exists kvs, policy_at w pre g1 g2 = VObj kvs /\
        guard_eval unit relh (oblig w) (guard_strict w g1 g2) (VObj kvs) req None tt = (GDecision d, tt).
    Proof.
      intros Eh Hn.
      pose proof (cached_answer relh T tag teqb teqb_eq norm oblig M M_contract copying g1 g2 h
                    H_tag H_krd H_blind H_stable pre w req post hit _ Eh Hn) as E.
      destruct (guard_eval unit relh (oblig w) (guard_strict w g1 g2) (policy_at w pre g1 g2) req None tt)
        as [a u] eqn:G. destruct u. simpl in E. subst a.
      destruct (guard_eval_decision_obj _ _ _ _ _ _ _ _ _ _ G) as [kvs Ek].
      exists kvs. split; [exact Ek|]. rewrite <- Ek. exact G.
    Qed.

    Theorem rule_id_truthful_cached_any pre w req post hit d s :
      h = pre ++ HEval w req :: post ->
      nth_error outs (evals_in pre) = Some (hit, GDecision d) ->
      d_rule_id d = Some s ->
      (has_key "policies" (policy_at w pre g1 g2) = true -> s <> "") ->
      exists env rule eff,
        build_env (guard_strict w g1 g2) req None = Some env /\
        In rule (all_rules (policy_at w pre g1 g2)) /\ applicable rel rule env /\ rule_id rule = VStr s /\
        rule_effect rule = Some eff /\
        ((eff = "deny" /\ d_effect d = "deny" /\ d_allowed d = false /\ d_reason d = "explicit_deny") \/
         (eff = "permit" /\ d_obligations d = rule_obls rule /\
          ((d_effect d = "permit" /\ d_allowed d = true /\ d_reason d = "matched") \/
           (d_effect d = "deny" /\ d_allowed d = false /\ d_reason d = "obligation_failed")))).
    Proof.
      intros Eh Hn Hs Hne.
      destruct (cached_decision pre w req post hit d Eh Hn) as (kvs & Ek & G).
      assert (Htk : tree_ok (VObj kvs)).
      { rewrite <- Ek. apply H_tree. rewrite Eh. apply policy_at_in. }
      rewrite Ek in *.
      exact (rule_id_truthful rel (guard_strict w g1 g2) kvs req None d s (oblig w) Htk G Hs Hne).
    Qed.

    Theorem no_rule_reason_cached_any pre w req post hit d :
      h = pre ++ HEval w req :: post ->
      nth_error outs (evals_in pre) = Some (hit, GDecision d) ->
      d_rule_id d = None ->
      exists env, build_env (guard_strict w g1 g2) req None = Some env /\
                  exhibited rel env (all_rules (policy_at w pre g1 g2)) (d_reason d) /\
                  d_allowed d = false /\ d_effect d = "deny".
    Proof.
      intros Eh Hn Hnone.
      destruct (cached_decision pre w req post hit d Eh Hn) as (kvs & Ek & G).
      rewrite Ek.
      exact (no_rule_reason rel (guard_strict w g1 g2) kvs req None d (oblig w) G Hnone).
    Qed.
  End AnyChecker.

  (* ---------- the engine as it is: key = sort_keys text, built-in checker, key-safe requests ---------- *)
  Hypothesis H_safe : forall e, In e (envs_all g1 g2 h) -> key_safe e = true.

  Notation outs := (snd (run_cached unit relh T tag canon builtin_both M copying h (init unit T M g1 g2 tt))).

  (* builtin_both w IS Engine.builtin_oblig (by computation); the bridge, for the record *)
  Lemma builtin_both_is_builtin w : builtin_both w = builtin_oblig.
  Proof. reflexivity. Qed.

  Lemma cached_answer_builtin pre w req post hit o :
    h = pre ++ HEval w req :: post ->
    nth_error outs (evals_in pre) = Some (hit, o) ->
    o = fst (guard_eval unit relh builtin_oblig (guard_strict w g1 g2) (policy_at w pre g1 g2) req None tt).
  Proof.
    exact (cached_answer relh T tag teqb teqb_eq canon builtin_both M M_contract copying g1 g2 h
             H_tag (krd_key_safe relh _ _ H_safe) builtin_blind (builtin_stable_canon _) pre w req post hit o).
  Qed.

  Lemma cached_answer_site_builtin i a :
    nth_error outs i = Some a ->
    exists pre w req post, h = pre ++ HEval w req :: post /\ evals_in pre = i.
  Proof.
    exact (cached_answer_site relh T tag teqb teqb_eq canon builtin_both M M_contract copying g1 g2 h
             H_tag (krd_key_safe relh _ _ H_safe) builtin_blind (builtin_stable_canon _) i a).
  Qed.

  Lemma cached_decision_builtin pre w req post hit d :
    h = pre ++ HEval w req :: post ->
    nth_error outs (evals_in pre) = Some (hit, GDecision d) ->
    exists kvs, policy_at w pre g1 g2 = VObj kvs /\
      guard_eval unit relh builtin_oblig (guard_strict w g1 g2) (VObj kvs) req None tt = (GDecision d, tt).
  Proof.
    intros Eh Hn.
    exact (cached_decision canon builtin_both (krd_key_safe relh _ _ H_safe) builtin_blind
             (builtin_stable_canon _) pre w req post hit d Eh Hn).
  Qed.

  (* C01 through the cache *)
  Theorem no_spurious_permit_cached pre w req post hit d :
    h = pre ++ HEval w req :: post ->
    nth_error outs (evals_in pre) = Some (hit, GDecision d) ->
    d_allowed d = true ->
    exists env rule eff,
      build_env (guard_strict w g1 g2) req None = Some env /\
      In rule (all_rules (policy_at w pre g1 g2)) /\ applicable rel rule env /\
      rule_effect rule = Some eff /\ eff <> "deny" /\
      d_obligations d = rule_obls rule /\
      (forall ok ch, check "permit" (rule_obls rule) (get_key "context" env) = Ok (ok, ch) -> ok = true).
  Proof.
    intros Eh Hn Hall.
    destruct (cached_decision_builtin pre w req post hit d Eh Hn) as (kvs & Ek & G).
    assert (Htk : tree_ok (VObj kvs)).
    { rewrite <- Ek. apply H_tree. rewrite Eh. apply policy_at_in. }
    rewrite Ek.
    exact (no_spurious_permit rel (guard_strict w g1 g2) kvs req None d Htk G Hall).
  Qed.

  Theorem nothing_applies_denies_cached pre w req post hit d env :
    h = pre ++ HEval w req :: post ->
    nth_error outs (evals_in pre) = Some (hit, GDecision d) ->
    build_env (guard_strict w g1 g2) req None = Some env ->
    (forall rule, In rule (all_rules (policy_at w pre g1 g2)) -> ~ applicable rel rule env) ->
    d_allowed d = false /\ d_effect d = "deny".
  Proof.
    intros Eh Hn Hb Hno.
    destruct (cached_decision_builtin pre w req post hit d Eh Hn) as (kvs & Ek & G).
    assert (Htk : tree_ok (VObj kvs)).
    { rewrite <- Ek. apply H_tree. rewrite Eh. apply policy_at_in. }
    rewrite Ek in Hno.
    exact (nothing_applies_denies rel (guard_strict w g1 g2) kvs req None d env Htk G Hb Hno).
  Qed.

  (* the same, quantified over ANSWERS instead of sites: every permit in the answer list of the
     cached run has its (unique) site and its rule *)
  Theorem every_cached_permit_explained i hit d :
    nth_error outs i = Some (hit, GDecision d) ->
    d_allowed d = true ->
    exists pre w req post,
      h = pre ++ HEval w req :: post /\ evals_in pre = i /\
      exists env rule eff,
        build_env (guard_strict w g1 g2) req None = Some env /\
        In rule (all_rules (policy_at w pre g1 g2)) /\ applicable rel rule env /\
        rule_effect rule = Some eff /\ eff <> "deny" /\
        d_obligations d = rule_obls rule /\
        (forall ok ch, check "permit" (rule_obls rule) (get_key "context" env) = Ok (ok, ch) -> ok = true).
  Proof.
    intros Hn Hall.
    destruct (cached_answer_site relh T tag teqb teqb_eq canon builtin_both M M_contract copying g1 g2 h
                H_tag (krd_key_safe relh _ _ H_safe) builtin_blind (builtin_stable_canon _) i _ Hn)
      as (pre & w & req & post & Eh & Ei).
    exists pre, w, req, post. split; [exact Eh|]. split; [exact Ei|].
    rewrite <- Ei in Hn. exact (no_spurious_permit_cached pre w req post hit d Eh Hn Hall).
  Qed.

  (* C11 through the cache *)
  Theorem rule_id_truthful_cached pre w req post hit d s :
    h = pre ++ HEval w req :: post ->
    nth_error outs (evals_in pre) = Some (hit, GDecision d) ->
    d_rule_id d = Some s ->
    (has_key "policies" (policy_at w pre g1 g2) = true -> s <> "") ->
    exists env rule eff,
      build_env (guard_strict w g1 g2) req None = Some env /\
      In rule (all_rules (policy_at w pre g1 g2)) /\ applicable rel rule env /\ rule_id rule = VStr s /\
      rule_effect rule = Some eff /\
      ((eff = "deny" /\ d_effect d = "deny" /\ d_allowed d = false /\ d_reason d = "explicit_deny") \/
       (eff = "permit" /\ d_obligations d = rule_obls rule /\
        ((d_effect d = "permit" /\ d_allowed d = true /\ d_reason d = "matched") \/
         (d_effect d = "deny" /\ d_allowed d = false /\ d_reason d = "obligation_failed")))).
  Proof.
    exact (rule_id_truthful_cached_any canon builtin_both (krd_key_safe relh _ _ H_safe) builtin_blind
             (builtin_stable_canon _) pre w req post hit d s).
  Qed.

  Theorem no_rule_reason_cached pre w req post hit d :
    h = pre ++ HEval w req :: post ->
    nth_error outs (evals_in pre) = Some (hit, GDecision d) ->
    d_rule_id d = None ->
    exists env, build_env (guard_strict w g1 g2) req None = Some env /\
                exhibited rel env (all_rules (policy_at w pre g1 g2)) (d_reason d) /\
                d_allowed d = false /\ d_effect d = "deny".
  Proof.
    exact (no_rule_reason_cached_any canon builtin_both (krd_key_safe relh _ _ H_safe) builtin_blind
             (builtin_stable_canon _) pre w req post hit d).
  Qed.
End Explained.

(* ... with the built-in DefaultInMemoryCache: any capacity; cache_ttl of each guard and the clock
   advances are part of g1, g2 and h *)
Theorem no_spurious_permit_cached_lru (rel : rel_query -> bool) (T : Type) (tag : value -> T)
    (teqb : T -> T -> bool) (teqb_eq : forall a b, teqb a b = true <-> a = b)
    (cap : Z) (g1 g2 : gcfg) (h : list hop) :
  tag_inj T tag (policies_all g1 g2 h) ->
  (forall e, In e (envs_all g1 g2 h) -> key_safe e = true) ->
  (forall p, In p (policies_all g1 g2 h) -> tree_ok p) ->
  forall pre w req post hit d,
  h = pre ++ HEval w req :: post ->
  nth_error (snd (run_cached unit (relh_pure rel) T tag canon builtin_both (lru_cache T teqb cap) false h
                    (init unit T (lru_cache T teqb cap) g1 g2 tt))) (evals_in pre) = Some (hit, GDecision d) ->
  d_allowed d = true ->
  exists env rule eff,
    build_env (guard_strict w g1 g2) req None = Some env /\
    In rule (all_rules (policy_at w pre g1 g2)) /\ applicable rel rule env /\
    rule_effect rule = Some eff /\ eff <> "deny" /\
    d_obligations d = rule_obls rule /\
    (forall ok ch, check "permit" (rule_obls rule) (get_key "context" env) = Ok (ok, ch) -> ok = true).
Proof.
  intros Htag Hsafe Htree.
  exact (no_spurious_permit_cached rel T tag teqb teqb_eq (lru_cache T teqb cap) (lru_contract T teqb teqb_eq cap)
           false g1 g2 h Htag Htree Hsafe).
Qed.

(* ------------------------------------------------------------------ *)
(* 4. non-vacuity: a concrete history on DefaultInMemoryCache(4)        *)
(* ------------------------------------------------------------------ *)
(* guard: lax, policy pol_num (permit read on doc when resource.attrs.n == 1), no TTL.
   evaluate (miss, permit by n1); the same again (HIT, permit by n1); set_policy(pol_mfa: permit +
   require_mfa); the same request (miss: o1 refused, deny obligation_failed); with context.mfa (miss, permit by o1);
   that one again (HIT, permit by o1) *)
Definition xg : gcfg := gc false pol_num None.
Definition xr (ctx : list (string * value)) : value := mk_req [vs "a"] [("n", vi 1)] ctx.
Definition xh : list hop :=
  [HEval false (xr []); HEval false (xr []); HSetPolicy false pol_mfa; HEval false (xr []);
   HEval false (xr [("mfa", VBool true)]); HEval false (xr [("mfa", VBool true)])].
Definition xouts : list (bool * gres) := run_faithful (lru_cache value veqb 4) false xg xg xh.

Definition summary (a : bool * gres) : bool * option (bool * option string * string) :=
  (fst a, match snd a with GDecision d => Some (d_allowed d, d_rule_id d, d_reason d) | _ => None end).

Example x_answers :
  map summary xouts =
  [(false, Some (true, Some "n1", "matched")); (true, Some (true, Some "n1", "matched"));
   (false, Some (false, Some "o1", "obligation_failed"));
   (false, Some (true, Some "o1", "matched")); (true, Some (true, Some "o1", "matched"))].
Proof. vm_compute. reflexivity. Qed.

(* the policy held at the sites: pol_num before the set_policy, pol_mfa after *)
Example x_policy_at :
  policy_at false [HEval false (xr [])] xg xg = pol_num /\
  policy_at false [HEval false (xr []); HEval false (xr []); HSetPolicy false pol_mfa; HEval false (xr []);
                   HEval false (xr [("mfa", VBool true)])] xg xg = pol_mfa.
Proof. split; reflexivity. Qed.

Lemma tree_ok_single kvs s :
  has_key "policies" (VObj kvs) = false ->
  get_key "algorithm" (VObj kvs) = VStr s -> is_ascii_str s = true -> algo_of_string (str_lower s) <> OtherAlgo ->
  (forall rule eff, In rule (own_rules (VObj kvs)) -> rule_effect rule = Some eff -> eff = "permit" \/ eff = "deny") ->
  tree_ok (VObj kvs).
Proof.
  intros Hk Ha Hs Hal He. unfold tree_ok. rewrite (single_leaves kvs Hk).
  constructor; [|constructor]. split; [right; exists s; auto|exact He].
Qed.

Example x_hypotheses_hold :
  tag_inj value canon (policies_all xg xg xh) /\
  (forall e, In e (envs_all xg xg xh) -> key_safe e = true) /\
  (forall p, In p (policies_all xg xg xh) -> tree_ok p).
Proof.
  assert (Tn : tree_ok pol_num).
  { apply (tree_ok_single _ "deny-overrides"); try reflexivity; [vm_compute; discriminate|].
    intros rule eff Hin. vm_compute in Hin. destruct Hin as [<-|[]]. vm_compute. intros H; inversion H. now left. }
  assert (Tm : tree_ok pol_mfa).
  { apply (tree_ok_single _ "deny-overrides"); try reflexivity; [vm_compute; discriminate|].
    intros rule eff Hin. vm_compute in Hin. destruct Hin as [<-|[]]. vm_compute. intros H; inversion H. now left. }
  split; [|split].
  - intros p q Hp Hq E.
    assert (D : veqb (canon pol_num) (canon pol_mfa) = false) by (vm_compute; reflexivity).
    assert (N : canon pol_num <> canon pol_mfa) by (intros X; apply veqb_eq in X; congruence).
    simpl in Hp, Hq.
    repeat (destruct Hp as [<-|Hp]); repeat (destruct Hq as [<-|Hq]); try reflexivity; try contradiction;
      try (exfalso; apply N; exact E); try (exfalso; apply N; symmetry; exact E).
  - intros e He. vm_compute in He.
    repeat (destruct He as [<-|He]; [vm_compute; reflexivity|]). contradiction.
  - intros p Hp. simpl in Hp. repeat (destruct Hp as [<-|Hp]; [assumption|]). contradiction.
Qed.

(* the theorem applied to the two HITS of that run: the permit served from the cache before the
   set_policy is explained by a rule of pol_num, the one after it by a rule of pol_mfa *)
Example x_hits_explained :
  (forall d, nth_error xouts 1 = Some (true, GDecision d) -> d_allowed d = true ->
     exists env rule eff,
       build_env false (xr []) None = Some env /\ In rule (all_rules pol_num) /\
       applicable (fun _ => false) rule env /\ rule_effect rule = Some eff /\ eff <> "deny" /\
       d_obligations d = rule_obls rule /\
       (forall ok ch, check "permit" (rule_obls rule) (get_key "context" env) = Ok (ok, ch) -> ok = true)) /\
  (forall d, nth_error xouts 4 = Some (true, GDecision d) -> d_allowed d = true ->
     exists env rule eff,
       build_env false (xr [("mfa", VBool true)]) None = Some env /\ In rule (all_rules pol_mfa) /\
       applicable (fun _ => false) rule env /\ rule_effect rule = Some eff /\ eff <> "deny" /\
       d_obligations d = rule_obls rule /\
       (forall ok ch, check "permit" (rule_obls rule) (get_key "context" env) = Ok (ok, ch) -> ok = true)).
Proof.
  destruct x_hypotheses_hold as (Htag & Hsafe & Htree).
  split; intros d Hn Hall.
  - exact (no_spurious_permit_cached_lru (fun _ => false) value canon veqb veqb_eq 4 xg xg xh Htag Hsafe Htree
             [HEval false (xr [])] false (xr [])
             [HSetPolicy false pol_mfa; HEval false (xr []); HEval false (xr [("mfa", VBool true)]);
              HEval false (xr [("mfa", VBool true)])]
             true d eq_refl Hn Hall).
  - exact (no_spurious_permit_cached_lru (fun _ => false) value canon veqb veqb_eq 4 xg xg xh Htag Hsafe Htree
             [HEval false (xr []); HEval false (xr []); HSetPolicy false pol_mfa; HEval false (xr []);
              HEval false (xr [("mfa", VBool true)])] false (xr [("mfa", VBool true)]) []
             true d eq_refl Hn Hall).
Qed.

(* ... and the premises of those two implications are true of the run *)
Example x_hits_are_permits :
  (exists d, nth_error xouts 1 = Some (true, GDecision d) /\ d_allowed d = true) /\
  (exists d, nth_error xouts 4 = Some (true, GDecision d) /\ d_allowed d = true).
Proof. split; vm_compute; eexists; split; reflexivity. Qed.

(* C11 on the refused evaluation after the set_policy (a miss): rule o1 of pol_mfa, obligation_failed *)
Example x_refusal_explained :
  forall d, nth_error xouts 2 = Some (false, GDecision d) ->
  exists env rule eff,
    build_env false (xr []) None = Some env /\ In rule (all_rules pol_mfa) /\
    applicable (fun _ => false) rule env /\ rule_id rule = VStr "o1" /\ rule_effect rule = Some eff /\
    eff = "permit" /\ d_effect d = "deny" /\ d_allowed d = false /\ d_reason d = "obligation_failed".
Proof.
  destruct x_hypotheses_hold as (Htag & Hsafe & Htree).
  assert (Hd : forall d0, nth_error xouts 2 = Some (false, GDecision d0) ->
                 d_rule_id d0 = Some "o1" /\ d_reason d0 = "obligation_failed").
  { vm_compute. intros d0 H. inversion H. split; reflexivity. }
  intros d Hn. destruct (Hd d Hn) as [Hrid Hreason]. clear Hd.
  destruct (rule_id_truthful_cached (fun _ => false) value canon veqb veqb_eq (lru_cache value veqb 4)
              (lru_contract value veqb veqb_eq 4) false xg xg xh Htag Htree Hsafe
              [HEval false (xr []); HEval false (xr []); HSetPolicy false pol_mfa] false (xr [])
              [HEval false (xr [("mfa", VBool true)]); HEval false (xr [("mfa", VBool true)])]
              false d "o1" eq_refl Hn Hrid (fun _ => ltac:(discriminate)))
    as (env & rule & eff & Hb & Hin & Happ & Hid & Heff & Hcase).
  exists env, rule, eff. split; [exact Hb|]. split; [exact Hin|]. split; [exact Happ|].
  split; [exact Hid|]. split; [exact Heff|].
  destruct Hcase as [(_ & _ & _ & Hr)|(He & _ & [(_ & _ & Hr)|(Hf & Ha & Hr)])];
    try (rewrite Hreason in Hr; discriminate Hr).
  repeat split; assumption.
Qed.
