(* Reload.v — model of rbacx.policy.loader.HotReloader (src/rbacx/policy/loader.py)
   as it is after commit 9778c58: __init__ priming (62-82), check_and_reload_async
   (119-179) as a small-step program, _register_error (271-288).
   Executable definitions only; generic in the world type W and the source state St.
   Time (time.time()) and the jitter draw (random.uniform(-1,1)) are inputs. *)
From Coq Require Import List Bool Arith QArith.
Import ListNotations.
Local Open Scope Q_scope.

(* ---------- documents, stored bytes, version tags ---------- *)
Definition doc := nat.                       (* identifies a parsed policy document; 0 is the empty dict {} *)

Inductive bytes := BDoc (d : doc) | BBad (k : nat).   (* text of a loadable document / unparsable text no. k *)

Inductive sres (A : Type) := SOk (a : A) | SErr.       (* SErr: the call raised an Exception *)
Arguments SOk {A} a.
Arguments SErr {A}.

Definition parse (b : bytes) : sres doc :=              (* json.loads *)
  match b with BDoc d => SOk d | BBad _ => SErr end.

Definition bytes_eqb (a b : bytes) : bool :=
  match a, b with
  | BDoc x, BDoc y => Nat.eqb x y
  | BBad x, BBad y => Nat.eqb x y
  | _, _ => false
  end.

(* Version tags are strings in Python; the model keeps what the string was computed from.
   Different constructors / arguments = different strings (the harness checks this on
   every case by translating model tags to the strings the implementation produced). *)
Inductive tag :=
| TContent (b : bytes)            (* custom source: hash of the stored bytes *)
| TVersion (m : nat)              (* custom source: write counter *)
| TSha (b : bytes)                (* file: sha256 hex of the bytes *)
| TShaM (b : bytes) (m : nat)     (* file, include_mtime_in_etag: "<sha>:<mtime_ns>" *)
| TS3Etag (b : bytes)             (* S3: "etag:<ETag>" *)
| TS3Vid (m : nat)                (* S3: "vid:<VersionId>" *)
| TS3Ck (algo : nat) (b : bytes)  (* S3: "ck:<algo>:<checksum>" *)
| THttp (b : bytes).              (* HTTP: the server's ETag header *)

Definition tag_eqb (x y : tag) : bool :=                (* str == str *)
  match x, y with
  | TContent a, TContent b => bytes_eqb a b
  | TVersion a, TVersion b => Nat.eqb a b
  | TSha a, TSha b => bytes_eqb a b
  | TShaM a m, TShaM b n => bytes_eqb a b && Nat.eqb m n
  | TS3Etag a, TS3Etag b => bytes_eqb a b
  | TS3Vid a, TS3Vid b => Nat.eqb a b
  | TS3Ck i a, TS3Ck j b => Nat.eqb i j && bytes_eqb a b
  | THttp a, THttp b => bytes_eqb a b
  | _, _ => false
  end.

(* what source.etag() may return: None, a str, or some other object *)
Inductive rawtag := RNone | RStr (t : tag) | ROther.
Definition norm (r : rawtag) : option tag :=            (* x if isinstance(x, str) else None *)
  match r with RStr t => Some t | _ => None end.

(* ---------- rationals: min, max, < ---------- *)
Definition qltb (a b : Q) : bool := negb (Qle_bool b a).             (* a < b *)
Definition qmax (a b : Q) : Q := if qltb a b then b else a.          (* Python max(a, b) *)
Definition qmin (a b : Q) : Q := if qltb b a then b else a.          (* Python min(a, b) *)
Definition fifth : Q := 1 # 5.                                       (* the literal 0.2 *)

(* ---------- reloader, guard ---------- *)
Record cfg := { bmin : Q; bmax : Q; jratio : Q }.       (* backoff_min, backoff_max, jitter_ratio *)

Record reloader := {
  last_etag : option tag;
  suppress_until : Q;
  backoff : Q;
  last_error : bool                                     (* _last_error is not None *)
}.

Record guard := {
  policy : doc;                                         (* Guard.policy *)
  sets : nat                                            (* number of set_policy calls = cache clears *)
}.

(* _register_error: last_error, doubled and clamped back-off, jitter, suppression window *)
Definition register_error (c : cfg) (now u : Q) (r : reloader) : reloader :=
  let b := qmin (bmax c) (qmax (bmin c) (backoff r * 2)) in
  let jitter := b * jratio c * u in
  {| last_etag := last_etag r;
     suppress_until := now + qmax fifth (b + jitter);
     backoff := b;
     last_error := true |}.

(* the bookkeeping after guard.set_policy in both the forced and the unforced path *)
Definition applied (c : cfg) (e : option tag) (r : reloader) : reloader :=
  {| last_etag := e;
     suppress_until := suppress_until r;
     backoff := bmin c;
     last_error := false |}.

Definition set_policy (d : doc) (g : guard) : guard :=
  {| policy := d; sets := S (sets g) |}.

Definition same_tag (e last : option tag) : bool :=     (* etag is not None and etag == last_etag *)
  match e, last with
  | Some t, Some l => tag_eqb t l
  | _, _ => false
  end.

Section Sys.
Context {W St : Type}.

(* a policy source: a state machine over its own state and the world it reads *)
Record source := {
  s_etag : St -> W -> St * sres rawtag;
  s_load : St -> W -> St * sres doc
}.

Record sys := {
  world : W;
  sst : St;                                             (* the source object's own attributes *)
  rl : reloader;
  gd : guard;
  n_etag : nat;                                         (* calls of source.etag() so far *)
  n_load : nat;                                         (* calls of source.load() so far *)
  loaded : list doc                                     (* documents returned by successful loads, newest first *)
}.

Definition set_world (w : W) (s : sys) : sys :=
  {| world := w; sst := sst s; rl := rl s; gd := gd s;
     n_etag := n_etag s; n_load := n_load s; loaded := loaded s |}.

(* ---------- one reload check as a small-step program ---------- *)
Inductive pc :=
| PStart (force : bool)                                 (* about to read the clock and, under the lock, the window and last_etag *)
| PEtag (force : bool) (now : Q) (last : option tag)    (* about to call source.etag() *)
| PLoad (now : Q) (e : option tag)                      (* about to call source.load(); e = tag to remember *)
| PApply (now : Q) (e : option tag) (d : doc)           (* about to take the lock, set_policy, book-keep *)
| PErr (now : Q)                                        (* an exception was caught: about to _register_error *)
| PDone (r : bool).                                     (* returned r *)

(* One atomic step.  [now] is what time.time() returns (read by PStart only), [u]
   what random.uniform(-1, 1) returns (read by PErr only). *)
Definition step (c : cfg) (src : source) (now u : Q) (s : sys) (p : pc) : sys * pc :=
  match p with
  | PStart force =>
      if qltb now (suppress_until (rl s)) && negb force then (s, PDone false)
      else (s, PEtag force now (last_etag (rl s)))
  | PEtag force now0 last =>
      let (st', r) := s_etag src (sst s) (world s) in
      let s' := {| world := world s; sst := st'; rl := rl s; gd := gd s;
                   n_etag := S (n_etag s); n_load := n_load s; loaded := loaded s |} in
      if force then
        (* forced: an exception of etag() is swallowed, the tag is then None *)
        (s', PLoad now0 (match r with SOk raw => norm raw | SErr => None end))
      else
        match r with
        | SErr => (s', PErr now0)
        | SOk raw =>
            let e := norm raw in
            if same_tag e last then (s', PDone false) else (s', PLoad now0 e)
        end
  | PLoad now0 e =>
      let (st', r) := s_load src (sst s) (world s) in
      match r with
      | SErr =>
          ({| world := world s; sst := st'; rl := rl s; gd := gd s;
              n_etag := n_etag s; n_load := S (n_load s); loaded := loaded s |}, PErr now0)
      | SOk d =>
          ({| world := world s; sst := st'; rl := rl s; gd := gd s;
              n_etag := n_etag s; n_load := S (n_load s); loaded := d :: loaded s |}, PApply now0 e d)
      end
  | PApply now0 e d =>
      ({| world := world s; sst := sst s; rl := applied c e (rl s); gd := set_policy d (gd s);
          n_etag := n_etag s; n_load := n_load s; loaded := loaded s |}, PDone true)
  | PErr now0 =>
      ({| world := world s; sst := sst s; rl := register_error c now0 u (rl s); gd := gd s;
          n_etag := n_etag s; n_load := n_load s; loaded := loaded s |}, PDone false)
  | PDone r => (s, PDone r)
  end.

Fixpoint steps (n : nat) (c : cfg) (src : source) (now u : Q) (s : sys) (p : pc) : sys * pc :=
  match n with
  | O => (s, p)
  | S n' => let (s', p') := step c src now u s p in steps n' c src now u s' p'
  end.

(* A whole check executed by one thread with nothing else running, except that the
   world may change ([mid]) between the return of etag() and the call of load()
   (when the check does not get that far the change simply follows it: the remaining
   steps of a finished check do nothing).  Four steps always reach PDone (theorem
   run_check_done); the boolean is the value check_and_reload returns. *)
Definition run_check (c : cfg) (src : source) (force : bool) (now u : Q) (mid : W -> W)
                     (s : sys) : sys * pc :=
  let (s2, p2) := steps 2 c src now u s (PStart force) in
  steps 2 c src now u (set_world (mid (world s2)) s2) p2.

Definition result (p : pc) : option bool := match p with PDone r => Some r | _ => None end.

(* ---------- any number of checks, interleaved with each other and with the world ---------- *)
Inductive label :=
| LWorld (f : W -> W)                                   (* the world changes *)
| LSpawn (force : bool)                                 (* somebody calls check_and_reload(force=...) *)
| LStep (i : nat) (now u : Q).                          (* check no. i performs its next atomic step *)

Record conf := { cs : sys; thr : list pc }.

Fixpoint replace (i : nat) (p : pc) (l : list pc) : list pc :=
  match l, i with
  | [], _ => []
  | _ :: r, O => p :: r
  | x :: r, S i' => x :: replace i' p r
  end.

Definition exec (c : cfg) (src : source) (cf : conf) (l : label) : conf :=
  match l with
  | LWorld f => {| cs := set_world (f (world (cs cf))) (cs cf); thr := thr cf |}
  | LSpawn force => {| cs := cs cf; thr := thr cf ++ [PStart force] |}
  | LStep i now u =>
      match nth_error (thr cf) i with
      | None => cf
      | Some p => let (s', p') := step c src now u (cs cf) p in
                  {| cs := s'; thr := replace i p' (thr cf) |}
      end
  end.

Definition run (c : cfg) (src : source) (ls : list label) (cf : conf) : conf :=
  fold_left (exec c src) ls cf.

(* ---------- construction (HotReloader.__init__) ---------- *)
(* initial_load = true, or an async source (etag is a coroutine function): no call,
   tag None.  Otherwise etag() is called once; an exception or a non-str gives None. *)
Definition prime (src : source) (initial_load async : bool) (w : W) (st : St)
  : St * option tag * nat :=
  if initial_load || async then (st, None, O)
  else let (st', r) := s_etag src st w in
       (st', match r with SOk raw => norm raw | SErr => None end, 1%nat).

Definition init (c : cfg) (src : source) (initial_load async : bool) (p0 : doc) (w : W) (st : St) : sys :=
  let '(st', e, k) := prime src initial_load async w st in
  {| world := w; sst := st';
     rl := {| last_etag := e; suppress_until := 0; backoff := bmin c; last_error := false |};
     gd := {| policy := p0; sets := O |};
     n_etag := k; n_load := O; loaded := [] |}.

End Sys.
Arguments source : clear implicits.
Arguments sys : clear implicits.
Arguments conf : clear implicits.
Arguments label : clear implicits.
