(* Schema.v — hand transcription of src/rbacx/dsl/policy.schema.json under the semantics of the
   jsonschema keywords it uses (type with bool <> number, enum, required, properties,
   additionalProperties, oneOf = exactly one, prefixItems + items:false, min/maxItems, minLength,
   min/maxProperties, allOf/not, $ref; `format` is not enforced by jsonschema.validate).
   Checked on every run against the real jsonschema + bundled schema (C06/C17 harness). *)
From Coq Require Import ZArith List Bool String Ascii.
From Rbacx Require Import Value.
Import ListNotations.
Local Open Scope string_scope.

Definition t_string (v : value) : bool := is_str v.
Definition t_nonempty_string (v : value) : bool := match v with VStr s => negb (String.eqb s "") | _ => false end.
Definition t_number (v : value) : bool := match v with VNum _ => true | _ => false end.
Definition t_bool (v : value) : bool := match v with VBool _ => true | _ => false end.
Definition t_object (v : value) : bool := is_obj v.
Definition t_array (v : value) : bool := is_list v.

Definition keys (v : value) : list string := match v with VObj kvs => map fst kvs | _ => [] end.
Definition mem_s (s : string) (l : list string) : bool := existsb (String.eqb s) l.
Definition keys_within (allowed : list string) (v : value) : bool := forallb (fun k => mem_s k allowed) (keys v).

(* AttrRef: {"attr": <string>} and nothing else *)
Definition attr_ref (v : value) : bool :=
  t_object v && has_key "attr" v && t_string (get_key "attr" v) && keys_within ["attr"] v.

Definition str_expr (v : value) : bool := xorb (t_string v) (attr_ref v).          (* oneOf *)
Definition num_expr (v : value) : bool := xorb (t_number v) (attr_ref v).
Definition datetime_expr (v : value) : bool := xorb (t_string v) (attr_ref v).
(* oneOf [array, string, object-and-not-AttrRef, AttrRef]: exactly one *)
Definition container_expr (v : value) : bool :=
  let a := t_array v in let s := t_string v in
  let o := t_object v && negb (attr_ref v) in let r := attr_ref v in
  match a, s, o, r with
  | true, false, false, false | false, true, false, false
  | false, false, true, false | false, false, false, true => true
  | _, _, _, _ => false
  end.
(* oneOf [StrExpr, NumExpr]: an AttrRef satisfies both and is therefore rejected *)
Definition str_or_num_expr (v : value) : bool := xorb (str_expr v) (num_expr v).

Definition pair_of (p q : value -> bool) (v : value) : bool :=
  match v with VList [a; b] => p a && q b | _ => false end.
Definition any_value (v : value) : bool := true.

Definition rel_valid (v : value) : bool :=
  match v with
  | VStr s => negb (String.eqb s "")
  | VObj _ =>
      has_key "relation" v && t_nonempty_string (get_key "relation" v) &&
      (negb (has_key "subject" v) || str_expr (get_key "subject" v)) &&
      (negb (has_key "resource" v) || str_expr (get_key "resource" v)) &&
      (negb (has_key "ctx" v) || t_object (get_key "ctx" v)) &&
      keys_within ["relation"; "subject"; "resource"; "ctx"] v
  | _ => false
  end.

(* every operator except and/or/not *)
Definition leaf_operand_valid (op : string) (v : value) : option bool :=
  if String.eqb op "==" || String.eqb op "!=" then Some (pair_of any_value any_value v)
  else if String.eqb op ">" || String.eqb op "<" || String.eqb op ">=" || String.eqb op "<="
       then Some (pair_of num_expr num_expr v)
  else if String.eqb op "in" then Some (pair_of str_or_num_expr container_expr v)
  else if String.eqb op "contains" then Some (pair_of container_expr str_or_num_expr v)
  else if String.eqb op "startsWith" || String.eqb op "endsWith" then Some (pair_of str_expr str_expr v)
  else if String.eqb op "before" || String.eqb op "after" then Some (pair_of datetime_expr datetime_expr v)
  else if String.eqb op "between"
       then Some (pair_of datetime_expr (pair_of datetime_expr datetime_expr) v)
  else if String.eqb op "hasAll" || String.eqb op "hasAny" then Some (pair_of container_expr container_expr v)
  else if String.eqb op "rel" then Some (rel_valid v)
  else None.

Fixpoint cond_valid (c : value) : bool :=
  match c with
  | VBool _ => true
  | VObj [(op, v)] =>
      match leaf_operand_valid op v with
      | Some b => b
      | None =>
          if String.eqb op "and" || String.eqb op "or" then
            match v with
            | VList subs => (fix all (l : list value) : bool :=
                               match l with [] => true | x :: r => cond_valid x && all r end) subs
            | _ => false
            end
          else if String.eqb op "not" then cond_valid v
          else false
      end
  | _ => false
  end.

Definition algorithm_valid (v : value) : bool :=
  match v with
  | VStr s => String.eqb s "deny-overrides" || String.eqb s "permit-overrides" || String.eqb s "first-applicable"
  | _ => false
  end.

Definition resource_valid (v : value) : bool :=
  t_object v && has_key "type" v &&
  (let t := get_key "type" v in
   xorb (t_nonempty_string t)
        (match t with VList (x :: r) => forallb t_nonempty_string (x :: r) | _ => false end)) &&
  (negb (has_key "attrs" v) || t_object (get_key "attrs" v)).

Definition rule_valid (r : value) : bool :=
  t_object r &&
  has_key "id" r && t_string (get_key "id" r) &&
  has_key "effect" r && (match get_key "effect" r with
                         | VStr s => String.eqb s "permit" || String.eqb s "deny" | _ => false end) &&
  has_key "actions" r && (match get_key "actions" r with
                          | VList (x :: l) => forallb t_nonempty_string (x :: l) | _ => false end) &&
  has_key "resource" r && resource_valid (get_key "resource" r) &&
  (negb (has_key "condition" r) || cond_valid (get_key "condition" r)) &&
  (negb (has_key "obligations" r) ||
   match get_key "obligations" r with VList l => forallb t_object l | _ => false end) &&
  keys_within ["id"; "effect"; "actions"; "resource"; "condition"; "obligations"] r.

Definition rules_valid (v : value) : bool :=
  match v with VList l => forallb rule_valid l | _ => false end.

Definition single_policy_valid (p : value) : bool :=
  t_object p && has_key "rules" p && rules_valid (get_key "rules" p) &&
  (negb (has_key "algorithm" p) || algorithm_valid (get_key "algorithm" p)) &&
  keys_within ["algorithm"; "rules"] p.

Definition schema_valid (p : value) : bool :=
  t_object p &&
  (negb (has_key "algorithm" p) || algorithm_valid (get_key "algorithm" p)) &&
  (negb (has_key "rules" p) || rules_valid (get_key "rules" p)) &&
  (negb (has_key "policies" p) ||
   match get_key "policies" p with VList l => forallb single_policy_valid l | _ => false end) &&
  xorb (has_key "rules" p) (has_key "policies" p).
