(* Asgi.v — model of rbacx.adapters.asgi.RbacxMiddleware
   (src/rbacx/adapters/asgi.py:11-79: __init__, __call__, _send_json).
   Executable definitions only.

   One call `await mw(scope, receive, send)` is modelled as a function from
     - the middleware's configuration (mode, add_headers, build_env present?),
     - the scope dict, the identities of the receive / send callables,
     - what the collaborators do when (and if) they are consulted: the env
       builder's outcome, the outcome of guard.evaluate_async, a possible
       failure of the k-th send call, a possible exception of the downstream app,
   to the ordered trace of everything the middleware does to the outside
   world (build_env call, evaluate call, messages sent, downstream call), the
   scope dict afterwards and how the call ends (returns / raises).
   Nothing is abstracted from the control flow of the Python code; awaiting is
   sequential composition. *)
From Coq Require Import List Bool String Ascii ZArith.
From Rbacx Require Import Value.
Import ListNotations.
Local Open Scope string_scope.

(* ---------- the scope dict ---------- *)
(* A scope entry is JSON-like data, the very Guard object this middleware was built
   with (identity: `x is self.guard`), or some other opaque object (another Guard, a
   stub, anything that is not JSON data), told apart by a number.  The incoming scope
   is an input: it may already carry any of the three under any key, "rbacx_guard"
   included (a stacked deployment: an outer instance of the middleware ran first). *)
Inductive sval := SV (v : value) | SGuard | SObj (id : nat).
Definition scope := list (string * sval).      (* a Python dict, insertion order kept, keys unique *)

Fixpoint scope_get (k : string) (sc : scope) : option sval :=     (* scope.get(k) *)
  match sc with
  | [] => None
  | (k', x) :: r => if String.eqb k k' then Some x else scope_get k r
  end.

(* scope[k] = x : an existing key keeps its position, a new key goes last *)
Fixpoint scope_set (k : string) (x : sval) (sc : scope) : scope :=
  match sc with
  | [] => [(k, x)]
  | (k', y) :: r => if String.eqb k k' then (k', x) :: r else (k', y) :: scope_set k x r
  end.

(* scope.get("type") == "http": a missing key gives None; None, the Guard object and
   any other opaque object are not equal to a str *)
Definition sval_eq_str (o : option sval) (s : string) : bool :=
  match o with
  | Some (SV v) => py_eq v (VStr s)
  | Some SGuard => false
  | Some (SObj _) => false
  | None => false
  end.

(* ---------- configuration and collaborators ---------- *)
Record config := {
  c_mode : value;            (* self.mode: whatever was passed; compared with == "enforce" *)
  c_add_headers : bool       (* self.add_headers *)
}.

(* build_env(scope), when build_env is not None *)
Inductive builder_outcome :=
| BRet (items : list nat)    (* returns a sequence of these objects (identities) *)
| BNotIter                   (* returns something that cannot be unpacked (e.g. None) *)
| BRaise (exc : string).     (* raises an exception of this class *)

(* rbacx.core.decision.Decision, the fields the middleware could look at.  They are
   arbitrary Python values here: the code applies truthiness and str() to them. *)
Record decision := {
  d_allowed : value;
  d_effect : value;
  d_reason : value;
  d_rule_id : value;
  d_policy_id : value
}.

(* await guard.evaluate_async(subject, action, resource, context) *)
Inductive eval_outcome :=
| ERet (d : decision)
| ERaise (exc : string).

(* ---------- what the middleware does ---------- *)
Definition header := (string * string)%type.        (* (name bytes, value bytes) *)

Inductive message :=
| MStart (status : Z) (headers : list header)   (* {"type": "http.response.start", "status", "headers"} *)
| MBody (body : string).                        (* {"type": "http.response.body", "body"} *)

Inductive event :=
| EvBuild (sc : scope)                       (* build_env(scope); sc = the dict's content at that moment *)
| EvEval (s a r c : nat)                     (* guard.evaluate_async(s, a, r, c) *)
| EvSend (send_id : nat) (m : message)       (* await <send_id>(m) *)
| EvApp (sc : scope) (recv_id send_id : nat) (* await self.app(scope, <recv_id>, <send_id>) *).

Inductive ending :=
| Returned                   (* __call__ returns None *)
| Raised (exc : string)      (* an exception of this class propagates out of __call__ *)
| OutOfDomain.               (* str() of a decision field lies outside Value.py_str's domain *)

Record result := {
  r_events : list event;
  r_scope : scope;           (* the scope dict after the call *)
  r_end : ending
}.

(* ---------- str(x).encode("utf-8") ---------- *)
(* Strings are held as the UTF-8 bytes of the Python str, a lone surrogate
   U+D800..U+DFFF in its "surrogatepass" form ED A0..BF xx.  The byte ED is never a
   continuation byte and is followed by 80..9F in well-formed UTF-8, so the test
   below is exactly "the str contains a surrogate code point", which is when
   .encode("utf-8") raises UnicodeEncodeError. *)
Fixpoint has_surrogate (s : string) : bool :=
  match s with
  | EmptyString => false
  | String c r =>
      match r with
      | String c2 _ =>
          (Nat.eqb (nat_of_ascii c) 237 && Nat.leb 160 (nat_of_ascii c2)) || has_surrogate r
      | EmptyString => false
      end
  end.

(*  if x:
        headers.append((name, str(x).encode("utf-8")))            asgi.py:49-56 *)
Definition diag_header (name : string) (x : value) : res (list header) :=
  if py_truthy x then
    match py_str x with
    | None => Ood
    | Some s => if has_surrogate s then Raise "UnicodeEncodeError" else Ok [(name, s)]
    end
  else Ok [].

(*  headers = []
    if self.add_headers:
        reason; rule_id = getattr(decision, "rule_id", None); policy_id = getattr(..)   asgi.py:47-56 *)
Definition extra_headers (cfg : config) (d : decision) : res (list header) :=
  if c_add_headers cfg then
    h1 <- diag_header "x-rbacx-reason" (d_reason d) ;;
    h2 <- diag_header "x-rbacx-rule" (d_rule_id d) ;;
    h3 <- diag_header "x-rbacx-policy" (d_policy_id d) ;;
    Ok (h1 ++ h2 ++ h3)%list
  else Ok [].

(* json.dumps({"detail": "Forbidden"}).encode("utf-8") *)
Definition forbidden_body : string := "{""detail"": ""Forbidden""}".

Definition nat_str (n : nat) : string := z_to_string (Z.of_nat n).    (* str(n) *)

(* await send(m) for each message in turn; the call numbered [fail] (from 0)
   raises, which ends everything *)
Fixpoint do_sends (send_id : nat) (fail : option (nat * string)) (i : nat) (msgs : list message)
  : list event * ending :=
  match msgs with
  | [] => ([], Returned)
  | m :: rest =>
      match fail with
      | Some (k, exc) =>
          if Nat.eqb k i then ([EvSend send_id m], Raised exc)
          else let (ev, en) := do_sends send_id fail (S i) rest in (EvSend send_id m :: ev, en)
      | None =>
          let (ev, en) := do_sends send_id fail (S i) rest in (EvSend send_id m :: ev, en)
      end
  end.

(* _send_json(send, status, payload, extra_headers=...)  with body = the serialised payload;
   asgi.py:62-79 *)
Definition send_json (send_id : nat) (status : Z) (body : string) (extra : list header)
                     (fail : option (nat * string)) : list event * ending :=
  let headers :=
    ([("content-type", "application/json; charset=utf-8");
      ("content-length", nat_str (String.length body))] ++ extra)%list in   (* headers.extend(extra) *)
  do_sends send_id fail 0 [MStart status headers; MBody body].

(* await self.app(scope, receive, send) *)
Definition call_app (sc : scope) (recv_id send_id : nat) (app_exc : option string)
  : list event * ending :=
  ([EvApp sc recv_id send_id], match app_exc with Some e => Raised e | None => Returned end).

(* does __call__ run the access check at all?  asgi.py:43 *)
Definition enforces (cfg : config) (has_builder : bool) (sc : scope) : bool :=
  sval_eq_str (scope_get "type" sc) "http" && py_eq (c_mode cfg) (VStr "enforce") && has_builder.

Definition finish (sc : scope) (p : list event * ending) (pre : list event) : result :=
  {| r_events := (pre ++ fst p)%list; r_scope := sc; r_end := snd p |}.

(* RbacxMiddleware.__call__(scope, receive, send)   asgi.py:38-60 *)
Definition call (cfg : config) (builder : option builder_outcome) (sc0 : scope)
                (recv_id send_id : nat) (ev : eval_outcome)
                (send_fail : option (nat * string)) (app_exc : option string) : result :=
  let sc := scope_set "rbacx_guard" SGuard sc0 in                 (* scope["rbacx_guard"] = self.guard *)
  match builder with
  | Some b =>
      if enforces cfg true sc then
        match b with
        | BRaise exc => {| r_events := [EvBuild sc]; r_scope := sc; r_end := Raised exc |}
        | BNotIter => {| r_events := [EvBuild sc]; r_scope := sc; r_end := Raised "TypeError" |}
        | BRet [s; a; r; c] =>                                   (* subject, action, resource, context = ... *)
            match ev with
            | ERaise exc =>
                {| r_events := [EvBuild sc; EvEval s a r c]; r_scope := sc; r_end := Raised exc |}
            | ERet d =>
                if negb (py_truthy (d_allowed d)) then             (* if not decision.allowed: *)
                  match extra_headers cfg d with
                  | Ok extra =>
                      finish sc (send_json send_id 403 forbidden_body extra send_fail)
                             [EvBuild sc; EvEval s a r c]
                  | Raise exc =>
                      {| r_events := [EvBuild sc; EvEval s a r c]; r_scope := sc; r_end := Raised exc |}
                  | TypeErr | Ood =>
                      {| r_events := [EvBuild sc; EvEval s a r c]; r_scope := sc; r_end := OutOfDomain |}
                  end                                              (* return *)
                else
                  finish sc (call_app sc recv_id send_id app_exc) [EvBuild sc; EvEval s a r c]
            end
        | BRet _ => {| r_events := [EvBuild sc]; r_scope := sc; r_end := Raised "ValueError" |}
        end
      else finish sc (call_app sc recv_id send_id app_exc) []
  | None => finish sc (call_app sc recv_id send_id app_exc) []
  end.

(* ---------- projections used by the statements ---------- *)
Definition is_app (e : event) : bool := match e with EvApp _ _ _ => true | _ => false end.
Definition app_calls (r : result) : list event := filter is_app (r_events r).
Definition app_called (r : result) : bool := existsb is_app (r_events r).

Fixpoint sent (evs : list event) : list message :=
  match evs with
  | [] => []
  | EvSend _ m :: r => m :: sent r
  | _ :: r => sent r
  end.
Definition messages (r : result) : list message := sent (r_events r).
