(* RelCondRun.v — wire entry points for the rel-condition frame model (runner "relcond").
   Every entry returns the decision (or condition value) AND the ordered call log. *)
From Coq Require Import ZArith List Bool String Ascii.
From Rbacx Require Import Value Wire Cond Target Policy PolicySet Compiler Oblig Engine PolicyProofs EngineRun RelCond.
Import ListNotations.
Local Open Scope string_scope.

(* ---- str(datetime) for the datetimes of a case: rows [aware, us, text] ---- *)
Definition dts_lookup (tbl : value) (aware : bool) (us : Z) : string :=
  match tbl with
  | VList rows =>
      match find (fun row => match row with
                             | VList [VBool a; VNum (NInt u); VStr _] => Bool.eqb a aware && Z.eqb u us
                             | _ => false end) rows with
      | Some (VList [_; _; VStr s]) => s
      | _ => ""
      end
  | _ => ""
  end.
(* null: datetimes are kept apart from strings (the switch for a repaired F23) *)
Definition dts_of (tbl : value) : option (bool -> Z -> string) :=
  match tbl with VNull => None | _ => Some (dts_lookup tbl) end.

(* ---- the checker as a table of recorded responses ----
   rows: [subject, relation, resource, ctx, response]
   response: ["ret", v] = the call produced v (bool(v) is taken by the model);
             anything else (["raise"], ["timeout"]) = raised / not done within the time-out.
   table = null: no checker configured. *)
Definition oracle_of_table (rows : list value) : oracle :=
  fun q => match find (row_matches q) rows with
           | Some (VList [_; _; _; _; VList [VStr "ret"; v]]) => Some v
           | _ => None
           end.
Definition chk_of (tbl : value) : option oracle :=
  match tbl with
  | VNull => None
  | VList rows => Some (oracle_of_table rows)
  | _ => Some (oracle_of_table [])
  end.
(* calls of the model that the recorded table does not know (must be 0 for a faithful replay) *)
Definition unknown_calls (tbl : value) (log : list rel_query) : nat :=
  match tbl with
  | VList rows => List.length (filter (fun q => negb (existsb (row_matches q) rows)) log)
  | _ => List.length log
  end.

Definition enc_query (q : rel_query) : value :=
  VList [VStr (rq_subject q); VStr (rq_relation q); VStr (rq_resource q); rq_ctx q].
Definition enc_gres (g : gres) : value :=
  match g with
  | GDecision d => enc_decision d
  | GRaise w => vtag "Raise" [VStr w]
  | GOod => vtag "Ood" []
  end.

(* the built-in obligation checker outside its modelled domain (as EngineRun.run_engine reports it) *)
Definition oblig_ood (hash : value -> string) (chk : option oracle) (strict : bool) (policy req : value)
           (rs : option value) : bool :=
  match build_env strict req rs with
  | None => false
  | Some env =>
      match guard_decide frame (relh_frame hash true chk) policy env frame0 with
      | (ERaw r, _) =>
          if String.eqb (r_decision r) "permit" then
            match check (r_decision r) (r_obligations r) (get_key "context" env) with Ood => true | _ => false end
          else false
      | _ => false
      end
  end.

Definition enc_result (tbl : value) (strict : bool) (policy req : value) (rs : option value)
           (hash : value -> string) (g : gres) (log : list rel_query) : value :=
  let queries := match build_env strict req rs with
                 | Some env => policy_queries policy env
                 | None => []
                 end in
  let rel := match chk_of tbl with Some o => answer o | None => fun _ => false end in
  VObj [("decision", if oblig_ood hash (chk_of tbl) strict policy req rs then vtag "Ood" [] else enc_gres g);
        (* the statement's reading: every rel node judged by the checker's answer to its own canonical query *)
        ("pure", if oblig_ood hash (chk_of tbl) strict policy req rs then vtag "Ood" []
                 else enc_gres (fst (guard_eval unit (relh_pure rel) builtin_oblig strict policy req rs tt)));
        ("log", VList (map enc_query log));
        ("keys", VList (map (fun q => VStr (hash (rq_ctx q))) log));
        ("queries", VList (map enc_query queries));
        ("unknown", vnat (unknown_calls tbl log))].

(* relcond.eval strict policy req resolved table dates *)
Definition run_eval (args : list value) : value :=
  match args with
  | [VBool strict; policy; req; resolved; tbl; dates] =>
      let rs := match resolved with VNull => None | v => Some v end in
      let hash := ctx_hash_model (dts_of dates) in
      let '(g, fr) := decide_rel hash (chk_of tbl) builtin_oblig strict policy req rs in
      enc_result tbl strict policy req rs hash g (f_log fr)
  | _ => vtag "badargs" []
  end.

(* relcond.seq strict policy resolved steps dates     steps: [[req, table], ...] *)
Definition run_seq_entry (args : list value) : value :=
  match args with
  | [VBool strict; policy; resolved; VList steps; dates] =>
      let rs := match resolved with VNull => None | v => Some v end in
      let hash := ctx_hash_model (dts_of dates) in
      let decoded := map (fun s => match s with VList [req; tbl] => (req, tbl) | _ => (VNull, VNull) end) steps in
      let results := run_seq hash builtin_oblig strict policy rs
                             (map (fun rt => (chk_of (snd rt), fst rt)) decoded) in
      VList (map (fun x => let '((req, tbl), (g, log)) := x in enc_result tbl strict policy req rs hash g log)
                 (combine decoded results))
  | _ => vtag "badargs" []
  end.

Definition enc_resb' (r : res bool) : value := enc_resb r.

(* relcond.cond cond env table dates memo_on : eval_condition with REL_CHECKER / REL_LOCAL_CACHE set by hand *)
Definition run_cond_entry (args : list value) : value :=
  match args with
  | [c; env; tbl; dates; VBool memo_on] =>
      let hash := ctx_hash_model (dts_of dates) in
      let '(r, fr) := eval_cond frame (relh_frame hash memo_on (chk_of tbl)) c env frame0 in
      VObj [("value", enc_resb r); ("log", VList (map enc_query (f_log fr)));
            ("unknown", vnat (unknown_calls tbl (f_log fr)))]
  | _ => vtag "badargs" []
  end.

(* relcond.prepare expr env : the canonical query of one rel operand *)
Definition run_prepare (args : list value) : value :=
  match args with
  | [expr; env] =>
      match rel_prepare expr env with
      | Ok None => vtag "none" []
      | Ok (Some q) => vtag "query" [enc_query q]
      | TypeErr => vtag "TypeErr" []
      | Raise w => vtag "Raise" [VStr w]
      | Ood => vtag "Ood" []
      end
  | _ => vtag "badargs" []
  end.

(* relcond.key ctx dates : the model's stand-in for _ctx_hash(ctx) *)
Definition run_key (args : list value) : value :=
  match args with
  | [ctx; dates] => VStr (ctx_hash_model (dts_of dates) ctx)
  | _ => vtag "badargs" []
  end.

Definition entries : list (string * (list value -> value)) :=
  [("relcond.eval", run_eval); ("relcond.seq", run_seq_entry); ("relcond.cond", run_cond_entry);
   ("relcond.prepare", run_prepare); ("relcond.key", run_key)].

Definition run_line : string -> string := run_with entries.
