(* Oblig.v — model of rbacx.core.obligations.BasicObligationChecker.check as of
   the current tree (ill-typed context values and attrs fail closed; a missing
   re-auth age is unmet). *)
From Coq Require Import ZArith List Bool String Ascii.
From Rbacx Require Import Value Policy.
Import ListNotations.
Local Open Scope string_scope.

(* ---------- Python int(x) on JSON values ---------- *)
Definition is_ws (c : ascii) : bool :=
  let n := nat_of_ascii c in
  (Nat.eqb n 32 || Nat.eqb n 9 || Nat.eqb n 10 || Nat.eqb n 11 || Nat.eqb n 12 || Nat.eqb n 13
   || Nat.eqb n 28 || Nat.eqb n 29 || Nat.eqb n 30 || Nat.eqb n 31)%bool.
Fixpoint lstrip (s : string) : string :=
  match s with String c r => if is_ws c then lstrip r else s | EmptyString => s end.
Definition strip (s : string) : string := str_rev (lstrip (str_rev (lstrip s))).

Definition is_digit (c : ascii) : bool :=
  let n := nat_of_ascii c in (Nat.leb 48 n && Nat.leb n 57)%bool.
Definition dval (c : ascii) : Z := Z.of_nat (nat_of_ascii c) - 48.

(* digits with single underscores between digits *)
Fixpoint digits_us (s : string) (acc : Z) (prev_digit : bool) : option Z :=
  match s with
  | EmptyString => if prev_digit then Some acc else None
  | String c r =>
      if is_digit c then digits_us r (acc * 10 + dval c) true
      else if Ascii.eqb c "_"%char then (if prev_digit then digits_us r acc false else None)
      else None
  end.

(* number of digit characters (CPython 3.12 refuses to convert a string with more than
   sys.get_int_max_str_digits() = 4300 of them: ValueError) *)
Fixpoint count_digits (s : string) (acc : Z) : Z :=
  match s with
  | EmptyString => acc
  | String c r => count_digits r (if is_digit c then acc + 1 else acc)
  end.
Definition max_str_digits : Z := 4300.

(* int(str): None = ValueError.  Non-ASCII strings are outside the model (Ood). *)
Definition int_of_str (s : string) : res (option Z) :=
  if negb (is_ascii_str s) then Ood else
  let t := strip s in
  if (max_str_digits <? count_digits t 0)%Z then Ok None else
  match t with
  | String "-"%char r => Ok (option_map Z.opp (digits_us r 0 false))
  | String "+"%char r => Ok (digits_us r 0 false)
  | _ => Ok (digits_us t 0 false)
  end.

(* int(x): Ok (Some z) | Ok None (raises TypeError/ValueError/OverflowError) *)
Definition py_int (v : value) : res (option Z) :=
  match v with
  | VBool b => Ok (Some (if b then 1 else 0)%Z)
  | VNum (NInt z) => Ok (Some z)
  | VNum (NFlt FNaN _) | VNum (NFlt (FInf _) _) => Ok None
  | VNum (NFlt (FFin m e) _) =>
      Ok (Some (if (e >=? 0)%Z then (m * 2 ^ e)%Z else Z.quot m (2 ^ (- e))))
  | VStr s => int_of_str s
  | _ => Ok None
  end.

(* try: int(x) except: dflt *)
Definition int_or (dflt : Z) (v : value) : res Z :=
  r <- py_int v ;; Ok (match r with Some z => z | None => dflt end).

(* ---------- the checker ---------- *)
Definition str_is (v : value) (s : string) : bool :=
  match v with VStr t => String.eqb t s | _ => false end.

Definition scheme_challenge (attrs : value) : string :=
  match (if has_key "scheme" attrs then get_key "scheme" attrs else VStr "") with
  | VStr s =>
      if is_ascii_str s then
        let l := str_lower s in
        if String.eqb l "basic" || String.eqb l "bearer" || String.eqb l "digest" then "http_" ++ l
        else "http_auth"
      else "http_auth"
  | _ => "http_auth"
  end.

(* one obligation already known to target the current effect:
   Ok None = satisfied / ignored, Ok (Some ch) = unmet with that challenge *)
Definition check_one (ob ctx : value) : res (option string) :=
  let typ := get_key "type" ob in
  let attrs := match py_or (get_key "attrs" ob) (VObj []) with VObj k => VObj k | _ => VObj [] end in
  let flag (key ch : string) : res (option string) :=
    Ok (if py_truthy (get_key key ctx) then None else Some ch) in
  if str_is typ "require_mfa" then flag "mfa" "mfa"
  else if str_is typ "require_level" then
    min_level <- int_or 0 (if has_key "min" attrs then get_key "min" attrs else VNum (NInt 0)) ;;
    cur <- py_int (py_or (get_key "auth_level" ctx) (VNum (NInt 0))) ;;
    match cur with
    | None => Ok (Some "step_up")
    | Some c => Ok (if (c <? min_level)%Z then Some "step_up" else None)
    end
  else if str_is typ "http_challenge" then Ok (Some (scheme_challenge attrs))
  else if str_is typ "require_consent" then
    let key := get_key "key" attrs in
    if is_null key then flag "consent" "consent"
    else
      let consent := py_or (get_key "consent" ctx) (VObj []) in
      let granted := match consent, key with
                     | VObj kvs, VStr k => match assoc k kvs with Some v => py_truthy v | None => false end
                     | _, _ => false
                     end in
      Ok (if granted then None else Some "consent")
  else if str_is typ "require_terms_accept" then flag "tos_accepted" "tos"
  else if str_is typ "require_captcha" then flag "captcha_passed" "captcha"
  else if str_is typ "require_reauth" then
    max_age <- int_or 0 (if has_key "max_age" attrs then get_key "max_age" attrs else VNum (NInt 0)) ;;
    let age_raw := get_key "reauth_age_seconds" ctx in
    if is_null age_raw then Ok (Some "reauth")
    else
      age <- py_int age_raw ;;
      match age with
      | None => Ok (Some "reauth")
      | Some a => Ok (if (a >? max_age)%Z then Some "reauth" else None)
      end
  else if str_is typ "require_age_verified" then flag "age_verified" "age_verification"
  else Ok None.

(* does the obligation target the current effect?  on = (ob or {}).get("on") or "permit" *)
Definition targets (ob : value) (current_effect : string) : bool :=
  let on := py_or (get_key "on" ob) (VStr "permit") in
  (str_is on "permit" || str_is on "deny") && str_is on current_effect.

Fixpoint check_list (obs : list value) (ctx : value) (current_effect : string) (baseline : bool)
  : res (bool * option string) :=
  match obs with
  | [] => Ok (baseline, None)
  | ob :: rest =>
      let ob' := if py_truthy ob then ob else VObj [] in
      match ob' with
      | VObj _ =>
          if targets ob' current_effect then
            r <- check_one ob' ctx ;;
            match r with
            | Some ch => Ok (false, Some ch)
            | None => check_list rest ctx current_effect baseline
            end
          else check_list rest ctx current_effect baseline
      | _ => Raise "AttributeError"              (* (ob or {}).get on a non-dict *)
      end
  end.

(* check(raw, context) with ctx = context.attrs (a JSON object) *)
Definition check (decision : string) (obligations : list value) (ctx : value) : res (bool * option string) :=
  let is_permit := String.eqb decision "permit" in
  match obligations with
  | [] => Ok (is_permit, None)
  | _ =>
      match (if py_truthy ctx then ctx else VObj []) with
      | VObj k => check_list obligations (VObj k) (if is_permit then "permit" else "deny") is_permit
      | _ => Ood                                 (* Context.attrs that is not a mapping: outside the request domain *)
      end
  end.
