(* CacheGuardRRun.v — wire entry points for the CacheGuardR model (decision cache with a ROLE
   RESOLVER per guard), added to the runner "cacheguard": the entry table of this file is
   CacheGuardRun.entries (unchanged, first) followed by cg.runR / cg.batchR.

   Instance run here (the rest as in CacheGuardRun.v: tag = canon, built-in checker in both
   guards, relationship checker = a table of facts):

     resolver of a guard   null                 no role resolver configured
                           [down, graph]        StaticRoleResolver(graph) behind a switch: while
                                                [down] its expand raises (Guard logs it and keeps the
                                                subject's own roles = answer None); otherwise
                                                CacheGuardR.static_resolver, i.e. C18's Roles.expand
     history               the four operations of CacheGuard.hop and, between evaluations, EDITS of
                           a guard's resolver object:
                             ["grant", w, a, b]   graph.setdefault(a, []) gets b appended unless present
                             ["revoke", w, a, b]  b removed from graph.get(a, []) when present
                             ["down", w] / ["up", w]
                           (an edit addressed to a guard without a resolver does nothing).

   How edits reach [run_cachedR], whose history type has no edit operation: exactly as the header
   of CacheGuardR.v says — "an oracle whose state counts the calls and answers by the edits made so
   far".  [compile] removes the edits from the history and writes down, per evaluation, the
   resolver configurations in force at that point (the SCRIPT); the oracle state is the rest of the
   script, [scripted] answers the head with [static_resolver] and steps to the tail.  Guard calls
   expand once per evaluation, so the n-th call is the n-th evaluation of the history.
   [compile_no_edits] / [scripted_is_static]: without edits the scripted oracle is the pure resolver
   [static_resolver] of the initial graphs, the instance of props/C08.v's examples. *)
From Coq Require Import ZArith List Bool String Ascii.
From Rbacx Require Import Value Wire Cond Policy Oblig Engine Cache CacheKey Roles RolesRun RolesEngine
  CacheGuard CacheGuardR CacheGuardRun.
Import ListNotations.
Local Open Scope string_scope.

(* a guard's resolver object: None = no resolver; Some (down, graph) *)
Definition rst : Type := option (bool * Roles.graph).
Definition live (r : rst) : option Roles.graph :=
  match r with Some (false, g) => Some g | _ => None end.

(* ps = graph.setdefault(a, []); if b not in ps: ps.append(b)   (a new key goes last; first binding wins) *)
Fixpoint grant (g : Roles.graph) (a b : string) : Roles.graph :=
  match g with
  | [] => [(a, [b])]
  | (k, ps) :: g' =>
      if String.eqb a k then (k, if Roles.mem b ps then ps else (ps ++ [b])%list) :: g'
      else (k, ps) :: grant g' a b
  end.
Fixpoint remove1 (b : string) (l : list string) : list string :=     (* list.remove: the first occurrence *)
  match l with
  | [] => []
  | x :: r => if String.eqb b x then r else x :: remove1 b r
  end.
(* if b in graph.get(a, []): graph[a].remove(b) *)
Fixpoint revoke (g : Roles.graph) (a b : string) : Roles.graph :=
  match g with
  | [] => []
  | (k, ps) :: g' => if String.eqb a k then (k, remove1 b ps) :: g' else (k, ps) :: revoke g' a b
  end.

Inductive redit :=
| EGrant (w : bool) (a b : string)
| ERevoke (w : bool) (a b : string)
| EDown (w : bool)
| EUp (w : bool).
Definition who (e : redit) : bool :=
  match e with EGrant w _ _ | ERevoke w _ _ | EDown w | EUp w => w end.
Definition apply_edit (e : redit) (r : rst) : rst :=
  match r with
  | None => None
  | Some (down, g) =>
      match e with
      | EGrant _ a b => Some (down, grant g a b)
      | ERevoke _ a b => Some (down, revoke g a b)
      | EDown _ => Some (true, g)
      | EUp _ => Some (false, g)
      end
  end.

(* the oracle: state = the resolver configurations of the evaluations still to come *)
Definition script : Type := list (rst * rst).
Definition scripted (w : bool) (own : value) (sc : script) : option value * script :=
  match sc with
  | [] => (None, [])
  | (r1, r2) :: t => (static_resolver (live r1) (live r2) w own, t)
  end.

(* history with edits -> (history of CacheGuard.hop, script) *)
Fixpoint compile (ops : list (hop + redit)) (r1 r2 : rst) : list hop * script :=
  match ops with
  | [] => ([], [])
  | inl o :: t =>
      let hs := compile t r1 r2 in
      (o :: fst hs, match o with HEval _ _ => (r1, r2) :: snd hs | _ => snd hs end)
  | inr e :: t => compile t (if who e then r1 else apply_edit e r1) (if who e then apply_edit e r2 else r2)
  end.

(* null | [down, graph] *)
Definition dec_rst (v : value) : option rst :=
  match v with
  | VNull => Some None
  | VList [VBool down; g] => match RolesRun.dec_graph g with Some g' => Some (Some (down, g')) | None => None end
  | _ => None
  end.

Definition dec_rop (v : value) : option (hop + redit) :=
  match v with
  | VList [VStr "grant"; VBool w; VStr a; VStr b] => Some (inr (EGrant w a b))
  | VList [VStr "revoke"; VBool w; VStr a; VStr b] => Some (inr (ERevoke w a b))
  | VList [VStr "down"; VBool w] => Some (inr (EDown w))
  | VList [VStr "up"; VBool w] => Some (inr (EUp w))
  | _ => match CacheGuardRun.dec_hop v with Some o => Some (inl o) | None => None end
  end.

(* the model run of one history: (hit flag, answer) per evaluation of the engines with the cache, and the answers
   of the engines without a cache, both with the same resolvers edited at the same points *)
Definition modelR (sort : bool) (M : cache_impl value) (copying : bool) (g1 g2 : gcfg) (r1 r2 : rst)
    (facts : list value) (ops : list (hop + redit)) : list (bool * gres) * list gres :=
  let relh := relh_facts facts in
  let hs := compile ops r1 r2 in
  (snd (run_cachedR unit relh value canon (norm_of sort) builtin_both M copying script scripted (fst hs)
          (init unit value M g1 g2 tt) (snd hs)),
   run_refR unit relh builtin_both script scripted (fst hs) g1 g2 tt (snd hs)).

(* cg.runR sort cache copying g1 g2 resolver1 resolver2 facts history
     -> the answer format of cg.run:
        [[hit, decision | ["Raise", w] | ["Ood"]] per evaluation, uncached answers per evaluation] *)
Definition run_cgR (args : list value) : value :=
  match args with
  | [VBool sort; c; VBool copying; g1; g2; r1; r2; VList facts; VList h] =>
      match CacheGuardRun.dec_cache c, dec_gcfg g1, dec_gcfg g2, dec_rst r1, dec_rst r2, opt_all (map dec_rop h) with
      | Some M, Some g1', Some g2', Some r1', Some r2', Some ops =>
          let res := modelR sort M copying g1' g2' r1' r2' facts ops in
          (* the context of an evaluation does not depend on the resolver's answer *)
          let ctxs := ctxs_of (g_strict g1') (g_strict g2') (fst (compile ops r1' r2')) in
          VList [VList (map (fun oc => VList [VBool (fst (fst oc)); enc_gres (snd (fst oc)) (snd oc)])
                            (combine (fst res) ctxs));
                 VList (map (fun oc => enc_gres (fst oc) (snd oc)) (combine (snd res) ctxs))]
      | _, _, _, _, _, _ => vtag "badargs" []
      end
  | _ => vtag "badargs" []
  end.

(* cg.batchR sort facts policies requests cases : as cg.batch,
   case = [cache, copying, [strict, policy#, ttl], [strict, policy#, ttl], resolver1, resolver2, ops];
   answer: one cg.runR answer per case *)
Definition run_batchR (args : list value) : value :=
  match args with
  | [sort; facts; VList pols; VList reqs; VList cases] =>
      VList (map (fun c =>
        match c with
        | VList [cache; copying; g1; g2; r1; r2; VList ops] =>
            match dec_gcfg_ix pols g1, dec_gcfg_ix pols g2, opt_all (map (dec_hop_ix pols reqs) ops) with
            | Some g1', Some g2', Some ops' => run_cgR [sort; cache; copying; g1'; g2'; r1; r2; facts; VList ops']
            | _, _, _ => vtag "badargs" []
            end
        | _ => vtag "badargs" []
        end) cases)
  | _ => vtag "badargs" []
  end.

(* the runner's table: the entries of the resolver-free model, unchanged, then the two new ones *)
Definition entries : list (string * (list value -> value)) :=
  (CacheGuardRun.entries ++ [("cg.runR", run_cgR); ("cg.batchR", run_batchR)])%list.

Definition run_line : string -> string := run_with entries.

(* ---- what the decoding amounts to ---- *)

(* a history without edits is handed to run_cachedR as it is, with one script entry per evaluation *)
Lemma compile_no_edits h r1 r2 : fst (compile (map inl h) r1 r2) = h.
Proof. induction h as [|o h IH]; [reflexivity|]. simpl. now rewrite IH. Qed.

(* ... and on that script the oracle is the pure resolver static_resolver of the two initial graphs
   (down = expand raises = no answer): the instance of the examples of props/C08.v *)
Section ScriptedIsStatic.
  Variable S : Type.
  Variable relh : rel_query -> S -> bool * S.
  Variable T : Type.
  Variable tag : value -> T.
  Variable norm : value -> value.
  Variable oblig : bool -> raw -> value -> option (bool * option string).
  Variable M : cache_impl T.
  Variable copying : bool.
  Variables r1 r2 : rst.

  Lemma scripted_is_static_cached h : forall (s : state S T M),
    snd (run_cachedR S relh T tag norm oblig M copying script scripted h s (snd (compile (map inl h) r1 r2)))
    = snd (run_cachedR S relh T tag norm oblig M copying unit
             (pure_resolver (static_resolver (live r1) (live r2))) h s tt).
  Proof.
    induction h as [|o h IH]; intros s; [reflexivity|].
    destruct o as [w req|w p|w|dt]; simpl; try apply IH.
    unfold eval_cachedR, pure_resolver in *. simpl.
    destruct (eval_env S relh T tag norm oblig M copying w
                (env_of_eval (g_strict (guard_of S T M w s)) req
                   (static_resolver (live r1) (live r2) w (own_roles req))) s) as [s1 o].
    specialize (IH s1).
    destruct (run_cachedR S relh T tag norm oblig M copying script scripted h s1 (snd (compile (map inl h) r1 r2)))
      as [f1 os1].
    match goal with
    | |- context [run_cachedR S relh T tag norm oblig M copying unit ?r h s1 tt] =>
        destruct (run_cachedR S relh T tag norm oblig M copying unit r h s1 tt) as [f2 os2]
    end.
    simpl in *. now rewrite IH.
  Qed.

  Lemma scripted_is_static_ref h : forall g1 g2 st,
    run_refR S relh oblig script scripted h g1 g2 st (snd (compile (map inl h) r1 r2))
    = run_refR S relh oblig unit (pure_resolver (static_resolver (live r1) (live r2))) h g1 g2 st tt.
  Proof.
    induction h as [|o h IH]; intros g1 g2 st; [reflexivity|].
    destruct o as [w req|w p|w|dt]; simpl; try apply IH.
    destruct (guard_eval S relh (oblig w) (g_strict (if w then g2 else g1)) (g_policy (if w then g2 else g1)) req
                (static_resolver (live r1) (live r2) w (own_roles req)) st) as [a st'].
    now rewrite IH.
  Qed.
End ScriptedIsStatic.

(* the old entries are found under their names in the new table, and the new names were free *)
Lemma old_entries_kept name f :
  lookup_entry name CacheGuardRun.entries = Some f -> lookup_entry name entries = Some f.
Proof.
  unfold entries. generalize CacheGuardRun.entries as l. induction l as [|[k a] l IH]; [discriminate|].
  simpl. destruct (String.eqb name k); [trivial|apply IH].
Qed.
