(* RolesProofs.v — proofs about Roles.expand (property C18). *)
From Coq Require Import List Bool String Arith Lia Relations Sorted Permutation.
From Rbacx Require Import Value Roles.
Import ListNotations.
Local Open Scope nat_scope.

Definition edge (g : graph) (a b : string) : Prop := In b (parents g a).

Lemma mem_In x l : mem x l = true <-> In x l.
Proof.
  unfold mem. rewrite existsb_exists. split.
  - intros [y [Hy He]]. apply String.eqb_eq in He. subst; assumption.
  - intros H. exists x. split; [assumption|apply String.eqb_refl].
Qed.
Lemma mem_nIn x l : mem x l = false <-> ~ In x l.
Proof. rewrite <- mem_In. destruct (mem x l); split; congruence. Qed.

(* ---------------- soundness of the loop ---------------- *)
Lemma loop_sound g fuel : forall stack out l,
  expand_loop fuel g stack out = Some l ->
  forall x, In x l ->
    In x out \/ exists s, In s stack /\ clos_refl_trans _ (edge g) s x.
Proof.
  induction fuel as [|fuel IH]; intros stack out l H x Hx.
  - destruct stack as [|r st]; simpl in H; [|discriminate]. inversion H; subst. now left.
  - destruct stack as [|r st]; simpl in H.
    + inversion H; subst. now left.
    + destruct (mem r out) eqn:Hm.
      * destruct (IH _ _ _ H x Hx) as [Ho|[s [Hs Hr]]]; [now left|].
        right. exists s. split; [now right|assumption].
      * destruct (IH _ _ _ H x Hx) as [Ho|[s [Hs Hr]]].
        -- destruct Ho as [->|Ho]; [|now left].
           right. exists x. split; [now left|apply rt_refl].
        -- apply in_app_or in Hs. destruct Hs as [Hs|Hs].
           ++ apply in_rev in Hs. right. exists r. split; [now left|].
              eapply rt_trans; [apply rt_step; exact Hs|exact Hr].
           ++ right. exists s. split; [now right|assumption].
Qed.

(* ---------------- completeness of the loop ---------------- *)
Lemma loop_complete g fuel : forall stack out l,
  expand_loop fuel g stack out = Some l ->
  (forall x, In x out -> forall p, edge g x p -> In p out \/ In p stack) ->
  incl out l /\ incl stack l /\ (forall x, In x l -> forall p, edge g x p -> In p l).
Proof.
  induction fuel as [|fuel IH]; intros stack out l H Inv.
  - destruct stack as [|r st]; simpl in H; [|discriminate]. inversion H; subst.
    repeat split; try apply incl_refl; try (intros ? []).
    intros x Hx p Hp. destruct (Inv x Hx p Hp) as [|[]]; assumption.
  - destruct stack as [|r st]; simpl in H.
    + inversion H; subst. repeat split; try apply incl_refl; try (intros ? []).
      intros x Hx p Hp. destruct (Inv x Hx p Hp) as [|[]]; assumption.
    + destruct (mem r out) eqn:Hm.
      * apply mem_In in Hm.
        destruct (IH _ _ _ H) as [Ho [Hs Hc]].
        { intros x Hx p Hp. destruct (Inv x Hx p Hp) as [|[->|]]; auto. }
        repeat split; auto. intros y [->|Hy]; auto.
      * destruct (IH _ _ _ H) as [Ho [Hs Hc]].
        { intros x [->|Hx] p Hp.
          - right. apply in_or_app. left. apply -> in_rev. exact Hp.
          - destruct (Inv x Hx p Hp) as [|[->|]].
            + left. now right.
            + left. now left.
            + right. apply in_or_app. now right. }
        repeat split; auto.
        -- intros y Hy. apply Ho. now right.
        -- intros y [->|Hy]. ++ apply Ho. now left. ++ apply Hs. apply in_or_app. now right.
Qed.

Lemma closed_reach g (l : list string) :
  (forall x, In x l -> forall p, edge g x p -> In p l) ->
  forall a b, clos_refl_trans _ (edge g) a b -> In a l -> In b l.
Proof.
  intros Hc a b Hr. induction Hr; intros Ha; eauto.
Qed.

(* ---------------- no duplicates ---------------- *)
Lemma loop_nodup g fuel : forall stack out l,
  expand_loop fuel g stack out = Some l -> NoDup out -> NoDup l.
Proof.
  induction fuel as [|fuel IH]; intros stack out l H Hn.
  - destruct stack; simpl in H; [|discriminate]. inversion H; subst; assumption.
  - destruct stack as [|r st]; simpl in H.
    + inversion H; subst; assumption.
    + destruct (mem r out) eqn:Hm.
      * eapply IH; eauto.
      * eapply IH; eauto. constructor; [apply mem_nIn; assumption|assumption].
Qed.

(* ---------------- termination: the fuel is enough ---------------- *)
(* weight still to be pushed: parents of graph keys not yet visited, each key
   counted once (first binding, as [parents] reads it). *)
Fixpoint pending (g0 g : graph) (seen out : list string) : nat :=
  match g with
  | [] => 0
  | (k, _) :: g' =>
      if mem k seen then pending g0 g' seen out
      else (if mem k out then 0 else List.length (parents g0 k)) + pending g0 g' (k :: seen) out
  end.

Lemma parents_notin g r : ~ In r (map fst g) -> parents g r = [].
Proof.
  induction g as [|[k ps] g IH]; simpl; intros H; [reflexivity|].
  destruct (String.eqb r k) eqn:E.
  - apply String.eqb_eq in E. subst. exfalso. apply H. now left.
  - apply IH. intros Hin. apply H. now right.
Qed.

(* adding r to out lowers pending by |parents g0 r| when r is an unseen key of g, not in out *)
Lemma pending_add g0 r : forall g seen out,
  ~ In r out ->
  pending g0 g seen (r :: out) + (if mem r seen then 0 else
                                   if mem r (map fst g) then List.length (parents g0 r) else 0)
  = pending g0 g seen out.
Proof.
  induction g as [|[k ps] g IH]; intros seen out Hr; simpl.
  - destruct (mem r seen); reflexivity.
  - destruct (mem k seen) eqn:Hks.
    + rewrite <- (IH seen out Hr).
      destruct (mem r seen) eqn:Hrs; [reflexivity|].
      destruct (String.eqb r k) eqn:E; simpl.
      * apply String.eqb_eq in E. subst. congruence.
      * reflexivity.
    + rewrite <- (IH (k :: seen) out Hr). simpl.
      destruct (String.eqb r k) eqn:E.
      * apply String.eqb_eq in E. subst k. rewrite String.eqb_refl. simpl.
        rewrite Hks. simpl.
        assert (mem r out = false) as -> by (apply mem_nIn; assumption).
        lia.
      * rewrite (String.eqb_sym k r), E. simpl.
        destruct (mem r seen); simpl; repeat match goal with |- context[if ?b then _ else _] => destruct b end; lia.
Qed.

(* For g0 = g processed from the start, parents g0 k at the first unseen
   occurrence of k is that binding's list. *)
Lemma pending_bound_gen : forall (pre g : graph) out,
  pending (pre ++ g) g (map fst pre) out <= total_edges g.
Proof.
  intros pre g. revert pre.
  induction g as [|[k ps] g IH]; intros pre out; simpl; [unfold total_edges; simpl; lia|].
  unfold total_edges. simpl. fold (total_edges g).
  destruct (mem k (map fst pre)) eqn:Hk.
  - specialize (IH (pre ++ [(k, ps)]) out).
    rewrite <- app_assoc in IH. simpl in IH.
    rewrite map_app in IH. simpl in IH.
    assert (Hp : forall g1 s1 s2, (forall x, mem x s1 = mem x s2) ->
                 pending (pre ++ (k, ps) :: g) g1 s1 out = pending (pre ++ (k, ps) :: g) g1 s2 out).
    { induction g1 as [|[k1 p1] g1 IHg]; intros s1 s2 Hs; simpl; [reflexivity|].
      rewrite (Hs k1). destruct (mem k1 s2).
      - apply IHg; assumption.
      - f_equal. apply IHg. intros x. simpl. rewrite Hs. reflexivity. }
    rewrite (Hp g (map fst pre) (map fst pre ++ [k])); [lia|].
    intros x. unfold mem. rewrite existsb_app. simpl.
    destruct (String.eqb x k) eqn:E; [|rewrite !orb_false_r; reflexivity].
    apply String.eqb_eq in E. subst. unfold mem in Hk. rewrite Hk. reflexivity.
  - assert (Hpar : parents (pre ++ (k, ps) :: g) k = ps).
    { apply mem_nIn in Hk. clear - Hk. induction pre as [|[k1 p1] pre IHp]; simpl.
      - rewrite String.eqb_refl. reflexivity.
      - simpl in Hk. destruct (String.eqb k k1) eqn:E.
        + apply String.eqb_eq in E. subst. exfalso. apply Hk. now left.
        + apply IHp. intros H. apply Hk. now right. }
    rewrite Hpar.
    specialize (IH (pre ++ [(k, ps)]) out).
    rewrite <- app_assoc in IH. simpl in IH. rewrite map_app in IH. simpl in IH.
    assert (Hp : forall g1 s1 s2, (forall x, mem x s1 = mem x s2) ->
                 pending (pre ++ (k, ps) :: g) g1 s1 out = pending (pre ++ (k, ps) :: g) g1 s2 out).
    { induction g1 as [|[k1 p1] g1 IHg]; intros s1 s2 Hs; simpl; [reflexivity|].
      rewrite (Hs k1). destruct (mem k1 s2).
      - apply IHg; assumption.
      - f_equal. apply IHg. intros x. simpl. rewrite Hs. reflexivity. }
    rewrite (Hp g (k :: map fst pre) (map fst pre ++ [k])).
    + destruct (mem k out); lia.
    + intros x. unfold mem. rewrite existsb_app. simpl.
      rewrite orb_false_r. apply orb_comm.
Qed.

Lemma pending_bound g out : pending g g [] out <= total_edges g.
Proof. apply (pending_bound_gen [] g out). Qed.

Lemma loop_terminates g fuel : forall stack out,
  List.length stack + pending g g [] out <= fuel ->
  exists l, expand_loop fuel g stack out = Some l.
Proof.
  induction fuel as [|fuel IH]; intros stack out Hf.
  - destruct stack; simpl in *; [eexists; reflexivity|lia].
  - destruct stack as [|r st]; simpl; [eexists; reflexivity|].
    destruct (mem r out) eqn:Hm.
    + apply IH. simpl in Hf. lia.
    + apply IH. apply mem_nIn in Hm.
      pose proof (pending_add g r g [] out Hm) as Ha. simpl in Ha.
      rewrite app_length, rev_length. simpl in Hf.
      destruct (mem r (map fst g)) eqn:Hk.
      * lia.
      * apply mem_nIn in Hk. rewrite (parents_notin g r Hk). simpl. lia.
Qed.

(* ---------------- insertion sort ---------------- *)
Definition sle (a b : string) : Prop := String.leb a b = true.

Lemma insert_perm x l : Permutation (x :: l) (insert x l).
Proof.
  induction l as [|y r IH]; simpl; [apply Permutation_refl|].
  destruct (String.leb x y); [apply Permutation_refl|].
  eapply perm_trans; [apply perm_swap|]. apply perm_skip. exact IH.
Qed.
Lemma isort_perm l : Permutation l (isort l).
Proof.
  induction l as [|x r IH]; simpl; [constructor|].
  eapply perm_trans; [apply perm_skip; exact IH|apply insert_perm].
Qed.
Lemma insert_sorted x l : Sorted sle l -> Sorted sle (insert x l).
Proof.
  induction l as [|y r IH]; simpl; intros Hs.
  - repeat constructor.
  - destruct (String.leb x y) eqn:E.
    + constructor; [assumption|constructor; exact E].
    + inversion Hs as [|? ? Hr Hh]; subst.
      constructor; [apply IH; assumption|].
      assert (Hyx : sle y x).
      { unfold sle. destruct (String.leb_total x y) as [H|H]; [congruence|exact H]. }
      destruct r as [|z r']; simpl.
      * constructor; exact Hyx.
      * destruct (String.leb x z); constructor; [exact Hyx|].
        inversion Hh; subst; assumption.
Qed.
Lemma isort_sorted l : Sorted sle (isort l).
Proof. induction l as [|x r IH]; simpl; [constructor|apply insert_sorted; exact IH]. Qed.

(* ---------------- the theorems ---------------- *)
Theorem expand_total g roles : exists l, expand g roles = Some l.
Proof.
  unfold expand. destruct roles as [|r0 rs]; [eexists; reflexivity|].
  destruct (loop_terminates g (expand_fuel g (r0 :: rs)) (rev (r0 :: rs)) []) as [l Hl].
  - unfold expand_fuel. rewrite rev_length. pose proof (pending_bound g []). lia.
  - rewrite Hl. eexists; reflexivity.
Qed.

Theorem expand_closure g roles l :
  expand g roles = Some l ->
  forall x, In x l <-> exists r, In r roles /\ clos_refl_trans _ (edge g) r x.
Proof.
  unfold expand. destruct roles as [|r0 rs].
  - intros H; inversion H; subst. intros x; split; [intros []|intros [r [[] _]]].
  - destruct (expand_loop _ g (rev (r0 :: rs)) []) as [out|] eqn:Hl; [|discriminate].
    intros H; inversion H; subst; clear H. intros x.
    assert (Hp : forall y, In y (isort out) <-> In y out).
    { intros y; split; intros Hy.
      - eapply Permutation_in; [apply Permutation_sym, isort_perm|exact Hy].
      - eapply Permutation_in; [apply isort_perm|exact Hy]. }
    rewrite Hp. split.
    + intros Hx. destruct (loop_sound _ _ _ _ _ Hl x Hx) as [[]|[s [Hs Hr]]].
      exists s. split; [apply in_rev; exact Hs|exact Hr].
    + intros [r [Hr Hreach]].
      destruct (loop_complete _ _ _ _ _ Hl) as [_ [Hs Hc]]; [intros ? []|].
      eapply closed_reach; eauto. apply Hs. apply -> in_rev. exact Hr.
Qed.

Theorem expand_sorted_nodup g roles l :
  expand g roles = Some l -> Sorted sle l /\ NoDup l.
Proof.
  unfold expand. destruct roles as [|r0 rs].
  - intros H; inversion H; subst. split; constructor.
  - destruct (expand_loop _ g (rev (r0 :: rs)) []) as [out|] eqn:Hl; [|discriminate].
    intros H; inversion H; subst; clear H. split; [apply isort_sorted|].
    eapply Permutation_NoDup; [apply isort_perm|].
    eapply loop_nodup; [exact Hl|constructor].
Qed.

Theorem expand_empty g : expand g [] = Some [].
Proof. reflexivity. Qed.
