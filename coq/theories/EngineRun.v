(* EngineRun.v — wire entry points for Cond / Target / Policy / PolicySet /
   Compiler / Oblig / Engine (runner "engine"). *)
From Coq Require Import ZArith List Bool String Ascii.
From Rbacx Require Import Value Wire Num Time Cond Target Policy PolicySet Compiler Oblig Engine PolicyProofs PolicySetProofs Schema.
Import ListNotations.
Local Open Scope string_scope.

(* ---- relationship oracle given as a table of recorded answers ----
   rows: [subject, relation, resource, ctx, answer]   answer: true/false, null = raised/timed out *)
Fixpoint json_same (a b : value) {struct a} : bool :=
  match a, b with
  | VNull, VNull => true
  | VBool x, VBool y => Bool.eqb x y
  | VNum (NInt x), VNum (NInt y) => Z.eqb x y
  | VNum (NFlt _ r1), VNum (NFlt _ r2) => String.eqb r1 r2
  | VStr s, VStr t => String.eqb s t
  | VList l1, VList l2 =>
      (fix go (l1 l2 : list value) : bool :=
         match l1, l2 with
         | [], [] => true
         | x :: xs, y :: ys => json_same x y && go xs ys
         | _, _ => false
         end) l1 l2
  | VObj k1, VObj k2 =>
      Nat.eqb (List.length k1) (List.length k2) &&
      (fix go (k1 : list (string * value)) : bool :=
         match k1 with
         | [] => true
         | (k, v) :: r => match assoc k k2 with Some w => json_same v w && go r | None => false end
         end) k1
  | VDate a1 u1, VDate a2 u2 => Bool.eqb a1 a2 && Z.eqb u1 u2
  | _, _ => false
  end.

Definition row_matches (q : rel_query) (row : value) : bool :=
  match row with
  | VList [VStr s; VStr r; VStr o; ctx; _] =>
      String.eqb s (rq_subject q) && String.eqb r (rq_relation q) && String.eqb o (rq_resource q)
      && json_same ctx (rq_ctx q)
  | _ => false
  end.

(* state: number of queries that were not in the table (must stay 0) *)
Definition relh_table (tbl : list value) (q : rel_query) (st : nat) : bool * nat :=
  match find (row_matches q) tbl with
  | Some (VList [_; _; _; _; VBool b]) => (b, st)
  | Some _ => (false, st)                  (* recorded as raised / timed out: fail closed *)
  | None => (false, Datatypes.S st)
  end.
(* no checker configured *)
Definition relh_none (q : rel_query) (st : nat) : bool * nat := (false, st).

Definition tbl_of (v : value) : option (list value) :=
  match v with VList l => Some l | VNull => None | _ => Some [] end.
Definition relh_of (v : value) : rel_query -> nat -> bool * nat :=
  match tbl_of v with Some t => relh_table t | None => relh_none end.

(* ---- encoders ---- *)
Definition enc_resb (r : res bool) : value :=
  match r with
  | Ok b => VBool b
  | TypeErr => vtag "TypeErr" []
  | Raise w => vtag "Raise" [VStr w]
  | Ood => vtag "Ood" []
  end.
Definition enc_raw (r : raw) : value :=
  VObj [("decision", VStr (r_decision r)); ("reason", VStr (r_reason r));
        ("rule_id", vopt VStr (r_rule_id r)); ("obligations", VList (r_obligations r));
        ("policy_id", vopt (fun x => x) (r_policy_id r))].
Definition enc_eres (r : eres * nat) : value :=
  match r with
  | (_, Datatypes.S _) => vtag "UnknownRelQuery" []
  | (ERaw x, _) => enc_raw x
  | (EErr w, _) => vtag "Raise" [VStr w]
  | (EOod, _) => vtag "Ood" []
  end.
Definition enc_decision (d : decision) : value :=
  VObj [("allowed", VBool (d_allowed d)); ("effect", VStr (d_effect d));
        ("obligations", VList (d_obligations d)); ("challenge", vopt VStr (d_challenge d));
        ("rule_id", vopt VStr (d_rule_id d)); ("policy_id", vopt (fun x => x) (d_policy_id d));
        ("reason", VStr (d_reason d))].

Definition opt_str (v : value) : option (option string) :=
  match v with VNull => Some None | VStr s => Some (Some s) | _ => None end.

(* ---- entries ---- *)
Definition run_cond (args : list value) : value :=
  match args with
  | [c; env; tbl] =>
      match eval_cond nat (relh_of tbl) c env 0 with
      | (_, Datatypes.S _) => vtag "UnknownRelQuery" []
      | (r, _) => enc_resb r
      end
  | _ => vtag "badargs" []
  end.
Definition run_resolve (args : list value) : value :=
  match args with
  | [t; env] => match resolve t env with
                | Ok v => vtag "Ok" [v] | TypeErr => vtag "TypeErr" []
                | Raise w => vtag "Raise" [VStr w] | Ood => vtag "Ood" [] end
  | _ => vtag "badargs" []
  end.
Definition run_match_resource (args : list value) : value :=
  match args with
  | [rdef; resource; sa] =>
      enc_resb (match_resource rdef resource (match sa with VBool b => Some b | _ => None end))
  | _ => vtag "badargs" []
  end.
Definition run_match_actions (args : list value) : value :=
  match args with
  | [rule; VStr a] => enc_resb (match_actions rule a)
  | _ => vtag "badargs" []
  end.
Definition run_evaluate (args : list value) : value :=
  match args with
  | [ov; policy; env; tbl] =>
      match opt_str ov with
      | Some o => enc_eres (evaluate nat (relh_of tbl) o policy env 0)
      | None => vtag "badargs" []
      end
  | _ => vtag "badargs" []
  end.
Definition run_decide_set (args : list value) : value :=
  match args with
  | [ps; env; tbl] => enc_eres (decide nat (relh_of tbl) ps env 0)
  | _ => vtag "badargs" []
  end.
Definition run_compiled (args : list value) : value :=
  match args with
  | [policy; env; tbl] =>
      if compilable policy then enc_eres (compiled_decide nat (relh_of tbl) policy env 0)
      else vtag "CompileRaises" []
  | _ => vtag "badargs" []
  end.
Definition run_check (args : list value) : value :=
  match args with
  | [VStr dec; VList obs; ctx] =>
      match check dec obs ctx with
      | Ok (ok, ch) => vtag "Ok" [VBool ok; vopt VStr ch]
      | TypeErr => vtag "TypeErr" [] | Raise w => vtag "Raise" [VStr w] | Ood => vtag "Ood" []
      end
  | _ => vtag "badargs" []
  end.
(* engine.eval strict policy req resolved tbl :
   resolved = null (no resolver / raised) or the resolver's answer *)
Definition run_engine (args : list value) : value :=
  match args with
  | [VBool strict; policy; req; resolved; tbl] =>
      let rs := match resolved with VNull => None | v => Some v end in
      match build_env strict req rs with
      | None => vtag "Ood" []
      | Some env =>
          match guard_decide nat (relh_of tbl) policy env 0 with
          | (_, Datatypes.S _) => vtag "UnknownRelQuery" []
          | (ERaw r, _) =>
              let ctx := get_key "context" env in
              (* the built-in checker outside its modelled domain *)
              match (if String.eqb (r_decision r) "permit" then check (r_decision r) (r_obligations r) ctx
                     else Ok (false, None)) with
              | Ood => vtag "Ood" []
              | _ => enc_decision (finish builtin_oblig r ctx)
              end
          | (EErr w, _) => vtag "Raise" [VStr w]
          | (EOod, _) => vtag "Ood" []
          end
      end
  | _ => vtag "badargs" []
  end.
(* engine.facts strict policy req resolved tbl : for every rule of the (nested) policy, what the
   theorems of C01/C11 speak about: [id, effect, outcome, obligations verdict] *)
Definition enc_outcome (o : outcome) : value :=
  match o with
  | OApplies => VStr "applies" | ONa r => vtag "na" [VStr r] | OErr w => vtag "Raise" [VStr w] | OOod => vtag "Ood" []
  end.
Definition run_facts (args : list value) : value :=
  match args with
  | [VBool strict; policy; req; resolved; tbl] =>
      let rs := match resolved with VNull => None | v => Some v end in
      match build_env strict req rs with
      | None => vtag "Ood" []
      | Some env =>
          let ctx := get_key "context" env in
          VList (map (fun rule =>
                   VList [rule_id rule;
                          vopt VStr (rule_effect rule);
                          enc_outcome (fst (rule_outcome nat (relh_of tbl) rule env 0));
                          match check "permit" (rule_obls rule) ctx with
                          | Ok (ok, ch) => vtag "Ok" [VBool ok; vopt VStr ch]
                          | TypeErr => vtag "TypeErr" [] | Raise w => vtag "Raise" [VStr w] | Ood => vtag "Ood" []
                          end;
                          VList (rule_obls rule)])
                 (all_rules policy))
      end
  | _ => vtag "badargs" []
  end.

Definition run_schema (args : list value) : value :=
  match args with
  | [p] => VBool (schema_valid p)
  | _ => vtag "badargs" []
  end.
Definition run_cond_valid (args : list value) : value :=
  match args with
  | [c] => VBool (cond_valid c)
  | _ => vtag "badargs" []
  end.

Definition run_parse_dt (args : list value) : value :=
  match args with
  | [VBool strict; x] => match parse_dt strict x with
                         | Ok us => vtag "Ok" [vint us] | TypeErr => vtag "TypeErr" []
                         | Raise w => vtag "Raise" [VStr w] | Ood => vtag "Ood" [] end
  | _ => vtag "badargs" []
  end.
Definition run_py_str (args : list value) : value :=
  match args with
  | [x] => match py_str x with Some s => VStr s | None => vtag "Ood" [] end
  | _ => vtag "badargs" []
  end.

Definition entries : list (string * (list value -> value)) :=
  [("cond.eval", run_cond); ("cond.resolve", run_resolve);
   ("target.resource", run_match_resource); ("target.actions", run_match_actions);
   ("policy.evaluate", run_evaluate); ("policyset.decide", run_decide_set);
   ("compiler.decide", run_compiled); ("oblig.check", run_check);
   ("engine.eval", run_engine); ("engine.facts", run_facts);
   ("schema.valid", run_schema); ("schema.cond", run_cond_valid);
   ("time.parse_dt", run_parse_dt); ("value.str", run_py_str)].

Definition run_line : string -> string := run_with entries.
