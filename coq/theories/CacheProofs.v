(* CacheProofs.v — proofs about the Cache model (property C15; the contract
   lemmas at the end of part 3 are what C08 imports). *)
From Coq Require Import List Bool ZArith Lia.
From Rbacx Require Import Cache.
Import ListNotations.
Local Open Scope Z_scope.

(* ------------------------------------------------------------------ *)
(* generic list facts                                                  *)
(* ------------------------------------------------------------------ *)
Lemma NoDup_map_filter {A B} (f : A -> B) (p : A -> bool) (l : list A) :
  NoDup (map f l) -> NoDup (map f (filter p l)).
Proof.
  induction l as [|a l IH]; simpl; intros H; [constructor|].
  inversion H as [|? ? Hn Hd]; subst. destruct (p a); simpl; auto.
  constructor; auto. intros Hin. apply Hn.
  apply in_map_iff in Hin. destruct Hin as [x [Hx Hi]]. apply filter_In in Hi.
  apply in_map_iff. exists x. tauto.
Qed.

Lemma filter_length_le {A} (p : A -> bool) (l : list A) :
  (List.length (filter p l) <= List.length l)%nat.
Proof. induction l; simpl; [lia|]. destruct (p a); simpl; lia. Qed.

Lemma snoc_split {A} (l h1 h2 : list A) (e x : A) :
  l ++ [e] = h1 ++ x :: h2 ->
  (h2 = [] /\ x = e /\ h1 = l) \/ (exists h2', h2 = h2' ++ [e] /\ l = h1 ++ x :: h2').
Proof.
  destruct h2 as [|y h2' _] using rev_ind; intros H.
  - left. apply app_inj_tail in H. destruct H; subst; auto.
  - right. exists h2'.
    change (h1 ++ x :: h2' ++ [y]) with (h1 ++ (x :: h2') ++ [y]) in H.
    rewrite app_assoc in H. apply app_inj_tail in H. destruct H; subst; auto.
Qed.

Lemma NoDup_snoc {A} (l : list A) (x : A) : NoDup l -> ~ In x l -> NoDup (l ++ [x]).
Proof.
  induction l as [|a l IH]; simpl; intros H Hn.
  - constructor; [tauto|constructor].
  - inversion H; subst. constructor.
    + rewrite in_app_iff. simpl. intros [Hi|[->|[]]]; tauto.
    + apply IH; tauto.
Qed.
Lemma NoDup_app_r {A} (a b : list A) : NoDup (a ++ b) -> NoDup b.
Proof. induction a; simpl; auto. intros H. inversion H; auto. Qed.

Section Proofs.
Variables K V : Type.
Variable keqb : K -> K -> bool.
Hypothesis keqb_eq : forall a b, keqb a b = true <-> a = b.

Notation entry := (@entry K V).
Notation store := (@store K V).
Notation op := (@op K V).
Notation result := (@result V).
Notation find := (find keqb).
Notation remove := (remove keqb).
Notation cget := (cget keqb).
Notation cset := (cset keqb).
Notation purge := (purge keqb).
Notation step := (step keqb).
Notation run := (run keqb).
Notation final := (final keqb).
Notation results := (results keqb).

Definition keys (s : store) : list K := map ekey s.

Lemma keqb_refl a : keqb a a = true.
Proof. now apply keqb_eq. Qed.
Lemma keqb_neq a b : keqb a b = false <-> a <> b.
Proof.
  split.
  - intros H E. apply keqb_eq in E. congruence.
  - intros H. destruct (keqb a b) eqn:E; auto. apply keqb_eq in E. contradiction.
Qed.

(* ------------------------------------------------------------------ *)
(* 1. find / remove / evict / purge                                    *)
(* ------------------------------------------------------------------ *)
Lemma In_remove (k : K) (e : entry) (s : store) : In e (remove k s) <-> In e s /\ ekey e <> k.
Proof.
  unfold Cache.remove. rewrite filter_In. split; intros [H1 H2]; split; auto.
  - apply negb_true_iff, keqb_neq in H2. congruence.
  - apply negb_true_iff, keqb_neq. congruence.
Qed.
Lemma remove_length (k : K) (s : store) : (List.length (remove k s) <= List.length s)%nat.
Proof. apply filter_length_le. Qed.
Lemma remove_app (k : K) (a b : store) : remove k (a ++ b) = remove k a ++ remove k b.
Proof. unfold Cache.remove. apply filter_app. Qed.
Lemma remove_notin (k : K) (s : store) : ~ In k (keys s) -> remove k s = s.
Proof.
  induction s as [|e s IH]; simpl; intros H; auto.
  destruct (keqb k (ekey e)) eqn:E.
  - apply keqb_eq in E. exfalso. apply H. now left.
  - simpl. f_equal. apply IH. intros Hi. apply H. now right.
Qed.
Lemma notin_keys_remove (k : K) (s : store) : ~ In k (keys (remove k s)).
Proof.
  intros H. apply in_map_iff in H. destruct H as [e [He Hi]].
  apply In_remove in Hi. tauto.
Qed.

Lemma find_Some (k : K) (s : store) (e : entry) : find k s = Some e -> In e s /\ ekey e = k.
Proof.
  induction s as [|a s IH]; simpl; [discriminate|].
  destruct (keqb k (ekey a)) eqn:E.
  - intros H; inversion H; subst. apply keqb_eq in E. auto.
  - intros H. destruct (IH H). auto.
Qed.
Lemma find_None (k : K) (s : store) : find k s = None -> ~ In k (keys s).
Proof.
  induction s as [|a s IH]; simpl; [tauto|].
  destruct (keqb k (ekey a)) eqn:E; [discriminate|].
  intros H [H1|H1]; [|now apply IH].
  apply keqb_neq in E. congruence.
Qed.
Lemma find_remove_lt (k : K) (s : store) (e : entry) : find k s = Some e ->
  (S (List.length (remove k s)) <= List.length s)%nat.
Proof.
  induction s as [|a s IH]; simpl; [discriminate|].
  destruct (keqb k (ekey a)) eqn:E; simpl.
  - intros _. pose proof (remove_length k s). lia.
  - intros H. specialize (IH H). lia.
Qed.
(* with unique keys, the entry found for k is the one sitting in the list *)
Lemma find_mid (k : K) (v : V) (x : option Z) (l1 l2 : store) :
  ~ In k (keys l1) -> find k (l1 ++ mkE k v x :: l2) = Some (mkE k v x).
Proof.
  induction l1 as [|a l1 IH]; simpl; intros H.
  - now rewrite keqb_refl.
  - destruct (keqb k (ekey a)) eqn:E.
    + apply keqb_eq in E. exfalso. apply H. now left.
    + apply IH. intros Hi. apply H. now right.
Qed.

Lemma nodup_remove (k : K) (s : store) : NoDup (keys s) -> NoDup (keys (remove k s)).
Proof. apply NoDup_map_filter. Qed.
Lemma nodup_touch (k : K) (s : store) (e : entry) : ekey e = k -> NoDup (keys s) -> NoDup (keys (remove k s ++ [e])).
Proof.
  intros He H. unfold keys. rewrite map_app. simpl. apply NoDup_snoc.
  - now apply nodup_remove.
  - rewrite He. apply notin_keys_remove.
Qed.

Lemma nodup_keys_inj (s : store) (a b : entry) :
  NoDup (keys s) -> In a s -> In b s -> ekey a = ekey b -> a = b.
Proof.
  induction s as [|c s IH]; simpl; [tauto|].
  intros H Ha Hb E. inversion H as [|? ? Hn Hd]; subst.
  destruct Ha as [->|Ha], Hb as [->|Hb]; auto.
  - exfalso. apply Hn. rewrite E. now apply in_map.
  - exfalso. apply Hn. rewrite <- E. now apply in_map.
Qed.

(* --- eviction loop --- *)
Lemma evict_cons cap (a : entry) (s : store) :
  evict cap (a :: s) =
  if Z.of_nat (List.length (a :: s)) >? cap then evict cap s else (a :: s, false).
Proof. reflexivity. Qed.

Lemma evict_suffix cap (s : store) : exists pre, s = pre ++ fst (evict cap s).
Proof.
  induction s as [|a s IH].
  - exists []. reflexivity.
  - rewrite evict_cons. destruct (Z.of_nat (List.length (a :: s)) >? cap).
    + destruct IH as [pre Hp]. exists (a :: pre). simpl. now f_equal.
    + exists []. reflexivity.
Qed.

(* popitem() on the empty dict is reached exactly when maxsize is negative *)
Lemma evict_raised cap (s : store) : snd (evict cap s) = (cap <? 0).
Proof.
  induction s as [|a s IH].
  - simpl. apply Z.gtb_ltb.
  - rewrite evict_cons. destruct (Z.of_nat (List.length (a :: s)) >? cap) eqn:E; auto.
    simpl snd. symmetry. apply Z.ltb_ge.
    rewrite Z.gtb_ltb in E. apply Z.ltb_ge in E. simpl List.length in E. lia.
Qed.

Lemma evict_len cap (s : store) :
  snd (evict cap s) = false -> Z.of_nat (List.length (fst (evict cap s))) <= cap.
Proof.
  induction s as [|a s IH].
  - simpl. rewrite Z.gtb_ltb. intros H. apply Z.ltb_ge in H. exact H.
  - rewrite evict_cons. destruct (Z.of_nat (List.length (a :: s)) >? cap) eqn:E; auto.
    intros _. simpl fst. rewrite Z.gtb_ltb in E. apply Z.ltb_ge in E. exact E.
Qed.

Lemma evict_raised_nil cap (s : store) : snd (evict cap s) = true -> fst (evict cap s) = [].
Proof.
  induction s as [|a s IH]; auto.
  rewrite evict_cons. destruct (Z.of_nat (List.length (a :: s)) >? cap); auto. discriminate.
Qed.

(* an entry with fewer than cap entries behind it survives the eviction loop *)
Lemma evict_keep cap (e : entry) (b : store) :
  Z.of_nat (List.length (e :: b)) <= cap ->
  forall a, exists a0 a', a = a0 ++ a' /\ evict cap (a ++ e :: b) = (a' ++ e :: b, false).
Proof.
  intros Hl. induction a as [|c a IH].
  - exists [], []. split; auto. simpl app. rewrite evict_cons.
    replace (Z.of_nat (List.length (e :: b)) >? cap) with false; auto.
    symmetry. rewrite Z.gtb_ltb. now apply Z.ltb_ge.
  - simpl app. rewrite evict_cons.
    destruct (Z.of_nat (List.length (c :: a ++ e :: b)) >? cap).
    + destruct IH as [a0 [a' [E1 E2]]]. exists (c :: a0), a'. split; [simpl; now f_equal|exact E2].
    + exists [], (c :: a). auto.
Qed.

(* --- purge --- *)
Lemma filter_true {A} (l : list A) : filter (fun _ => true) l = l.
Proof. induction l; simpl; congruence. Qed.
Lemma filter_filter {A} (p q : A -> bool) (l : list A) :
  filter p (filter q l) = filter (fun x => q x && p x) l.
Proof.
  induction l as [|a l IH]; simpl; auto.
  destruct (q a); simpl; [destruct (p a)|]; simpl; congruence.
Qed.

Definition hits (e : entry) (ks : list K) : bool := existsb (fun k => keqb k (ekey e)) ks.

Lemma fold_remove (ks : list K) : forall s : store,
  fold_left (fun acc k => remove k acc) ks s = filter (fun e => negb (hits e ks)) s.
Proof.
  induction ks as [|k ks IH]; intros s; simpl.
  - symmetry. apply filter_true.
  - rewrite IH. unfold Cache.remove. rewrite filter_filter. apply filter_ext.
    intros e. unfold hits. simpl. now rewrite negb_orb.
Qed.

Definition dead (now : Z) (s : store) : list K :=
  map ekey (filter (expired now) (firstn purge_window s)).
Definition pkeep (now : Z) (s : store) (e : entry) : bool := negb (hits e (dead now s)).

Lemma purge_filter now (s : store) : purge now s = filter (pkeep now s) s.
Proof. unfold Cache.purge. apply fold_remove. Qed.

Lemma In_firstn {A} n (l : list A) x : In x (firstn n l) -> In x l.
Proof. intros H. rewrite <- (firstn_skipn n l). apply in_or_app. now left. Qed.

(* with unique keys the purge drops only expired entries *)
Lemma pkeep_live now (s : store) (e : entry) :
  NoDup (keys s) -> In e s -> expired now e = false -> pkeep now s e = true.
Proof.
  intros Hn Hi He. unfold pkeep, hits. apply negb_true_iff.
  destruct (existsb _ _) eqn:E; auto. exfalso.
  apply existsb_exists in E. destruct E as [k [Hk Hq]]. apply keqb_eq in Hq. subst k.
  unfold dead in Hk. apply in_map_iff in Hk. destruct Hk as [e' [Hke Hf]].
  apply filter_In in Hf. destruct Hf as [Hf1 Hf2]. apply In_firstn in Hf1.
  assert (e' = e) by (eapply nodup_keys_inj; eauto). subst. congruence.
Qed.

Lemma purge_In now (s : store) e : In e (purge now s) -> In e s.
Proof. rewrite purge_filter. intros H. apply filter_In in H. tauto. Qed.
Lemma purge_length now (s : store) : (List.length (purge now s) <= List.length s)%nat.
Proof. rewrite purge_filter. apply filter_length_le. Qed.
Lemma nodup_purge now (s : store) : NoDup (keys s) -> NoDup (keys (purge now s)).
Proof. rewrite purge_filter. apply NoDup_map_filter. Qed.

(* ------------------------------------------------------------------ *)
(* 2. running sequences                                                *)
(* ------------------------------------------------------------------ *)
Lemma run_cons cap (o : op) (r : list op) (s : store) :
  run cap (o :: r) s =
  (fst (run cap r (fst (step cap o s))), snd (step cap o s) :: snd (run cap r (fst (step cap o s)))).
Proof.
  simpl. destruct (step cap o s) as [s1 x]. simpl.
  destruct (Cache.run keqb cap r s1) as [s2 xs]. reflexivity.
Qed.
Lemma final_nil cap (s : store) : final cap [] s = s.
Proof. reflexivity. Qed.
Lemma final_cons cap (o : op) r (s : store) : final cap (o :: r) s = final cap r (fst (step cap o s)).
Proof. unfold Cache.final. now rewrite run_cons. Qed.
Lemma results_cons cap (o : op) r (s : store) :
  results cap (o :: r) s = snd (step cap o s) :: results cap r (fst (step cap o s)).
Proof. unfold Cache.results. now rewrite run_cons. Qed.
Lemma final_app cap (a b : list op) : forall s, final cap (a ++ b) s = final cap b (final cap a s).
Proof. induction a as [|o a IH]; intros s; simpl app; [reflexivity|]. rewrite !final_cons. apply IH. Qed.
Lemma results_app cap (a b : list op) : forall s,
  results cap (a ++ b) s = results cap a s ++ results cap b (final cap a s).
Proof.
  induction a as [|o a IH]; intros s; simpl app; [reflexivity|].
  rewrite !results_cons, final_cons, IH. reflexivity.
Qed.
Lemma run_pair cap (ops : list op) (s : store) : run cap ops s = (final cap ops s, results cap ops s).
Proof. unfold Cache.final, Cache.results. now destruct (Cache.run keqb cap ops s). Qed.

(* the store after set, spelled out *)
Lemma cset_store cap k v ttl t1 t2 (s : store) :
  let s1 := remove k s ++ [mkE k v (expiry ttl t1)] in
  fst (cset cap k v ttl t1 t2 s) =
    if snd (evict cap s1) then fst (evict cap s1) else purge t2 (fst (evict cap s1)).
Proof.
  intros s1. unfold Cache.cset. fold s1. destruct (evict cap s1) as [s2 [|]]; reflexivity.
Qed.
Lemma cset_result cap k v ttl t1 t2 (s : store) :
  snd (cset cap k v ttl t1 t2 s) = if cap <? 0 then RRaise else RDone.
Proof.
  unfold Cache.cset. rewrite <- (evict_raised cap (remove k s ++ [mkE k v (expiry ttl t1)])).
  destruct (evict cap _) as [s2 [|]]; reflexivity.
Qed.
(* every entry present after a set was present before under another key, or is the new one *)
Lemma cset_In cap k v ttl t1 t2 (s : store) e :
  In e (fst (cset cap k v ttl t1 t2 s)) ->
  (In e s /\ ekey e <> k) \/ e = mkE k v (expiry ttl t1).
Proof.
  rewrite cset_store.
  destruct (evict_suffix cap (remove k s ++ [mkE k v (expiry ttl t1)])) as [pre Hp].
  set (s1 := remove k s ++ [mkE k v (expiry ttl t1)]) in *.
  assert (Hs1 : In e (fst (evict cap s1)) -> (In e s /\ ekey e <> k) \/ e = mkE k v (expiry ttl t1)).
  { intros H. assert (H1 : In e s1) by (rewrite Hp; apply in_or_app; now right).
    unfold s1 in H1. apply in_app_or in H1. destruct H1 as [H1|[H1|[]]]; [|now right].
    apply In_remove in H1. now left. }
  destruct (snd (evict cap s1)); auto. intros H. apply purge_In in H. auto.
Qed.

(* ------------------------------------------------------------------ *)
(* 3. invariants of every reachable state                              *)
(* ------------------------------------------------------------------ *)
(* 3a. capacity *)
Definition cap_ok (cap : Z) (s : store) : Prop := Z.of_nat (List.length s) <= Z.max 0 cap.

Lemma step_cap cap (o : op) (s : store) : cap_ok cap s -> cap_ok cap (fst (step cap o s)).
Proof.
  unfold cap_ok. intros H. destruct o as [k now|k v ttl t1 t2|k|]; simpl.
  - unfold Cache.cget. destruct (find k s) as [e|] eqn:F; simpl; auto.
    destruct (expired now e); simpl.
    + pose proof (remove_length k s). lia.
    + rewrite app_length. simpl. pose proof (find_remove_lt _ _ _ F). lia.
  - rewrite cset_store. simpl.
    set (s1 := remove k s ++ [mkE k v (expiry ttl t1)]).
    destruct (snd (evict cap s1)) eqn:E.
    + rewrite (evict_raised_nil _ _ E). simpl. lia.
    + pose proof (evict_len _ _ E). pose proof (purge_length t2 (fst (evict cap s1))). lia.
  - pose proof (remove_length k s). lia.
  - lia.
Qed.
Lemma final_cap cap (ops : list op) : forall s, cap_ok cap s -> cap_ok cap (final cap ops s).
Proof.
  induction ops as [|o r IH]; intros s H; [exact H|].
  rewrite final_cons. apply IH. now apply step_cap.
Qed.
Theorem capacity_reachable cap (ops : list op) :
  Z.of_nat (List.length (final cap ops empty)) <= Z.max 0 cap.
Proof. apply final_cap. unfold cap_ok, empty. simpl. lia. Qed.

(* 3b. keys are unique *)
Lemma step_nodup cap (o : op) (s : store) : NoDup (keys s) -> NoDup (keys (fst (step cap o s))).
Proof.
  intros H. destruct o as [k now|k v ttl t1 t2|k|]; simpl.
  - unfold Cache.cget. destruct (find k s) as [e|] eqn:F; simpl; auto.
    destruct (expired now e); simpl.
    + now apply nodup_remove.
    + apply nodup_touch; auto. now destruct (find_Some _ _ _ F).
  - rewrite cset_store. simpl.
    set (s1 := remove k s ++ [mkE k v (expiry ttl t1)]).
    assert (H1 : NoDup (keys s1)) by (apply nodup_touch; auto).
    destruct (evict_suffix cap s1) as [pre Hp].
    assert (H2 : NoDup (keys (fst (evict cap s1)))).
    { rewrite Hp in H1. unfold keys in H1. rewrite map_app in H1. now apply NoDup_app_r in H1. }
    destruct (snd (evict cap s1)); auto. now apply nodup_purge.
  - now apply nodup_remove.
  - constructor.
Qed.
Lemma final_nodup cap (ops : list op) : forall s, NoDup (keys s) -> NoDup (keys (final cap ops s)).
Proof.
  induction ops as [|o r IH]; intros s H; [exact H|].
  rewrite final_cons. apply IH. now apply step_nodup.
Qed.
Theorem nodup_reachable cap (ops : list op) : NoDup (keys (final cap ops empty)).
Proof. apply final_nodup. constructor. Qed.

(* 3c. what is stored is what was last set *)
(* [live k h]: value and expiry of the latest set of k in the history h (MOST
   RECENT OPERATION FIRST) that is not followed by a delete of k or a clear. *)
Fixpoint live (k : K) (h : list op) : option (V * option Z) :=
  match h with
  | [] => None
  | OGet _ _ :: r => live k r
  | OSet k' v ttl t1 _ :: r => if keqb k k' then Some (v, expiry ttl t1) else live k r
  | ODelete k' :: r => if keqb k k' then None else live k r
  | OClear :: _ => None
  end.

(* the abstract map the cache implements a lossy view of *)
Definition stored (k : K) (ops : list op) : option V :=
  match live k (rev ops) with Some (v, _) => Some v | None => None end.

Definition hist_ok (h : list op) (s : store) : Prop :=
  forall e, In e s -> live (ekey e) h = Some (evalue e, eexp e).

Lemma step_hist cap (o : op) h (s : store) :
  hist_ok h s -> hist_ok (o :: h) (fst (step cap o s)).
Proof.
  intros H e. destruct o as [k now|k v ttl t1 t2|k|]; simpl.
  - unfold Cache.cget. destruct (find k s) as [e0|] eqn:F; simpl; auto.
    destruct (expired now e0); simpl.
    + intros Hi. apply In_remove in Hi. apply H. tauto.
    + intros Hi. apply in_app_or in Hi. destruct Hi as [Hi|[<-|[]]].
      * apply In_remove in Hi. apply H. tauto.
      * apply H. now destruct (find_Some _ _ _ F).
  - intros Hi. apply cset_In in Hi. destruct Hi as [[Hi Hk]| ->].
    + replace (keqb (ekey e) k) with false by (symmetry; now apply keqb_neq). now apply H.
    + simpl. now rewrite keqb_refl.
  - intros Hi. apply In_remove in Hi. destruct Hi as [Hi Hk].
    replace (keqb (ekey e) k) with false by (symmetry; now apply keqb_neq). now apply H.
  - intros [].
Qed.
Lemma final_hist cap (ops : list op) : forall h s,
  hist_ok h s -> hist_ok (rev ops ++ h) (final cap ops s).
Proof.
  induction ops as [|o r IH]; intros h s H; [exact H|].
  rewrite final_cons. simpl rev. rewrite <- app_assoc. simpl app.
  apply IH. now apply step_hist.
Qed.
Lemma reachable_hist cap (ops : list op) : hist_ok (rev ops) (final cap ops empty).
Proof.
  rewrite <- (app_nil_r (rev ops)). apply final_hist. intros e [].
Qed.

Definition unexpired (x : option Z) (now : Z) : Prop :=
  match x with Some d => now < d | None => True end.

Lemma cget_hit k now (s : store) v :
  snd (cget k now s) = RHit v ->
  exists e, find k s = Some e /\ evalue e = v /\ expired now e = false.
Proof.
  unfold Cache.cget. destruct (find k s) as [e|]; simpl; [|discriminate].
  destruct (expired now e) eqn:E; simpl; [discriminate|].
  intros H. inversion H. eauto.
Qed.
Lemma expired_false now (e : entry) : expired now e = false <-> unexpired (eexp e) now.
Proof.
  unfold expired, unexpired. destruct (eexp e) as [d|]; [|tauto].
  rewrite Z.leb_gt. tauto.
Qed.

Lemma get_sound_live cap (ops : list op) k now v :
  snd (cget k now (final cap ops empty)) = RHit v ->
  exists x, live k (rev ops) = Some (v, x) /\ unexpired x now.
Proof.
  intros H. apply cget_hit in H. destruct H as [e [F [Hv He]]].
  destruct (find_Some _ _ _ F) as [Hi Hk].
  exists (eexp e). split.
  - rewrite <- Hk, <- Hv. now apply (reachable_hist cap).
  - now apply expired_false.
Qed.

(* no later operation overwrites or removes k *)
Definition quiet_for (k : K) (o : op) : Prop :=
  match o with
  | OGet _ _ => True
  | OSet k' _ _ _ _ => k' <> k
  | ODelete k' => k' <> k
  | OClear => False
  end.

Lemma live_decompose k (ops : list op) v x :
  live k (rev ops) = Some (v, x) ->
  exists pre ttl t1 t2 post,
    ops = pre ++ OSet k v ttl t1 t2 :: post /\ x = expiry ttl t1 /\ Forall (quiet_for k) post.
Proof.
  induction ops as [|o ops IH] using rev_ind; [discriminate|].
  rewrite rev_app_distr. simpl rev. simpl app.
  assert (Hrec : live k (rev ops) = Some (v, x) -> quiet_for k o ->
                 exists pre ttl t1 t2 post,
                   ops ++ [o] = pre ++ OSet k v ttl t1 t2 :: post /\ x = expiry ttl t1 /\
                   Forall (quiet_for k) post).
  { intros H Q. destruct (IH H) as [pre [ttl [t1 [t2 [post [E1 [E2 E3]]]]]]].
    exists pre, ttl, t1, t2, (post ++ [o]). repeat split; auto.
    - rewrite E1, <- app_assoc. reflexivity.
    - apply Forall_app. split; auto. }
  destruct o as [k' now|k' v' ttl t1 t2|k'|]; simpl.
  - intros H. now apply Hrec.
  - destruct (keqb k k') eqn:E.
    + intros H. inversion H; subst. apply keqb_eq in E. subst k'.
      exists ops, ttl, t1, t2, []. repeat split; auto.
    + intros H. apply Hrec; auto. simpl. apply keqb_neq in E. congruence.
  - destruct (keqb k k') eqn:E; [discriminate|].
    intros H. apply Hrec; auto. simpl. apply keqb_neq in E. congruence.
  - discriminate.
Qed.

(* a hit returns the value of the latest set of that key; no delete of it and no
   clear came after that set; the entry is unexpired at the lookup *)
Theorem get_sound cap (ops : list op) k now v :
  snd (cget k now (final cap ops empty)) = RHit v ->
  exists pre ttl t1 t2 post,
    ops = pre ++ OSet k v ttl t1 t2 :: post /\
    Forall (quiet_for k) post /\
    unexpired (expiry ttl t1) now.
Proof.
  intros H. apply get_sound_live in H. destruct H as [x [L U]].
  apply live_decompose in L. destruct L as [pre [ttl [t1 [t2 [post [E1 [E2 E3]]]]]]].
  subst x. exists pre, ttl, t1, t2, post. auto.
Qed.

(* the contract C08 relies on: a lookup answers None, or the value the abstract
   (unbounded, never-expiring) map holds for the key *)
Theorem cache_contract cap (ops : list op) k now :
  snd (cget k now (final cap ops empty)) = RMiss \/
  exists v, snd (cget k now (final cap ops empty)) = RHit v /\ stored k ops = Some v.
Proof.
  destruct (snd (cget k now (final cap ops empty))) as [|v| |] eqn:E; auto.
  - right. exists v. split; auto. apply get_sound_live in E. destruct E as [x [L _]].
    unfold stored. now rewrite L.
  - exfalso. unfold Cache.cget in E. destruct (find k _) as [e|]; simpl in E; [|discriminate].
    destruct (expired now e); discriminate.
  - exfalso. unfold Cache.cget in E. destruct (find k _) as [e|]; simpl in E; [|discriminate].
    destruct (expired now e); discriminate.
Qed.

(* [stored] is the plain map semantics *)
Lemma stored_snoc k (ops : list op) (o : op) :
  stored k (ops ++ [o]) =
  match o with
  | OGet _ _ => stored k ops
  | OSet k' v _ _ _ => if keqb k k' then Some v else stored k ops
  | ODelete k' => if keqb k k' then None else stored k ops
  | OClear => None
  end.
Proof.
  unfold stored. rewrite rev_app_distr. simpl.
  destruct o as [k' now|k' v' ttl t1 t2|k'|]; auto; destruct (keqb k k'); auto.
Qed.

(* ------------------------------------------------------------------ *)
(* 4. LRU: the rank invariant                                          *)
(* ------------------------------------------------------------------ *)
(* clock readings an operation makes while it holds the lock *)
Definition op_times (o : op) : list Z :=
  match o with
  | OGet _ t => [t]
  | OSet _ _ _ _ t2 => [t2]
  | _ => []
  end.
Definition times_le (now : Z) (ops : list op) : Prop :=
  Forall (fun o => Forall (fun t => t <= now) (op_times o)) ops.

(* the key an operation touches: stored by a set, or found by a get *)
Definition touch_of (o : op) (r : result) : list K :=
  match o, r with
  | OSet k _ _ _ _, RDone => [k]
  | OGet k _, RHit _ => [k]
  | _, _ => []
  end.
Fixpoint touched (cap : Z) (ops : list op) (s : store) : list K :=
  match ops with
  | [] => []
  | o :: r => touch_of o (snd (step cap o s)) ++ touched cap r (fst (step cap o s))
  end.

(* distinct keys of a log, other than k *)
Fixpoint dedup (l : list K) : list K :=
  match l with
  | [] => []
  | a :: r => if existsb (keqb a) r then dedup r else a :: dedup r
  end.
Definition others (k : K) (l : list K) : list K :=
  dedup (filter (fun k' => negb (keqb k' k)) l).

Lemma dedup_In (l : list K) x : In x (dedup l) <-> In x l.
Proof.
  induction l as [|a l IH]; simpl; [tauto|].
  destruct (existsb (keqb a) l) eqn:E; simpl; rewrite IH; [|tauto].
  split; [tauto|]. intros [->|H]; auto.
  apply existsb_exists in E. destruct E as [y [Hy Hq]]. apply keqb_eq in Hq. now subst.
Qed.
Lemma dedup_NoDup (l : list K) : NoDup (dedup l).
Proof.
  induction l as [|a l IH]; simpl; [constructor|].
  destruct (existsb (keqb a) l) eqn:E; auto. constructor; auto.
  rewrite dedup_In. intros H.
  assert (existsb (keqb a) l = true); [|congruence].
  apply existsb_exists. exists a. split; auto. apply keqb_refl.
Qed.
Lemma others_In k (l : list K) x : In x (others k l) <-> In x l /\ x <> k.
Proof.
  unfold others. rewrite dedup_In, filter_In, negb_true_iff, keqb_neq. tauto.
Qed.

Lemma filter_mid (p : entry -> bool) (l1 l2 : store) (E : entry) :
  p E = true -> filter p (l1 ++ E :: l2) = filter p l1 ++ E :: filter p l2.
Proof. intros H. rewrite filter_app. simpl. now rewrite H. Qed.
Lemma keys_filter_incl (p : entry -> bool) (l : store) : incl (keys (filter p l)) (keys l).
Proof.
  intros x H. apply in_map_iff in H. destruct H as [e [He Hi]]. apply filter_In in Hi.
  apply in_map_iff. exists e. tauto.
Qed.
Lemma keys_remove_incl (k : K) (l : store) : incl (keys (remove k l)) (keys l).
Proof. apply keys_filter_incl. Qed.
Lemma keys_app (a b : store) : keys (a ++ b) = keys a ++ keys b.
Proof. apply map_app. Qed.
Lemma nodup_mid (l1 l2 : store) (E : entry) :
  NoDup (keys (l1 ++ E :: l2)) ->
  ~ In (ekey E) (keys l1) /\ ~ In (ekey E) (keys l2) /\ NoDup (keys l2).
Proof.
  rewrite keys_app. simpl. intros H. pose proof (NoDup_remove_2 _ _ _ H) as H2.
  rewrite in_app_iff in H2. repeat split; try tauto.
  apply NoDup_app_r in H. now inversion H.
Qed.

(* k sits in the store with value v and expiry x, and every entry behind it
   (towards the most-recently-used end) has its key in D *)
Definition pos_ok (k : K) (v : V) (x : option Z) (D : list K) (s : store) : Prop :=
  NoDup (keys s) /\ exists l1 l2, s = l1 ++ mkE k v x :: l2 /\ incl (keys l2) D.

Lemma unexpired_le x now t (k : K) (v : V) :
  unexpired x now -> t <= now -> expired t (mkE k v x) = false.
Proof.
  intros U L. apply expired_false. simpl. destruct x as [d|]; simpl in *; auto. lia.
Qed.

Lemma pos_ok_filter k v x D (p : entry -> bool) (s : store) :
  pos_ok k v x D s -> p (mkE k v x) = true -> pos_ok k v x D (filter p s).
Proof.
  intros [Hn [l1 [l2 [Hs Hi]]]] Hp. split; [now apply NoDup_map_filter|].
  exists (filter p l1), (filter p l2). split.
  - rewrite Hs. now apply filter_mid.
  - intros y Hy. apply Hi. now apply (keys_filter_incl p l2).
Qed.

Lemma step_pos cap k v x D now (o : op) (s : store) :
  pos_ok k v x D s -> quiet_for k o ->
  Forall (fun t => t <= now) (op_times o) -> unexpired x now ->
  (forall k', In k' (touch_of o (snd (step cap o s))) -> k' <> k -> In k' D) ->
  Z.of_nat (List.length D) < cap ->
  pos_ok k v x D (fst (step cap o s)).
Proof.
  intros P Q T U HD HC.
  assert (Hnd : NoDup (keys (fst (step cap o s)))) by (apply step_nodup; apply P).
  destruct P as [Hn [l1 [l2 [Hs Hi]]]].
  destruct (nodup_mid l1 l2 (mkE k v x)) as [Hk1 [Hk2 Hn2]]; [now rewrite <- Hs|]. simpl in Hk1, Hk2.
  destruct o as [k' t|k' v' ttl t1 t2|k'|]; simpl in *.
  - (* get *)
    inversion T as [|? ? Ht _]; subst.
    destruct (keqb k' k) eqn:Ek.
    + apply keqb_eq in Ek. subst k'. split; auto.
      unfold Cache.cget in *. rewrite find_mid by auto.
      rewrite (unexpired_le x now t k v U Ht). simpl.
      exists (l1 ++ l2), []. split; [|intros y []].
      rewrite remove_app. simpl. rewrite keqb_refl. simpl.
      rewrite (remove_notin k l1), (remove_notin k l2) by auto. reflexivity.
    + apply keqb_neq in Ek. unfold Cache.cget in *.
      destruct (find k' (l1 ++ (mkE k v x) :: l2)) as [e'|] eqn:F; simpl in *.
      * destruct (expired t e') eqn:X; simpl in *.
        -- apply pos_ok_filter.
           ++ split; auto. exists l1, l2. auto.
           ++ simpl. apply negb_true_iff, keqb_neq. exact Ek.
        -- split; auto.
           exists (remove k' l1), (remove k' l2 ++ [e']). split.
           ++ unfold Cache.remove. rewrite filter_mid.
              ** rewrite <- app_assoc. reflexivity.
              ** simpl. apply negb_true_iff, keqb_neq. exact Ek.
           ++ rewrite keys_app. intros y Hy. apply in_app_or in Hy. destruct Hy as [Hy|Hy].
              ** apply Hi. now apply (keys_remove_incl k' l2).
              ** simpl in Hy. destruct Hy as [<-|[]].
                 destruct (find_Some _ _ _ F) as [_ Hk']. rewrite Hk'.
                 apply HD; auto.
      * split; auto. exists l1, l2. auto.
  - (* set *)
    assert (Ek : k' <> k) by exact Q.
    inversion T as [|? ? Ht _]; subst.
    assert (Hcap : (cap <? 0) = false) by (apply Z.ltb_ge; lia).
    pose proof (cset_result cap k' v' ttl t1 t2 (l1 ++ (mkE k v x) :: l2)) as HR. rewrite Hcap in HR.
    rewrite HR in HD. simpl in HD.
    set (N := mkE k' v' (expiry ttl t1)) in *.
    set (pk := fun e : entry => negb (keqb k' (ekey e))).
    assert (HpE : pk (mkE k v x) = true) by (unfold pk; simpl; apply negb_true_iff, keqb_neq; exact Ek).
    set (b := filter pk l2 ++ [N]).
    assert (Hs1 : remove k' (l1 ++ (mkE k v x) :: l2) ++ [N] = filter pk l1 ++ (mkE k v x) :: b).
    { unfold Cache.remove. fold pk. rewrite filter_mid by auto. rewrite <- app_assoc. reflexivity. }
    assert (Hn1 : NoDup (keys (filter pk l1 ++ (mkE k v x) :: b))).
    { rewrite <- Hs1. apply nodup_touch; auto. }
    destruct (nodup_mid _ _ _ Hn1) as [_ [_ Hnb]].
    assert (Hib : incl (keys b) D).
    { unfold b. rewrite keys_app. intros y Hy. apply in_app_or in Hy. destruct Hy as [Hy|Hy].
      - apply Hi. now apply (keys_filter_incl pk l2).
      - simpl in Hy. destruct Hy as [<-|[]]. apply HD; auto. }
    assert (Hlb : (List.length b <= List.length D)%nat).
    { pose proof (NoDup_incl_length Hnb Hib) as H. unfold keys in H. now rewrite map_length in H. }
    destruct (evict_keep cap (mkE k v x) b) with (a := filter pk l1) as [a0 [a' [Ea Ee]]].
    { simpl List.length. lia. }
    split; auto.
    rewrite cset_store. cbv zeta. fold N. rewrite Hs1, Ee. simpl fst. simpl snd. cbv iota.
    assert (Hn' : NoDup (keys (a' ++ (mkE k v x) :: b))).
    { rewrite Ea in Hn1. rewrite <- app_assoc in Hn1. rewrite keys_app in Hn1.
      now apply NoDup_app_r in Hn1. }
    rewrite purge_filter. rewrite filter_mid.
    + exists (filter (pkeep t2 (a' ++ (mkE k v x) :: b)) a'), (filter (pkeep t2 (a' ++ (mkE k v x) :: b)) b). split; auto.
      intros y Hy. apply Hib. apply keys_filter_incl in Hy; exact Hy.
    + apply pkeep_live; auto.
      * apply in_or_app. right. now left.
      * apply (unexpired_le x now t2 k v); auto.
  - (* delete *)
    apply pos_ok_filter.
    + split; auto. exists l1, l2. auto.
    + simpl. apply negb_true_iff, keqb_neq. exact Q.
  - contradiction.
Qed.

Lemma lru_keep cap k v x D now : forall (post : list op) (s : store),
  pos_ok k v x D s -> Forall (quiet_for k) post -> times_le now post -> unexpired x now ->
  (forall k', In k' (touched cap post s) -> k' <> k -> In k' D) ->
  Z.of_nat (List.length D) < cap ->
  snd (cget k now (final cap post s)) = RHit v.
Proof.
  induction post as [|o r IH]; intros s P Q T U HD HC.
  - rewrite final_nil. destruct P as [Hn [l1 [l2 [Hs Hi]]]].
    destruct (nodup_mid l1 l2 (mkE k v x)) as [Hk1 _]; [now rewrite <- Hs|]. simpl in Hk1.
    unfold Cache.cget. rewrite Hs, find_mid by auto.
    rewrite (unexpired_le x now now k v U) by lia. reflexivity.
  - rewrite final_cons. inversion Q; subst. inversion T; subst. simpl in HD.
    apply IH; auto.
    + eapply step_pos; eauto. intros k' Hk'. apply HD. apply in_or_app. now left.
    + intros k' Hk'. apply HD. apply in_or_app. now right.
Qed.

(* after a set that does not expire at once, the entry is the most recent one *)
Lemma cset_mru cap k v ttl t1 t2 (s : store) :
  NoDup (keys s) -> 1 <= cap -> unexpired (expiry ttl t1) t2 ->
  exists l1, fst (cset cap k v ttl t1 t2 s) = l1 ++ [mkE k v (expiry ttl t1)].
Proof.
  intros Hn Hc U. set (N := mkE k v (expiry ttl t1)).
  assert (Hn1 : NoDup (keys (remove k s ++ [N]))) by (apply nodup_touch; auto).
  destruct (evict_keep cap N []) with (a := remove k s) as [a0 [a' [Ea Ee]]]; [simpl; lia|].
  rewrite cset_store. cbv zeta. fold N. rewrite Ee. simpl fst. simpl snd. cbv iota.
  assert (Hn' : NoDup (keys (a' ++ [N]))).
  { rewrite Ea, <- app_assoc, keys_app in Hn1. now apply NoDup_app_r in Hn1. }
  rewrite purge_filter, filter_mid.
  - simpl. eauto.
  - apply pkeep_live; auto.
    + apply in_or_app. right. now left.
    + unfold N. apply (unexpired_le (expiry ttl t1) t2 t2 k v); auto. lia.
Qed.

(* LRU, after a store: the entry survives as long as fewer than [cap] distinct
   other keys are stored or found, nothing deletes/overwrites/clears it and it
   has not expired at the final lookup *)
Theorem lru_after_set cap (pre post : list op) k v ttl t1 t2 now :
  Forall (quiet_for k) post ->
  times_le now (OSet k v ttl t1 t2 :: post) ->
  unexpired (expiry ttl t1) now ->
  Z.of_nat (List.length (others k (touched cap post (final cap (pre ++ [OSet k v ttl t1 t2]) empty)))) < cap ->
  snd (cget k now (final cap (pre ++ OSet k v ttl t1 t2 :: post) empty)) = RHit v.
Proof.
  intros Q T U HC.
  replace (pre ++ OSet k v ttl t1 t2 :: post) with ((pre ++ [OSet k v ttl t1 t2]) ++ post)
    by (rewrite <- app_assoc; reflexivity).
  rewrite final_app. inversion T as [|? ? T0 T']; subst. simpl in T0. inversion T0; subst.
  apply lru_keep with (x := expiry ttl t1)
    (D := others k (touched cap post (final cap (pre ++ [OSet k v ttl t1 t2]) empty))); auto.
  - split; [apply nodup_reachable|].
    rewrite final_app, final_cons, final_nil. simpl step.
    destruct (cset_mru cap k v ttl t1 t2 (final cap pre empty)) as [l1 E].
    + apply nodup_reachable.
    + pose proof (Nat2Z.is_nonneg (List.length (others k (touched cap post (final cap (pre ++ [OSet k v ttl t1 t2]) empty))))). lia.
    + destruct (expiry ttl t1); simpl in *; auto. lia.
    + exists l1, []. split; auto. intros y [].
  - intros k' Hk' Hne. apply others_In. auto.
Qed.

(* LRU, after a hit *)
Theorem lru_after_hit cap (pre post : list op) k t v now :
  snd (cget k t (final cap pre empty)) = RHit v ->
  Forall (quiet_for k) post ->
  times_le now post ->
  (forall e, find k (final cap pre empty) = Some e -> unexpired (eexp e) now) ->
  Z.of_nat (List.length (others k (touched cap post (final cap (pre ++ [OGet k t]) empty)))) < cap ->
  snd (cget k now (final cap (pre ++ OGet k t :: post) empty)) = RHit v.
Proof.
  intros H Q T U HC.
  replace (pre ++ OGet k t :: post) with ((pre ++ [OGet k t]) ++ post)
    by (rewrite <- app_assoc; reflexivity).
  rewrite final_app.
  apply cget_hit in H. destruct H as [e [F [Hv He]]].
  destruct (find_Some _ _ _ F) as [Hin Hk].
  apply lru_keep with (x := eexp e)
    (D := others k (touched cap post (final cap (pre ++ [OGet k t]) empty))); auto.
  - split; [apply nodup_reachable|].
    rewrite final_app, final_cons, final_nil. simpl step. unfold Cache.cget. rewrite F, He. simpl.
    exists (remove k (final cap pre empty)), []. split; [|intros y []].
    destruct e as [ke ve xe]. simpl in *. now subst.
  - intros k' Hk' Hne. apply others_In. auto.
Qed.

(* ------------------------------------------------------------------ *)
(* 5. exactly LRU when nothing expires                                 *)
(* ------------------------------------------------------------------ *)
Definition no_expiry (o : op) : Prop :=
  match o with OSet _ _ ttl t1 _ => expiry ttl t1 = None | _ => True end.
Definition erase (s : store) : lstore K V := map (fun e => (ekey e, evalue e)) s.
Definition plain (s : store) : Prop := forall e, In e s -> eexp e = None.

Lemma lfind_erase k (s : store) :
  lfind keqb k (erase s) = match find k s with Some e => Some (evalue e) | None => None end.
Proof.
  induction s as [|a s IH]; simpl; auto. destruct (keqb k (ekey a)); auto.
Qed.
Lemma erase_remove k (s : store) : erase (remove k s) = lremove keqb k (erase s).
Proof.
  induction s as [|a s IH]; simpl; auto.
  destruct (keqb k (ekey a)); simpl; congruence.
Qed.
Lemma erase_app (a b : store) : erase (a ++ b) = erase a ++ erase b.
Proof. apply map_app. Qed.
Lemma erase_length (s : store) : List.length (erase s) = List.length s.
Proof. apply map_length. Qed.

Lemma filter_none {A} (p : A -> bool) (l : list A) :
  (forall x, In x l -> p x = false) -> filter p l = [].
Proof.
  induction l as [|a l IH]; simpl; intros H; auto.
  rewrite (H a) by now left. apply IH. intros x Hx. apply H. now right.
Qed.
Lemma purge_plain now (s : store) : plain s -> purge now s = s.
Proof.
  intros P. unfold Cache.purge. rewrite filter_none; [reflexivity|].
  intros e He. apply In_firstn in He. unfold expired. now rewrite (P e He).
Qed.
Lemma evict_id cap (s : store) : 0 <= cap -> Z.of_nat (List.length s) <= cap -> evict cap s = (s, false).
Proof.
  intros H0 H. destruct s as [|a s].
  - simpl. replace (0 >? cap) with false; auto. symmetry. rewrite Z.gtb_ltb. now apply Z.ltb_ge.
  - rewrite evict_cons. replace (Z.of_nat (List.length (a :: s)) >? cap) with false; auto.
    symmetry. rewrite Z.gtb_ltb. now apply Z.ltb_ge.
Qed.

Lemma step_exact cap (o : op) (s : store) :
  0 <= cap -> no_expiry o -> plain s -> Z.of_nat (List.length s) <= cap ->
  snd (step cap o s) = snd (lru_step keqb cap o (erase s)) /\
  erase (fst (step cap o s)) = fst (lru_step keqb cap o (erase s)) /\
  plain (fst (step cap o s)).
Proof.
  intros H0 HN P HL. destruct o as [k now|k v ttl t1 t2|k|]; simpl in *.
  - unfold Cache.cget. rewrite lfind_erase. destruct (find k s) as [e|] eqn:F; simpl; auto.
    destruct (find_Some _ _ _ F) as [Hi Hk].
    replace (expired now e) with false by (unfold expired; now rewrite (P e Hi)).
    simpl. repeat split.
    + rewrite erase_app, erase_remove. simpl. now rewrite Hk.
    + intros e' He'. apply in_app_or in He'. destruct He' as [He'|[<-|[]]]; auto.
      apply In_remove in He'. apply P. tauto.
  - unfold Cache.cset. rewrite HN. set (N := mkE k v None).
    assert (PS1 : plain (remove k s ++ [N])).
    { intros e He. apply in_app_or in He. destruct He as [He|[<-|[]]]; auto.
      apply In_remove in He. apply P. tauto. }
    assert (LS1 : Z.of_nat (List.length (remove k s ++ [N])) <= cap + 1).
    { rewrite app_length. simpl. pose proof (remove_length k s). lia. }
    assert (ES1 : erase (remove k s ++ [N]) = lremove keqb k (erase s) ++ [(k, v)]).
    { rewrite erase_app, erase_remove. reflexivity. }
    rewrite <- ES1, erase_length.
    destruct (remove k s ++ [N]) as [|e0 r] eqn:E1.
    { exfalso. symmetry in E1. now apply app_cons_not_nil in E1. }
    rewrite evict_cons.
    destruct (Z.of_nat (List.length (e0 :: r)) >? cap) eqn:G.
    + assert (LR : Z.of_nat (List.length r) <= cap) by (simpl List.length in LS1; lia).
      rewrite (evict_id cap r H0 LR).
      assert (PR : plain r) by (intros e He; apply PS1; now right).
      rewrite (purge_plain t2 r PR). simpl. auto.
    + rewrite (purge_plain t2 _ PS1). simpl. auto.
  - repeat split.
    + apply erase_remove.
    + intros e He. apply In_remove in He. apply P. tauto.
  - repeat split. intros e [].
Qed.

Lemma lru_run_cons cap (o : op) r (l : lstore K V) :
  lru_run keqb cap (o :: r) l =
  (fst (lru_run keqb cap r (fst (lru_step keqb cap o l))),
   snd (lru_step keqb cap o l) :: snd (lru_run keqb cap r (fst (lru_step keqb cap o l)))).
Proof.
  simpl. destruct (lru_step keqb cap o l) as [l1 x]. simpl.
  destruct (lru_run keqb cap r l1) as [l2 xs]. reflexivity.
Qed.

Lemma exact_lru_from cap (ops : list op) : 0 <= cap -> Forall no_expiry ops ->
  forall s, plain s -> Z.of_nat (List.length s) <= cap ->
  results cap ops s = snd (lru_run keqb cap ops (erase s)) /\
  erase (final cap ops s) = fst (lru_run keqb cap ops (erase s)).
Proof.
  intros H0. induction ops as [|o r IH]; intros HN s P HL.
  - split; reflexivity.
  - inversion HN as [|? ? HN1 HN2]; subst.
    destruct (step_exact cap o s H0 HN1 P HL) as [E1 [E2 P']].
    assert (HL' : Z.of_nat (List.length (fst (step cap o s))) <= cap).
    { pose proof (step_cap cap o s) as HC. unfold cap_ok in HC. rewrite Z.max_r in HC by lia. auto. }
    destruct (IH HN2 _ P' HL') as [R1 R2].
    rewrite results_cons, final_cons, lru_run_cons. simpl fst. simpl snd.
    rewrite <- E2, <- E1. split; congruence.
Qed.

(* when no set creates an expiry the cache IS the textbook LRU map: same answers,
   same contents in the same recency order *)
Theorem exact_lru cap (ops : list op) : 0 <= cap -> Forall no_expiry ops ->
  results cap ops empty = snd (lru_run keqb cap ops []) /\
  erase (final cap ops empty) = fst (lru_run keqb cap ops []).
Proof.
  intros H0 HN. apply (exact_lru_from cap ops H0 HN empty).
  - intros e [].
  - simpl. lia.
Qed.

(* ------------------------------------------------------------------ *)
(* 6. the store is always ordered by last touch                        *)
(* ------------------------------------------------------------------ *)
Inductive subseq {A} : list A -> list A -> Prop :=
| ss_nil : subseq [] []
| ss_skip x l m : subseq l m -> subseq l (x :: m)
| ss_keep x l m : subseq l m -> subseq (x :: l) (x :: m).

Lemma subseq_refl {A} (l : list A) : subseq l l.
Proof. induction l; [apply ss_nil|apply ss_keep]; auto. Qed.
Lemma subseq_nil {A} (l : list A) : subseq [] l.
Proof. induction l; [apply ss_nil|apply ss_skip]; auto. Qed.
Lemma subseq_trans {A} (a b c : list A) : subseq a b -> subseq b c -> subseq a c.
Proof.
  intros H1 H2. revert a H1. induction H2; intros a H1.
  - exact H1.
  - apply ss_skip. auto.
  - inversion H1; subst; [apply ss_skip|apply ss_keep]; auto.
Qed.
Lemma subseq_filter_l {A} (p : A -> bool) (l : list A) : subseq (filter p l) l.
Proof.
  induction l as [|a l IH]; simpl; [apply ss_nil|].
  destruct (p a); [apply ss_keep|apply ss_skip]; auto.
Qed.
Lemma subseq_filter {A} (p : A -> bool) (l m : list A) :
  subseq l m -> subseq (filter p l) (filter p m).
Proof.
  induction 1; simpl.
  - apply ss_nil.
  - destruct (p x); [apply ss_skip|]; auto.
  - destruct (p x); [apply ss_keep|]; auto.
Qed.
Lemma subseq_app {A} (a b c d : list A) : subseq a b -> subseq c d -> subseq (a ++ c) (b ++ d).
Proof. induction 1; simpl; intros; auto; [apply ss_skip|apply ss_keep]; auto. Qed.
Lemma subseq_suffix {A} (a b : list A) : subseq b (a ++ b).
Proof. induction a; simpl; [apply subseq_refl|apply ss_skip; auto]. Qed.
Lemma subseq_map {A B} (f : A -> B) (l m : list A) : subseq l m -> subseq (map f l) (map f m).
Proof. induction 1; simpl; [apply ss_nil|apply ss_skip|apply ss_keep]; auto. Qed.

Lemma keqb_sym a b : keqb a b = keqb b a.
Proof.
  destruct (keqb a b) eqn:E1, (keqb b a) eqn:E2; auto.
  - apply keqb_eq in E1. subst. now rewrite keqb_refl in E2.
  - apply keqb_eq in E2. subst. now rewrite keqb_refl in E1.
Qed.

Definition without (k : K) (l : list K) : list K := filter (fun a => negb (keqb k a)) l.

Lemma keys_remove k (s : store) : keys (remove k s) = without k (keys s).
Proof.
  induction s as [|a s IH]; simpl; auto. destruct (keqb k (ekey a)); simpl; congruence.
Qed.
Lemma existsb_without a k (l : list K) :
  keqb k a = false -> existsb (keqb a) (without k l) = existsb (keqb a) l.
Proof.
  intros H. induction l as [|b l IH]; simpl; auto.
  destruct (keqb k b) eqn:E; simpl.
  - rewrite IH. apply keqb_eq in E. subst b. rewrite (keqb_sym a k), H. reflexivity.
  - now rewrite IH.
Qed.
(* [dedup] keeps the LAST occurrence of every key, in order *)
Lemma dedup_snoc (l : list K) k : dedup (l ++ [k]) = without k (dedup l) ++ [k].
Proof.
  induction l as [|a l IH]; simpl; auto.
  rewrite existsb_app. simpl. rewrite orb_false_r.
  destruct (existsb (keqb a) l) eqn:E; simpl; auto.
  destruct (keqb a k) eqn:Ek; simpl.
  - rewrite keqb_sym in Ek. rewrite Ek. simpl. exact IH.
  - rewrite keqb_sym in Ek. rewrite Ek. simpl. now rewrite IH.
Qed.

Lemma step_order cap (o : op) (s : store) :
  match touch_of o (snd (step cap o s)) with
  | [] => subseq (keys (fst (step cap o s))) (keys s)
  | k :: _ => touch_of o (snd (step cap o s)) = [k] /\
              subseq (keys (fst (step cap o s))) (without k (keys s) ++ [k])
  end.
Proof.
  destruct o as [k now|k v ttl t1 t2|k|]; simpl.
  - unfold Cache.cget. destruct (find k s) as [e|] eqn:F; simpl; [|apply subseq_refl].
    destruct (expired now e); simpl.
    + rewrite keys_remove. apply subseq_filter_l.
    + split; auto. rewrite keys_app, keys_remove. simpl.
      destruct (find_Some _ _ _ F) as [_ ->]. apply subseq_refl.
  - pose proof (cset_store cap k v ttl t1 t2 s) as HS. cbv zeta in HS.
    pose proof (cset_result cap k v ttl t1 t2 s) as HR.
    pose proof (evict_raised cap (remove k s ++ [mkE k v (expiry ttl t1)])) as HE.
    destruct (evict_suffix cap (remove k s ++ [mkE k v (expiry ttl t1)])) as [pre Hp].
    rewrite HR, HS, HE. destruct (cap <? 0) eqn:C; simpl.
    + rewrite evict_raised_nil by (now rewrite HE). apply subseq_nil.
    + split; auto.
      eapply subseq_trans; [rewrite purge_filter; apply subseq_map, subseq_filter_l|].
      replace (without k (keys s) ++ [k]) with (keys (remove k s ++ [mkE k v (expiry ttl t1)]))
        by (rewrite keys_app, keys_remove; reflexivity).
      rewrite Hp at 2. rewrite keys_app. apply subseq_suffix.
  - rewrite keys_remove. apply subseq_filter_l.
  - apply subseq_nil.
Qed.

Lemma touched_app cap (a b : list op) : forall s,
  touched cap (a ++ b) s = touched cap a s ++ touched cap b (final cap a s).
Proof.
  induction a as [|o a IH]; intros s; simpl app; [reflexivity|].
  simpl touched. rewrite IH, final_cons, app_assoc. reflexivity.
Qed.

Lemma order_from cap (ops : list op) : forall (s : store) (L : list K),
  subseq (keys s) (dedup L) ->
  subseq (keys (final cap ops s)) (dedup (L ++ touched cap ops s)).
Proof.
  induction ops as [|o r IH]; intros s L H.
  - simpl. now rewrite app_nil_r.
  - rewrite final_cons. simpl touched. rewrite app_assoc. apply IH.
    pose proof (step_order cap o s) as HS.
    destruct (touch_of o (snd (step cap o s))) as [|k tl].
    + rewrite app_nil_r. eapply subseq_trans; eauto.
    + destruct HS as [E HS]. inversion E; subst tl. rewrite dedup_snoc.
      eapply subseq_trans; [exact HS|].
      apply subseq_app; [|apply subseq_refl]. now apply subseq_filter.
Qed.

(* the keys of the store, read from the eviction end, appear in the order of
   their last touch (last store or last hit): the head — the entry the eviction
   loop pops — is always the least recently used entry present *)
Theorem recency_order cap (ops : list op) :
  subseq (keys (final cap ops empty)) (dedup (touched cap ops empty)).
Proof. apply (order_from cap ops empty []). constructor. Qed.

(* ------------------------------------------------------------------ *)
(* 7. concurrent use: every operation takes effect in one atomic step  *)
(* ------------------------------------------------------------------ *)
(* Threads call operations and get answers; between the call and the return of
   an operation there is ONE atomic step [ELin] at which it runs against the
   shared store (in the code: the body of `with self._lock:`).  Any number of
   threads, any interleaving; operation identifiers are fresh per call.  The
   clock readings are part of the operation (an operation reads the clock
   between its call and its return). *)
Inductive ev :=
| ECall (id : nat) (thread : nat) (o : op)
| ELin (id : nat)
| ERet (id : nat) (r : result).

Record cfg := mkC {
  c_store : store;                    (* the shared OrderedDict *)
  c_pend : list (nat * op);           (* called, not yet taken effect *)
  c_wait : list (nat * result);       (* taken effect, not yet returned *)
  c_used : list nat }.                (* identifiers handed out *)

Inductive cstep (cap : Z) : cfg -> ev -> cfg -> Prop :=
| cs_call c id t o :
    ~ In id (c_used c) ->
    cstep cap c (ECall id t o)
          (mkC (c_store c) ((id, o) :: c_pend c) (c_wait c) (id :: c_used c))
| cs_lin c id o p1 p2 :
    c_pend c = p1 ++ (id, o) :: p2 ->
    cstep cap c (ELin id)
          (mkC (fst (step cap o (c_store c))) (p1 ++ p2)
               ((id, snd (step cap o (c_store c))) :: c_wait c) (c_used c))
| cs_ret c id r w1 w2 :
    c_wait c = w1 ++ (id, r) :: w2 ->
    cstep cap c (ERet id r) (mkC (c_store c) (c_pend c) (w1 ++ w2) (c_used c)).

Inductive cexec (cap : Z) : list ev -> cfg -> Prop :=
| ce_nil : cexec cap [] (mkC empty [] [] [])
| ce_snoc tr c e c' : cexec cap tr c -> cstep cap c e c' -> cexec cap (tr ++ [e]) c'.

(* what an outside observer sees: calls and returns *)
Definition is_hist (e : ev) : bool := match e with ELin _ => false | _ => true end.
Definition history (tr : list ev) : list ev := filter is_hist tr.
Definition call_ids (h : list ev) : list nat :=
  flat_map (fun e => match e with ECall id _ _ => [id] | _ => [] end) h.

Definition lrec : Type := nat * op * result.
Definition l_id (x : lrec) : nat := fst (fst x).
Definition l_op (x : lrec) : op := snd (fst x).
Definition l_res (x : lrec) : result := snd x.

Definition lbefore (a b : nat) (lin : list lrec) : Prop :=
  exists l1 x l2, lin = l1 ++ x :: l2 /\ l_id x = b /\ In a (map l_id l1).

(* [lin] is a linearisation of the history [h] (Herlihy & Wing): a sequential
   run of the model that (1) is legal — it yields exactly the listed results —,
   (2) contains every operation that returned, with the operation that was
   called and the result that was returned, and otherwise only operations that
   were called (pending ones may or may not be included), each once, and
   (3) respects real time: if a returned before b was called, a comes first.
   For histories in which each thread calls sequentially, (3) includes each
   thread's program order. *)
Definition linearisation (cap : Z) (h : list ev) (lin : list lrec) : Prop :=
  results cap (map l_op lin) empty = map l_res lin
  /\ NoDup (map l_id lin)
  /\ (forall id o r, In (id, o, r) lin -> exists t, In (ECall id t o) h)
  /\ (forall id r, In (ERet id r) h -> exists o, In (id, o, r) lin)
  /\ (forall a b ra tb ob h1 h2,
        h = h1 ++ ECall b tb ob :: h2 -> In (ERet a ra) h1 ->
        In b (map l_id lin) -> lbefore a b lin).

Definition cinv (cap : Z) (tr : list ev) (c : cfg) (lin : list lrec) : Prop :=
  linearisation cap (history tr) lin
  /\ c_store c = final cap (map l_op lin) empty
  /\ incl (map l_id lin) (c_used c)
  /\ incl (map fst (c_pend c)) (c_used c)
  /\ NoDup (map fst (c_pend c))
  /\ (forall id o, In (id, o) (c_pend c) ->
        ~ In id (map l_id lin) /\ exists t, In (ECall id t o) (history tr))
  /\ (forall id r, In (id, r) (c_wait c) -> exists o, In (id, o, r) lin)
  /\ NoDup (call_ids (history tr))
  /\ incl (call_ids (history tr)) (c_used c).

Lemma history_snoc tr e : history (tr ++ [e]) = history tr ++ (if is_hist e then [e] else []).
Proof. unfold history. rewrite filter_app. simpl. now destruct (is_hist e). Qed.
Lemma lbefore_snoc a b lin x : lbefore a b lin -> lbefore a b (lin ++ [x]).
Proof.
  intros [l1 [y [l2 [E [Hb Ha]]]]]. exists l1, y, (l2 ++ [x]). repeat split; auto.
  rewrite E, <- app_assoc. reflexivity.
Qed.
Lemma call_ids_app a b : call_ids (a ++ b) = call_ids a ++ call_ids b.
Proof. apply flat_map_app. Qed.

Ltac split_cinv :=
  unfold cinv, linearisation;
  refine (conj (conj _ (conj _ (conj _ (conj _ _))))
               (conj _ (conj _ (conj _ (conj _ (conj _ (conj _ (conj _ _)))))))).

Lemma cexec_inv cap tr c : cexec cap tr c -> exists lin, cinv cap tr c lin.
Proof.
  induction 1 as [|tr c e c' Hex [lin IH] Hst].
  - exists []. split_cinv; simpl; try constructor; try (intros; contradiction); try (intros ? []).
  - destruct IH as [[L1 [L2 [L3 [L4 L5]]]] [I1 [I2 [I3 [I4 [I5 [I6 [I7 I8]]]]]]]].
    destruct Hst as [c id t o Hfresh|c id o p1 p2 Hp|c id r w1 w2 Hw].
    + (* call *)
      exists lin. split_cinv; rewrite ?history_snoc; simpl is_hist; cbv iota; simpl.
      * exact L1.
      * exact L2.
      * intros id' o' r' Hi. destruct (L3 _ _ _ Hi) as [t' Ht']. exists t'. apply in_or_app. now left.
      * intros id' r' Hi. apply in_app_or in Hi. destruct Hi as [Hi|[Hi|[]]]; [eauto|discriminate].
      * intros a b ra tb ob h1 h2 E Ha Hb. apply snoc_split in E.
        destruct E as [[_ [E _]]|[h2' [_ E]]].
        -- inversion E; subst. exfalso. apply Hfresh. now apply I2.
        -- eapply L5; eauto.
      * exact I1.
      * intros x Hx. right. now apply I2.
      * intros x [<-|Hx]; [now left|right; now apply I3].
      * constructor; [intros Hi; apply Hfresh; now apply I3|exact I4].
      * intros id' o' [E|Hi].
        -- inversion E; subst. split.
           ++ intros Hi. apply Hfresh. now apply I2.
           ++ exists t. apply in_or_app. right. now left.
        -- destruct (I5 _ _ Hi) as [Hn [t' Ht']]. split; auto. exists t'. apply in_or_app. now left.
      * exact I6.
      * rewrite call_ids_app. simpl. apply NoDup_snoc; [exact I7|]. intros Hi. apply Hfresh. now apply I8.
      * rewrite call_ids_app. simpl. intros x Hx. apply in_app_or in Hx.
        destruct Hx as [Hx|[<-|[]]]; [right; now apply I8|now left].
    + (* the atomic step *)
      set (r := snd (step cap o (c_store c))).
      assert (Hin : In (id, o) (c_pend c)) by (rewrite Hp; apply in_or_app; right; now left).
      destruct (I5 _ _ Hin) as [Hnl [t Ht]].
      assert (Hnd : NoDup (map fst (p1 ++ p2)) /\ ~ In id (map fst (p1 ++ p2))).
      { rewrite Hp in I4. rewrite map_app in *. simpl in I4. split.
        - now apply NoDup_remove_1 in I4.
        - now apply NoDup_remove_2 in I4. }
      exists (lin ++ [(id, o, r)]).
      split_cinv; rewrite ?history_snoc; simpl is_hist; cbv iota; rewrite ?app_nil_r; simpl.
      * rewrite !map_app. simpl. rewrite results_app, L1, <- I1.
        rewrite results_cons. reflexivity.
      * rewrite map_app. simpl. apply NoDup_snoc; [exact L2|exact Hnl].
      * intros id' o' r' Hi. apply in_app_or in Hi. destruct Hi as [Hi|[Hi|[]]]; [eauto|].
        inversion Hi; subst. eauto.
      * intros id' r' Hi. destruct (L4 _ _ Hi) as [o' Ho']. exists o'. apply in_or_app. now left.
      * intros a b ra tb ob h1 h2 E Ha Hb. rewrite map_app in Hb. apply in_app_or in Hb.
        destruct Hb as [Hb|[Hb|[]]].
        -- apply lbefore_snoc. eapply L5; eauto.
        -- simpl in Hb. subst b. exists lin, (id, o, r), []. repeat split; auto.
           assert (Hr : In (ERet a ra) (history tr)) by (rewrite E; apply in_or_app; now left).
           destruct (L4 _ _ Hr) as [oa Hoa].
           apply in_map_iff. exists (a, oa, ra). auto.
      * rewrite map_app, final_app, <- I1. simpl. rewrite final_cons, final_nil. reflexivity.
      * rewrite map_app. simpl. intros x Hx. apply in_app_or in Hx. destruct Hx as [Hx|[<-|[]]].
        -- now apply I2.
        -- apply I3. apply in_map_iff. exists (id, o). auto.
      * intros x Hx. apply I3. rewrite Hp. rewrite map_app in *. simpl.
        apply in_app_or in Hx. apply in_or_app. destruct Hx; [left|right; right]; auto.
      * apply Hnd.
      * intros id' o' Hi.
        assert (Hi' : In (id', o') (c_pend c)).
        { rewrite Hp. apply in_app_or in Hi. apply in_or_app. destruct Hi; [left|right; right]; auto. }
        destruct (I5 _ _ Hi') as [Hn' Hc']. split; auto.
        rewrite map_app. simpl. intros Hx. apply in_app_or in Hx. destruct Hx as [Hx|[Hx|[]]]; auto.
        subst id'. apply (proj2 Hnd). apply in_map_iff. exists (id, o'). auto.
      * intros id' r' [E|Hi].
        -- inversion E; subst. exists o. apply in_or_app. right. now left.
        -- destruct (I6 _ _ Hi) as [o' Ho']. exists o'. apply in_or_app. now left.
      * exact I7.
      * exact I8.
    + (* return *)
      exists lin. split_cinv; rewrite ?history_snoc; simpl is_hist; cbv iota; simpl.
      * exact L1.
      * exact L2.
      * intros id' o' r' Hi. destruct (L3 _ _ _ Hi) as [t' Ht']. exists t'. apply in_or_app. now left.
      * intros id' r' Hi. apply in_app_or in Hi. destruct Hi as [Hi|[Hi|[]]]; [eauto|].
        inversion Hi; subst. apply I6. rewrite Hw. apply in_or_app. right. now left.
      * intros a b ra tb ob h1 h2 E Ha Hb. apply snoc_split in E.
        destruct E as [[_ [E _]]|[h2' [_ E]]]; [discriminate|]. eapply L5; eauto.
      * exact I1.
      * exact I2.
      * exact I3.
      * exact I4.
      * intros id' o' Hi. destruct (I5 _ _ Hi) as [Hn [t' Ht']]. split; auto.
        exists t'. apply in_or_app. now left.
      * intros id' r' Hi. apply I6. rewrite Hw. apply in_app_or in Hi. apply in_or_app.
        destruct Hi; [left|right; right]; auto.
      * rewrite call_ids_app. simpl. now rewrite app_nil_r.
      * rewrite call_ids_app. simpl. now rewrite app_nil_r.
Qed.

(* every concurrent history has a linearisation; it is the order of the atomic
   steps, and the shared store is the store of that sequential run *)
Theorem linearizable cap tr c : cexec cap tr c ->
  exists lin, linearisation cap (history tr) lin /\
              c_store c = final cap (map l_op lin) empty /\
              NoDup (call_ids (history tr)).
Proof.
  intros H. destruct (cexec_inv cap tr c H) as [lin [HL [HS [_ [_ [_ [_ [_ [HN _]]]]]]]]].
  exists lin. auto.
Qed.

(* so every invariant of sequential runs holds in every concurrent state *)
Corollary conc_capacity cap tr c : cexec cap tr c ->
  Z.of_nat (List.length (c_store c)) <= Z.max 0 cap /\ NoDup (keys (c_store c)).
Proof.
  intros H. destruct (linearizable cap tr c H) as [lin [_ [HS _]]]. rewrite HS.
  split; [apply capacity_reachable|apply nodup_reachable].
Qed.

End Proofs.

Arguments keys {K V}.
Arguments live {K V}.
Arguments stored {K V}.
Arguments hist_ok {K V}.
Arguments quiet_for {K V}.
Arguments op_times {K V}.
Arguments times_le {K V}.
Arguments touch_of {K V}.
Arguments touched {K V}.
Arguments dedup {K}.
Arguments others {K}.
Arguments without {K}.
Arguments pos_ok {K V}.
Arguments no_expiry {K V}.
Arguments erase {K V}.
Arguments plain {K V}.
Arguments cap_ok {K V}.
Arguments ECall {K V}.
Arguments ELin {K V}.
Arguments ERet {K V}.
Arguments mkC {K V}.
Arguments c_store {K V}.
Arguments c_pend {K V}.
Arguments c_wait {K V}.
Arguments c_used {K V}.
Arguments cstep {K V}.
Arguments cexec {K V}.
Arguments cs_call {K V}.
Arguments cs_lin {K V}.
Arguments cs_ret {K V}.
Arguments ce_nil {K V}.
Arguments ce_snoc {K V}.
Arguments history {K V}.
Arguments call_ids {K V}.
Arguments l_id {K V}.
Arguments l_op {K V}.
Arguments l_res {K V}.
Arguments lbefore {K V}.
Arguments linearisation {K V}.

Lemma results_length K V (keqb : K -> K -> bool) cap (ops : list (op K V)) : forall s,
  List.length (results keqb cap ops s) = List.length ops.
Proof.
  induction ops as [|o p IH]; intros s; auto.
  rewrite results_cons. simpl. now rewrite IH.
Qed.

(* the contract, phrased on the results of a whole run: the answer of a get that
   follows the operations [pre] *)
Lemma cache_contract_run K V (keqb : K -> K -> bool) :
  (forall a b, keqb a b = true <-> a = b) ->
  forall cap (pre post : list (op K V)) k now,
  let r := nth (List.length pre) (results keqb cap (pre ++ OGet k now :: post) empty) RDone in
  r = RMiss \/ exists v, r = RHit v /\ stored keqb k pre = Some v.
Proof.
  intros Hk cap pre post k now r.
  assert (E : r = snd (cget keqb k now (final keqb cap pre empty))).
  { unfold r. rewrite results_app, app_nth2; rewrite results_length; [|lia].
    rewrite Nat.sub_diag, results_cons. reflexivity. }
  rewrite E. now apply cache_contract.
Qed.

(* ------------------------------------------------------------------ *)
(* 8. the instance the implementation uses: Python str keys            *)
(* ------------------------------------------------------------------ *)
From Coq Require Import String.

Section StrKeys.
Variable V : Type.
Notation sop := (op string V).
Notation seqb := String.eqb.
Notation "'hyp'" := String.eqb_eq (only parsing).

Lemma str_capacity (cap : Z) (ops : list sop) :
  Z.of_nat (List.length (final seqb cap ops empty)) <= Z.max 0 cap.
Proof. apply capacity_reachable. Qed.

Lemma str_nodup (cap : Z) (ops : list sop) : NoDup (keys (final seqb cap ops empty)).
Proof. apply nodup_reachable, hyp. Qed.

Lemma str_get_sound (cap : Z) (ops : list sop) (k : string) (now : Z) (v : V) :
  snd (cget seqb k now (final seqb cap ops empty)) = RHit v ->
  exists pre ttl t1 t2 post,
    ops = pre ++ OSet k v ttl t1 t2 :: post /\
    Forall (quiet_for k) post /\
    unexpired (expiry ttl t1) now.
Proof. apply get_sound, hyp. Qed.

Lemma str_contract (cap : Z) (ops : list sop) (k : string) (now : Z) :
  snd (cget seqb k now (final seqb cap ops empty)) = RMiss \/
  exists v, snd (cget seqb k now (final seqb cap ops empty)) = RHit v /\ stored seqb k ops = Some v.
Proof. apply cache_contract, hyp. Qed.

Lemma str_lru_after_set (cap : Z) (pre post : list sop) (k : string) (v : V) ttl t1 t2 now :
  Forall (quiet_for k) post ->
  times_le now (OSet k v ttl t1 t2 :: post) ->
  unexpired (expiry ttl t1) now ->
  Z.of_nat (List.length (others seqb k
     (touched seqb cap post (final seqb cap (pre ++ [OSet k v ttl t1 t2]) empty)))) < cap ->
  snd (cget seqb k now (final seqb cap (pre ++ OSet k v ttl t1 t2 :: post) empty)) = RHit v.
Proof. apply lru_after_set, hyp. Qed.

Lemma str_lru_after_hit (cap : Z) (pre post : list sop) (k : string) (t : Z) (v : V) (now : Z) :
  snd (cget seqb k t (final seqb cap pre empty)) = RHit v ->
  Forall (quiet_for k) post ->
  times_le now post ->
  (forall e, find seqb k (final seqb cap pre empty) = Some e -> unexpired (eexp e) now) ->
  Z.of_nat (List.length (others seqb k
     (touched seqb cap post (final seqb cap (pre ++ [OGet k t]) empty)))) < cap ->
  snd (cget seqb k now (final seqb cap (pre ++ OGet k t :: post) empty)) = RHit v.
Proof. apply lru_after_hit, hyp. Qed.

Lemma str_others_distinct (k : string) (l : list string) :
  NoDup (others seqb k l) /\ forall x, In x (others seqb k l) <-> In x l /\ x <> k.
Proof. split; [apply dedup_NoDup, hyp|intros x; apply others_In, hyp]. Qed.

Lemma str_exact_lru (cap : Z) (ops : list sop) :
  0 <= cap -> Forall no_expiry ops ->
  results seqb cap ops empty = snd (lru_run seqb cap ops []) /\
  erase (final seqb cap ops empty) = fst (lru_run seqb cap ops []).
Proof. apply exact_lru, hyp. Qed.

Lemma str_recency_order (cap : Z) (ops : list sop) :
  subseq (keys (final seqb cap ops empty)) (dedup seqb (touched seqb cap ops empty)).
Proof. apply recency_order, hyp. Qed.

Lemma str_linearizable (cap : Z) (tr : list (ev string V)) (c : cfg string V) :
  cexec seqb cap tr c ->
  exists lin, linearisation seqb cap (history tr) lin /\
              c_store c = final seqb cap (map l_op lin) empty /\
              NoDup (call_ids (history tr)).
Proof. apply linearizable. Qed.

Lemma str_conc_invariants (cap : Z) (tr : list (ev string V)) (c : cfg string V) :
  cexec seqb cap tr c ->
  Z.of_nat (List.length (c_store c)) <= Z.max 0 cap /\ NoDup (keys (c_store c)).
Proof. apply conc_capacity, hyp. Qed.

End StrKeys.
