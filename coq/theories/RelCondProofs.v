(* RelCondProofs.v — proofs for C13 (rel conditions: canonical lookup, fail closed, memoised
   per decision only).  Part 1: the evaluators reach the relationship handler only with the
   canonical queries of the policy's rel nodes, and a relation between two handler instances that
   holds on those queries (and may give up once a monotone "bad" event happened on the left) lifts
   through every evaluator — a refinement of ParamProofs.  Part 2: the frame handler of RelCond. *)
From Coq Require Import ZArith List Bool String Ascii Lia.
From Rbacx Require Import Value ValueInd Cond Target Policy PolicySet Compiler Oblig Engine
     CondProofs PolicyProofs PolicySetProofs CompilerProofs ParamProofs RelCond.
Import ListNotations.
Local Open Scope string_scope.

(* ---------- the set evaluator's child loop as a top-level function, generic in S ---------- *)
Section UnfoldSet.
  Variable S : Type.
  Variable relh : rel_query -> S -> bool * S.

  Definition child_eval (pol env : value) (st : S) : eres * S :=
    if has_key "policies" pol then decide S relh pol env st else evaluate S relh None pol env st.

  Fixpoint set_go (al : algo) (children : list value) (env : value) (a : sacc) (st : S) : eres * S :=
    match children with
    | [] => (ERaw (set_finalize al a), st)
    | pol :: rest =>
        match pol with
        | VObj _ =>
            match child_eval pol env st with
            | (ERaw r, st') =>
                let a' := set_step al a (pid_of pol) r in
                if s_broke a' then (ERaw (set_finalize al a'), st') else set_go al rest env a' st'
            | other => other
            end
        | _ => (EErr "AttributeError", st)
        end
    end.

  Lemma decide_unfold_gen kvs env st :
    decide S relh (VObj kvs) env st =
    match set_algo (VObj kvs) with
    | None => (EOod, st)
    | Some al =>
        match assoc "policies" kvs with
        | Some (VList children) => set_go al children env sacc0 st
        | Some v => if py_truthy v then (ERaw (set_no_match None), st) else (ERaw (set_finalize al sacc0), st)
        | None => (ERaw (set_finalize al sacc0), st)
        end
    end.
  Proof.
    cbn [decide]. destruct (set_algo (VObj kvs)) as [al|]; [|reflexivity].
    induction kvs as [|[k v] kvs IH]; [reflexivity|].
    cbn [assoc]. destruct (String.eqb "policies" k) eqn:E.
    - destruct v; try reflexivity.
      clear IH. generalize sacc0. revert st. induction l as [|pol rest IHl]; intros st a; [reflexivity|].
      cbn [set_go]. destruct pol; try reflexivity.
      unfold child_eval.
      destruct (has_key "policies" (VObj kvs0)).
      + destruct (decide S relh (VObj kvs0) env st) as [res st'].
        destruct res; try reflexivity.
        cbv zeta. destruct (s_broke (set_step al a (pid_of (VObj kvs0)) r)); [reflexivity|apply IHl].
      + destruct (evaluate S relh None (VObj kvs0) env st) as [res st'].
        destruct res; try reflexivity.
        cbv zeta. destruct (s_broke (set_step al a (pid_of (VObj kvs0)) r)); [reflexivity|apply IHl].
    - exact IH.
  Qed.
End UnfoldSet.

(* ---------- where the rel nodes of a condition sit ---------- *)
Lemma cond_rels_obj kvs :
  cond_rels (VObj kvs) =
  flat_map (fun kv =>
    if String.eqb (fst kv) "rel" then [snd kv]
    else if String.eqb (fst kv) "and" || String.eqb (fst kv) "or" then
      match snd kv with VList subs => flat_map cond_rels subs | _ => [] end
    else if String.eqb (fst kv) "not" then cond_rels (snd kv)
    else []) kvs.
Proof. reflexivity. Qed.

Lemma rel_in_cond_rels kvs e : assoc "rel" kvs = Some e -> In e (cond_rels (VObj kvs)).
Proof.
  intros H. apply assoc_in in H. rewrite cond_rels_obj. apply in_flat_map.
  exists ("rel", e). split; [exact H|]. simpl. now left.
Qed.
Lemma and_in_cond_rels kvs subs : assoc "and" kvs = Some (VList subs) ->
  incl (flat_map cond_rels subs) (cond_rels (VObj kvs)).
Proof.
  intros H e He. apply assoc_in in H. rewrite cond_rels_obj. apply in_flat_map.
  exists ("and", VList subs). split; [exact H|]. exact He.
Qed.
Lemma or_in_cond_rels kvs subs : assoc "or" kvs = Some (VList subs) ->
  incl (flat_map cond_rels subs) (cond_rels (VObj kvs)).
Proof.
  intros H e He. apply assoc_in in H. rewrite cond_rels_obj. apply in_flat_map.
  exists ("or", VList subs). split; [exact H|]. exact He.
Qed.
Lemma not_in_cond_rels kvs v : assoc "not" kvs = Some v -> incl (cond_rels v) (cond_rels (VObj kvs)).
Proof.
  intros H e He. apply assoc_in in H. rewrite cond_rels_obj. apply in_flat_map.
  exists ("not", v). split; [exact H|]. exact He.
Qed.

Lemma own_rules_nonobj p : is_obj p = false -> own_rules p = [].
Proof. destruct p; try discriminate; reflexivity. Qed.
Lemma own_in_all policy : has_key "policies" policy = false -> incl (own_rules policy) (all_rules policy).
Proof.
  intros H. destruct policy; try (rewrite own_rules_nonobj by reflexivity; intros x []).
  rewrite all_rules_unfold. unfold has_key in H. destruct (assoc "policies" kvs); [discriminate|].
  apply incl_refl.
Qed.
Lemma literal_rules_gen x T : policy_rules (VObj [("algorithm", x); ("rules", VList T)]) = Some T.
Proof. destruct T; reflexivity. Qed.

(* ---------- parametricity, restricted to the queries that can occur, with a bail-out ---------- *)
Section Gen.
  Variables S1 S2 : Type.
  Variable h1 : rel_query -> S1 -> bool * S1.
  Variable h2 : rel_query -> S2 -> bool * S2.
  Variable R : S1 -> S2 -> Prop.
  Variable Bad : S1 -> Prop.               (* monotone event on the left run after which nothing is claimed *)
  Variable Q : rel_query -> Prop.          (* the queries on which the two handlers are related *)
  Hypothesis HBad : forall q s, Bad s -> Bad (snd (h1 q s)).
  Hypothesis HR : forall q s1 s2, Q q -> R s1 s2 ->
    Bad (snd (h1 q s1)) \/ (fst (h1 q s1) = fst (h2 q s2) /\ R (snd (h1 q s1)) (snd (h2 q s2))).

  Definition simB {A} (x : A * S1) (y : A * S2) : Prop :=
    Bad (snd x) \/ (fst x = fst y /\ R (snd x) (snd y)).

  (* every rel expression in es that yields a query on env yields one in Q *)
  Definition covers (es : list value) (env : value) : Prop :=
    forall e q, In e es -> rel_prepare e env = Ok (Some q) -> Q q.
  Definition covers_rules (rules : list value) (env : value) : Prop :=
    forall rule, In rule rules -> covers (rule_rels rule) env.

  Lemma covers_incl es es' env : incl es es' -> covers es' env -> covers es env.
  Proof. intros Hi Hc e q He. apply Hc. apply Hi. exact He. Qed.
  Lemma covers_rules_incl rs rs' env : incl rs rs' -> covers_rules rs' env -> covers_rules rs env.
  Proof. intros Hi Hc r Hr. apply Hc. apply Hi. exact Hr. Qed.

  (* Bad, once reached, stays: the unrestricted theorem of ParamProofs on the left run alone *)
  Let RB (a b : S1) : Prop := a = b /\ Bad a.
  Lemma HRB : forall q s1 s2, RB s1 s2 ->
    fst (h1 q s1) = fst (h1 q s2) /\ RB (snd (h1 q s1)) (snd (h1 q s2)).
  Proof. intros q s1 s2 [-> Hb]. split; [reflexivity|split; [reflexivity|apply HBad; exact Hb]]. Qed.

  Lemma bad_eval_cond c env s : Bad s -> Bad (snd (eval_cond S1 h1 c env s)).
  Proof. intros Hb. destruct (eval_cond_sim S1 S1 h1 h1 RB HRB c env s s (conj eq_refl Hb)) as [_ [_ H]]. exact H. Qed.
  Lemma bad_eval_all subs env : forall s, Bad s -> Bad (snd (eval_all S1 h1 subs env s)).
  Proof.
    induction subs as [|x r IH]; intros s Hb; [exact Hb|]. simpl.
    pose proof (bad_eval_cond x env s Hb) as H. destruct (eval_cond S1 h1 x env s) as [[[|]| | |] t]; simpl in *; auto.
  Qed.
  Lemma bad_eval_any subs env : forall s, Bad s -> Bad (snd (eval_any S1 h1 subs env s)).
  Proof.
    induction subs as [|x r IH]; intros s Hb; [exact Hb|]. simpl.
    pose proof (bad_eval_cond x env s Hb) as H. destruct (eval_cond S1 h1 x env s) as [[[|]| | |] t]; simpl in *; auto.
  Qed.
  Lemma bad_loop al rules env a s : Bad s -> Bad (snd (loop S1 h1 al rules env a s)).
  Proof. intros Hb. destruct (loop_sim S1 S1 h1 h1 RB HRB al env rules a s s (conj eq_refl Hb)) as [_ [_ H]]. exact H. Qed.
  Lemma bad_evaluate o p env s : Bad s -> Bad (snd (evaluate S1 h1 o p env s)).
  Proof. intros Hb. destruct (evaluate_sim S1 S1 h1 h1 RB HRB o p env s s (conj eq_refl Hb)) as [_ [_ H]]. exact H. Qed.
  Lemma bad_decide p env s : Bad s -> Bad (snd (decide S1 h1 p env s)).
  Proof. intros Hb. destruct (decide_sim S1 S1 h1 h1 RB HRB p env s s (conj eq_refl Hb)) as [_ [_ H]]. exact H. Qed.
  Lemma bad_interpret p env s : Bad s -> Bad (snd (interpret S1 h1 p env s)).
  Proof. intros Hb. destruct (interpret_sim S1 S1 h1 h1 RB HRB p env s s (conj eq_refl Hb)) as [_ [_ H]]. exact H. Qed.
  Lemma bad_child_eval p env s : Bad s -> Bad (snd (child_eval S1 h1 p env s)).
  Proof. intros Hb. unfold child_eval. destruct (has_key "policies" p); [apply bad_decide|apply bad_evaluate]; exact Hb. Qed.
  Lemma bad_set_go al env : forall children a s, Bad s -> Bad (snd (set_go S1 h1 al children env a s)).
  Proof.
    induction children as [|pol rest IH]; intros a s Hb; [exact Hb|]. cbn [set_go].
    destruct pol; try exact Hb.
    pose proof (bad_child_eval (VObj kvs) env s Hb) as H.
    destruct (child_eval S1 h1 (VObj kvs) env s) as [[r|w|] t]; simpl in H; try exact H.
    cbv zeta. destruct (s_broke _); [exact H|apply IH; exact H].
  Qed.

  (* ---- conditions ---- *)
  Lemma eval_leaf_simB kvs env s1 s2 :
    (forall e q, assoc "rel" kvs = Some e -> rel_prepare e env = Ok (Some q) -> Q q) -> R s1 s2 ->
    match eval_leaf S1 h1 kvs env s1, eval_leaf S2 h2 kvs env s2 with
    | Some x, Some y => simB x y
    | None, None => True
    | _, _ => False
    end.
  Proof.
    intros Hq Hr. unfold eval_leaf. destruct (assoc "rel" kvs) as [expr|].
    - destruct (rel_prepare expr env) as [[q|]| | |] eqn:Ep; try (right; split; [reflexivity|exact Hr]).
      destruct (HR q s1 s2 (Hq expr q eq_refl Ep) Hr) as [Hb|[Hb Hs]].
      + destruct (h1 q s1) as [b1 t1]. destruct (h2 q s2) as [b2 t2]. left. exact Hb.
      + destruct (h1 q s1) as [b1 t1]. destruct (h2 q s2) as [b2 t2]. simpl in *. subst. right. split; [reflexivity|exact Hs].
    - match goal with |- match (match ?x with _ => _ end) with _ => _ end => destruct x end;
        [right; split; [reflexivity|exact Hr]|exact I].
  Qed.

  Definition cond_stmt (c : value) : Prop :=
    forall env s1 s2, covers (cond_rels c) env -> R s1 s2 ->
      simB (eval_cond S1 h1 c env s1) (eval_cond S2 h2 c env s2).

  Lemma flat_cons_l {A B} (f : A -> list B) x r : incl (f x) (flat_map f (x :: r)).
  Proof. simpl. apply incl_appl, incl_refl. Qed.
  Lemma flat_cons_r {A B} (f : A -> list B) x r : incl (flat_map f r) (flat_map f (x :: r)).
  Proof. simpl. apply incl_appr, incl_refl. Qed.

  Lemma eval_all_simB subs : Forall cond_stmt subs ->
    forall env s1 s2, covers (flat_map cond_rels subs) env -> R s1 s2 ->
      simB (eval_all S1 h1 subs env s1) (eval_all S2 h2 subs env s2).
  Proof.
    induction subs as [|x r IH]; intros Hf env s1 s2 Hc Hr; [right; split; [reflexivity|exact Hr]|].
    inversion Hf as [|? ? Hx Hrest]; subst. simpl eval_all.
    pose proof (Hx env s1 s2 (covers_incl _ _ _ (flat_cons_l cond_rels x r) Hc) Hr) as Hsx.
    pose proof (bad_eval_all r env) as Hbr.
    destruct (eval_cond S1 h1 x env s1) as [r1 t1]. destruct (eval_cond S2 h2 x env s2) as [r2 t2].
    destruct Hsx as [Hb|[Hb Hs]]; simpl in Hb.
    - left. destruct r1 as [[|]| | |]; simpl; auto.
    - simpl in Hs. subst r2. destruct r1 as [[|]| | |]; try (right; split; [reflexivity|exact Hs]).
      apply IH; [assumption|exact (covers_incl _ _ _ (flat_cons_r cond_rels x r) Hc)|exact Hs].
  Qed.
  Lemma eval_any_simB subs : Forall cond_stmt subs ->
    forall env s1 s2, covers (flat_map cond_rels subs) env -> R s1 s2 ->
      simB (eval_any S1 h1 subs env s1) (eval_any S2 h2 subs env s2).
  Proof.
    induction subs as [|x r IH]; intros Hf env s1 s2 Hc Hr; [right; split; [reflexivity|exact Hr]|].
    inversion Hf as [|? ? Hx Hrest]; subst. simpl eval_any.
    pose proof (Hx env s1 s2 (covers_incl _ _ _ (flat_cons_l cond_rels x r) Hc) Hr) as Hsx.
    pose proof (bad_eval_any r env) as Hbr.
    destruct (eval_cond S1 h1 x env s1) as [r1 t1]. destruct (eval_cond S2 h2 x env s2) as [r2 t2].
    destruct Hsx as [Hb|[Hb Hs]]; simpl in Hb.
    - left. destruct r1 as [[|]| | |]; simpl; auto.
    - simpl in Hs. subst r2. destruct r1 as [[|]| | |]; try (right; split; [reflexivity|exact Hs]).
      apply IH; [assumption|exact (covers_incl _ _ _ (flat_cons_r cond_rels x r) Hc)|exact Hs].
  Qed.

  Lemma cond_simB_all : forall c,
    cond_stmt c /\ match c with VList l => Forall cond_stmt l | _ => True end.
  Proof.
    induction c as [|b|n|s|l IHl|kvs IH|a u] using value_ind';
      try (split; [intros env s1 s2 Hc Hr; right; split; [reflexivity|exact Hr]|exact I]).
    - split; [intros env s1 s2 Hc Hr; right; split; [reflexivity|exact Hr]|].
      rewrite Forall_forall in *. intros x Hx. apply (IHl x Hx).
    - split; [|exact I]. intros env s1 s2 Hc Hr. rewrite !eval_cond_unfold.
      assert (Hq : forall e q, assoc "rel" kvs = Some e -> rel_prepare e env = Ok (Some q) -> Q q).
      { intros e q He Hp. apply (Hc e q); [apply rel_in_cond_rels; exact He|exact Hp]. }
      pose proof (eval_leaf_simB kvs env s1 s2 Hq Hr) as Hl.
      destruct (eval_leaf S1 h1 kvs env s1) as [x|]; destruct (eval_leaf S2 h2 kvs env s2) as [y|];
        try contradiction; [exact Hl|].
      rewrite Forall_forall in IH.
      destruct (assoc "and" kvs) as [v|] eqn:Aa.
      { pose proof (assoc_in _ _ _ Aa) as Ain. destruct (IH _ Ain) as [_ Hv]. simpl in Hv. unfold and_of.
        destruct v; try (destruct (iter_truths _); right; split; try reflexivity; exact Hr).
        apply eval_all_simB; [assumption|exact (covers_incl _ _ _ (and_in_cond_rels _ _ Aa) Hc)|exact Hr]. }
      destruct (assoc "or" kvs) as [v|] eqn:Ao.
      { pose proof (assoc_in _ _ _ Ao) as Ain. destruct (IH _ Ain) as [_ Hv]. simpl in Hv. unfold or_of.
        destruct v; try (destruct (iter_truths _); right; split; try reflexivity; exact Hr).
        apply eval_any_simB; [assumption|exact (covers_incl _ _ _ (or_in_cond_rels _ _ Ao) Hc)|exact Hr]. }
      destruct (assoc "not" kvs) as [v|] eqn:An; [|right; split; [reflexivity|exact Hr]].
      pose proof (assoc_in _ _ _ An) as Ain. destruct (IH _ Ain) as [Hv _]. simpl in Hv. unfold not_of.
      destruct (Hv env s1 s2 (covers_incl _ _ _ (not_in_cond_rels _ _ An) Hc) Hr) as [Hb|[Hb Hs]].
      + left. destruct (eval_cond S1 h1 v env s1) as [[b| | |] t1]; exact Hb.
      + destruct (eval_cond S1 h1 v env s1) as [r1 t1]. destruct (eval_cond S2 h2 v env s2) as [r2 t2].
        simpl in *. subst r2. right. destruct r1; split; try reflexivity; exact Hs.
  Qed.

  Theorem eval_cond_simB c env s1 s2 : covers (cond_rels c) env -> R s1 s2 ->
    simB (eval_cond S1 h1 c env s1) (eval_cond S2 h2 c env s2).
  Proof. apply (proj1 (cond_simB_all c)). Qed.

  (* ---- rules, policies ---- *)
  Lemma rule_outcome_simB rule env s1 s2 : covers (rule_rels rule) env -> R s1 s2 ->
    simB (rule_outcome S1 h1 rule env s1) (rule_outcome S2 h2 rule env s2).
  Proof.
    intros Hc Hr. unfold rule_outcome. destruct rule; try (right; split; [reflexivity|exact Hr]).
    destruct (match env_action env with Some a => match_actions (VObj kvs) a | None => _ end) as [[|]| | |];
      try (right; split; [reflexivity|exact Hr]).
    destruct (match_resource _ _ _) as [[|]| | |]; try (right; split; [reflexivity|exact Hr]).
    cbv zeta. destruct (is_null _); [right; split; [reflexivity|exact Hr]|].
    destruct (eval_cond_simB (get_key "condition" (VObj kvs)) env s1 s2 Hc Hr) as [Hb|[Hb Hs]].
    - left. destruct (eval_cond S1 h1 _ env s1) as [[[|]| | |] t1]; exact Hb.
    - destruct (eval_cond S1 h1 _ env s1) as [r1 t1]. destruct (eval_cond S2 h2 _ env s2) as [r2 t2].
      simpl in *. subst r2. right. destruct r1 as [[|]| | |]; split; try reflexivity; exact Hs.
  Qed.

  Lemma loop_simB al env : forall rules a s1 s2, covers_rules rules env -> R s1 s2 ->
    simB (loop S1 h1 al rules env a s1) (loop S2 h2 al rules env a s2).
  Proof.
    induction rules as [|r rest IH]; intros a s1 s2 Hc Hr; simpl; [right; split; [reflexivity|exact Hr]|].
    assert (Hrest : covers_rules rest env) by (intros x Hx; apply Hc; now right).
    pose proof (fun a => bad_loop al rest env a) as Hbl.
    destruct (rule_outcome_simB r env s1 s2 (Hc r (or_introl eq_refl)) Hr) as [Hb|[Hb Hs]].
    - left. destruct (rule_outcome S1 h1 r env s1) as [o1 t1]. simpl in Hb.
      destruct o1 as [|reason|w|]; simpl; auto.
      destruct (rule_effect r); simpl; auto. destruct (a_broke _); simpl; auto.
    - destruct (rule_outcome S1 h1 r env s1) as [o1 t1]. destruct (rule_outcome S2 h2 r env s2) as [o2 t2].
      simpl in *. subst o2. destruct o1 as [|reason|w|]; try (right; split; [reflexivity|exact Hs]).
      + destruct (rule_effect r); [|right; split; [reflexivity|exact Hs]].
        destruct (a_broke _); [right; split; [reflexivity|exact Hs]|]. apply IH; assumption.
      + apply IH; assumption.
  Qed.

  Lemma own_rules_some p l : policy_rules p = Some l -> own_rules p = l.
  Proof. unfold own_rules. intros ->. reflexivity. Qed.

  Lemma evaluate_simB override policy env s1 s2 : covers_rules (own_rules policy) env -> R s1 s2 ->
    simB (evaluate S1 h1 override policy env s1) (evaluate S2 h2 override policy env s2).
  Proof.
    intros Hc Hr. unfold evaluate. destruct policy; try (right; split; [reflexivity|exact Hr]).
    destruct (policy_algo override (VObj kvs)); [|right; split; [reflexivity|exact Hr]].
    destruct (policy_rules (VObj kvs)) eqn:Pr; [|right; split; [reflexivity|exact Hr]].
    rewrite (own_rules_some _ _ Pr) in Hc.
    destruct (loop_simB a env l acc0 s1 s2 Hc Hr) as [Hb|[Hb Hs]].
    - left. destruct (loop S1 h1 a l env acc0 s1) as [[x|w|] t1]; simpl in *; try exact Hb.
      destruct (raw_of_acc _); exact Hb.
    - destruct (loop S1 h1 a l env acc0 s1) as [r1 t1]. destruct (loop S2 h2 a l env acc0 s2) as [r2 t2].
      simpl in *. subst r2. right. destruct r1; try (split; [reflexivity|exact Hs]).
      destruct (raw_of_acc _); split; try reflexivity; exact Hs.
  Qed.

  (* ---- nested sets ---- *)
  Definition set_stmt (ps : value) : Prop :=
    forall env s1 s2, covers_rules (all_rules ps) env -> R s1 s2 ->
      simB (decide S1 h1 ps env s1) (decide S2 h2 ps env s2).

  Lemma child_eval_simB pol env s1 s2 : set_stmt pol -> covers_rules (child_rules pol) env -> R s1 s2 ->
    simB (child_eval S1 h1 pol env s1) (child_eval S2 h2 pol env s2).
  Proof.
    intros Hp Hc Hr. unfold child_eval, child_rules in *. destruct (has_key "policies" pol).
    - apply Hp; assumption.
    - apply evaluate_simB; assumption.
  Qed.

  Lemma set_go_simB al env : forall children, Forall set_stmt children ->
    forall a s1 s2, covers_rules (flat_map child_rules children) env -> R s1 s2 ->
      simB (set_go S1 h1 al children env a s1) (set_go S2 h2 al children env a s2).
  Proof.
    induction children as [|pol rest IH]; intros Hf a s1 s2 Hc Hr; [right; split; [reflexivity|exact Hr]|].
    inversion Hf as [|? ? Hp Hrest]; subst. cbn [set_go].
    destruct pol; try (right; split; [reflexivity|exact Hr]).
    assert (Hc1 : covers_rules (child_rules (VObj kvs)) env)
      by (exact (covers_rules_incl _ _ _ (flat_cons_l child_rules (VObj kvs) rest) Hc)).
    assert (Hc2 : covers_rules (flat_map child_rules rest) env)
      by (exact (covers_rules_incl _ _ _ (flat_cons_r child_rules (VObj kvs) rest) Hc)).
    pose proof (fun a => bad_set_go al env rest a) as Hbg.
    destruct (child_eval_simB (VObj kvs) env s1 s2 Hp Hc1 Hr) as [Hb|[Hb Hs]].
    - left. destruct (child_eval S1 h1 (VObj kvs) env s1) as [[r|w|] t1]; simpl in *; try exact Hb.
      cbv zeta. destruct (s_broke _); simpl; auto.
    - destruct (child_eval S1 h1 (VObj kvs) env s1) as [r1 t1].
      destruct (child_eval S2 h2 (VObj kvs) env s2) as [r2 t2].
      simpl in Hb, Hs. subst r2. destruct r1 as [r0|w|]; try (right; split; [reflexivity|exact Hs]).
      cbv zeta. destruct (s_broke (set_step al a (pid_of (VObj kvs)) r0)); [right; split; [reflexivity|exact Hs]|].
      apply IH; assumption.
  Qed.

  Lemma set_simB_all : forall v,
    set_stmt v /\ match v with VList l => Forall set_stmt l | _ => True end.
  Proof.
    induction v as [|b|n|s|l IHl|kvs IH|a u] using value_ind';
      try (split; [intros env s1 s2 Hc Hr; right; split; [reflexivity|exact Hr]|exact I]).
    - split; [intros env s1 s2 Hc Hr; right; split; [reflexivity|exact Hr]|].
      rewrite Forall_forall in *. intros x Hx. apply (IHl x Hx).
    - split; [|exact I]. intros env s1 s2 Hc Hr. rewrite !decide_unfold_gen.
      rewrite all_rules_unfold in Hc.
      destruct (set_algo (VObj kvs)) as [al|]; [|right; split; [reflexivity|exact Hr]].
      destruct (assoc "policies" kvs) as [v|] eqn:Ap; [|right; split; [reflexivity|exact Hr]].
      destruct v; try (destruct (py_truthy _); right; split; try reflexivity; exact Hr);
        try (right; split; [reflexivity|exact Hr]).
      rewrite Forall_forall in IH. destruct (IH _ (assoc_in _ _ _ Ap)) as [_ Hch]. simpl in Hch.
      apply set_go_simB; assumption.
  Qed.

  Theorem decide_simB ps env s1 s2 : covers_rules (all_rules ps) env -> R s1 s2 ->
    simB (decide S1 h1 ps env s1) (decide S2 h2 ps env s2).
  Proof. apply (proj1 (set_simB_all ps)). Qed.

  Lemma interpret_simB policy env s1 s2 : covers_rules (all_rules policy) env -> R s1 s2 ->
    simB (interpret S1 h1 policy env s1) (interpret S2 h2 policy env s2).
  Proof.
    intros Hc Hr. unfold interpret. destruct (has_key "policies" policy) eqn:Hk; [apply decide_simB; assumption|].
    apply evaluate_simB; [|exact Hr]. exact (covers_rules_incl _ _ _ (own_in_all _ Hk) Hc).
  Qed.

  Lemma compiled_simB policy env s1 s2 : covers_rules (all_rules policy) env -> R s1 s2 ->
    simB (compiled_decide S1 h1 policy env s1) (compiled_decide S2 h2 policy env s2).
  Proof.
    intros Hc Hr. unfold compiled_decide. destruct (has_key "policies" policy) eqn:Hk; [apply decide_simB; assumption|].
    destruct (compiled_algo policy); [|right; split; [reflexivity|exact Hr]].
    destruct (policy_rules policy) eqn:Pr; [|right; split; [reflexivity|exact Hr]].
    destruct (if is_null (get_key "action" env) then Some "" else py_str (get_key "action" env));
      [|right; split; [reflexivity|exact Hr]].
    destruct (if is_null (get_key "type" (py_or (get_key "resource" env) (VObj []))) then Some None
              else option_map Some (py_str (get_key "type" (py_or (get_key "resource" env) (VObj [])))));
      [|right; split; [reflexivity|exact Hr]].
    destruct (buckets _ _ _ _ _) eqn:Bk; try (right; split; [reflexivity|exact Hr]).
    apply evaluate_simB; [|exact Hr].
    unfold own_rules. rewrite literal_rules_gen.
    apply (covers_rules_incl _ (all_rules policy)); [|exact Hc].
    eapply incl_tran; [exact (selected_rules_subset _ _ _ _ _ _ Bk)|].
    rewrite <- (own_rules_some _ _ Pr). apply own_in_all. exact Hk.
  Qed.

  Theorem guard_decide_simB policy env s1 s2 : covers_rules (all_rules policy) env -> R s1 s2 ->
    simB (guard_decide S1 h1 policy env s1) (guard_decide S2 h2 policy env s2).
  Proof.
    intros Hc Hr. unfold guard_decide. destruct (compilable policy); [|apply interpret_simB; assumption].
    destruct (compiled_simB policy env s1 s2 Hc Hr) as [Hb|[Hb Hs]].
    - left. destruct (compiled_decide S1 h1 policy env s1) as [[r|w|] t1]; simpl in *; try exact Hb.
      apply bad_interpret. exact Hb.
    - destruct (compiled_decide S1 h1 policy env s1) as [r1 t1].
      destruct (compiled_decide S2 h2 policy env s2) as [r2 t2]. simpl in *. subst r2.
      destruct r1; try (right; split; [reflexivity|exact Hs]). apply interpret_simB; assumption.
  Qed.

  Theorem guard_eval_simB oblig strict policy req resolved s1 s2 :
    (forall env, build_env strict req resolved = Some env -> covers_rules (all_rules policy) env) ->
    R s1 s2 ->
    simB (guard_eval S1 h1 oblig strict policy req resolved s1) (guard_eval S2 h2 oblig strict policy req resolved s2).
  Proof.
    intros Hc Hr. unfold guard_eval. destruct (build_env strict req resolved) as [env|]; [|right; split; [reflexivity|exact Hr]].
    destruct (guard_decide_simB policy env s1 s2 (Hc env eq_refl) Hr) as [Hb|[Hb Hs]].
    - left. destruct (guard_decide S1 h1 policy env s1) as [[r|w|] t1]; exact Hb.
    - destruct (guard_decide S1 h1 policy env s1) as [r1 t1]. destruct (guard_decide S2 h2 policy env s2) as [r2 t2].
      simpl in *. subst r2. right. destruct r1; split; try reflexivity; exact Hs.
  Qed.
End Gen.

(* =====================================================================================
   Part 2: the frame handler
   ===================================================================================== *)
Lemma rkey_eqb_eq a b : rkey_eqb a b = true <-> a = b.
Proof.
  destruct a as [[[s1 r1] o1] h1]. destruct b as [[[s2 r2] o2] h2]. unfold rkey_eqb.
  rewrite !andb_true_iff, !String.eqb_eq. split.
  - intros [[[-> ->] ->] ->]. reflexivity.
  - intros H. inversion H. auto.
Qed.
Lemma rkey_eqb_refl a : rkey_eqb a a = true.
Proof. apply rkey_eqb_eq. reflexivity. Qed.

Lemma memo_get_in k m b : memo_get k m = Some b -> In (k, b) m.
Proof.
  induction m as [|[k' b'] r IH]; simpl; [discriminate|].
  destruct (rkey_eqb k k') eqn:E.
  - apply rkey_eqb_eq in E. subst. intros H. inversion H. now left.
  - intros H. right. apply IH. exact H.
Qed.
Lemma memo_get_none k m : memo_get k m = None <-> ~ In k (map fst m).
Proof.
  induction m as [|[k' b'] r IH]; simpl; [tauto|].
  destruct (rkey_eqb k k') eqn:E.
  - apply rkey_eqb_eq in E. subst. split; [discriminate|]. intros H. exfalso. apply H. now left.
  - rewrite IH. split.
    + intros H [H1|H1]; [|tauto]. subst. rewrite rkey_eqb_refl in E. discriminate.
    + intros H H1. apply H. now right.
Qed.

Lemma pair_eq {A B} (x y : A * B) : fst x = fst y -> snd x = snd y -> x = y.
Proof. destruct x, y. simpl. intros -> ->. reflexivity. Qed.

Section FrameProofs.
  Variable ctx_hash : value -> string.
  Notation key_of := (key_of ctx_hash).
  Notation relh_frame := (relh_frame ctx_hash).
  Notation decide_rel := (decide_rel ctx_hash).

  (* ---------- the handler, case by case ---------- *)
  Lemma relh_none mo q st : relh_frame mo None q st = (false, st).
  Proof. reflexivity. Qed.
  Lemma relh_hit o q st b : memo_get (key_of q) (f_memo st) = Some b ->
    relh_frame true (Some o) q st = (b, st).
  Proof. intros H. unfold RelCond.relh_frame. rewrite H. reflexivity. Qed.
  Lemma relh_miss o q st : memo_get (key_of q) (f_memo st) = None ->
    relh_frame true (Some o) q st =
    (answer o q, {| f_memo := (key_of q, answer o q) :: f_memo st; f_log := (f_log st ++ [q])%list |}).
  Proof. intros H. unfold RelCond.relh_frame. rewrite H. reflexivity. Qed.

  (* raised / timed out: false, and that False is memoised like any other answer *)
  Lemma raise_is_false o q : o q = None -> answer o q = false.
  Proof. unfold answer. intros ->. reflexivity. Qed.
  Lemma raise_memoised o q st : o q = None -> memo_get (key_of q) (f_memo st) = None ->
    relh_frame true (Some o) q st =
    (false, {| f_memo := (key_of q, false) :: f_memo st; f_log := (f_log st ++ [q])%list |}).
  Proof. intros Ho Hm. rewrite (relh_miss _ _ _ Hm), (raise_is_false _ _ Ho). reflexivity. Qed.
  Lemma nonbool_is_truthiness o q v : o q = Some v -> answer o q = py_truthy v.
  Proof. unfold answer. intros ->. reflexivity. Qed.

  (* ---------- the invariant of a frame inside one decision ---------- *)
  Record frame_ok (o : oracle) (st : frame) : Prop := {
    fo_keys : forall k, In k (map fst (f_memo st)) <-> In k (map key_of (f_log st));
    fo_nodup : NoDup (map key_of (f_log st));
    fo_sound : forall k b, In (k, b) (f_memo st) ->
               exists q, In q (f_log st) /\ key_of q = k /\ answer o q = b
  }.

  Lemma frame_ok_0 o : frame_ok o frame0.
  Proof. split; simpl; [tauto|constructor|intros k b []]. Qed.

  Lemma nodup_snoc {A} (l : list A) x : NoDup l -> ~ In x l -> NoDup (l ++ [x]).
  Proof.
    intros Hn Hx. induction l as [|y r IH]; simpl; [constructor; [intros []|constructor]|].
    inversion Hn; subst. constructor.
    - rewrite in_app_iff. simpl. intros [H|[H|[]]]; [tauto|]. subst. apply Hx. now left.
    - apply IH; [assumption|]. intros H. apply Hx. now right.
  Qed.

  Lemma frame_ok_step o q st : frame_ok o st -> frame_ok o (snd (relh_frame true (Some o) q st)).
  Proof.
    intros [Hk Hn Hs]. destruct (memo_get (key_of q) (f_memo st)) as [b|] eqn:E.
    - rewrite (relh_hit _ _ _ _ E). split; assumption.
    - rewrite (relh_miss _ _ _ E). simpl.
      assert (Hnot : ~ In (key_of q) (map key_of (f_log st))) by (rewrite <- Hk; apply memo_get_none; exact E).
      split; simpl.
      + intros k. rewrite map_app, in_app_iff. simpl. rewrite Hk. tauto.
      + rewrite map_app. simpl. apply nodup_snoc; assumption.
      + intros k b [H|H].
        * inversion H; subst. exists q. rewrite in_app_iff. simpl. tauto.
        * destruct (Hs k b H) as [q' [H1 H2]]. exists q'. rewrite in_app_iff. tauto.
  Qed.

  (* the invariant holds at every point of every evaluation: lifted by ParamProofs *)
  Lemma frame_ok_lift o :
    forall q s1 s2, (s1 = s2 /\ frame_ok o s1) ->
      fst (relh_frame true (Some o) q s1) = fst (relh_frame true (Some o) q s2) /\
      (snd (relh_frame true (Some o) q s1) = snd (relh_frame true (Some o) q s2) /\
       frame_ok o (snd (relh_frame true (Some o) q s1))).
  Proof. intros q s1 s2 [-> H]. split; [reflexivity|split; [reflexivity|apply frame_ok_step; exact H]]. Qed.

  Theorem frame_ok_cond o c env st : frame_ok o st ->
    frame_ok o (snd (eval_cond frame (relh_frame true (Some o)) c env st)).
  Proof.
    intros H. destruct (eval_cond_sim _ _ _ _ _ (frame_ok_lift o) c env st st (conj eq_refl H)) as [_ [_ H']]. exact H'.
  Qed.
  Theorem frame_ok_guard_eval o oblig strict policy req resolved st : frame_ok o st ->
    frame_ok o (snd (guard_eval frame (relh_frame true (Some o)) oblig strict policy req resolved st)).
  Proof.
    intros H. destruct (guard_eval_sim _ _ _ _ _ (frame_ok_lift o) oblig strict policy req resolved st st (conj eq_refl H))
      as [_ [_ H']]. exact H'.
  Qed.

  (* ---------- no checker: nothing is called, every rel node is false ---------- *)
  Theorem no_checker_inert mo oblig strict policy req resolved st :
    guard_eval frame (relh_frame mo None) oblig strict policy req resolved st =
    (fst (guard_eval unit (relh_pure (fun _ => false)) oblig strict policy req resolved tt), st).
  Proof.
    pose proof (guard_eval_sim frame unit (relh_frame mo None) (relh_pure (fun _ => false)) (fun s _ => s = st)) as H.
    specialize (H (fun q s1 s2 Hs => conj eq_refl Hs) oblig strict policy req resolved st tt eq_refl).
    destruct H as [H1 H2]. apply pair_eq; simpl; assumption.
  Qed.

  (* ---------- at most one lookup per key in a whole decision ---------- *)
  Theorem at_most_once chk oblig strict policy req resolved :
    NoDup (map key_of (f_log (snd (decide_rel chk oblig strict policy req resolved)))).
  Proof.
    unfold RelCond.decide_rel. destruct chk as [o|].
    - apply fo_nodup with (o := o). apply frame_ok_guard_eval. apply frame_ok_0.
    - rewrite no_checker_inert. simpl. constructor.
  Qed.

  (* ---------- memoisation is transparent for a checker that is a function of the key ---------- *)
  Definition respects_key (o : oracle) : Prop :=
    forall q q', key_of q = key_of q' -> answer o q = answer o q'.

  Definition memo_sound (o : oracle) (st : frame) : Prop :=
    forall k b, In (k, b) (f_memo st) -> forall q, key_of q = k -> answer o q = b.

  Lemma memo_pure_lift o : respects_key o ->
    forall q s1 (s2 : unit), memo_sound o s1 ->
      fst (relh_frame true (Some o) q s1) = fst (relh_pure (answer o) q s2) /\
      memo_sound o (snd (relh_frame true (Some o) q s1)).
  Proof.
    intros Hk q s1 s2 Hm. destruct (memo_get (key_of q) (f_memo s1)) as [b|] eqn:E.
    - rewrite (relh_hit _ _ _ _ E). simpl. split; [|exact Hm].
      symmetry. apply (Hm _ _ (memo_get_in _ _ _ E)). reflexivity.
    - rewrite (relh_miss _ _ _ E). simpl. split; [reflexivity|].
      intros k b [H|H] q' Hq'; [|exact (Hm k b H q' Hq')]. injection H as H1 H2. subst b. apply Hk. congruence.
  Qed.

  Theorem memo_transparent o oblig strict policy req resolved : respects_key o ->
    fst (decide_rel (Some o) oblig strict policy req resolved) =
    fst (guard_eval unit (relh_pure (answer o)) oblig strict policy req resolved tt).
  Proof.
    intros Hk. unfold RelCond.decide_rel.
    destruct (guard_eval_sim frame unit _ _ (fun s _ => memo_sound o s) (memo_pure_lift o Hk)
                oblig strict policy req resolved frame0 tt) as [H _]; [intros k b []|exact H].
  Qed.

  (* the unmemoised evaluation (every rel node asks) decides like the plain oracle semantics *)
  Theorem direct_is_pure o oblig strict policy req resolved log :
    fst (guard_eval (list rel_query) (relh_direct (Some o)) oblig strict policy req resolved log) =
    fst (guard_eval unit (relh_pure (answer o)) oblig strict policy req resolved tt).
  Proof.
    destruct (guard_eval_sim (list rel_query) unit (relh_direct (Some o)) (relh_pure (answer o)) (fun _ _ => True)
                (fun q s1 s2 _ => conj eq_refl I) oblig strict policy req resolved log tt I) as [H _]. exact H.
  Qed.

  Theorem memo_eq_direct o oblig strict policy req resolved : respects_key o ->
    fst (decide_rel (Some o) oblig strict policy req resolved) =
    fst (guard_eval (list rel_query) (relh_direct (Some o)) oblig strict policy req resolved []).
  Proof. intros Hk. rewrite direct_is_pure. apply memo_transparent. exact Hk. Qed.

  (* memo switched off (REL_LOCAL_CACHE not a dict, i.e. outside a Guard decision): same decisions *)
  Theorem memo_off_same o oblig strict policy req resolved : respects_key o ->
    fst (decide_rel (Some o) oblig strict policy req resolved) =
    fst (guard_eval frame (relh_frame false (Some o)) oblig strict policy req resolved frame0).
  Proof.
    intros Hk. rewrite (memo_transparent _ _ _ _ _ _ Hk). symmetry.
    destruct (guard_eval_sim frame unit (relh_frame false (Some o)) (relh_pure (answer o)) (fun _ _ => True)
                (fun q s1 s2 _ => conj eq_refl I) oblig strict policy req resolved frame0 tt I) as [H _]. exact H.
  Qed.

  (* ---------- decisions depend on the oracle only through its observable answers ---------- *)
  Theorem decide_rel_ext o1 o2 oblig strict policy req resolved :
    (forall q, answer o1 q = answer o2 q) ->
    decide_rel (Some o1) oblig strict policy req resolved = decide_rel (Some o2) oblig strict policy req resolved.
  Proof.
    intros He. unfold RelCond.decide_rel.
    destruct (guard_eval_sim frame frame (relh_frame true (Some o1)) (relh_frame true (Some o2)) eq) with
      (oblig := oblig) (strict := strict) (policy := policy) (req := req) (resolved := resolved)
      (s1 := frame0) (s2 := frame0) as [H1 H2]; [|reflexivity|apply pair_eq; assumption].
    intros q s1 s2 <-. unfold RelCond.relh_frame. rewrite He.
    destruct (memo_get (key_of q) (f_memo s1)); simpl; split; reflexivity.
  Qed.

  (* ---------- every call is a canonical query of a rel node of the policy ---------- *)
  Definition canonical_query (strict : bool) (policy req : value) (resolved : option value) (q : rel_query) : Prop :=
    exists env rule e,
      build_env strict req resolved = Some env /\ In rule (all_rules policy) /\
      In e (rule_rels rule) /\ rel_prepare e env = Ok (Some q).

  Lemma canonical_covers strict policy req resolved env :
    build_env strict req resolved = Some env ->
    covers_rules (canonical_query strict policy req resolved) (all_rules policy) env.
  Proof. intros Hb rule Hr e q He Hp. exists env, rule, e. tauto. Qed.

  Theorem calls_canonical chk oblig strict policy req resolved q :
    In q (f_log (snd (decide_rel chk oblig strict policy req resolved))) ->
    canonical_query strict policy req resolved q.
  Proof.
    unfold RelCond.decide_rel.
    pose (Rl := fun (s1 s2 : frame) => s1 = s2 /\ forall q, In q (f_log s1) -> canonical_query strict policy req resolved q).
    destruct (guard_eval_simB frame frame (relh_frame true chk) (relh_frame true chk) Rl (fun _ => False)
                (canonical_query strict policy req resolved)) with
      (oblig := oblig) (strict := strict) (policy := policy) (req := req) (resolved := resolved)
      (s1 := frame0) (s2 := frame0) as [[]|[_ [_ H]]].
    - intros q0 s []. 
    - intros q0 s1 s2 Hq [<- Hl]. right. split; [reflexivity|split; [reflexivity|]].
      destruct chk as [o|]; [|exact Hl].
      destruct (memo_get (key_of q0) (f_memo s1)) as [b|] eqn:E.
      + rewrite (relh_hit _ _ _ _ E). exact Hl.
      + rewrite (relh_miss _ _ _ E). simpl. intros q1. rewrite in_app_iff. simpl.
        intros [H1|[H1|[]]]; [apply Hl; exact H1|subst; exact Hq].
    - intros env Hb. apply canonical_covers. exact Hb.
    - split; [reflexivity|intros q0 []].
    - intros Hin. apply H. exact Hin.
  Qed.

  (* ---------- a rel node is true only through an affirmed lookup with its own key ---------- *)
  Definition affirmed (o : oracle) (q : rel_query) : Prop := exists v, o q = Some v /\ py_truthy v = true.
  Lemma answer_true o q : answer o q = true <-> affirmed o q.
  Proof.
    unfold answer, affirmed. destruct (o q) as [v|]; split.
    - intros H. exists v. tauto.
    - intros [v' [H1 H2]]. inversion H1; subst. exact H2.
    - discriminate.
    - intros [v' [H1 _]]. discriminate.
  Qed.

  Theorem handler_true_affirmed o q st b st' : frame_ok o st ->
    relh_frame true (Some o) q st = (b, st') ->
    (b = true -> exists q', In q' (f_log st') /\ key_of q' = key_of q /\ affirmed o q') /\
    (b = false -> exists q', In q' (f_log st') /\ key_of q' = key_of q /\ ~ affirmed o q').
  Proof.
    intros Hok Hr. destruct (memo_get (key_of q) (f_memo st)) as [b0|] eqn:E.
    - rewrite (relh_hit _ _ _ _ E) in Hr. inversion Hr; subst.
      destruct (fo_sound _ _ Hok _ _ (memo_get_in _ _ _ E)) as [q' [H1 [H2 H3]]].
      split; intros ->; exists q'; (split; [exact H1|split; [exact H2|]]).
      + apply answer_true. exact H3.
      + rewrite <- answer_true. rewrite H3. discriminate.
    - rewrite (relh_miss _ _ _ E) in Hr. inversion Hr; subst. simpl.
      split; intros Hb; exists q; (split; [rewrite in_app_iff; simpl; tauto|split; [reflexivity|]]).
      + apply answer_true. exact Hb.
      + rewrite <- answer_true. rewrite Hb. discriminate.
  Qed.

  Theorem rel_node_true_affirmed o kvs expr env st st' : frame_ok o st ->
    assoc "rel" kvs = Some expr ->
    eval_cond frame (relh_frame true (Some o)) (VObj kvs) env st = (Ok true, st') ->
    exists q q', rel_prepare expr env = Ok (Some q) /\
                 In q' (f_log st') /\ key_of q' = key_of q /\ affirmed o q'.
  Proof.
    intros Hok Ha He. rewrite eval_cond_unfold in He. unfold eval_leaf in He. rewrite Ha in He.
    destruct (rel_prepare expr env) as [[q|]| | |] eqn:Ep; try discriminate.
    destruct (relh_frame true (Some o) q st) as [b t] eqn:Eh. inversion He; subst.
    destruct (handler_true_affirmed _ _ _ _ _ Hok Eh) as [H _]. destruct (H eq_refl) as [q' Hq'].
    exists q, q'. tauto.
  Qed.

  (* with a collision-free context hash (up to any equivalence E the hash is injective for) the
     affirmed call is the node's own canonical triple with an E-equal context *)
  Theorem rel_node_true_exact (E : value -> value -> Prop) o kvs expr env st st' :
    (forall a b, ctx_hash a = ctx_hash b -> E a b) ->
    frame_ok o st -> assoc "rel" kvs = Some expr ->
    eval_cond frame (relh_frame true (Some o)) (VObj kvs) env st = (Ok true, st') ->
    exists q q', rel_prepare expr env = Ok (Some q) /\ In q' (f_log st') /\ affirmed o q' /\
                 rq_subject q' = rq_subject q /\ rq_relation q' = rq_relation q /\
                 rq_resource q' = rq_resource q /\ E (rq_ctx q') (rq_ctx q).
  Proof.
    intros Hinj Hok Ha He. destruct (rel_node_true_affirmed _ _ _ _ _ _ Hok Ha He) as [q [q' [H1 [H2 [H3 H4]]]]].
    exists q, q'. unfold RelCond.key_of in H3. inversion H3. repeat split; auto.
  Qed.

  (* a hash collision between two different contexts does serve a wrong answer *)
  Theorem collision_serves_memo o q1 q2 :
    key_of q1 = key_of q2 ->
    relh_frame true (Some o) q2 (snd (relh_frame true (Some o) q1 frame0)) =
    (answer o q1, snd (relh_frame true (Some o) q1 frame0)).
  Proof.
    intros Hk. rewrite (relh_miss o q1 frame0 eq_refl). apply relh_hit. cbn [snd f_memo memo_get].
    rewrite Hk. rewrite rkey_eqb_refl. reflexivity.
  Qed.

  (* ---------- fail closed, decision level ---------- *)
  Theorem no_checker_decision oblig strict policy req resolved :
    decide_rel None oblig strict policy req resolved =
    (fst (guard_eval unit (relh_pure (fun _ => false)) oblig strict policy req resolved tt), frame0).
  Proof. apply no_checker_inert. Qed.

  Theorem never_affirming_decision o oblig strict policy req resolved :
    (forall q, ~ affirmed o q) ->
    fst (decide_rel (Some o) oblig strict policy req resolved) =
    fst (guard_eval unit (relh_pure (fun _ => false)) oblig strict policy req resolved tt).
  Proof.
    intros Hn. rewrite memo_transparent.
    - destruct (guard_eval_sim unit unit (relh_pure (answer o)) (relh_pure (fun _ => false)) (fun _ _ => True)) with
        (oblig := oblig) (strict := strict) (policy := policy) (req := req) (resolved := resolved)
        (s1 := tt) (s2 := tt) as [H _]; [|exact I|exact H].
      intros q s1 s2 _. split; [|exact I]. simpl. destruct (answer o q) eqn:Ea; [|reflexivity].
      exfalso. apply (Hn q). apply answer_true. exact Ea.
    - intros q q' _. destruct (answer o q) eqn:E1; destruct (answer o q') eqn:E2; try reflexivity; exfalso.
      + apply (Hn q). apply answer_true. exact E1.
      + apply (Hn q'). apply answer_true. exact E2.
  Qed.

  (* ---------- a decision differs from the no-checker decision only through an affirmed call ---------- *)
  Theorem differs_only_through_affirmed o oblig strict policy req resolved :
    (exists q, In q (f_log (snd (decide_rel (Some o) oblig strict policy req resolved))) /\ affirmed o q) \/
    fst (decide_rel (Some o) oblig strict policy req resolved) =
    fst (guard_eval unit (relh_pure (fun _ => false)) oblig strict policy req resolved tt).
  Proof.
    unfold RelCond.decide_rel.
    pose (Bad := fun s : frame => exists q, In q (f_log s) /\ affirmed o q).
    pose (Rl := fun (s : frame) (_ : unit) => forall k b, In (k, b) (f_memo s) -> b = false).
    destruct (guard_eval_simB frame unit (relh_frame true (Some o)) (relh_pure (fun _ => false)) Rl Bad (fun _ => True)) with
      (oblig := oblig) (strict := strict) (policy := policy) (req := req) (resolved := resolved)
      (s1 := frame0) (s2 := tt) as [Hb|[H _]].
    - intros q s [q0 [H1 H2]]. exists q0. split; [|exact H2].
      destruct (memo_get (key_of q) (f_memo s)) as [b|] eqn:E.
      + rewrite (relh_hit _ _ _ _ E). exact H1.
      + rewrite (relh_miss _ _ _ E). simpl. rewrite in_app_iff. tauto.
    - intros q s1 s2 _ Hm. destruct (memo_get (key_of q) (f_memo s1)) as [b|] eqn:E.
      + rewrite (relh_hit _ _ _ _ E). right. simpl. split; [exact (Hm _ _ (memo_get_in _ _ _ E))|exact Hm].
      + rewrite (relh_miss _ _ _ E). simpl. destruct (answer o q) eqn:Ea.
        * left. unfold Bad. exists q. simpl. rewrite in_app_iff. simpl. split; [tauto|apply answer_true; exact Ea].
        * right. split; [reflexivity|]. unfold Rl. simpl. intros k b [H|H]; [inversion H; reflexivity|exact (Hm k b H)].
    - intros env _ rule _ e q _ _. exact I.
    - intros k b [].
    - left. exact Hb.
    - right. exact H.
  Qed.

  Theorem permit_only_through_affirmed o oblig strict policy req resolved d fr :
    decide_rel (Some o) oblig strict policy req resolved = (GDecision d, fr) ->
    d_allowed d = true ->
    (forall d0, fst (guard_eval unit (relh_pure (fun _ => false)) oblig strict policy req resolved tt) = GDecision d0 ->
                d_allowed d0 = false) ->
    exists q, In q (f_log fr) /\ affirmed o q /\ canonical_query strict policy req resolved q.
  Proof.
    intros Hd Ha Hno. destruct (differs_only_through_affirmed o oblig strict policy req resolved) as [[q [H1 H2]]|H].
    - exists q. rewrite Hd in H1. simpl in H1. split; [exact H1|split; [exact H2|]].
      apply (calls_canonical (Some o) oblig). rewrite Hd. exact H1.
    - rewrite Hd in H. simpl in H. rewrite (Hno d (eq_sym H)) in Ha. discriminate.
  Qed.

  (* ---------- sync and async checkers ---------- *)
  Theorem sync_async_same timeout (c_sync c_async : checker) oblig strict policy req resolved :
    (forall q, exists r d, c_sync q = Sync r /\ c_async q = Async d r /\ d < timeout) ->
    decide_rel (Some (oracle_of timeout c_sync)) oblig strict policy req resolved =
    decide_rel (Some (oracle_of timeout c_async)) oblig strict policy req resolved.
  Proof.
    intros H. apply decide_rel_ext. intros q. unfold answer, oracle_of.
    destruct (H q) as [r [d [-> [-> Hd]]]]. simpl. apply Nat.ltb_lt in Hd. rewrite Hd. reflexivity.
  Qed.

  (* an awaitable that is not done within the time-out counts as a raising checker *)
  Theorem timeout_is_raise timeout (c c' : checker) oblig strict policy req resolved :
    (forall q, (exists d r, c q = Async d r /\ timeout <= d) /\ c' q = Sync None) ->
    decide_rel (Some (oracle_of timeout c)) oblig strict policy req resolved =
    decide_rel (Some (oracle_of timeout c')) oblig strict policy req resolved.
  Proof.
    intros H. apply decide_rel_ext. intros q. unfold answer, oracle_of.
    destruct (H q) as [[d [r [-> Hd]]] ->]. simpl. apply Nat.ltb_ge in Hd. rewrite Hd. reflexivity.
  Qed.

  (* ---------- every decision of a sequence is the decision from an empty frame ---------- *)
  Theorem run_seq_nth oblig strict policy resolved steps k :
    nth_error (run_seq ctx_hash oblig strict policy resolved steps) k =
    option_map (fun step => let r := decide_rel (fst step) oblig strict policy (snd step) resolved in
                            (fst r, f_log (snd r)))
               (nth_error steps k).
  Proof.
    revert k. induction steps as [|s rest IH]; intros [|k]; try reflexivity.
    - simpl. destruct (RelCond.decide_rel ctx_hash (fst s) oblig strict policy (snd s) resolved). reflexivity.
    - simpl. apply IH.
  Qed.

  Theorem fresh_per_decision oblig strict policy resolved steps steps' k :
    nth_error steps k = nth_error steps' k ->
    nth_error (run_seq ctx_hash oblig strict policy resolved steps) k =
    nth_error (run_seq ctx_hash oblig strict policy resolved steps') k.
  Proof. intros H. rewrite !run_seq_nth, H. reflexivity. Qed.
End FrameProofs.

(* ---------- the memo only removes repeated lookups ---------- *)
Section Dedup.
  Variable ctx_hash : value -> string.
  Notation key_of := (key_of ctx_hash).

  Definition memb (k : rkey) (l : list rkey) : bool := existsb (rkey_eqb k) l.
  Lemma memb_in k l : memb k l = true <-> In k l.
  Proof.
    unfold memb. rewrite existsb_exists. split.
    - intros [x [H1 H2]]. apply rkey_eqb_eq in H2. subst. exact H1.
    - intros H. exists k. split; [exact H|apply rkey_eqb_refl].
  Qed.

  (* keep the first query of every key *)
  Fixpoint dedup_keys (seen : list rkey) (l : list rel_query) : list rel_query :=
    match l with
    | [] => []
    | q :: r => if memb (key_of q) seen then dedup_keys seen r else q :: dedup_keys (key_of q :: seen) r
    end.

  Lemma dedup_snoc : forall l seen q,
    dedup_keys seen (l ++ [q]) =
    (dedup_keys seen l ++ (if memb (key_of q) (seen ++ map key_of l) then [] else [q]))%list.
  Proof.
    induction l as [|x r IH]; intros seen q; simpl.
    - rewrite app_nil_r. destruct (memb (key_of q) seen); reflexivity.
    - destruct (memb (key_of x) seen) eqn:Ex.
      + assert (E : memb (key_of q) (seen ++ map key_of r) = memb (key_of q) (seen ++ key_of x :: map key_of r)).
        { apply eq_true_iff_eq. rewrite !memb_in, !in_app_iff. simpl. apply memb_in in Ex.
          split; [tauto|]. intros [H|[H|H]]; [tauto| |tauto]. left. rewrite <- H. exact Ex. }
        rewrite IH, E. reflexivity.
      + assert (E : memb (key_of q) ((key_of x :: seen) ++ map key_of r) = memb (key_of q) (seen ++ key_of x :: map key_of r)).
        { apply eq_true_iff_eq. rewrite !memb_in. rewrite <- app_comm_cons. simpl. rewrite !in_app_iff. simpl. tauto. }
        rewrite IH, E. reflexivity.
  Qed.

  Theorem memo_log_is_dedup o oblig strict policy req resolved :
    respects_key ctx_hash o ->
    let m := decide_rel ctx_hash (Some o) oblig strict policy req resolved in
    let d := guard_eval (list rel_query) (relh_direct (Some o)) oblig strict policy req resolved [] in
    fst m = fst d /\ f_log (snd m) = dedup_keys [] (snd d).
  Proof.
    intros Hk. cbv zeta. unfold RelCond.decide_rel.
    pose (Rl := fun (s1 : frame) (s2 : list rel_query) =>
                  frame_ok ctx_hash o s1 /\ memo_sound ctx_hash o s1 /\ f_log s1 = dedup_keys [] s2 /\
                  (forall k, In k (map key_of s2) <-> In k (map key_of (f_log s1)))).
    destruct (guard_eval_sim frame (list rel_query) (relh_frame ctx_hash true (Some o)) (relh_direct (Some o)) Rl) with
      (oblig := oblig) (strict := strict) (policy := policy) (req := req) (resolved := resolved)
      (s1 := frame0) (s2 := @nil rel_query) as [H1 [_ [_ [H2 _]]]].
    - intros q s1 s2 [Hok [Hm [Hl Hks]]].
      destruct (memo_pure_lift ctx_hash o Hk q s1 tt Hm) as [Hans Hm'].
      pose proof (frame_ok_step ctx_hash o q s1 Hok) as Hok'.
      destruct (memo_get (key_of q) (f_memo s1)) as [b|] eqn:E.
      + rewrite (relh_hit ctx_hash _ _ _ _ E) in *. simpl in *. split; [exact Hans|].
        assert (Hin : In (key_of q) (map key_of s2)).
        { apply Hks. apply (fo_keys _ _ _ Hok). apply in_map_iff. exists (key_of q, b). split; [reflexivity|].
          apply memo_get_in. exact E. }
        split; [exact Hok'|]. split; [exact Hm'|]. split.
        * rewrite dedup_snoc. simpl. apply memb_in in Hin. rewrite Hin, app_nil_r. exact Hl.
        * intros k. simpl. rewrite map_app, in_app_iff. simpl. rewrite <- Hks. split; [|tauto].
          intros [H|[H|[]]]; [exact H|]. subst. exact Hin.
      + rewrite (relh_miss ctx_hash _ _ _ E) in *. simpl in *. split; [exact Hans|].
        assert (Hnot : ~ In (key_of q) (map key_of s2)).
        { rewrite Hks, <- (fo_keys _ _ _ Hok). apply memo_get_none. exact E. }
        split; [exact Hok'|]. split; [exact Hm'|]. split.
        * rewrite dedup_snoc. simpl. destruct (memb (key_of q) (map key_of s2)) eqn:Em.
          { exfalso. apply Hnot. apply memb_in. exact Em. }
          rewrite Hl. reflexivity.
        * intros k. simpl. rewrite !map_app, !in_app_iff. simpl. rewrite Hks. tauto.
    - split; [apply frame_ok_0|]. split; [intros k b []|]. split; [reflexivity|simpl; tauto].
    - split; [exact H1|exact H2].
  Qed.
End Dedup.

(* ---------- frames of concurrently running evaluations do not see each other ---------- *)
(* an evaluation whose handler works on its own component of a joint state: what contextvars give *)
Definition lift_left {S1 S2 : Type} (h : rel_query -> S1 -> bool * S1) (q : rel_query) (st : S1 * S2) : bool * (S1 * S2) :=
  let '(b, s1') := h q (fst st) in (b, (s1', snd st)).
Definition lift_right {S1 S2 : Type} (h : rel_query -> S2 -> bool * S2) (q : rel_query) (st : S1 * S2) : bool * (S1 * S2) :=
  let '(b, s2') := h q (snd st) in (b, (fst st, s2')).

Theorem frames_independent_left (S1 S2 : Type) (h : rel_query -> S1 -> bool * S1) oblig strict policy req resolved s1 (s2 : S2) :
  guard_eval (S1 * S2) (lift_left h) oblig strict policy req resolved (s1, s2) =
  (fst (guard_eval S1 h oblig strict policy req resolved s1),
   (snd (guard_eval S1 h oblig strict policy req resolved s1), s2)).
Proof.
  destruct (guard_eval_sim (S1 * S2) S1 (lift_left h) h (fun st s => fst st = s /\ snd st = s2)) with
    (oblig := oblig) (strict := strict) (policy := policy) (req := req) (resolved := resolved)
    (s1 := (s1, s2)) (s2 := s1) as [H1 [H2 H3]].
  - intros q st s [<- Hs]. unfold lift_left. destruct (h q (fst st)) as [b t]. simpl. auto.
  - split; reflexivity.
  - apply pair_eq; [exact H1|]. apply pair_eq; assumption.
Qed.
Theorem frames_independent_right (S1 S2 : Type) (h : rel_query -> S2 -> bool * S2) oblig strict policy req resolved (s1 : S1) s2 :
  guard_eval (S1 * S2) (lift_right h) oblig strict policy req resolved (s1, s2) =
  (fst (guard_eval S2 h oblig strict policy req resolved s2),
   (s1, snd (guard_eval S2 h oblig strict policy req resolved s2))).
Proof.
  destruct (guard_eval_sim (S1 * S2) S2 (lift_right h) h (fun st s => snd st = s /\ fst st = s1)) with
    (oblig := oblig) (strict := strict) (policy := policy) (req := req) (resolved := resolved)
    (s1 := (s1, s2)) (s2 := s2) as [H1 [H2 H3]].
  - intros q st s [<- Hs]. unfold lift_right. destruct (h q (snd st)) as [b t]. simpl. auto.
  - split; reflexivity.
  - apply pair_eq; [exact H1|]. apply pair_eq; simpl; [exact H3|exact H2].
Qed.

(* two evaluations on two engines (own checker, own policy, own request), each on its own frame of
   a joint state, in either order: each gets the decision and the call log it gets alone *)
Theorem two_engines_isolated ctx_hash chkA chkB obA obB strA strB polA polB reqA reqB resA resB :
  let hA := relh_frame ctx_hash true chkA in
  let hB := relh_frame ctx_hash true chkB in
  let a := decide_rel ctx_hash chkA obA strA polA reqA resA in
  let b := decide_rel ctx_hash chkB obB strB polB reqB resB in
  (let '(ra, st) := guard_eval (frame * frame) (lift_left hA) obA strA polA reqA resA (frame0, frame0) in
   let '(rb, st') := guard_eval (frame * frame) (lift_right hB) obB strB polB reqB resB st in
   (ra, rb, st')) = (fst a, fst b, (snd a, snd b)) /\
  (let '(rb, st) := guard_eval (frame * frame) (lift_right hB) obB strB polB reqB resB (frame0, frame0) in
   let '(ra, st') := guard_eval (frame * frame) (lift_left hA) obA strA polA reqA resA st in
   (ra, rb, st')) = (fst a, fst b, (snd a, snd b)).
Proof.
  cbv zeta. unfold RelCond.decide_rel. split.
  - rewrite frames_independent_left, frames_independent_right. reflexivity.
  - rewrite frames_independent_right, frames_independent_left. reflexivity.
Qed.

(* ---------- the decision depends on the oracle only through the canonical queries ---------- *)
Theorem pure_depends_on_canonical rel1 rel2 oblig strict policy req resolved :
  (forall env rule e q, build_env strict req resolved = Some env -> In rule (all_rules policy) ->
     In e (rule_rels rule) -> rel_prepare e env = Ok (Some q) -> rel1 q = rel2 q) ->
  fst (guard_eval unit (relh_pure rel1) oblig strict policy req resolved tt) =
  fst (guard_eval unit (relh_pure rel2) oblig strict policy req resolved tt).
Proof.
  intros H.
  destruct (guard_eval_simB unit unit (relh_pure rel1) (relh_pure rel2) (fun _ _ => True) (fun _ => False)
              (fun q => rel1 q = rel2 q)) with
    (oblig := oblig) (strict := strict) (policy := policy) (req := req) (resolved := resolved)
    (s1 := tt) (s2 := tt) as [[]|[H1 _]]; auto.
  intros env Hb rule Hr e q He Hp. exact (H env rule e q Hb Hr He Hp).
Qed.

(* =====================================================================================
   Part 3: the canonical triple and the merged context, spelled out
   ===================================================================================== *)
(* context._rebac (or {}) updated with the condition's ctx (when truthy) *)
Definition merged_ctx (env lc : value) : res value :=
  match py_or (get_key "context" env) (VObj []) with
  | VObj _ as ec =>
      base <- as_dict_or_empty (get_key "_rebac" ec) ;;
      merged <- (if py_truthy lc then (u <- as_dict_or_empty lc ;; Ok (dict_update base u)) else Ok base) ;;
      Ok (VObj merged)
  | _ => Raise "AttributeError"
  end.

Lemma rel_prepare_short env r : String.eqb r "" = false ->
  rel_prepare (VStr r) env =
  (s <- canon_subject env VNull ;; o <- canon_resource env VNull ;; c <- merged_ctx env VNull ;;
   Ok (Some {| rq_subject := s; rq_relation := r; rq_resource := o; rq_ctx := c |})).
Proof.
  intros H. unfold rel_prepare, merged_ctx. rewrite H.
  destruct (canon_subject env VNull); try reflexivity. cbn [rbind].
  destruct (canon_resource env VNull); try reflexivity. cbn [rbind].
  destruct (py_or (get_key "context" env) (VObj [])); try reflexivity.
  destruct (as_dict_or_empty _); reflexivity.
Qed.

Lemma rel_prepare_extended env kvs r :
  py_str (py_or (get_key "relation" (VObj kvs)) (VStr "")) = Some r -> String.eqb r "" = false ->
  rel_prepare (VObj kvs) env =
  (s <- canon_subject env (get_key "subject" (VObj kvs)) ;;
   o <- canon_resource env (get_key "resource" (VObj kvs)) ;;
   c <- merged_ctx env (get_key "ctx" (VObj kvs)) ;;
   Ok (Some {| rq_subject := s; rq_relation := r; rq_resource := o; rq_ctx := c |})).
Proof.
  intros Hr H. unfold rel_prepare, merged_ctx. rewrite Hr, H.
  destruct (canon_subject env _); try reflexivity. cbn [rbind].
  destruct (canon_resource env _); try reflexivity. cbn [rbind].
  destruct (py_or (get_key "context" env) (VObj [])); try reflexivity.
  destruct (as_dict_or_empty (get_key "_rebac" _)); try reflexivity. cbn [rbind].
  destruct (py_truthy (get_key "ctx" (VObj kvs))); [|reflexivity].
  destruct (as_dict_or_empty (get_key "ctx" (VObj kvs))); reflexivity.
Qed.

(* no relation name, or a rel operand that is neither a string nor an object: false without a lookup *)
Lemma rel_prepare_empty env : rel_prepare (VStr "") env = Ok None.
Proof. reflexivity. Qed.
Lemma rel_prepare_other env e : is_str e = false -> is_obj e = false -> rel_prepare e env = Ok None.
Proof. destruct e; try discriminate; reflexivity. Qed.

(* subject: "user:<id>", "user:" without an id; an override that resolves to a string is taken as
   it is when it contains ':' and prefixed with "user:" otherwise; any other override is ignored *)
Lemma subject_default_id env sid s :
  get_key "id" (get_key "subject" env) = sid -> is_null sid = false -> fmt sid = Ok s ->
  canon_subject env VNull = Ok ("user:" ++ s).
Proof. intros H1 H2 H3. unfold canon_subject. simpl. rewrite H1, H2, H3. reflexivity. Qed.
Lemma subject_default_no_id env :
  get_key "id" (get_key "subject" env) = VNull -> canon_subject env VNull = Ok "user:".
Proof. intros H. unfold canon_subject. simpl. rewrite H. reflexivity. Qed.
Lemma subject_override env ov s : is_null ov = false -> resolve ov env = Ok (VStr s) ->
  canon_subject env ov = Ok (if has_colon s then s else "user:" ++ s).
Proof. intros H1 H2. unfold canon_subject. rewrite H1, H2. reflexivity. Qed.
Lemma subject_override_literal env s :
  canon_subject env (VStr s) = Ok (if has_colon s then s else "user:" ++ s).
Proof. reflexivity. Qed.
Lemma subject_override_not_str env ov v : is_null ov = false -> resolve ov env = Ok v -> is_str v = false ->
  canon_subject env ov = canon_subject env VNull.
Proof. intros H1 H2 H3. unfold canon_subject. rewrite H1, H2. simpl. destruct v; try discriminate; reflexivity. Qed.

(* resource: "<type>:<id>", type "object" when the request's type is falsy, "<type>:" without id;
   override as for the subject, the prefix being the request's type *)
Definition res_type (env : value) : value := py_or (get_key "type" (get_key "resource" env)) (VStr "object").
Lemma res_type_default env : py_truthy (get_key "type" (get_key "resource" env)) = false -> res_type env = VStr "object".
Proof. intros H. unfold res_type, py_or. rewrite H. reflexivity. Qed.
Lemma resource_default_id env t rid s :
  fmt (res_type env) = Ok t -> get_key "id" (get_key "resource" env) = rid -> is_null rid = false -> fmt rid = Ok s ->
  canon_resource env VNull = Ok (t ++ ":" ++ s).
Proof.
  intros H1 H2 H3 H4. unfold canon_resource, res_type in *. simpl. rewrite H1. cbn [rbind]. rewrite H2, H3, H4. reflexivity.
Qed.
Lemma resource_default_no_id env t :
  fmt (res_type env) = Ok t -> get_key "id" (get_key "resource" env) = VNull ->
  canon_resource env VNull = Ok (t ++ ":").
Proof. intros H1 H2. unfold canon_resource, res_type in *. simpl. rewrite H1. cbn [rbind]. rewrite H2. reflexivity. Qed.
Lemma resource_override env ov s t : is_null ov = false -> resolve ov env = Ok (VStr s) ->
  fmt (res_type env) = Ok t ->
  canon_resource env ov = Ok (if has_colon s then s else t ++ ":" ++ s).
Proof.
  intros H1 H2 H3. unfold canon_resource, res_type in *. rewrite H1, H2. cbn [rbind].
  destruct (has_colon s); [reflexivity|]. rewrite H3. reflexivity.
Qed.
Lemma resource_override_not_str env ov v : is_null ov = false -> resolve ov env = Ok v -> is_str v = false ->
  canon_resource env ov = canon_resource env VNull.
Proof. intros H1 H2 H3. unfold canon_resource. rewrite H1, H2. simpl. destruct v; try discriminate; reflexivity. Qed.

(* the merge: a key of the condition's ctx wins, any other key keeps the _rebac value *)
Lemma assoc_dict_set k k' v d :
  assoc k (dict_set k' v d) = if String.eqb k k' then Some v else assoc k d.
Proof.
  induction d as [|[k0 v0] r IH]; simpl.
  - destruct (String.eqb k k'); reflexivity.
  - destruct (String.eqb k' k0) eqn:E; simpl.
    + apply String.eqb_eq in E. subst k0. destruct (String.eqb k k'); reflexivity.
    + rewrite IH. destruct (String.eqb k k') eqn:E2; [|reflexivity].
      apply String.eqb_eq in E2. subst k'. rewrite E. reflexivity.
Qed.
Lemma assoc_app k l1 l2 : assoc k (l1 ++ l2) = match assoc k l1 with Some v => Some v | None => assoc k l2 end.
Proof. induction l1 as [|[k0 v0] r IH]; simpl; [reflexivity|]. destruct (String.eqb k k0); [reflexivity|exact IH]. Qed.
Lemma assoc_dict_update k u : forall d,
  assoc k (dict_update d u) = match assoc k (rev u) with Some v => Some v | None => assoc k d end.
Proof.
  unfold dict_update. induction u as [|[k0 v0] r IH]; intros d; [reflexivity|].
  cbn [fold_left fst snd rev]. rewrite IH, assoc_app, assoc_dict_set. simpl.
  destruct (assoc k (rev r)); [reflexivity|]. destruct (String.eqb k k0); reflexivity.
Qed.
(* Python dicts have unique keys: then the last binding is the only binding *)
Lemma assoc_rev_nodup k (u : list (string * value)) : NoDup (map fst u) -> assoc k (rev u) = assoc k u.
Proof.
  induction u as [|[k0 v0] r IH]; intros Hn; [reflexivity|]. inversion Hn; subst.
  cbn [rev]. rewrite assoc_app, IH by assumption. simpl.
  destruct (String.eqb k k0) eqn:E; [|destruct (assoc k r); reflexivity].
  apply String.eqb_eq in E. subst k0.
  destruct (assoc k r) eqn:Ea; [|reflexivity]. exfalso. apply assoc_in in Ea.
  apply H1. apply in_map_iff. exists (k, v). tauto.
Qed.
Theorem merged_ctx_lookup base u k : NoDup (map fst u) ->
  assoc k (dict_update base u) = match assoc k u with Some v => Some v | None => assoc k base end.
Proof. intros H. rewrite assoc_dict_update, assoc_rev_nodup by assumption. reflexivity. Qed.

(* =====================================================================================
   Part 4: the statements of props/C13.v that bundle several of the lemmas above
   ===================================================================================== *)
Lemma frame_invariant ctx_hash o oblig strict policy req resolved :
  frame_ok ctx_hash o frame0 /\
  frame_ok ctx_hash o (snd (decide_rel ctx_hash (Some o) oblig strict policy req resolved)).
Proof. split; [apply frame_ok_0|apply frame_ok_guard_eval; apply frame_ok_0]. Qed.

Lemma no_relation_no_lookup env :
  rel_prepare (VStr "") env = Ok None /\
  (forall e, is_str e = false -> is_obj e = false -> rel_prepare e env = Ok None).
Proof. split; [apply rel_prepare_empty|intros e; apply rel_prepare_other]. Qed.

Lemma subject_default env :
  (forall sid s, get_key "id" (get_key "subject" env) = sid -> is_null sid = false -> fmt sid = Ok s ->
     canon_subject env VNull = Ok ("user:" ++ s)) /\
  (get_key "id" (get_key "subject" env) = VNull -> canon_subject env VNull = Ok "user:").
Proof. split; [intros sid s; apply subject_default_id|apply subject_default_no_id]. Qed.

Lemma subject_override_both env ov :
  is_null ov = false ->
  (forall s, resolve ov env = Ok (VStr s) ->
     canon_subject env ov = Ok (if has_colon s then s else "user:" ++ s)) /\
  (forall v, resolve ov env = Ok v -> is_str v = false -> canon_subject env ov = canon_subject env VNull).
Proof. intros H. split; [intros s; apply subject_override; exact H|intros v; apply subject_override_not_str; exact H]. Qed.

Lemma resource_default env t :
  fmt (res_type env) = Ok t ->
  (forall rid s, get_key "id" (get_key "resource" env) = rid -> is_null rid = false -> fmt rid = Ok s ->
     canon_resource env VNull = Ok (t ++ ":" ++ s)) /\
  (get_key "id" (get_key "resource" env) = VNull -> canon_resource env VNull = Ok (t ++ ":")) /\
  (py_truthy (get_key "type" (get_key "resource" env)) = false -> res_type env = VStr "object").
Proof.
  intros H. split; [intros rid s; apply resource_default_id; exact H|].
  split; [apply resource_default_no_id; exact H|apply res_type_default].
Qed.

Lemma resource_override_both env ov t :
  is_null ov = false -> fmt (res_type env) = Ok t ->
  (forall s, resolve ov env = Ok (VStr s) ->
     canon_resource env ov = Ok (if has_colon s then s else t ++ ":" ++ s)) /\
  (forall v, resolve ov env = Ok v -> is_str v = false -> canon_resource env ov = canon_resource env VNull).
Proof.
  intros H Ht. split; [intros s Hs; apply resource_override; assumption|].
  intros v; apply resource_override_not_str; exact H.
Qed.

Lemma fail_closed_handler ctx_hash :
  (forall mo q st, relh_frame ctx_hash mo None q st = (false, st)) /\
  (forall o q, o q = None -> answer o q = false) /\
  (forall o q v, o q = Some v -> answer o q = py_truthy v) /\
  (forall o q st, o q = None -> memo_get (key_of ctx_hash q) (f_memo st) = None ->
     relh_frame ctx_hash true (Some o) q st =
     (false, {| f_memo := (key_of ctx_hash q, false) :: f_memo st; f_log := (f_log st ++ [q])%list |})) /\
  (forall o q st b st', frame_ok ctx_hash o st -> relh_frame ctx_hash true (Some o) q st = (b, st') ->
     (b = true -> exists q', In q' (f_log st') /\ key_of ctx_hash q' = key_of ctx_hash q /\ affirmed o q') /\
     (b = false -> exists q', In q' (f_log st') /\ key_of ctx_hash q' = key_of ctx_hash q /\ ~ affirmed o q')).
Proof.
  split; [intros; apply relh_none|]. split; [apply raise_is_false|].
  split; [apply nonbool_is_truthiness|]. split; [apply raise_memoised|apply handler_true_affirmed].
Qed.

Lemma fail_closed_decision ctx_hash oblig strict policy req resolved :
  decide_rel ctx_hash None oblig strict policy req resolved =
    (fst (guard_eval unit (relh_pure (fun _ => false)) oblig strict policy req resolved tt), frame0) /\
  (forall o, (forall q, ~ affirmed o q) ->
     fst (decide_rel ctx_hash (Some o) oblig strict policy req resolved) =
     fst (guard_eval unit (relh_pure (fun _ => false)) oblig strict policy req resolved tt)).
Proof. split; [apply no_checker_decision|intros o; apply never_affirming_decision]. Qed.

Lemma memo_eq_unmemoised ctx_hash o oblig strict policy req resolved :
  respects_key ctx_hash o ->
  fst (decide_rel ctx_hash (Some o) oblig strict policy req resolved) =
    fst (guard_eval (list rel_query) (relh_direct (Some o)) oblig strict policy req resolved []) /\
  fst (decide_rel ctx_hash (Some o) oblig strict policy req resolved) =
    fst (guard_eval frame (relh_frame ctx_hash false (Some o)) oblig strict policy req resolved frame0).
Proof. intros. split; [apply memo_eq_direct|apply memo_off_same]; assumption. Qed.

Lemma fresh_per_decision_both ctx_hash oblig strict policy resolved steps steps' k :
  nth_error (run_seq ctx_hash oblig strict policy resolved steps) k =
    option_map (fun step => let r := decide_rel ctx_hash (fst step) oblig strict policy (snd step) resolved in
                            (fst r, f_log (snd r)))
               (nth_error steps k) /\
  (nth_error steps k = nth_error steps' k ->
   nth_error (run_seq ctx_hash oblig strict policy resolved steps) k =
   nth_error (run_seq ctx_hash oblig strict policy resolved steps') k).
Proof. split; [apply run_seq_nth|apply fresh_per_decision]. Qed.
