(* FormatProofs.v — proofs for C17 (format detection table, CLI return codes, the default
   combining algorithm on every path, F12 refutation and its complement). *)
From Coq Require Import ZArith List Bool String Ascii Lia.
From Rbacx Require Import Value ValueInd Cond Target Policy PolicySet Compiler Engine Schema
     PolicyProofs PolicySetProofs CompilerProofs SchemaProofs Format.
Import ListNotations.
Local Open Scope string_scope.

(* ====================================================================== *)
(* 1. format detection                                                     *)
(* ====================================================================== *)
(* the hint is "json" / "yaml" in any ASCII case *)
Definition hint_names (fmt : option string) (f : pfmt) : Prop :=
  exists s, fmt = Some s /\ str_lower s = pfmt_name f.
Definition no_valid_hint (fmt : option string) : Prop := forall f, ~ hint_names fmt f.
(* the lower-cased content type contains the marker *)
Definition ct_mentions (ct : option string) (m : string) : Prop :=
  exists s, ct = Some s /\ str_contains m (str_lower s) = true.
(* the lower-cased file name ends with the extension *)
Definition name_ends (fn : option string) (e : string) : Prop :=
  exists s, fn = Some s /\ str_suffix e (str_lower s) = true.

Lemma str_lower_empty s : str_lower s = "" -> s = "".
Proof. destruct s; [reflexivity|discriminate]. Qed.

Lemma hint_names_dec fmt :
  (hint_names fmt FJson /\ str_truthy fmt = true /\ lower_of fmt = "json") \/
  (hint_names fmt FYaml /\ str_truthy fmt = true /\ lower_of fmt = "yaml") \/
  (no_valid_hint fmt /\ (str_truthy fmt && mem_s (lower_of fmt) ["json"; "yaml"]) = false).
Proof.
  destruct fmt as [s|].
  - destruct (String.eqb (str_lower s) "json") eqn:Ej.
    + apply String.eqb_eq in Ej. left. split; [exists s; split; [reflexivity|exact Ej]|].
      split; [|exact Ej]. simpl. destruct (String.eqb s "") eqn:E; [|reflexivity].
      apply String.eqb_eq in E. subst s. discriminate.
    + destruct (String.eqb (str_lower s) "yaml") eqn:Ey.
      * apply String.eqb_eq in Ey. right; left. split; [exists s; split; [reflexivity|exact Ey]|].
        split; [|exact Ey]. simpl. destruct (String.eqb s "") eqn:E; [|reflexivity].
        apply String.eqb_eq in E. subst s. discriminate.
      * right; right. split.
        -- intros f (s' & Hs & Hl). inversion Hs; subst s'. destruct f; simpl in Hl; rewrite Hl in *; discriminate.
        -- unfold lower_of, mem_s. simpl. rewrite Ej, Ey. simpl. apply andb_false_r.
  - right; right. split; [intros f (s & H & _); discriminate|reflexivity].
Qed.

Lemma truthy_redundant_contains (o : option string) m :
  m <> "" ->
  (str_truthy o && str_contains m (lower_of o)) = true <-> ct_mentions o m.
Proof.
  intros Hm. split.
  - intros H. apply andb_true_iff in H. destruct H as [Ht Hc]. destruct o as [s|]; [|discriminate].
    exists s. split; [reflexivity|exact Hc].
  - intros (s & -> & Hc). simpl. rewrite Hc. rewrite andb_true_r.
    destruct (String.eqb s "") eqn:E; [|reflexivity]. apply String.eqb_eq in E. subst s.
    simpl in Hc. destruct m; [congruence|discriminate].
Qed.

Lemma truthy_redundant_suffix (o : option string) e :
  e <> "" ->
  (str_truthy o && str_suffix e (lower_of o)) = true <-> name_ends o e.
Proof.
  intros He. split.
  - intros H. apply andb_true_iff in H. destruct H as [Ht Hc]. destruct o as [s|]; [|discriminate].
    exists s. split; [reflexivity|exact Hc].
  - intros (s & -> & Hc). simpl. rewrite Hc. rewrite andb_true_r.
    destruct (String.eqb s "") eqn:E; [|reflexivity]. apply String.eqb_eq in E. subst s.
    exfalso. unfold str_suffix, str_rev in Hc. simpl in Hc.
    destruct e as [|c e']; [congruence|].
    (* the reverse of a non-empty string is non-empty *)
    assert (Hne : forall s acc, acc <> "" -> str_rev_acc s acc <> "").
    { induction s as [|d s IH]; intros acc Ha; simpl; [exact Ha|apply IH; discriminate]. }
    simpl in Hc. destruct (str_rev_acc e' (String c "")) eqn:R; [exact (Hne e' (String c "") ltac:(discriminate) R)|discriminate].
Qed.

Lemma bool_iff_false (b : bool) (P : Prop) : (b = true <-> P) -> ~ P -> b = false.
Proof. intros H Hn. destruct b; [exfalso; apply Hn, H; reflexivity|reflexivity]. Qed.

(* "x-yaml" is subsumed by "yaml" *)
Lemma str_prefix_app p : forall h, str_prefix p h = true -> exists r, h = p ++ r.
Proof.
  induction p as [|c p IH]; intros h H; [exists h; reflexivity|].
  destruct h as [|d h]; [discriminate|]. simpl in H. apply andb_true_iff in H. destruct H as [Hc Hp].
  apply Ascii.eqb_eq in Hc. subst d. destruct (IH h Hp) as [r ->]. exists r. reflexivity.
Qed.
Lemma contains_tail n c h : str_contains n h = true -> str_contains n (String c h) = true.
Proof. intros H. simpl. rewrite H. apply orb_true_r. Qed.
Lemma x_yaml_subsumed h : str_contains "x-yaml" h = true -> str_contains "yaml" h = true.
Proof.
  induction h as [|c h IH]; [discriminate|].
  intros H. cbn [str_contains] in H. apply orb_true_iff in H. destruct H as [H|H].
  - destruct (str_prefix_app _ _ H) as [r Hr]. rewrite Hr. reflexivity.
  - apply contains_tail. apply IH. exact H.
Qed.

Lemma yaml_markers_iff ct :
  (str_truthy ct && existsb (fun m => str_contains m (lower_of ct)) yaml_mime_markers) = true <-> ct_mentions ct "yaml".
Proof.
  rewrite <- (truthy_redundant_contains ct "yaml") by discriminate.
  unfold yaml_mime_markers. simpl. rewrite orb_false_r.
  destruct (str_truthy ct); simpl; [|tauto].
  destruct (str_contains "yaml" (lower_of ct)) eqn:E; simpl; [tauto|].
  destruct (str_contains "x-yaml" (lower_of ct)) eqn:E2; [|tauto].
  apply x_yaml_subsumed in E2. congruence.
Qed.
Lemma json_markers_iff ct :
  (str_truthy ct && existsb (fun m => str_contains m (lower_of ct)) json_mime_markers) = true <-> ct_mentions ct "json".
Proof.
  rewrite <- (truthy_redundant_contains ct "json") by discriminate.
  unfold json_mime_markers. simpl. rewrite orb_false_r. tauto.
Qed.
Lemma yaml_ext_iff fn :
  (str_truthy fn && (str_suffix ".yaml" (lower_of fn) || str_suffix ".yml" (lower_of fn))) = true
  <-> name_ends fn ".yaml" \/ name_ends fn ".yml".
Proof.
  rewrite <- (truthy_redundant_suffix fn ".yaml"), <- (truthy_redundant_suffix fn ".yml") by discriminate.
  destruct (str_truthy fn); simpl; [|intuition discriminate].
  rewrite orb_true_iff. tauto.
Qed.

(* the complete decision table *)
Theorem detect_format_table filename content_type fmt :
  (forall f, hint_names fmt f -> detect_format filename content_type fmt = f) /\
  (no_valid_hint fmt -> ct_mentions content_type "yaml" -> detect_format filename content_type fmt = FYaml) /\
  (no_valid_hint fmt -> ~ ct_mentions content_type "yaml" -> ct_mentions content_type "json" ->
     detect_format filename content_type fmt = FJson) /\
  (no_valid_hint fmt -> ~ ct_mentions content_type "yaml" -> ~ ct_mentions content_type "json" ->
     name_ends filename ".yaml" \/ name_ends filename ".yml" -> detect_format filename content_type fmt = FYaml) /\
  (no_valid_hint fmt -> ~ ct_mentions content_type "yaml" -> ~ ct_mentions content_type "json" ->
     ~ (name_ends filename ".yaml" \/ name_ends filename ".yml") ->
     detect_format filename content_type fmt = FJson).
Proof.
  unfold detect_format.
  destruct (hint_names_dec fmt) as [(Hj & Ht & Hl)|[(Hy & Ht & Hl)|(Hn & Hf)]].
  - rewrite Ht, Hl. simpl.
    split; [intros f (s & Hs & Hls); destruct Hj as (s' & Hs' & Hls'); rewrite Hs in Hs'; inversion Hs'; subst s';
            destruct f; [reflexivity|simpl in Hls; rewrite Hls in Hls'; discriminate]|].
    repeat split; intros Hno; exfalso; exact (Hno FJson Hj).
  - rewrite Ht, Hl. simpl.
    split; [intros f (s & Hs & Hls); destruct Hy as (s' & Hs' & Hls'); rewrite Hs in Hs'; inversion Hs'; subst s';
            destruct f; [simpl in Hls; rewrite Hls in Hls'; discriminate|reflexivity]|].
    repeat split; intros Hno; exfalso; exact (Hno FYaml Hy).
  - rewrite Hf.
    split; [intros f Hh; exfalso; exact (Hn f Hh)|].
    split; [intros _ Hc; apply yaml_markers_iff in Hc; rewrite Hc; reflexivity|].
    split; [intros _ Hny Hc; rewrite (bool_iff_false _ _ (yaml_markers_iff content_type) Hny);
            apply json_markers_iff in Hc; rewrite Hc; reflexivity|].
    split.
    + intros _ Hny Hnj He. rewrite (bool_iff_false _ _ (yaml_markers_iff content_type) Hny).
      rewrite (bool_iff_false _ _ (json_markers_iff content_type) Hnj).
      apply yaml_ext_iff in He. rewrite He. reflexivity.
    + intros _ Hny Hnj He. rewrite (bool_iff_false _ _ (yaml_markers_iff content_type) Hny).
      rewrite (bool_iff_false _ _ (json_markers_iff content_type) Hnj).
      rewrite (bool_iff_false _ _ (yaml_ext_iff filename) He).
      destruct (str_truthy filename && str_suffix ".json" (lower_of filename)); reflexivity.
Qed.

(* never fails: it answers one of the two formats, and JSON when nothing is given *)
Theorem detect_format_total filename content_type fmt :
  (detect_format filename content_type fmt = FJson \/ detect_format filename content_type fmt = FYaml) /\
  detect_format None None None = FJson.
Proof. split; [destruct (detect_format filename content_type fmt); auto|reflexivity]. Qed.

(* an invalid hint changes nothing: it is ignored *)
Theorem invalid_hint_ignored filename content_type fmt :
  no_valid_hint fmt -> detect_format filename content_type fmt = detect_format filename content_type None.
Proof.
  intros Hn. unfold detect_format.
  destruct (hint_names_dec fmt) as [(Hj & _)|[(Hy & _)|(_ & Hf)]];
    [exfalso; exact (Hn _ Hj)|exfalso; exact (Hn _ Hy)|]. rewrite Hf. reflexivity.
Qed.

(* the parse dispatch: the detected format alone selects the parser *)
Theorem parse_dispatch jl yl text fn ct fmt :
  parse_policy_text jl yl text fn ct fmt =
    match detect_format fn ct fmt with FJson => jl text | FYaml => parse_yaml yl text end.
Proof. reflexivity. Qed.

(* ====================================================================== *)
(* 2. command-line return codes                                            *)
(* ====================================================================== *)
(* every target conforms / some target does not *)
Definition targets_ok (t : targets) : bool :=
  match t with TDoc b => b | TChildren l => forallb (fun b => b) l | TEscapes _ => false end.
Definition targets_bad (t : targets) : bool :=
  match t with TDoc b => negb b | TChildren l => negb (forallb (fun b => b) l) | TEscapes _ => false end.
(* validate_policy is actually called (so a missing jsonschema is noticed) *)
Definition validator_called (t : targets) : bool :=
  match t with TDoc _ => true | TChildren [] => false | TChildren _ => true | TEscapes _ => false end.

Lemma child_errs_nil oks : forall i, child_errs i oks = [] <-> forallb (fun b => b) oks = true.
Proof.
  induction oks as [|b r IH]; intros i; simpl; [tauto|].
  destruct b; simpl; [apply IH|]. split; discriminate.
Qed.

Lemma validate_doc_cases dep t :
  match validate_doc dep t with
  | VErrs [] => targets_ok t = true /\ (dep = false \/ validator_called t = false)
  | VErrs (_ :: _) => targets_bad t = true /\ dep = false
  | VRuntimeError => dep = true /\ validator_called t = true
  | VEscapes e => t = TEscapes e
  end.
Proof.
  destruct t as [ok|oks|e]; simpl.
  - destruct dep; [split; reflexivity|]. destruct ok; simpl; split; auto.
  - destruct oks as [|b r]; [split; [reflexivity|right; reflexivity]|].
    destruct dep; [split; reflexivity|].
    destruct (child_errs 0 (b :: r)) eqn:E.
    + apply child_errs_nil in E. split; [exact E|left; reflexivity].
    + split; [|reflexivity]. destruct (forallb (fun b => b) (b :: r)) eqn:F; [|reflexivity].
      apply (child_errs_nil (b :: r) 0) in F. congruence.
  - reflexivity.
Qed.

Lemma ok_bad_excl t : targets_ok t = true -> targets_bad t = true -> False.
Proof. destruct t; simpl; intros H1 H2; rewrite H1 in H2; discriminate. Qed.

(* validate: 0 iff every target conforms, 6 iff some target does not; never 3; --strict and the
   linter are irrelevant (they are not even arguments) *)
Ltac crush :=
  repeat split; intros;
  repeat match goal with
         | H : _ /\ _ |- _ => destruct H
         | H : exists _, _ |- _ => destruct H
         | H : _ \/ _ |- _ => destruct H
         | H : Some _ = Some _ |- _ => inversion H; clear H
         | H : TEscapes _ = TEscapes _ |- _ => inversion H; clear H
         | H : LIssues _ = LIssues _ |- _ => inversion H; clear H
         end; subst; try discriminate; try congruence; eauto 8.

Theorem cmd_validate_rc parse dep t :
  (cmd_validate parse dep t = Rc EXIT_OK <->
     parse = None /\ targets_ok t = true /\ (dep = false \/ validator_called t = false)) /\
  (cmd_validate parse dep t = Rc EXIT_SCHEMA_ERRORS <-> parse = None /\ dep = false /\ targets_bad t = true) /\
  (cmd_validate parse dep t = Rc EXIT_ENV <->
     (exists e, parse = Some e /\ runtime_family e = true) \/
     (parse = None /\ dep = true /\ validator_called t = true) \/
     (parse = None /\ exists e, t = TEscapes e /\ runtime_family e = true)) /\
  cmd_validate parse dep t <> Rc EXIT_LINT_ERRORS.
Proof.
  unfold cmd_validate. destruct parse as [e|].
  - destruct (runtime_family e) eqn:R; crush.
  - pose proof (validate_doc_cases dep t) as H.
    destruct (validate_doc dep t) as [[|x errs]| |e].
    + destruct H as [Hok Hd]. crush; exfalso; eapply ok_bad_excl; eauto.
    + destruct H as [Hbad Hd]. crush; exfalso; eapply ok_bad_excl; eauto.
    + destruct H as [Hd Hc]. crush.
    + subst t. destruct (runtime_family e) eqn:R; crush.
Qed.

(* what a successful validation phase means *)
Definition validated (dep : bool) (t : targets) : Prop :=
  targets_ok t = true /\ (dep = false \/ validator_called t = false).

(* check: 6 iff some target does not conform (before any lint); 3 only with --strict, with lint
   issues and only after the schema passed; 0 iff the schema passed and (no --strict or no issue) *)
Theorem cmd_check_rc parse dep strict t l :
  (cmd_check parse dep strict t l = Rc EXIT_SCHEMA_ERRORS <-> parse = None /\ dep = false /\ targets_bad t = true) /\
  (cmd_check parse dep strict t l = Rc EXIT_LINT_ERRORS <->
     parse = None /\ validated dep t /\ strict = true /\ exists n, l = LIssues (S n)) /\
  (cmd_check parse dep strict t l = Rc EXIT_OK <->
     parse = None /\ validated dep t /\ exists n, l = LIssues n /\ (strict = false \/ n = 0)).
Proof.
  unfold cmd_check, validated. destruct parse as [e|]; [crush|].
  pose proof (validate_doc_cases dep t) as H.
  destruct (validate_doc dep t) as [[|x errs]| |e].
  - destruct H as [Hok Hd]. unfold lint_rc.
    destruct l as [n|e]; [destruct strict; destruct n as [|n]; simpl|]; crush;
      try (exfalso; eapply ok_bad_excl; eauto; fail).
  - destruct H as [Hbad Hd]. crush; exfalso; eapply ok_bad_excl; eauto.
  - destruct H as [Hd Hc]. crush.
  - subst t. destruct (runtime_family e); crush.
Qed.

(* lint alone never validates: 3 iff --strict and issues, never 6 *)
Theorem cmd_lint_rc parse strict l :
  (cmd_lint parse strict l = Rc EXIT_LINT_ERRORS <-> parse = None /\ strict = true /\ exists n, l = LIssues (S n)) /\
  (cmd_lint parse strict l = Rc EXIT_OK <-> parse = None /\ exists n, l = LIssues n /\ (strict = false \/ n = 0)) /\
  cmd_lint parse strict l <> Rc EXIT_SCHEMA_ERRORS.
Proof.
  unfold cmd_lint, lint_rc. destruct parse as [e|]; [crush|].
  destruct l as [n|e]; [destruct strict; destruct n as [|n]; simpl|]; crush.
Qed.

(* on a parsed document: validate_policy = schema_valid; per child with --policyset *)
Theorem cli_validate_doc strict doc l :
  (cli_main CValidate false strict false (PDoc doc) l = Rc EXIT_OK <-> schema_valid doc = true) /\
  (cli_main CValidate false strict false (PDoc doc) l = Rc EXIT_SCHEMA_ERRORS <-> schema_valid doc = false).
Proof.
  unfold cli_main, cli_rc, targets_of.
  destruct (cmd_validate_rc None false (TDoc (schema_valid doc))) as (H0 & H6 & _). simpl in *.
  split.
  - rewrite H0. intuition.
  - rewrite H6. destruct (schema_valid doc); simpl; intuition discriminate.
Qed.
Theorem cli_validate_policyset strict doc l cs :
  children_of doc = Ok cs ->
  (cli_main CValidate true strict false (PDoc doc) l = Rc EXIT_OK <-> forallb schema_valid cs = true) /\
  (cli_main CValidate true strict false (PDoc doc) l = Rc EXIT_SCHEMA_ERRORS <-> forallb schema_valid cs = false).
Proof.
  intros Hc. unfold cli_main, cli_rc, targets_of. rewrite Hc.
  destruct (cmd_validate_rc None false (TChildren (map schema_valid cs))) as (H0 & H6 & _). simpl in *.
  assert (E : forallb (fun b => b) (map schema_valid cs) = forallb schema_valid cs).
  { clear. induction cs as [|c r IH]; simpl; [reflexivity|]. rewrite IH. reflexivity. }
  rewrite E in *. split.
  - rewrite H0. intuition.
  - rewrite H6. destruct (forallb schema_valid cs); simpl; intuition discriminate.
Qed.
Theorem cli_check_doc strict doc l :
  (cli_main CCheck false strict false (PDoc doc) l = Rc EXIT_SCHEMA_ERRORS <-> schema_valid doc = false) /\
  (cli_main CCheck false strict false (PDoc doc) l = Rc EXIT_LINT_ERRORS <->
     schema_valid doc = true /\ strict = true /\ exists n, l = LIssues (S n)) /\
  (cli_main CCheck false strict false (PDoc doc) l = Rc EXIT_OK <->
     schema_valid doc = true /\ exists n, l = LIssues n /\ (strict = false \/ n = 0)).
Proof.
  unfold cli_main, cli_rc, targets_of.
  destruct (cmd_check_rc None false strict (TDoc (schema_valid doc)) l) as (H6 & H3 & H0).
  unfold validated in *. simpl in *. split; [|split].
  - rewrite H6. destruct (schema_valid doc); simpl; intuition discriminate.
  - rewrite H3. intuition.
  - rewrite H0. intuition.
Qed.
Theorem cli_check_policyset strict doc l cs :
  children_of doc = Ok cs ->
  (cli_main CCheck true strict false (PDoc doc) l = Rc EXIT_SCHEMA_ERRORS <-> forallb schema_valid cs = false) /\
  (cli_main CCheck true strict false (PDoc doc) l = Rc EXIT_LINT_ERRORS <->
     forallb schema_valid cs = true /\ strict = true /\ exists n, l = LIssues (S n)) /\
  (cli_main CCheck true strict false (PDoc doc) l = Rc EXIT_OK <->
     forallb schema_valid cs = true /\ exists n, l = LIssues n /\ (strict = false \/ n = 0)).
Proof.
  intros Hc. unfold cli_main, cli_rc, targets_of. rewrite Hc.
  destruct (cmd_check_rc None false strict (TChildren (map schema_valid cs)) l) as (H6 & H3 & H0).
  assert (E : forallb (fun b => b) (map schema_valid cs) = forallb schema_valid cs).
  { clear. induction cs as [|c r IH]; simpl; [reflexivity|]. rewrite IH. reflexivity. }
  unfold validated in *. simpl in *. rewrite E in *. split; [|split].
  - rewrite H6. destruct (forallb schema_valid cs); simpl; intuition discriminate.
  - rewrite H3. intuition.
  - rewrite H0. intuition.
Qed.
(* a missing jsonschema is the environment status, whenever the validator is reached *)
Theorem cli_missing_dependency c policyset strict doc l :
  c <> CLint -> validator_called (targets_of policyset doc) = true ->
  cli_main c policyset strict true (PDoc doc) l = Rc EXIT_ENV.
Proof.
  intros Hc Hv. unfold cli_main, cli_rc. destruct c; [| |congruence].
  - apply (proj1 (proj2 (proj2 (cmd_validate_rc None true _)))). right; left. auto.
  - unfold cmd_check. pose proof (validate_doc_cases true (targets_of policyset doc)) as H.
    destruct (validate_doc true (targets_of policyset doc)) as [[|x errs]| |e].
    + destruct H as [_ [H|H]]; congruence.
    + destruct H; discriminate.
    + reflexivity.
    + rewrite H in Hv. discriminate.
Qed.

(* ====================================================================== *)
(* 3. the default combining algorithm                                      *)
(* ====================================================================== *)
Lemma unnamed_or p d : algo_unnamed p = true -> py_or (get_key "algorithm" p) d = d.
Proof. unfold algo_unnamed, py_or. destruct (py_truthy (get_key "algorithm" p)); [discriminate|reflexivity]. Qed.

(* absent, null and "" are all "unnamed" *)
Lemma unnamed_absent kvs : assoc "algorithm" kvs = None -> algo_unnamed (VObj kvs) = true.
Proof. intros H. unfold algo_unnamed, get_key. rewrite H. reflexivity. Qed.
Lemma unnamed_null kvs : assoc "algorithm" kvs = Some VNull -> algo_unnamed (VObj kvs) = true.
Proof. intros H. unfold algo_unnamed, get_key. rewrite H. reflexivity. Qed.
Lemma unnamed_empty kvs : assoc "algorithm" kvs = Some (VStr "") -> algo_unnamed (VObj kvs) = true.
Proof. intros H. unfold algo_unnamed, get_key. rewrite H. reflexivity. Qed.

(* --- the three readers of the key --- *)
Lemma interp_default p : algo_unnamed p = true -> policy_algo None p = Some DenyOverrides.
Proof. intros H. unfold policy_algo. rewrite (unnamed_or p _ H). reflexivity. Qed.
Lemma set_default p : algo_unnamed p = true -> set_algo p = Some DenyOverrides.
Proof. intros H. unfold set_algo. rewrite (unnamed_or p _ H). reflexivity. Qed.
Lemma compiled_default p : algo_unnamed p = true -> compiled_algo p = Some "permit-overrides".
Proof. intros H. unfold compiled_algo. rewrite (unnamed_or p _ H). reflexivity. Qed.
Lemma lint_default p : algo_unnamed p = true -> lint_algo p = Some "deny-overrides".
Proof. intros H. unfold lint_algo. rewrite (unnamed_or p _ H). reflexivity. Qed.

Lemma raw_decision_of x r : raw_of_result x = Some r -> r_decision r = decision_of x.
Proof.
  destruct x as [[[d rs] l] o]. unfold raw_of_result, decision_of.
  destruct l as [[]|]; intros H; inversion H; reflexivity.
Qed.

Section Pure.
  Variable rel : rel_query -> bool.
  Notation relh := (relh_pure rel).

  (* interpreter (policy.evaluate / policy.decide): no algorithm named = deny-overrides:
     any applicable deny wins, else permit iff some applicable permit, else deny *)
  Theorem default_interpreter kvs env rules evs :
    algo_unnamed (VObj kvs) = true ->
    policy_rules (VObj kvs) = Some rules ->
    events_of rel rules env evs ->
    policy_algo None (VObj kvs) = Some DenyOverrides /\
    evaluate unit relh None (VObj kvs) env tt = evaluate unit relh (Some "deny-overrides") (VObj kvs) env tt /\
    forall r, fst (evaluate unit relh None (VObj kvs) env tt) = ERaw r ->
      (ex_deny rel rules env -> r_decision r = "deny") /\
      (r_decision r = "deny" <-> ex_deny rel rules env \/ ~ ex_permit rel rules env) /\
      (r_decision r = "permit" <-> ~ ex_deny rel rules env /\ ex_permit rel rules env).
  Proof.
    intros Hu Hr He. pose proof (interp_default _ Hu) as Ha.
    split; [exact Ha|]. split.
    - rewrite (evaluate_spec rel None kvs env DenyOverrides rules evs Ha Hr He).
      rewrite (evaluate_spec rel (Some "deny-overrides") kvs env DenyOverrides rules evs eq_refl Hr He). reflexivity.
    - intros r Hev. rewrite (evaluate_spec rel None kvs env DenyOverrides rules evs Ha Hr He) in Hev.
      cbn [fst] in Hev. destruct (raw_of_result (spec_result DenyOverrides evs)) as [r'|] eqn:Hraw; [|discriminate].
      inversion Hev; subst r'. rewrite (raw_decision_of _ _ Hraw).
      destruct (deny_overrides_decision rel rules env evs He) as [Hd Hp].
      split; [|split; assumption]. intros Hx. apply Hd. left. exact Hx.
  Qed.

  (* every child of a set is evaluated by that same interpreter call (no algorithm argument) *)
  Theorem default_children pol env :
    has_key "policies" pol = false ->
    child_result rel pol env = fst (evaluate unit relh None pol env tt).
  Proof. intros H. unfold child_result. rewrite H. reflexivity. Qed.
  Theorem default_nested_children pol env :
    has_key "policies" pol = true ->
    child_result rel pol env = fst (decide unit relh pol env tt).
  Proof. intros H. unfold child_result. rewrite H. reflexivity. Qed.

  (* the set evaluator's own combining *)
  Definition ex_child_deny (crs : list cres) : Prop := exists c, In c crs /\ c_deny c = true.
  Definition ex_child_permit (crs : list cres) : Prop := exists c, In c crs /\ c_permit c = true.

  Lemma find_ex {A} (p : A -> bool) l : (exists x, In x l /\ p x = true) <-> find p l <> None.
  Proof.
    split.
    - intros (x & Hi & Hp) Hn. pose proof (find_none _ _ Hn x Hi). congruence.
    - intros H. destruct (find p l) eqn:F; [|congruence]. apply find_some in F. eauto.
  Qed.

  Lemma set_spec_do_decision crs :
    let r := set_spec DenyOverrides crs in
    (ex_child_deny crs -> r_decision r = "deny") /\
    (r_decision r = "deny" <-> ex_child_deny crs \/ ~ ex_child_permit crs) /\
    (r_decision r = "permit" <-> ~ ex_child_deny crs /\ ex_child_permit crs).
  Proof.
    unfold set_spec, ex_child_deny, ex_child_permit.
    pose proof (find_ex c_deny crs) as Hd. pose proof (find_ex c_permit crs) as Hp.
    destruct (find c_deny crs) as [[pid r]|] eqn:Fd.
    - assert (D : exists c, In c crs /\ c_deny c = true) by (apply Hd; discriminate).
      simpl. repeat split; intros; try discriminate; try tauto.
    - assert (ND : ~ exists c, In c crs /\ c_deny c = true) by (intros X; apply Hd in X; congruence).
      destruct (find c_permit crs) as [[pid r]|] eqn:Fp.
      + assert (P : exists c, In c crs /\ c_permit c = true) by (apply Hp; discriminate).
        assert (Hperm : r_decision r = "permit").
        { apply find_some in Fp. destruct Fp as [_ Hc]. unfold c_permit in Hc. simpl in Hc.
          apply andb_true_iff in Hc. destruct Hc as [_ Hc]. apply String.eqb_eq in Hc. exact Hc. }
        simpl. rewrite Hperm. repeat split; intros; try discriminate; try tauto.
      + assert (NP : ~ exists c, In c crs /\ c_permit c = true) by (intros X; apply Hp in X; congruence).
        simpl. repeat split; intros; try discriminate; try tauto.
  Qed.

  Theorem default_set kvs env children crs :
    algo_unnamed (VObj kvs) = true ->
    assoc "policies" kvs = Some (VList children) ->
    child_results rel children env crs ->
    set_algo (VObj kvs) = Some DenyOverrides /\
    exists r, decide unit relh (VObj kvs) env tt = (ERaw r, tt) /\
      (ex_child_deny crs -> r_decision r = "deny") /\
      (r_decision r = "deny" <-> ex_child_deny crs \/ ~ ex_child_permit crs) /\
      (r_decision r = "permit" <-> ~ ex_child_deny crs /\ ex_child_permit crs).
  Proof.
    intros Hu Hc Hr. pose proof (set_default _ Hu) as Ha. split; [exact Ha|].
    exists (set_spec DenyOverrides crs). split.
    - apply (decide_spec rel kvs env DenyOverrides children crs Ha Hc Hr).
    - apply set_spec_do_decision.
  Qed.
End Pure.

(* ---------- deny-overrides written out = nothing written, at every depth ---------- *)
Lemma assoc_dict_set_same k v d : assoc k (dict_set k v d) = Some v.
Proof.
  induction d as [|[k' v'] r IH]; simpl; [rewrite String.eqb_refl; reflexivity|].
  destruct (String.eqb k k') eqn:E; simpl; [rewrite String.eqb_refl; reflexivity|rewrite E; exact IH].
Qed.
Lemma assoc_dict_set_other k k' v d : String.eqb k' k = false -> assoc k' (dict_set k v d) = assoc k' d.
Proof.
  intros Hne. induction d as [|[k2 v2] r IH]; simpl; [rewrite Hne; reflexivity|].
  destruct (String.eqb k k2) eqn:E; simpl.
  - apply String.eqb_eq in E. subst k2. rewrite Hne. reflexivity.
  - destruct (String.eqb k' k2); [reflexivity|exact IH].
Qed.
Lemma assoc_map_policies f k kvs :
  assoc k (map_policies f kvs) =
  option_map (fun v => if String.eqb k "policies" then map_children f v else v) (assoc k kvs).
Proof.
  induction kvs as [|[k' v'] r IH]; [reflexivity|]. cbn [map_policies assoc].
  destruct (String.eqb k k') eqn:E; [|exact IH].
  apply String.eqb_eq in E. subst k'. reflexivity.
Qed.

Lemma fill_deep_obj kvs :
  fill_deep (VObj kvs) =
  if algo_unnamed (VObj kvs) then VObj (dict_set "algorithm" (VStr "deny-overrides") (map_policies fill_deep kvs))
  else VObj (map_policies fill_deep kvs).
Proof. reflexivity. Qed.

(* reading a key of the filled document *)
Lemma fill_get_other kvs k :
  String.eqb k "algorithm" = false -> String.eqb k "policies" = false ->
  get_key k (fill_deep (VObj kvs)) = get_key k (VObj kvs).
Proof.
  intros Ha Hp. rewrite fill_deep_obj. destruct (algo_unnamed (VObj kvs)); unfold get_key.
  - rewrite (assoc_dict_set_other _ _ _ _ Ha), assoc_map_policies, Hp. destruct (assoc k kvs); reflexivity.
  - rewrite assoc_map_policies, Hp. destruct (assoc k kvs); reflexivity.
Qed.
Lemma fill_assoc_policies kvs kvs' :
  fill_deep (VObj kvs) = VObj kvs' ->
  assoc "policies" kvs' = option_map (map_children fill_deep) (assoc "policies" kvs).
Proof.
  rewrite fill_deep_obj. destruct (algo_unnamed (VObj kvs)); intros H; inversion H; subst kvs'.
  - rewrite (assoc_dict_set_other "algorithm" "policies" _ _ eq_refl), assoc_map_policies. reflexivity.
  - rewrite assoc_map_policies. reflexivity.
Qed.
Lemma fill_is_obj kvs : exists kvs', fill_deep (VObj kvs) = VObj kvs'.
Proof. rewrite fill_deep_obj. destruct (algo_unnamed (VObj kvs)); eauto. Qed.
Lemma fill_non_obj v : is_obj v = false -> fill_deep v = v.
Proof. destruct v; try reflexivity. discriminate. Qed.
Lemma fill_has_policies kvs : has_key "policies" (fill_deep (VObj kvs)) = has_key "policies" (VObj kvs).
Proof.
  destruct (fill_is_obj kvs) as [kvs' H]. rewrite H. unfold has_key.
  rewrite (fill_assoc_policies kvs kvs' H). destruct (assoc "policies" kvs); reflexivity.
Qed.
(* the algorithm every reader computes from `x.get("algorithm") or default` is unchanged when the
   default is deny-overrides *)
Lemma fill_algo_value kvs :
  py_or (get_key "algorithm" (fill_deep (VObj kvs))) (VStr "deny-overrides") =
  py_or (get_key "algorithm" (VObj kvs)) (VStr "deny-overrides").
Proof.
  rewrite fill_deep_obj. destruct (algo_unnamed (VObj kvs)) eqn:U.
  - rewrite (unnamed_or _ _ U). unfold get_key. rewrite assoc_dict_set_same. reflexivity.
  - unfold get_key. rewrite assoc_map_policies. simpl. destruct (assoc "algorithm" kvs); reflexivity.
Qed.

Section Depth.
  Variable rel : rel_query -> bool.
  Notation relh := (relh_pure rel).

  Definition fill_stmt (v : value) : Prop :=
    forall env,
      decide unit relh (fill_deep v) env tt = decide unit relh v env tt /\
      evaluate unit relh None (fill_deep v) env tt = evaluate unit relh None v env tt.

  Lemma fill_evaluate kvs env :
    evaluate unit relh None (fill_deep (VObj kvs)) env tt = evaluate unit relh None (VObj kvs) env tt.
  Proof.
    destruct (fill_is_obj kvs) as [kvs' H].
    assert (Ha : policy_algo None (fill_deep (VObj kvs)) = policy_algo None (VObj kvs)).
    { unfold policy_algo. rewrite fill_algo_value. reflexivity. }
    assert (Hr : policy_rules (fill_deep (VObj kvs)) = policy_rules (VObj kvs)).
    { unfold policy_rules. rewrite (fill_get_other kvs "rules" eq_refl eq_refl). reflexivity. }
    rewrite H in *. unfold evaluate. rewrite Ha, Hr. reflexivity.
  Qed.

  Lemma fill_set_loop al env children :
    Forall fill_stmt children ->
    forall a, set_loop rel al (map fill_deep children) env a = set_loop rel al children env a.
  Proof.
    induction 1 as [|pol rest Hq _ IH]; intros a; [reflexivity|].
    cbn [map set_loop]. destruct pol as [| | | | |kvs|]; try reflexivity.
    destruct (fill_is_obj kvs) as [kvs' H]. rewrite H.
    assert (Hc : child_result rel (VObj kvs') env = child_result rel (VObj kvs) env).
    { unfold child_result. rewrite <- H, fill_has_policies. destruct (Hq env) as [Hd He].
      destruct (has_key "policies" (VObj kvs)); [rewrite Hd|rewrite He]; reflexivity. }
    assert (Hp : pid_of (VObj kvs') = pid_of (VObj kvs)).
    { unfold pid_of. rewrite <- H, (fill_get_other kvs "id" eq_refl eq_refl). reflexivity. }
    rewrite Hc, Hp. destruct (child_result rel (VObj kvs) env); try reflexivity.
    destruct (s_broke _); [reflexivity|apply IH].
  Qed.

  Lemma fill_all : forall v, fill_stmt v /\ match v with VList l => Forall fill_stmt l | _ => True end.
  Proof.
    apply value_ind'; try (intros; split; [intros env; split; reflexivity|exact I]).
    - (* list *)
      intros l Hl. split; [intros env; split; reflexivity|].
      induction Hl as [|x r Hx _ IH]; constructor; [exact (proj1 Hx)|exact IH].
    - (* object *)
      intros kvs Hk. split; [|exact I]. intros env. split; [|apply fill_evaluate].
      destruct (fill_is_obj kvs) as [kvs' H]. rewrite H.
      rewrite !decide_unfold.
      assert (Ha : set_algo (VObj kvs') = set_algo (VObj kvs)).
      { unfold set_algo. rewrite <- H, fill_algo_value. reflexivity. }
      rewrite Ha. destruct (set_algo (VObj kvs)) as [al|]; [|reflexivity].
      rewrite (fill_assoc_policies kvs kvs' H).
      destruct (assoc "policies" kvs) as [v|] eqn:Ev; [|reflexivity].
      cbn [option_map]. destruct v; try reflexivity. cbn [map_children].
      rewrite fill_set_loop; [reflexivity|].
      apply assoc_in in Ev. rewrite Forall_forall in Hk. specialize (Hk _ Ev). exact (proj2 Hk).
  Qed.

  (* a (nested) policy set / a policy means the same with deny-overrides written out at every
     level that names no algorithm *)
  Theorem fill_deep_decide ps env :
    decide unit relh (fill_deep ps) env tt = decide unit relh ps env tt.
  Proof. exact (proj1 (proj1 (fill_all ps) env)). Qed.
  Theorem fill_deep_evaluate p env :
    evaluate unit relh None (fill_deep p) env tt = evaluate unit relh None p env tt.
  Proof. exact (proj2 (proj1 (fill_all p) env)). Qed.
  Theorem fill_deep_interpret p env :
    interpret unit relh (fill_deep p) env tt = interpret unit relh p env tt.
  Proof.
    unfold interpret. destruct p; try reflexivity.
    rewrite fill_has_policies. destruct (has_key "policies" (VObj kvs)); [apply fill_deep_decide|apply fill_deep_evaluate].
  Qed.
End Depth.

(* ---------- the engine's compiled path ---------- *)
Lemma with_algo_get_other a kvs k :
  String.eqb k "algorithm" = false -> get_key k (with_algorithm a (VObj kvs)) = get_key k (VObj kvs).
Proof. intros H. unfold with_algorithm, get_key. rewrite (assoc_dict_set_other _ _ _ _ H). reflexivity. Qed.
Lemma with_algo_has_other a kvs k :
  String.eqb k "algorithm" = false -> has_key k (with_algorithm a (VObj kvs)) = has_key k (VObj kvs).
Proof. intros H. unfold with_algorithm, has_key. rewrite (assoc_dict_set_other _ _ _ _ H). reflexivity. Qed.
Lemma with_algo_get a kvs : get_key "algorithm" (with_algorithm a (VObj kvs)) = VStr a.
Proof. unfold with_algorithm, get_key. rewrite assoc_dict_set_same. reflexivity. Qed.

Lemma is_set_obj p : is_set p = true -> exists kvs, p = VObj kvs.
Proof. destruct p; try discriminate. eauto. Qed.

Section EngineDefault.
  Variable rel : rel_query -> bool.
  Notation relh := (relh_pure rel).
  Variable oblig : raw -> value -> option (bool * option string).

  (* what the code does: a single policy that names no algorithm is compiled as permit-overrides *)
  Theorem compiled_default_is_permit_overrides policy env :
    is_set policy = false -> algo_unnamed policy = true ->
    compiled_decide unit relh policy env tt =
    compiled_decide unit relh (with_algorithm "permit-overrides" policy) env tt.
  Proof.
    intros Hs Hu. destruct policy as [| | | | |kvs|]; try reflexivity.
    unfold compiled_decide. unfold is_set in Hs.
    rewrite (with_algo_has_other "permit-overrides" kvs "policies" eq_refl), Hs.
    rewrite (compiled_default _ Hu).
    assert (Ha : compiled_algo (with_algorithm "permit-overrides" (VObj kvs)) = Some "permit-overrides").
    { unfold compiled_algo. rewrite with_algo_get. reflexivity. }
    assert (Hr : policy_rules (with_algorithm "permit-overrides" (VObj kvs)) = policy_rules (VObj kvs)).
    { unfold policy_rules. rewrite (with_algo_get_other _ kvs "rules" eq_refl). reflexivity. }
    rewrite Ha, Hr. reflexivity.
  Qed.

  Lemma compilable_with_algo a kvs :
    algo_unnamed (VObj kvs) = true -> compilable (with_algorithm a (VObj kvs)) = compilable (VObj kvs).
  Proof.
    intros Hu. unfold compilable.
    change (match with_algorithm a (VObj kvs) with VObj _ => ?x | _ => false end) with x.
    cbn [with_algorithm].
    change (VObj (dict_set "algorithm" (VStr a) kvs)) with (with_algorithm a (VObj kvs)).
    rewrite (with_algo_has_other a kvs "policies" eq_refl), (with_algo_get_other a kvs "rules" eq_refl).
    rewrite with_algo_get, (unnamed_or _ _ Hu). unfold py_or. destruct (py_truthy (VStr a)); reflexivity.
  Qed.

  Lemma interp_with_do kvs env :
    algo_unnamed (VObj kvs) = true ->
    interpret unit relh (with_algorithm "deny-overrides" (VObj kvs)) env tt = interpret unit relh (VObj kvs) env tt.
  Proof.
    intros Hu. unfold interpret. rewrite (with_algo_has_other _ kvs "policies" eq_refl).
    destruct (has_key "policies" (VObj kvs)) eqn:Hs.
    - cbn [with_algorithm]. rewrite !decide_unfold.
      assert (Ha : set_algo (VObj (dict_set "algorithm" (VStr "deny-overrides") kvs)) = set_algo (VObj kvs)).
      { change (VObj (dict_set "algorithm" (VStr "deny-overrides") kvs)) with (with_algorithm "deny-overrides" (VObj kvs)).
        unfold set_algo. rewrite with_algo_get, (unnamed_or _ _ Hu). reflexivity. }
      rewrite Ha, (assoc_dict_set_other "algorithm" "policies" _ _ eq_refl). reflexivity.
    - assert (Ha : policy_algo None (with_algorithm "deny-overrides" (VObj kvs)) = policy_algo None (VObj kvs)).
      { unfold policy_algo. rewrite with_algo_get, (unnamed_or _ _ Hu). reflexivity. }
      assert (Hr : policy_rules (with_algorithm "deny-overrides" (VObj kvs)) = policy_rules (VObj kvs)).
      { unfold policy_rules. rewrite (with_algo_get_other _ kvs "rules" eq_refl). reflexivity. }
      cbn [with_algorithm] in *. unfold evaluate. rewrite Ha, Hr. reflexivity.
  Qed.

  (* policy sets: the engine hands them to the set evaluator, whose default is deny-overrides *)
  Lemma guard_decide_set_default kvs env :
    is_set (VObj kvs) = true -> algo_unnamed (VObj kvs) = true ->
    guard_decide unit relh (with_algorithm "deny-overrides" (VObj kvs)) env tt = guard_decide unit relh (VObj kvs) env tt.
  Proof.
    intros Hs Hu. unfold guard_decide. rewrite (compilable_with_algo _ kvs Hu).
    pose proof (interp_with_do kvs env Hu) as Hi.
    assert (Hc : compiled_decide unit relh (with_algorithm "deny-overrides" (VObj kvs)) env tt =
                 compiled_decide unit relh (VObj kvs) env tt).
    { unfold compiled_decide. unfold interpret in Hi. unfold is_set in Hs.
      rewrite (with_algo_has_other _ kvs "policies" eq_refl) in *. rewrite Hs in *. exact Hi. }
    rewrite Hc. destruct (compilable (VObj kvs)); [|exact Hi].
    destruct (compiled_decide unit relh (VObj kvs) env tt) as [[r|w|] u]; try reflexivity.
    destruct u. exact Hi.
  Qed.

  Definition run_engine (strict : bool) (req : value) (resolved : option value) (p : value) : gres :=
    fst (guard_eval unit relh oblig strict p req resolved tt).

  (* the class of finding F12, mirrored: a single policy naming no algorithm on which the engine
     gives different effects under permit-overrides and under deny-overrides *)
  Definition f12_class (strict : bool) (req : value) (resolved : option value) (policy : value) : Prop :=
    is_set policy = false /\ algo_unnamed policy = true /\
    gres_effect (run_engine strict req resolved (with_algorithm "permit-overrides" policy)) <>
    gres_effect (run_engine strict req resolved (with_algorithm "deny-overrides" policy)).

  (* the compiled function does not raise internally (then Guard would fall back to the interpreter) *)
  Definition compiled_no_raise (strict : bool) (req : value) (resolved : option value) (policy : value) : Prop :=
    forall env w, build_env strict req resolved = Some env ->
      fst (compiled_decide unit relh policy env tt) <> EErr w.

  Theorem engine_default_outside_class strict req resolved policy :
    algo_unnamed policy = false \/ is_set policy = true \/
    (compiled_no_raise strict req resolved (with_algorithm "permit-overrides" policy) /\
     gres_effect (run_engine strict req resolved (with_algorithm "permit-overrides" policy)) =
     gres_effect (run_engine strict req resolved (with_algorithm "deny-overrides" policy))) ->
    gres_effect (run_engine strict req resolved policy) =
    gres_effect (run_engine strict req resolved (fill_default policy)).
  Proof.
    intros H. unfold fill_default. destruct (algo_unnamed policy) eqn:Hu; [|reflexivity].
    destruct (is_set policy) eqn:Hs.
    - destruct (is_set_obj _ Hs) as [kvs ->]. unfold run_engine, guard_eval.
      destruct (build_env strict req resolved) as [env|]; [|reflexivity].
      rewrite (guard_decide_set_default kvs env Hs Hu). reflexivity.
    - destruct H as [H|[H|[Hnr He]]]; try discriminate.
      destruct policy as [| | | | |kvs|]; try reflexivity.
      destruct (compilable (VObj kvs)) eqn:Hc.
      + (* compiled: same as permit-overrides written out, which agrees with deny-overrides *)
        rewrite <- He. unfold run_engine, guard_eval.
        destruct (build_env strict req resolved) as [env|] eqn:Hb; [|reflexivity].
        unfold guard_decide. rewrite (compilable_with_algo _ kvs Hu), Hc.
        rewrite <- (compiled_default_is_permit_overrides (VObj kvs) env Hs Hu).
        specialize (Hnr env). rewrite <- (compiled_default_is_permit_overrides (VObj kvs) env Hs Hu) in Hnr.
        destruct (compiled_decide unit relh (VObj kvs) env tt) as [[r|w|] u]; try reflexivity.
        exfalso. exact (Hnr w Hb eq_refl).
      + (* not compilable: the interpreter decides, with its deny-overrides default *)
        unfold run_engine, guard_eval.
        destruct (build_env strict req resolved) as [env|]; [|reflexivity].
        unfold guard_decide. rewrite (compilable_with_algo _ kvs Hu), Hc.
        rewrite (interp_with_do kvs env Hu). reflexivity.
  Qed.

  (* the same statement with the class predicate of the known finding *)
  Corollary engine_default_not_f12 strict req resolved policy :
    ~ f12_class strict req resolved policy ->
    compiled_no_raise strict req resolved (with_algorithm "permit-overrides" policy) ->
    gres_effect (run_engine strict req resolved policy) =
    gres_effect (run_engine strict req resolved (fill_default policy)).
  Proof.
    intros Hn Hnr. apply engine_default_outside_class.
    destruct (algo_unnamed policy) eqn:Hu; [|left; reflexivity].
    destruct (is_set policy) eqn:Hs; [right; left; reflexivity|].
    right; right. split; [exact Hnr|].
    destruct (gres_effect (run_engine strict req resolved (with_algorithm "permit-overrides" policy))) as [a|] eqn:Ea;
      destruct (gres_effect (run_engine strict req resolved (with_algorithm "deny-overrides" policy))) as [b|] eqn:Eb;
      try reflexivity; try (exfalso; apply Hn; repeat split; try assumption; rewrite Ea, Eb; discriminate).
    destruct (String.eqb a b) eqn:E; [apply String.eqb_eq in E; subst; reflexivity|].
    exfalso. apply Hn. repeat split; try assumption. rewrite Ea, Eb. intros X. inversion X; subst.
    rewrite String.eqb_refl in E. discriminate.
  Qed.
End EngineDefault.

(* F12: the faithful model refutes "deny-overrides applies" on the engine's compiled path *)
Definition f12_policy : value :=
  VObj [("rules", VList [
    VObj [("id", VStr "p"); ("effect", VStr "permit"); ("actions", VList [VStr "read"]);
          ("resource", VObj [("type", VStr "doc")])];
    VObj [("id", VStr "d"); ("effect", VStr "deny"); ("actions", VList [VStr "read"]);
          ("resource", VObj [("type", VStr "doc")])]])].
Definition f12_req : value :=
  VObj [("subject", VObj [("id", VStr "u"); ("roles", VList []); ("attrs", VObj [])]); ("action", VStr "read");
        ("resource", VObj [("type", VStr "doc"); ("id", VStr "1"); ("attrs", VObj [])]); ("context", VObj [])].

Theorem refuted_engine_default :
  exists policy req,
    schema_valid policy = true /\ algo_unnamed policy = true /\ is_set policy = false /\
    (* an applicable deny rule exists: the interpreter, with the documented default, denies *)
    (forall env, build_env false req None = Some env ->
       eres_decision (fst (evaluate unit (relh_pure (fun _ => false)) None policy env tt)) = Some "deny") /\
    gres_effect (run_engine (fun _ => false) builtin_oblig false req None policy) = Some "permit" /\
    gres_effect (run_engine (fun _ => false) builtin_oblig false req None (fill_default policy)) = Some "deny" /\
    f12_class (fun _ => false) builtin_oblig false req None policy.
Proof.
  exists f12_policy, f12_req. repeat split; try (vm_compute; reflexivity).
  - intros env H. vm_compute in H. inversion H; subst env. vm_compute. reflexivity.
  - vm_compute. discriminate.
Qed.

(* ---------- the linter's cross-rule analysis ---------- *)
(* with no algorithm named the linter analyses the policy as deny-overrides: the issues are those
   of the document with deny-overrides written out, i.e. the deny-overlap pass and never the
   first-applicable reachability pass *)
Theorem lint_default_is_deny_overrides kvs :
  algo_unnamed (VObj kvs) = true ->
  lint_algo (VObj kvs) = Some "deny-overrides" /\
  lint_cross (VObj kvs) = lint_cross (with_algorithm "deny-overrides" (VObj kvs)) /\
  (py_truthy (get_key "lint" (VObj kvs)) = false ->
   forall rules, py_or (get_key "rules" (VObj kvs)) (VList []) = VList rules ->
     lint_cross (VObj kvs) = (_ <- all_first_pass rules ;; do_pass rules 0)).
Proof.
  intros Hu. pose proof (lint_default _ Hu) as Ha. split; [exact Ha|]. split.
  - assert (Ha' : lint_algo (with_algorithm "deny-overrides" (VObj kvs)) = Some "deny-overrides").
    { unfold lint_algo. rewrite with_algo_get. reflexivity. }
    unfold lint_cross. cbn [with_algorithm].
    change (VObj (dict_set "algorithm" (VStr "deny-overrides") kvs)) with (with_algorithm "deny-overrides" (VObj kvs)).
    rewrite (with_algo_get_other _ kvs "lint" eq_refl), (with_algo_get_other _ kvs "rules" eq_refl), Ha, Ha'.
    reflexivity.
  - intros Hl rules Hr. unfold lint_cross. rewrite Hl, Ha, Hr. reflexivity.
Qed.

Lemma first_hit_spec f : forall l i j,
  first_hit f l i = Ok (Some j) ->
  i <= j < i + List.length l /\ f (nth (j - i) l VNull) = Ok true /\
  forall k, k < j - i -> f (nth k l VNull) = Ok false.
Proof.
  induction l as [|x r IH]; intros i j H; [discriminate|].
  cbn [first_hit] in H. destruct (f x) as [b| | |] eqn:Fx; try discriminate. cbn [rbind] in H.
  destruct b.
  - inversion H; subst j. replace (i - i) with 0 by lia. simpl.
    split; [lia|]. split; [exact Fx|]. intros k Hk; lia.
  - destruct (IH (S i) j H) as (Hr & Hf & Hk). simpl List.length.
    destruct (j - i) as [|m] eqn:Em; [lia|]. replace (j - S i) with m in * by lia.
    split; [lia|]. split; [exact Hf|].
    intros k Hlt. destruct k as [|k]; [exact Fx|]. apply Hk. lia.
Qed.

(* every issue of the deny-overlap pass: code OVERLAPPED_BY_DENY; the earlier rule is a deny and
   precedes the later rule; it covers the later rule's resource and shares an action with it; and
   the later rule is the first such rule after it *)
Theorem do_pass_sound : forall rules idx issues,
  do_pass rules idx = Ok issues ->
  forall i, In i issues ->
    i_code i = OverlappedByDeny /\
    idx <= i_earlier i < i_later i /\ i_later i < idx + List.length rules /\
    py_eq (rule_eff_raw (nth (i_earlier i - idx) rules VNull)) (VStr "deny") = true /\
    do_hit (nth (i_earlier i - idx) rules VNull) (nth (i_later i - idx) rules VNull) = Ok true /\
    forall k, i_earlier i < k < i_later i ->
      do_hit (nth (i_earlier i - idx) rules VNull) (nth (k - idx) rules VNull) = Ok false.
Proof.
  induction rules as [|e rest IH]; intros idx issues H i Hi.
  - inversion H; subst. destruct Hi.
  - cbn [do_pass] in H. destruct (py_eq (rule_eff_raw e) (VStr "deny")) eqn:Ed.
    + destruct (first_hit (fun later => do_hit e later) rest (S idx)) as [h| | |] eqn:Fh; try discriminate.
      cbn [rbind] in H. destruct (do_pass rest (S idx)) as [tl| | |] eqn:Dp; try discriminate.
      cbn [rbind] in H. inversion H; subst issues. clear H.
      assert (Htl : In i tl -> i_code i = OverlappedByDeny /\
                idx <= i_earlier i < i_later i /\ i_later i < idx + List.length (e :: rest) /\
                py_eq (rule_eff_raw (nth (i_earlier i - idx) (e :: rest) VNull)) (VStr "deny") = true /\
                do_hit (nth (i_earlier i - idx) (e :: rest) VNull) (nth (i_later i - idx) (e :: rest) VNull) = Ok true /\
                forall k, i_earlier i < k < i_later i ->
                  do_hit (nth (i_earlier i - idx) (e :: rest) VNull) (nth (k - idx) (e :: rest) VNull) = Ok false).
      { intros Hin. destruct (IH (S idx) tl Dp i Hin) as (Hc & Ho & Hl & He & Hh & Hf).
        simpl List.length.
        destruct (i_earlier i - idx) as [|m] eqn:Em; [lia|]. replace (i_earlier i - S idx) with m in * by lia.
        destruct (i_later i - idx) as [|n] eqn:En; [lia|]. replace (i_later i - S idx) with n in * by lia.
        repeat split; try lia; try assumption.
        intros k Hk. specialize (Hf k Hk).
        destruct (k - idx) as [|q] eqn:Eq; [lia|]. replace (k - S idx) with q in * by lia. exact Hf. }
      destruct h as [l|]; [|exact (Htl Hi)].
      destruct Hi as [<-|Hi]; [|exact (Htl Hi)].
      destruct (first_hit_spec _ _ _ _ Fh) as (Hr & Hf & Hk). cbn [i_code i_later i_earlier].
      simpl List.length. replace (idx - idx) with 0 by lia. cbn [nth].
      destruct (l - idx) as [|n] eqn:En; [lia|]. replace (l - S idx) with n in * by lia.
      repeat split; try lia; try assumption.
      intros k Hlt. destruct (k - idx) as [|q] eqn:Eq; [lia|]. cbn [nth]. apply Hk. lia.
    + destruct (IH (S idx) issues H i Hi) as (Hc & Ho & Hl & He & Hh & Hf).
      simpl List.length.
      destruct (i_earlier i - idx) as [|m] eqn:Em; [lia|]. replace (i_earlier i - S idx) with m in * by lia.
      destruct (i_later i - idx) as [|n] eqn:En; [lia|]. replace (i_later i - S idx) with n in * by lia.
      repeat split; try lia; try assumption.
      intros k Hk. specialize (Hf k Hk).
      destruct (k - idx) as [|q] eqn:Eq; [lia|]. replace (k - S idx) with q in * by lia. exact Hf.
Qed.

(* and conversely: every deny rule that overlaps some later rule is reported *)
Theorem do_pass_complete : forall rules idx issues,
  do_pass rules idx = Ok issues ->
  forall e l, e < l < List.length rules ->
    py_eq (rule_eff_raw (nth e rules VNull)) (VStr "deny") = true ->
    do_hit (nth e rules VNull) (nth l rules VNull) = Ok true ->
    exists i, In i issues /\ i_earlier i = idx + e /\ i_later i <= idx + l.
Proof.
  induction rules as [|r0 rest IH]; intros idx issues H e l Hel Hd Hh; [simpl in Hel; lia|].
  cbn [do_pass] in H. destruct e as [|e].
  - cbn [nth] in Hd, Hh. rewrite Hd in H.
    destruct (first_hit (fun later => do_hit r0 later) rest (S idx)) as [h| | |] eqn:Fh; try discriminate.
    cbn [rbind] in H. destruct (do_pass rest (S idx)) as [tl| | |]; try discriminate.
    cbn [rbind] in H. inversion H; subst issues. clear H.
    destruct l as [|l]; [lia|]. cbn [nth] in Hh.
    destruct h as [j|].
    + exists {| i_code := OverlappedByDeny; i_later := j; i_earlier := idx |}.
      split; [left; reflexivity|]. cbn. split; [lia|].
      destruct (first_hit_spec _ _ _ _ Fh) as (Hr & Hf & Hk).
      destruct (Nat.le_gt_cases j (idx + S l)) as [Hle|Hgt]; [exact Hle|].
      exfalso. assert (Hlt : l < j - S idx) by lia. specialize (Hk l Hlt). congruence.
    + exfalso. clear - Fh Hh Hel. simpl in Hel.
      assert (G : forall rest i l, l < List.length rest -> do_hit r0 (nth l rest VNull) = Ok true ->
                    first_hit (fun later => do_hit r0 later) rest i <> Ok None).
      { induction rest0 as [|x r IH]; intros i l0 Hl Ht; [simpl in Hl; lia|].
        cbn [first_hit]. destruct l0 as [|l0]; cbn [nth] in Ht.
        - rewrite Ht. cbn. discriminate.
        - destruct (do_hit r0 x) as [b| | |]; cbn; try discriminate. destruct b; [discriminate|].
          apply (IH (S i) l0); [simpl in Hl; lia|exact Ht]. }
      apply (G rest (S idx) l); [lia|exact Hh|exact Fh].
  - destruct l as [|l]; [lia|]. cbn [nth] in Hd, Hh. simpl in Hel.
    assert (Hrest : exists tl, do_pass rest (S idx) = Ok tl /\ incl tl issues).
    { destruct (py_eq (rule_eff_raw r0) (VStr "deny")).
      - destruct (first_hit (fun later => do_hit r0 later) rest (S idx)) as [h| | |]; try discriminate.
        cbn [rbind] in H. destruct (do_pass rest (S idx)) as [tl| | |]; try discriminate.
        cbn [rbind] in H. inversion H; subst issues. exists tl. split; [reflexivity|].
        destruct h; [apply incl_tl|]; apply incl_refl.
      - exists issues. split; [exact H|apply incl_refl]. }
    destruct Hrest as (tl & Htl & Hinc).
    destruct (IH (S idx) tl Htl e l ltac:(lia) Hd Hh) as (i & Hi & He & Hl).
    exists i. split; [apply Hinc, Hi|]. lia.
Qed.

(* ---------- one document, one meaning ---------- *)
(* whatever text / name / content type / hint delivered it: equal parsed objects have equal
   meaning on every path (the parsers themselves are oracles: json, PyYAML) *)
Theorem same_document_same_decision
        (jl yl : string -> res value) t1 fn1 ct1 f1 t2 fn2 ct2 f2 d1 d2 :
  parse_policy_text jl yl t1 fn1 ct1 f1 = Ok d1 ->
  parse_policy_text jl yl t2 fn2 ct2 f2 = Ok d2 ->
  d1 = d2 ->
  forall (rel : rel_query -> bool) oblig strict req resolved env c ps st dep l,
    guard_eval unit (relh_pure rel) oblig strict d1 req resolved tt =
      guard_eval unit (relh_pure rel) oblig strict d2 req resolved tt /\
    evaluate unit (relh_pure rel) None d1 env tt = evaluate unit (relh_pure rel) None d2 env tt /\
    decide unit (relh_pure rel) d1 env tt = decide unit (relh_pure rel) d2 env tt /\
    compiled_decide unit (relh_pure rel) d1 env tt = compiled_decide unit (relh_pure rel) d2 env tt /\
    schema_valid d1 = schema_valid d2 /\
    lint_cross d1 = lint_cross d2 /\
    cli_main c ps st dep (PDoc d1) l = cli_main c ps st dep (PDoc d2) l.
Proof. intros _ _ ->. intros. repeat split. Qed.

(* F23: key order INSIDE a rule's resource constraint is visible to lax target matching (str(dict)) *)
Definition f23_policy (k1 k2 : string * value) : value :=
  VObj [("algorithm", VStr "deny-overrides");
        ("rules", VList [VObj [("id", VStr "p"); ("effect", VStr "permit"); ("actions", VList [VStr "read"]);
                               ("resource", VObj [("type", VStr "doc");
                                                  ("attrs", VObj [("k", VObj [k1; k2])])])]])].
Definition f23_req : value :=
  VObj [("subject", VObj [("id", VStr "u"); ("roles", VList []); ("attrs", VObj [])]); ("action", VStr "read");
        ("resource", VObj [("type", VStr "doc"); ("id", VStr "1");
                           ("attrs", VObj [("k", VObj [("b", VNum (NInt 1)); ("a", VNum (NInt 2))])])]);
        ("context", VObj [])].

Theorem refuted_key_order :
  exists p1 p2 req,
    schema_valid p1 = true /\ schema_valid p2 = true /\
    py_eq p1 p2 = true /\                       (* the same document: Python's == on the parsed objects *)
    gres_effect (run_engine (fun _ => false) builtin_oblig false req None p1) = Some "permit" /\
    gres_effect (run_engine (fun _ => false) builtin_oblig false req None p2) = Some "deny" /\
    (* strict mode compares with ==, not str(): no difference *)
    gres_effect (run_engine (fun _ => false) builtin_oblig true req None p1) =
    gres_effect (run_engine (fun _ => false) builtin_oblig true req None p2).
Proof.
  exists (f23_policy ("b", VNum (NInt 1)) ("a", VNum (NInt 2))),
         (f23_policy ("a", VNum (NInt 2)) ("b", VNum (NInt 1))), f23_req.
  repeat split; vm_compute; reflexivity.
Qed.

(* ====================================================================== *)
(* 4. key order (partial): the order of the keys of the policy / policy-set  *)
(*    objects (all nesting levels), of every rule object and of every rule's *)
(*    "resource" object does not matter to any evaluator                     *)
(* ====================================================================== *)
Definition same_map (a b : list (string * value)) : Prop := forall k, assoc k a = assoc k b.
Definition opt_rel {A} (R : A -> A -> Prop) (o1 o2 : option A) : Prop :=
  match o1, o2 with Some x, Some y => R x y | None, None => True | _, _ => False end.

(* a "resource" object with its keys in another order *)
Definition res_equiv (v1 v2 : value) : Prop :=
  v1 = v2 \/ exists a b, v1 = VObj a /\ v2 = VObj b /\ same_map a b.
(* a rule with its keys, and those of its resource object, in another order *)
Definition rule_equiv (r1 r2 : value) : Prop :=
  r1 = r2 \/ exists a b, r1 = VObj a /\ r2 = VObj b /\
    (forall k, String.eqb k "resource" = false -> assoc k a = assoc k b) /\
    opt_rel res_equiv (assoc "resource" a) (assoc "resource" b).
Definition rules_val_equiv (v1 v2 : value) : Prop :=
  v1 = v2 \/ exists l1 l2, v1 = VList l1 /\ v2 = VList l2 /\ Forall2 rule_equiv l1 l2.
(* a policy / policy set (nested) with reordered keys at those levels; everything else —
   conditions, constraint values, obligations, ids — is literally the same *)
Inductive pol_equiv : value -> value -> Prop :=
| pe_same v : pol_equiv v v
| pe_obj a b :
    (forall k, String.eqb k "rules" = false -> String.eqb k "policies" = false -> assoc k a = assoc k b) ->
    opt_rel rules_val_equiv (assoc "rules" a) (assoc "rules" b) ->
    (assoc "policies" a = assoc "policies" b \/
     exists l1 l2, assoc "policies" a = Some (VList l1) /\ assoc "policies" b = Some (VList l2) /\
                   Forall2 pol_equiv l1 l2) ->
    pol_equiv (VObj a) (VObj b).

Lemma same_map_nil a b : same_map a b -> (a = [] <-> b = []).
Proof.
  intros H. split; intros ->.
  - destruct b as [|[k v] r]; [reflexivity|]. specialize (H k). simpl in H. rewrite String.eqb_refl in H. discriminate.
  - destruct a as [|[k v] r]; [reflexivity|]. specialize (H k). simpl in H. rewrite String.eqb_refl in H. discriminate.
Qed.
Lemma res_equiv_get k v1 v2 : res_equiv v1 v2 -> get_key k v1 = get_key k v2.
Proof. intros [->|(a & b & -> & -> & H)]; [reflexivity|]. unfold get_key. rewrite (H k). reflexivity. Qed.
Lemma res_equiv_truthy v1 v2 : res_equiv v1 v2 -> py_truthy v1 = py_truthy v2.
Proof.
  intros [->|(a & b & -> & -> & H)]; [reflexivity|]. simpl.
  destruct (same_map_nil a b H) as [H1 H2]. destruct a, b; try reflexivity;
    [specialize (H1 eq_refl); discriminate|specialize (H2 eq_refl); discriminate].
Qed.
Lemma res_equiv_is_obj v1 v2 : res_equiv v1 v2 -> is_obj v1 = is_obj v2.
Proof. intros [->|(a & b & -> & -> & H)]; reflexivity. Qed.
Lemma res_equiv_or v1 v2 d : res_equiv v1 v2 -> res_equiv (py_or v1 d) (py_or v2 d).
Proof.
  intros H. unfold py_or. rewrite (res_equiv_truthy _ _ H).
  destruct (py_truthy v2); [exact H|left; reflexivity].
Qed.
Lemma match_resource_equiv d1 d2 resource s :
  res_equiv d1 d2 -> match_resource d1 resource s = match_resource d2 resource s.
Proof.
  intros H. pose proof (res_equiv_get "type" _ _ H) as Ht. pose proof (res_equiv_get "id" _ _ H) as Hi.
  pose proof (res_equiv_get "attrs" _ _ H) as Ha. pose proof (res_equiv_get "attributes" _ _ H) as Hb.
  destruct H as [->|(a & b & -> & -> & H)]; [reflexivity|].
  destruct (same_map_nil a b H) as [H1 H2].
  unfold match_resource, attrs_of. rewrite Ht, Hi, Ha, Hb.
  destruct a as [|x a]; destruct b as [|y b]; try reflexivity;
    [specialize (H1 eq_refl); discriminate|specialize (H2 eq_refl); discriminate].
Qed.

Lemma rule_equiv_get k r1 r2 :
  rule_equiv r1 r2 -> String.eqb k "resource" = false -> get_key k r1 = get_key k r2.
Proof.
  intros [->|(a & b & -> & -> & H & _)] Hk; [reflexivity|]. unfold get_key. rewrite (H k Hk). reflexivity.
Qed.
Lemma rule_equiv_resource r1 r2 :
  rule_equiv r1 r2 -> res_equiv (get_key "resource" r1) (get_key "resource" r2).
Proof.
  intros [->|(a & b & -> & -> & _ & H)]; [left; reflexivity|]. unfold get_key.
  destruct (assoc "resource" a), (assoc "resource" b); simpl in H; try contradiction; [exact H|left; reflexivity].
Qed.
Lemma rule_equiv_is_obj r1 r2 : rule_equiv r1 r2 -> is_obj r1 = is_obj r2.
Proof. intros [->|(a & b & -> & -> & _)]; reflexivity. Qed.
Lemma rule_equiv_rule_resource r1 r2 : rule_equiv r1 r2 -> res_equiv (rule_resource r1) (rule_resource r2).
Proof. intros H. unfold rule_resource. apply res_equiv_or, rule_equiv_resource, H. Qed.
Lemma rule_equiv_actions r1 r2 : rule_equiv r1 r2 -> string_actions r1 = string_actions r2.
Proof. intros H. unfold string_actions. rewrite (rule_equiv_get "actions" _ _ H eq_refl). reflexivity. Qed.

Section KeyOrder.
  Variable rel : rel_query -> bool.
  Notation relh := (relh_pure rel).

  Lemma rule_outcome_equiv r1 r2 env :
    rule_equiv r1 r2 -> rule_outcome unit relh r1 env tt = rule_outcome unit relh r2 env tt.
  Proof.
    intros H. pose proof (rule_equiv_is_obj _ _ H) as Ho.
    destruct r1 as [| | | | |ka|]; destruct r2 as [| | | | |kb|]; try discriminate; try reflexivity.
    unfold rule_outcome.
    assert (Ha : match_actions (VObj ka) = match_actions (VObj kb)).
    { unfold match_actions. rewrite (rule_equiv_actions _ _ H). reflexivity. }
    rewrite Ha, (rule_equiv_actions _ _ H).
    rewrite (match_resource_equiv _ _ (py_or (get_key "resource" env) (VObj []))
               (if strict_of env then Some true else None)
               (res_equiv_or _ _ (VObj []) (rule_equiv_resource _ _ H))).
    rewrite (rule_equiv_get "condition" _ _ H eq_refl). reflexivity.
  Qed.

  Lemma loop_equiv al env : forall l1 l2, Forall2 rule_equiv l1 l2 ->
    forall a, loop unit relh al l1 env a tt = loop unit relh al l2 env a tt.
  Proof.
    induction 1 as [|r1 r2 l1 l2 Hr _ IH]; intros a; [reflexivity|].
    cbn [loop]. rewrite (rule_outcome_equiv r1 r2 env Hr).
    destruct (rule_outcome unit relh r2 env tt) as [[|reason|w|] u]; destruct u; try reflexivity; try apply IH.
    assert (He : rule_effect r1 = rule_effect r2).
    { unfold rule_effect. rewrite (rule_equiv_get "effect" _ _ Hr eq_refl). reflexivity. }
    rewrite He. destruct (rule_effect r2) as [eff|]; [|reflexivity].
    assert (Hap : apply_rule al a r1 eff = apply_rule al a r2 eff).
    { unfold apply_rule, rule_id, rule_obls.
      rewrite (rule_equiv_get "id" _ _ Hr eq_refl), (rule_equiv_get "obligations" _ _ Hr eq_refl). reflexivity. }
    rewrite Hap. destruct (a_broke (apply_rule al a r2 eff)); [reflexivity|apply IH].
  Qed.

  Lemma rules_val_equiv_rules v1 v2 :
    rules_val_equiv v1 v2 ->
    match py_or v1 (VList []), py_or v2 (VList []) with
    | VList l1, VList l2 => Forall2 rule_equiv l1 l2
    | VList _, _ | _, VList _ => False
    | x, y => x = y
    end.
  Proof.
    assert (Hrefl : forall l, Forall2 rule_equiv l l).
    { induction l; constructor; [left; reflexivity|assumption]. }
    intros [->|(l1 & l2 & -> & -> & H)].
    - destruct (py_or v2 (VList [])); try reflexivity. apply Hrefl.
    - unfold py_or. simpl. inversion H; subst; simpl; [constructor|]. exact H.
  Qed.

  Lemma evaluate_equiv a b env :
    (forall k, String.eqb k "rules" = false -> String.eqb k "policies" = false -> assoc k a = assoc k b) ->
    opt_rel rules_val_equiv (assoc "rules" a) (assoc "rules" b) ->
    evaluate unit relh None (VObj a) env tt = evaluate unit relh None (VObj b) env tt.
  Proof.
    intros Hk Hr. unfold evaluate.
    assert (Ha : policy_algo None (VObj a) = policy_algo None (VObj b)).
    { unfold policy_algo, get_key. rewrite (Hk "algorithm" eq_refl eq_refl). reflexivity. }
    rewrite Ha. destruct (policy_algo None (VObj b)) as [al|]; [|reflexivity].
    unfold policy_rules, get_key.
    assert (Hv : rules_val_equiv (match assoc "rules" a with Some x => x | None => VNull end)
                                 (match assoc "rules" b with Some x => x | None => VNull end)).
    { destruct (assoc "rules" a), (assoc "rules" b); simpl in Hr; try contradiction; [exact Hr|left; reflexivity]. }
    pose proof (rules_val_equiv_rules _ _ Hv) as Hl.
    destruct (py_or _ (VList [])) as [| | | |l1| |]; destruct (py_or _ (VList [])) as [| | | |l2| |];
      try contradiction; try discriminate; try reflexivity.
    rewrite (loop_equiv al env l1 l2 Hl acc0). reflexivity.
  Qed.

  Definition order_stmt (v1 : value) : Prop :=
    forall v2, pol_equiv v1 v2 -> forall env,
      decide unit relh v1 env tt = decide unit relh v2 env tt /\
      evaluate unit relh None v1 env tt = evaluate unit relh None v2 env tt.

  Lemma pol_equiv_is_obj v1 v2 : pol_equiv v1 v2 -> is_obj v1 = is_obj v2.
  Proof. intros H; inversion H; reflexivity. Qed.
  Lemma pol_equiv_has_policies v1 v2 : pol_equiv v1 v2 -> has_key "policies" v1 = has_key "policies" v2.
  Proof.
    intros H; inversion H; subst; [reflexivity|]. unfold has_key.
    destruct H2 as [->|(l1 & l2 & -> & -> & _)]; reflexivity.
  Qed.
  Lemma pol_equiv_get k v1 v2 :
    pol_equiv v1 v2 -> String.eqb k "rules" = false -> String.eqb k "policies" = false -> get_key k v1 = get_key k v2.
  Proof. intros H Hr Hp; inversion H; subst; [reflexivity|]. unfold get_key. rewrite (H0 k Hr Hp). reflexivity. Qed.

  Lemma set_loop_equiv al env : forall l1 l2, Forall2 pol_equiv l1 l2 -> Forall order_stmt l1 ->
    forall a, set_loop rel al l1 env a = set_loop rel al l2 env a.
  Proof.
    induction 1 as [|p1 p2 l1 l2 Hp _ IH]; intros Hall a; [reflexivity|].
    inversion Hall as [|? ? Hq Hrest]; subst.
    cbn [set_loop]. pose proof (pol_equiv_is_obj _ _ Hp) as Ho.
    destruct p1 as [| | | | |k1|]; destruct p2 as [| | | | |k2|]; try discriminate; try reflexivity.
    assert (Hc : child_result rel (VObj k1) env = child_result rel (VObj k2) env).
    { unfold child_result. rewrite (pol_equiv_has_policies _ _ Hp). destruct (Hq _ Hp env) as [Hd He].
      destruct (has_key "policies" (VObj k2)); [rewrite Hd|rewrite He]; reflexivity. }
    assert (Hpid : pid_of (VObj k1) = pid_of (VObj k2)).
    { unfold pid_of. rewrite (pol_equiv_get "id" _ _ Hp eq_refl eq_refl). reflexivity. }
    rewrite Hc, Hpid. destruct (child_result rel (VObj k2) env); try reflexivity.
    destruct (s_broke _); [reflexivity|apply IH; exact Hrest].
  Qed.

  Lemma order_all : forall v, order_stmt v /\ match v with VList l => Forall order_stmt l | _ => True end.
  Proof.
    apply value_ind'.
    1-4, 7: (intros; split; [intros v2 H env; inversion H; subst; split; reflexivity|exact I]).
    - intros l Hl. split; [intros v2 H env; inversion H; subst; split; reflexivity|].
      induction Hl as [|x r Hx _ IH]; constructor; [exact (proj1 Hx)|exact IH].
    - intros a Hk. split; [|exact I]. intros v2 H env. inversion H as [|? b Hkeys Hrules Hkids]; subst.
      + split; reflexivity.
      + split; [|apply evaluate_equiv; assumption].
        rewrite !decide_unfold.
        assert (Ha : set_algo (VObj a) = set_algo (VObj b)).
        { unfold set_algo, get_key. rewrite (Hkeys "algorithm" eq_refl eq_refl). reflexivity. }
        rewrite Ha. destruct (set_algo (VObj b)) as [al|]; [|reflexivity].
        destruct Hkids as [->|(l1 & l2 & H1 & H2 & Hf)]; [reflexivity|].
        rewrite H1, H2. rewrite (set_loop_equiv al env l1 l2 Hf); [reflexivity|].
        apply assoc_in in H1. rewrite Forall_forall in Hk. exact (proj2 (Hk _ H1)).
  Qed.

  (* interpreter and set evaluator *)
  Theorem key_order_interpreter p1 p2 env :
    pol_equiv p1 p2 ->
    decide unit relh p1 env tt = decide unit relh p2 env tt /\
    evaluate unit relh None p1 env tt = evaluate unit relh None p2 env tt /\
    interpret unit relh p1 env tt = interpret unit relh p2 env tt.
  Proof.
    intros H. destruct (proj1 (order_all p1) p2 H env) as [Hd He]. repeat split; try assumption.
    unfold interpret. rewrite (pol_equiv_has_policies _ _ H). destruct (has_key "policies" p2); assumption.
  Qed.

  (* compiled path *)
  Lemma categorize_equiv r1 r2 rt : rule_equiv r1 r2 -> categorize r1 rt = categorize r2 rt.
  Proof.
    intros H. pose proof (rule_equiv_rule_resource _ _ H) as Hr.
    unfold categorize, resource_types, has_id, has_attrs, attrs_of.
    rewrite (res_equiv_get "type" _ _ Hr), (res_equiv_get "id" _ _ Hr),
            (res_equiv_get "attrs" _ _ Hr), (res_equiv_get "attributes" _ _ Hr). reflexivity.
  Qed.

  Definition bucket_equiv (x y : nat * value) : Prop := fst x = fst y /\ rule_equiv (snd x) (snd y).

  Lemma buckets_equiv action rt resource strict : forall l1 l2, Forall2 rule_equiv l1 l2 ->
    match buckets action rt resource strict l1, buckets action rt resource strict l2 with
    | Ok b1, Ok b2 => Forall2 bucket_equiv b1 b2
    | TypeErr, TypeErr | Ood, Ood => True
    | Raise w1, Raise w2 => w1 = w2
    | _, _ => False
    end.
  Proof.
    induction 1 as [|r1 r2 l1 l2 Hr _ IH]; [constructor|].
    cbn [buckets]. unfold is_candidate. rewrite (rule_equiv_actions _ _ Hr).
    destruct (string_actions r2) as [acts|]; [|exact I].
    destruct (mem_str action acts || mem_str "*" acts); [|exact IH].
    rewrite (res_equiv_is_obj _ _ (rule_equiv_rule_resource _ _ Hr)).
    destruct (is_obj (rule_resource r2)); simpl; [|reflexivity].
    rewrite (categorize_equiv _ _ rt Hr). destruct (categorize r2 rt) as [cat|]; [|exact IH].
    rewrite (match_resource_equiv _ _ resource strict (rule_equiv_rule_resource _ _ Hr)).
    destruct (match_resource (rule_resource r2) resource strict) as [m| |w|]; simpl; try exact I; try reflexivity.
    destruct (buckets action rt resource strict l1) as [b1| |w1|], (buckets action rt resource strict l2) as [b2| |w2|];
      simpl; try contradiction; try exact I; try exact IH.
    destruct m; [constructor; [split; [reflexivity|exact Hr]|exact IH]|exact IH].
  Qed.

  Lemma filter_equiv n : forall b1 b2, Forall2 bucket_equiv b1 b2 ->
    Forall2 rule_equiv (map snd (filter (fun p => Nat.eqb (fst p) n) b1)) (map snd (filter (fun p => Nat.eqb (fst p) n) b2)).
  Proof.
    induction 1 as [|x y b1 b2 [Hf Hs] _ IH]; [constructor|]. simpl. rewrite Hf.
    destruct (Nat.eqb (fst y) n); [constructor; assumption|exact IH].
  Qed.
  Lemma select_equiv b1 b2 : Forall2 bucket_equiv b1 b2 -> Forall2 rule_equiv (select b1) (select b2).
  Proof.
    intros H. unfold select.
    pose proof (filter_equiv 0 _ _ H) as H0. pose proof (filter_equiv 1 _ _ H) as H1.
    pose proof (filter_equiv 2 _ _ H) as H2. pose proof (filter_equiv 3 _ _ H) as H3.
    destruct H0; [|constructor; assumption]. destruct H1; [|constructor; assumption].
    destruct H2; [|constructor; assumption]. exact H3.
  Qed.

  Lemma policy_rules_equiv p1 p2 :
    pol_equiv p1 p2 ->
    match policy_rules p1, policy_rules p2 with
    | Some l1, Some l2 => Forall2 rule_equiv l1 l2
    | None, None => True
    | _, _ => False
    end.
  Proof.
    assert (Hrefl : forall l, Forall2 rule_equiv l l).
    { induction l; constructor; [left; reflexivity|assumption]. }
    intros H. inversion H as [|a b Hk Hr Hp]; subst.
    - destruct (policy_rules p2); [apply Hrefl|exact I].
    - unfold policy_rules, get_key.
      assert (Hv : rules_val_equiv (match assoc "rules" a with Some x => x | None => VNull end)
                                   (match assoc "rules" b with Some x => x | None => VNull end)).
      { destruct (assoc "rules" a), (assoc "rules" b); simpl in Hr; try contradiction; [exact Hr|left; reflexivity]. }
      pose proof (rules_val_equiv_rules _ _ Hv) as Hl.
      destruct (py_or _ (VList [])) as [| | | |l1| |]; destruct (py_or _ (VList [])) as [| | | |l2| |];
        try contradiction; try discriminate; try exact I. exact Hl.
  Qed.

  Theorem key_order_compiled p1 p2 env :
    pol_equiv p1 p2 ->
    compilable p1 = compilable p2 /\
    compiled_decide unit relh p1 env tt = compiled_decide unit relh p2 env tt /\
    guard_decide unit relh p1 env tt = guard_decide unit relh p2 env tt.
  Proof.
    intros H. destruct (key_order_interpreter p1 p2 env H) as (Hd & He & Hi).
    pose proof (pol_equiv_has_policies _ _ H) as Hs.
    pose proof (policy_rules_equiv _ _ H) as Hr.
    assert (Hcd : compiled_decide unit relh p1 env tt = compiled_decide unit relh p2 env tt).
    { unfold compiled_decide. rewrite Hs. destruct (has_key "policies" p2); [exact Hd|].
      assert (Ha : compiled_algo p1 = compiled_algo p2).
      { unfold compiled_algo. rewrite (pol_equiv_get "algorithm" _ _ H eq_refl eq_refl). reflexivity. }
      rewrite Ha. destruct (compiled_algo p2) as [al|]; [|reflexivity].
      destruct (policy_rules p1) as [l1|], (policy_rules p2) as [l2|]; try contradiction; [|reflexivity].
      destruct (if is_null (get_key "action" env) then Some "" else py_str (get_key "action" env)) as [action|]; [|reflexivity].
      destruct (if is_null (get_key "type" (py_or (get_key "resource" env) (VObj []))) then Some None
                else option_map Some (py_str (get_key "type" (py_or (get_key "resource" env) (VObj []))))) as [rt|]; [|reflexivity].
      pose proof (buckets_equiv action rt (py_or (get_key "resource" env) (VObj []))
                    (if strict_of env then Some true else None) l1 l2 Hr) as Hb.
      destruct (buckets action rt _ _ l1) as [b1| |w1|], (buckets action rt _ _ l2) as [b2| |w2|];
        try contradiction; try reflexivity; [|subst; reflexivity].
      apply evaluate_equiv.
      - intros k Hkr _. simpl. destruct (String.eqb k "algorithm"); [reflexivity|]. rewrite Hkr. reflexivity.
      - simpl. right. exists (select b1), (select b2). repeat split. apply select_equiv, Hb. }
    assert (Hc : compilable p1 = compilable p2).
    { inversion H as [|a b Hk Hrv Hp]; subst; [reflexivity|].
      unfold compilable. rewrite Hs.
      destruct (has_key "policies" (VObj b)); [reflexivity|].
      unfold get_key at 2 4. rewrite (Hk "algorithm" eq_refl eq_refl).
      unfold policy_rules in Hr.
      destruct (py_or (get_key "rules" (VObj a)) (VList [])) as [| | | |l1| |];
        destruct (py_or (get_key "rules" (VObj b)) (VList [])) as [| | | |l2| |]; try contradiction; try reflexivity.
      f_equal. clear - Hr. induction Hr as [|x y l1 l2 Hxy _ IH]; [reflexivity|]. simpl.
      rewrite (rule_equiv_is_obj _ _ Hxy), IH. reflexivity. }
    repeat split; try assumption.
    unfold guard_decide. rewrite Hc, Hcd. destruct (compilable p2); [|exact Hi].
    destruct (compiled_decide unit relh p2 env tt) as [[r|w|] u]; try reflexivity. destruct u. exact Hi.
  Qed.

  (* the engine *)
  Theorem key_order_engine oblig strict req resolved p1 p2 :
    pol_equiv p1 p2 ->
    guard_eval unit relh oblig strict p1 req resolved tt = guard_eval unit relh oblig strict p2 req resolved tt.
  Proof.
    intros H. unfold guard_eval. destruct (build_env strict req resolved) as [env|]; [|reflexivity].
    destruct (key_order_compiled p1 p2 env H) as (_ & _ & Hg). rewrite Hg. reflexivity.
  Qed.
End KeyOrder.

(* ---------- schema-valid policies: the compiled function never raises internally ---------- *)
Section SchemaValidEngine.
  Variable rel : rel_query -> bool.
  Notation relh := (relh_pure rel).
  Variable oblig : raw -> value -> option (bool * option string).

  Lemma schema_valid_compiled_fine kvs env :
    env_ok env -> schema_valid (VObj kvs) = true -> has_key "policies" (VObj kvs) = false ->
    eres_fine (fst (compiled_decide unit relh (VObj kvs) env tt)).
  Proof.
    intros He Hv Hs. unfold schema_valid in Hv.
    repeat (apply andb_true_iff in Hv; destruct Hv as [Hv ?]).
    match goal with Hx : xorb _ _ = true |- _ => rename Hx into Hxor end.
    match goal with Hx : negb (has_key "rules" _) || _ = true |- _ => rename Hx into Hrul end.
    rewrite Hs in Hxor. destruct (has_key "rules" (VObj kvs)) eqn:Hkr; [|discriminate]. simpl in Hrul.
    destruct (rules_of_valid _ Hkr Hrul) as (rules & Hr & Hrv).
    unfold compiled_decide. rewrite Hs. destruct (compiled_algo (VObj kvs)) as [al|]; [|exact I]. rewrite Hr.
    destruct (if is_null (get_key "action" env) then Some "" else py_str (get_key "action" env)) as [action|]; [|exact I].
    destruct (if is_null (get_key "type" (py_or (get_key "resource" env) (VObj []))) then Some None
              else option_map Some (py_str (get_key "type" (py_or (get_key "resource" env) (VObj []))))) as [rt|]; [|exact I].
    destruct He as [Hres Hctx].
    pose proof (buckets_fine action rt (py_or (get_key "resource" env) (VObj []))
                  (if strict_of env then Some true else None) Hres rules Hrv) as Hb.
    destruct (buckets action rt _ _ rules) as [bs| |w|] eqn:Eb; try contradiction; try exact I.
    apply (evaluate_fine unit relh None _ env tt (select bs) (conj Hres Hctx) (literal_rules _ _)).
    apply (forallb_incl rule_valid rules (select bs)); [|exact Hrv].
    exact (selected_rules_subset _ _ _ _ _ _ Eb).
  Qed.

  Lemma schema_valid_with_algo a kvs :
    algorithm_valid (VStr a) = true -> schema_valid (VObj kvs) = true ->
    schema_valid (with_algorithm a (VObj kvs)) = true.
  Proof.
    intros Ha Hv. unfold schema_valid in *.
    rewrite (with_algo_has_other a kvs "rules" eq_refl), (with_algo_has_other a kvs "policies" eq_refl),
            (with_algo_get_other a kvs "rules" eq_refl), (with_algo_get_other a kvs "policies" eq_refl), with_algo_get, Ha.
    repeat (apply andb_true_iff in Hv; destruct Hv as [Hv ?]).
    repeat (apply andb_true_iff; split); try assumption; try reflexivity. apply orb_true_r.
  Qed.

  (* for schema-valid documents and JSON-valued requests the complement of F12's class needs no
     side condition *)
  Theorem engine_default_schema_valid strict req resolved kvs :
    schema_valid (VObj kvs) = true -> request_ok req ->
    ~ f12_class rel oblig strict req resolved (VObj kvs) ->
    gres_effect (run_engine rel oblig strict req resolved (VObj kvs)) =
    gres_effect (run_engine rel oblig strict req resolved (fill_default (VObj kvs))).
  Proof.
    intros Hv Hq Hn.
    destruct (is_set (VObj kvs)) eqn:Hs.
    - apply engine_default_outside_class. right; left; exact Hs.
    - apply engine_default_not_f12; [exact Hn|].
      intros env w Hb Habs.
      pose proof (schema_valid_compiled_fine _ env (build_env_ok _ _ _ _ Hq Hb)
                    (schema_valid_with_algo "permit-overrides" kvs eq_refl Hv)) as Hf.
      cbn [with_algorithm] in Hf, Habs.
      change (VObj (dict_set "algorithm" (VStr "permit-overrides") kvs)) with (with_algorithm "permit-overrides" (VObj kvs)) in Hf.
      rewrite (with_algo_has_other _ kvs "policies" eq_refl) in Hf. specialize (Hf Hs).
      cbn [with_algorithm] in Hf. rewrite Habs in Hf. exact Hf.
  Qed.
End SchemaValidEngine.
