(* CacheKey.v — the decision-cache key of Guard (src/rbacx/core/engine.py,
   _normalize_env_for_cache / _cache_key) on JSON values.  Definitions only.

   The key of an evaluation is  f"{policy_etag}:{json.dumps(env, sort_keys=True,
   separators=(",", ":"), default=str, ensure_ascii=False)}".  On JSON values (None,
   bool, int, float, str, list, dict with str keys) that text determines, and is
   determined by, the env with the keys of every object sorted — recursively — and
   nothing else changed: 1, 1.0, true and "1" print differently, list order is
   kept, floats print by repr.  [canon] is that normal form; key equality is
   structural equality [veqb] of normal forms.  (That json.dumps is injective on
   such normal forms is CPython's json module, trusted and tied by harness/c08.py,
   which compares the hit/miss pattern of the implementation with the model's.)

   [order_free] / [str_safe] describe the requests on which sharing a key is
   harmless: see CacheKeyProofs.decide_canon and props/C08.v. *)
From Coq Require Import ZArith List Bool String Ascii.
From Rbacx Require Import Value Target Policy.
Import ListNotations.
Local Open Scope string_scope.

(* ---------- structural equality (what equality of the dumped text means) ---------- *)
Definition flt_eqb (a b : flt) : bool :=
  match a, b with
  | FNaN, FNaN => true
  | FInf s, FInf t => Bool.eqb s t
  | FFin m e, FFin m' e' => Z.eqb m m' && Z.eqb e e'
  | _, _ => false
  end.
Definition num_eqb (a b : num) : bool :=
  match a, b with
  | NInt x, NInt y => Z.eqb x y
  | NFlt f r, NFlt g s => flt_eqb f g && String.eqb r s
  | _, _ => false
  end.
Fixpoint veqb (a b : value) {struct a} : bool :=
  match a, b with
  | VNull, VNull => true
  | VBool x, VBool y => Bool.eqb x y
  | VNum n, VNum m => num_eqb n m
  | VStr s, VStr t => String.eqb s t
  | VList l1, VList l2 =>
      (fix go (l1 l2 : list value) : bool :=
         match l1, l2 with
         | [], [] => true
         | x :: xs, y :: ys => veqb x y && go xs ys
         | _, _ => false
         end) l1 l2
  | VObj k1, VObj k2 =>
      (fix go (k1 k2 : list (string * value)) : bool :=
         match k1, k2 with
         | [], [] => true
         | (k, x) :: xs, (k', y) :: ys => String.eqb k k' && veqb x y && go xs ys
         | _, _ => false
         end) k1 k2
  | VDate a1 u1, VDate a2 u2 => Bool.eqb a1 a2 && Z.eqb u1 u2
  | _, _ => false
  end.

(* ---------- sort_keys=True ---------- *)
(* insertion into a key-sorted list, before the first entry whose key is not smaller
   (stable: of two entries with one key the earlier stays first — Python dicts have
   no such entries, the model's lists may) ; String.leb is byte order = code point
   order on UTF-8, which is how Python orders str keys *)
Fixpoint kins (k : string) (v : value) (l : list (string * value)) : list (string * value) :=
  match l with
  | [] => [(k, v)]
  | (k', v') :: r => if String.leb k k' then (k, v) :: l else (k', v') :: kins k v r
  end.
Fixpoint ksort (l : list (string * value)) : list (string * value) :=
  match l with
  | [] => []
  | (k, v) :: r => kins k v (ksort r)
  end.

(* the env as json.dumps(sort_keys=True) sees it *)
Fixpoint canon (v : value) : value :=
  match v with
  | VList l => VList (map canon l)
  | VObj kvs => VObj (ksort (map (fun kv => (fst kv, canon (snd kv))) kvs))
  | _ => v
  end.

(* two values print to the same key text *)
Definition same_key (a b : value) : Prop := canon a = canon b.

(* ---------- where key order cannot be seen ---------- *)
(* no object with two or more keys anywhere inside: str() / repr() of such a value,
   and whatever an external collaborator does with it, cannot depend on key order *)
Fixpoint order_free (v : value) : bool :=
  match v with
  | VList l => forallb order_free l
  | VObj kvs => Nat.leb (List.length kvs) 1 && forallb (fun kv => order_free (snd kv)) kvs
  | _ => true
  end.

(* the positions of an env that the decision functions turn into text or hand to the
   relationship checker:
     str(resource.type)            lax target match; compiled bucket selection (both modes)
     str(resource.id)              lax target match; rel's default resource  f"{type}:{id}"
     str(subject.id)               rel's default subject  f"user:{id}"
     str(action)                   compiled bucket selection
     context["_rebac"]             handed to RelationshipChecker.check(context=...)
     str(resource.attrs[k])        lax target match of rule attrs — not in strict mode (== there) *)
Definition str_safe (env : value) : bool :=
  let r := get_key "resource" env in
  order_free (get_key "action" env)
  && order_free (get_key "id" (get_key "subject" env))
  && order_free (get_key "type" r)
  && order_free (get_key "id" r)
  && order_free (get_key "_rebac" (get_key "context" env))
  && (strict_of env
      || match attrs_of r with
         | VObj kvs => forallb (fun kv => order_free (snd kv)) kvs
         | _ => true
         end).

(* one more place where request DATA is turned into text: `between` resolves the two
   elements of its range a second time (policy.py: resolve(rng_val[0], env)) — when
   the range itself came from the env, an element {"attr": X} is a reference whose
   path is str(X).  [ref_safe]: no object anywhere in the env has a value under the
   key "attr" in which key order could show. *)
Fixpoint ref_safe (v : value) : bool :=
  match v with
  | VList l => forallb ref_safe l
  | VObj kvs => order_free (get_key "attr" v) && forallb (fun kv => ref_safe (snd kv)) kvs
  | _ => true
  end.

(* the class of envs on which sharing a key is proved harmless *)
Definition key_safe (env : value) : bool := str_safe env && ref_safe env.
