(* Engine.v — model of Guard._evaluate_core_async without the cache
   (src/rbacx/core/engine.py): environment construction, decision by compiled
   function / interpreter, obligation gate, Decision construction, audit payload.
   Collaborators are parameters: the relationship lookup (through Cond's relh), the
   role resolver's answer, the obligation checker. *)
From Coq Require Import ZArith List Bool String Ascii.
From Rbacx Require Import Value Cond Target Policy PolicySet Compiler Oblig.
Import ListNotations.
Local Open Scope string_scope.

Record decision := {
  d_allowed : bool;
  d_effect : string;
  d_obligations : list value;
  d_challenge : option string;
  d_rule_id : option string;
  d_policy_id : option value;
  d_reason : string
}.

(* a request as the harness encodes Subject/Action/Resource/Context:
   {"subject": {"id", "roles", "attrs"}, "action": name,
    "resource": {"type", "id", "attrs"}, "context": attrs} *)
Definition obj_or_empty (v : value) : option value :=       (* dict(x or {}) *)
  if py_truthy v then match v with VObj k => Some (VObj k) | _ => None end else Some (VObj []).

(* resolved: None = no resolver configured or it raised (own roles are kept);
   Some r = what role_resolver.expand(roles) returned *)
Definition build_env (strict : bool) (req : value) (resolved : option value) : option value :=
  let subj := get_key "subject" req in
  let rsrc := get_key "resource" req in
  let own := match py_or (get_key "roles" subj) (VList []) with VList l => Some (VList l) | _ => None end in
  match own, obj_or_empty (get_key "attrs" subj), obj_or_empty (get_key "attrs" rsrc),
        obj_or_empty (get_key "context" req) with
  | Some own_roles, Some sattrs, Some rattrs, Some ctx =>
      let roles := match resolved with Some r => r | None => own_roles end in
      let base := [("subject", VObj [("id", get_key "id" subj); ("roles", roles); ("attrs", sattrs)]);
                   ("action", get_key "action" req);
                   ("resource", VObj [("type", get_key "type" rsrc); ("id", get_key "id" rsrc); ("attrs", rattrs)]);
                   ("context", ctx)] in
      Some (VObj (if strict then base ++ [("__strict_types__", VBool true)] else base))
  | _, _, _, _ => None
  end.

Inductive gres := GDecision (d : decision) | GRaise (w : string) | GOod.

Section Eval.
  Variable S : Type.
  Variable relh : rel_query -> S -> bool * S.
  (* the configured obligation checker applied to (raw decision, context attrs):
     None = it raised (Guard logs and keeps the permit) *)
  Variable oblig : raw -> value -> option (bool * option string).

  (* from a raw decision to the Decision (engine.py "determine effect/allowed with obligations") *)
  Definition finish (r : raw) (ctx : value) : decision :=
    let is_permit := String.eqb (r_decision r) "permit" in
    if is_permit then
      match oblig r ctx with
      | Some (ok, ch) =>
          {| d_allowed := ok; d_effect := if ok then "permit" else "deny";
             d_obligations := r_obligations r; d_challenge := ch;
             d_rule_id := r_rule_id r; d_policy_id := r_policy_id r;
             d_reason := if ok then r_reason r else "obligation_failed" |}
      | None =>
          {| d_allowed := true; d_effect := "permit"; d_obligations := r_obligations r; d_challenge := None;
             d_rule_id := r_rule_id r; d_policy_id := r_policy_id r; d_reason := r_reason r |}
      end
    else
      {| d_allowed := false; d_effect := "deny"; d_obligations := r_obligations r; d_challenge := None;
         d_rule_id := r_rule_id r; d_policy_id := r_policy_id r; d_reason := r_reason r |}.

  Definition guard_eval (strict : bool) (policy req : value) (resolved : option value) (st : S) : gres * S :=
    match build_env strict req resolved with
    | None => (GOod, st)
    | Some env =>
        match guard_decide S relh policy env st with
        | (ERaw r, st') => (GDecision (finish r (get_key "context" env)), st')
        | (EErr w, st') => (GRaise w, st')
        | (EOod, st') => (GOod, st')
        end
    end.
End Eval.

(* the built-in checker as the [oblig] parameter; Ood is reported separately by the runner *)
Definition builtin_oblig (r : raw) (ctx : value) : option (bool * option string) :=
  match check (r_decision r) (r_obligations r) ctx with
  | Ok x => Some x
  | _ => None
  end.
