(* CacheKeyProofs.v — the decision-cache key (CacheKey.v) determines the decision:
   two requests with the same key text (canon e1 = canon e2) get the same answer from
   the uncached decision function, provided the positions that are turned into text
   are order-free (str_safe) and no attr-reference-shaped object inside the request
   carries a multi-key dict as its path (ref_safe; see the remark at decide_canon). *)
From Coq Require Import ZArith List Bool String Ascii Lia.
From Rbacx Require Import Value ValueInd Num Time Cond Target Policy PolicySet Compiler Oblig CacheKey.
Import ListNotations.
Local Open Scope string_scope.

(* ====================================================================== *)
(* 1. structural equality                                                  *)
(* ====================================================================== *)
Lemma flt_eqb_eq a b : flt_eqb a b = true <-> a = b.
Proof.
  destruct a, b; simpl; split; intros H; try discriminate; try reflexivity.
  - apply Bool.eqb_prop in H. now subst.
  - inversion H; subst. apply Bool.eqb_reflx.
  - apply andb_true_iff in H. destruct H as [H1 H2].
    apply Z.eqb_eq in H1. apply Z.eqb_eq in H2. now subst.
  - inversion H; subst. rewrite !Z.eqb_refl. reflexivity.
Qed.

Lemma num_eqb_eq a b : num_eqb a b = true <-> a = b.
Proof.
  destruct a, b; simpl; split; intros H; try discriminate.
  - apply Z.eqb_eq in H. now subst.
  - inversion H; subst. apply Z.eqb_refl.
  - apply andb_true_iff in H. destruct H as [H1 H2].
    apply flt_eqb_eq in H1. apply String.eqb_eq in H2. now subst.
  - inversion H; subst. apply andb_true_iff. split; [now apply flt_eqb_eq|apply String.eqb_refl].
Qed.

Lemma veqb_eq : forall a b, veqb a b = true <-> a = b.
Proof.
  induction a using value_ind'; intros b'.
  - destruct b'; simpl; split; intros H0; try discriminate; reflexivity.
  - destruct b'; simpl; split; intros H0; try discriminate.
    + apply Bool.eqb_prop in H0. now subst.
    + inversion H0; subst. apply Bool.eqb_reflx.
  - destruct b'; simpl; split; intros H0; try discriminate.
    + apply num_eqb_eq in H0. now subst.
    + inversion H0; subst. now apply num_eqb_eq.
  - destruct b'; simpl; split; intros H0; try discriminate.
    + apply String.eqb_eq in H0. now subst.
    + inversion H0; subst. apply String.eqb_refl.
  - destruct b' as [| | | |l2| |]; try (simpl; split; intros H0; discriminate).
    assert (G : veqb (VList l) (VList l2) = true <-> l = l2).
    { revert l2. induction H as [|x r Hx Hr IH]; intros l2; destruct l2 as [|y ys];
        try (simpl; split; intros H0; try discriminate; reflexivity).
      change (veqb (VList (x :: r)) (VList (y :: ys)))
        with (veqb x y && veqb (VList r) (VList ys)).
      rewrite andb_true_iff, Hx, IH. split.
      - intros [-> ->]. reflexivity.
      - intros H0; inversion H0; auto. }
    rewrite G. split; [intros ->; reflexivity|intros H0; inversion H0; reflexivity].
  - destruct b' as [| | | | |k2|]; try (simpl; split; intros H0; discriminate).
    assert (G : veqb (VObj kvs) (VObj k2) = true <-> kvs = k2).
    { revert k2. induction H as [|[k x] r Hx Hr IH]; intros k2; destruct k2 as [|[k' y] ys];
        try (simpl; split; intros H0; try discriminate; reflexivity).
      change (veqb (VObj ((k, x) :: r)) (VObj ((k', y) :: ys)))
        with (String.eqb k k' && veqb x y && veqb (VObj r) (VObj ys)).
      simpl in Hx.
      rewrite !andb_true_iff, Hx, IH, String.eqb_eq. split.
      - intros [[-> ->] ->]. reflexivity.
      - intros H0; inversion H0; auto. }
    rewrite G. split; [intros ->; reflexivity|intros H0; inversion H0; reflexivity].
  - destruct b'; simpl; split; intros H0; try discriminate.
    + apply andb_true_iff in H0. destruct H0 as [H1 H2].
      apply Bool.eqb_prop in H1. apply Z.eqb_eq in H2. now subst.
    + inversion H0; subst. rewrite Bool.eqb_reflx, Z.eqb_refl. reflexivity.
Qed.

(* ====================================================================== *)
(* 2. the key sort                                                         *)
(* ====================================================================== *)
Lemma sleb_refl s : String.leb s s = true.
Proof. destruct (String.leb_total s s); assumption. Qed.

Lemma assoc_kins k k' v l :
  assoc k (kins k' v l) = if String.eqb k k' then Some v else assoc k l.
Proof.
  induction l as [|[k2 v2] r IH]; simpl; [reflexivity|].
  destruct (String.leb k' k2) eqn:El; simpl; [reflexivity|].
  rewrite IH. destruct (String.eqb k k2) eqn:E2; [|reflexivity].
  destruct (String.eqb k k') eqn:E1; [|reflexivity].
  apply String.eqb_eq in E1. apply String.eqb_eq in E2. subst.
  rewrite sleb_refl in El. discriminate.
Qed.

Lemma assoc_ksort : forall k l, assoc k (ksort l) = assoc k l.
Proof.
  intros k l. induction l as [|[k' v] r IH]; simpl; [reflexivity|].
  rewrite assoc_kins, IH. reflexivity.
Qed.

Lemma kins_length k v l : List.length (kins k v l) = Datatypes.S (List.length l).
Proof.
  induction l as [|[k2 v2] r IH]; simpl; [reflexivity|].
  destruct (String.leb k k2); simpl; [reflexivity|]. now rewrite IH.
Qed.
Lemma ksort_length l : List.length (ksort l) = List.length l.
Proof. induction l as [|[k v] r IH]; simpl; [reflexivity|]. now rewrite kins_length, IH. Qed.

Lemma forallb_kins (P : string * value -> bool) k v l :
  forallb P (kins k v l) = P (k, v) && forallb P l.
Proof.
  induction l as [|[k2 v2] r IH]; simpl; [reflexivity|].
  destruct (String.leb k k2); simpl; [reflexivity|]. rewrite IH.
  destruct (P (k2, v2)), (P (k, v)); reflexivity.
Qed.
Lemma forallb_ksort (P : string * value -> bool) l : forallb P (ksort l) = forallb P l.
Proof. induction l as [|[k v] r IH]; simpl; [reflexivity|]. now rewrite forallb_kins, IH. Qed.
Lemma existsb_kins (P : string * value -> bool) k v l :
  existsb P (kins k v l) = P (k, v) || existsb P l.
Proof.
  induction l as [|[k2 v2] r IH]; simpl; [reflexivity|].
  destruct (String.leb k k2); simpl; [reflexivity|]. rewrite IH.
  destruct (P (k2, v2)), (P (k, v)); reflexivity.
Qed.
Lemma existsb_ksort (P : string * value -> bool) l : existsb P (ksort l) = existsb P l.
Proof. induction l as [|[k v] r IH]; simpl; [reflexivity|]. now rewrite existsb_kins, IH. Qed.

Definition cmap (kvs : list (string * value)) : list (string * value) :=
  map (fun kv => (fst kv, canon (snd kv))) kvs.

Lemma canon_obj kvs : canon (VObj kvs) = VObj (ksort (cmap kvs)).
Proof. reflexivity. Qed.

Lemma assoc_cmap k kvs : assoc k (cmap kvs) = option_map canon (assoc k kvs).
Proof.
  induction kvs as [|[k' v] r IH]; simpl; [reflexivity|].
  destruct (String.eqb k k'); [reflexivity|exact IH].
Qed.
Lemma assoc_canon k kvs : assoc k (ksort (cmap kvs)) = option_map canon (assoc k kvs).
Proof. now rewrite assoc_ksort, assoc_cmap. Qed.

(* ====================================================================== *)
(* 3. order-free values are their own normal form, and alone in their class *)
(* ====================================================================== *)
Lemma order_free_canon : forall v, order_free v = true -> canon v = v.
Proof.
  induction v using value_ind'; intros Hf; try reflexivity.
  - simpl in *. f_equal. induction H as [|x r Hx Hr IH]; [reflexivity|].
    simpl in *. apply andb_true_iff in Hf. destruct Hf as [H1 H2].
    rewrite Hx, IH; auto.
  - simpl in Hf. apply andb_true_iff in Hf. destruct Hf as [Hl Hf].
    destruct kvs as [|[k v] [|kv2 r]]; try reflexivity; [|simpl in Hl; discriminate].
    inversion H; subst. simpl in *. rewrite andb_true_r in Hf. rewrite H2; auto.
Qed.

(* what canon a = canon b says, by head constructor *)
Lemma sk_inv a b : canon a = canon b ->
  match a, b with
  | VList l1, VList l2 => map canon l1 = map canon l2
  | VObj k1, VObj k2 => ksort (cmap k1) = ksort (cmap k2)
  | VList _, _ | _, VList _ | VObj _, _ | _, VObj _ => False
  | _, _ => a = b
  end.
Proof.
  destruct a, b; simpl; intros H; try discriminate; try (inversion H; reflexivity); try exact H.
  inversion H. assumption.
Qed.

Lemma order_free_same_key : forall a b, canon a = canon b -> order_free a = true -> a = b.
Proof.
  induction a using value_ind'; intros b' Hc Hf;
    try (apply sk_inv in Hc; destruct b'; try contradiction; exact Hc).
  - apply sk_inv in Hc. destruct b' as [| | | |l2| |]; try contradiction.
    f_equal. simpl in Hf. revert l2 Hc. induction H as [|x r Hx Hr IH]; intros l2 Hc.
    + destruct l2; [reflexivity|discriminate].
    + destruct l2 as [|y ys]; [discriminate|]. simpl in *. inversion Hc.
      apply andb_true_iff in Hf. destruct Hf as [Hf1 Hf2].
      f_equal; [apply Hx; assumption|apply IH; assumption].
  - apply sk_inv in Hc. destruct b' as [| | | | |k2|]; try contradiction.
    simpl in Hf. apply andb_true_iff in Hf. destruct Hf as [Hl Hf].
    assert (Hlen : List.length kvs = List.length k2).
    { apply (f_equal (@List.length _)) in Hc. rewrite !ksort_length in Hc.
      unfold cmap in Hc. now rewrite !map_length in Hc. }
    destruct kvs as [|[k v] [|kv2 r]]; [| |simpl in Hl; discriminate].
    + destruct k2; [reflexivity|discriminate].
    + destruct k2 as [|[k' v'] [|? ?]]; try discriminate.
      simpl in Hc. inversion Hc; subst. inversion H; subst. simpl in *.
      rewrite andb_true_r in Hf. rewrite (H3 v'); auto.
Qed.

(* ====================================================================== *)
(* 4. the Python primitives do not see key order                           *)
(* ====================================================================== *)
Lemma py_eq_list_cons x xs y ys :
  py_eq (VList (x :: xs)) (VList (y :: ys)) = py_eq x y && py_eq (VList xs) (VList ys).
Proof. reflexivity. Qed.

Definition obj_all (k2 l : list (string * value)) : bool :=
  forallb (fun kv => match assoc (fst kv) k2 with Some w => py_eq (snd kv) w | None => false end) l.

Lemma py_eq_obj k1 k2 :
  py_eq (VObj k1) (VObj k2) = Nat.eqb (List.length k1) (List.length k2) && obj_all k2 k1.
Proof.
  simpl. f_equal. induction k1 as [|[k v] r IH]; simpl; [reflexivity|].
  destruct (assoc k k2); [|reflexivity]. now rewrite IH.
Qed.

Lemma cmap_length l : List.length (cmap l) = List.length l.
Proof. unfold cmap. apply map_length. Qed.

Lemma py_eq_canon_l : forall a b, py_eq (canon a) b = py_eq a b.
Proof.
  induction a using value_ind'; intros b'; try reflexivity.
  - destruct b' as [| | | |l2| |]; try reflexivity.
    revert l2. induction H as [|x r Hx Hr IH]; intros l2; destruct l2 as [|y ys]; try reflexivity.
    change (canon (VList (x :: r))) with (VList (canon x :: map canon r)).
    rewrite !py_eq_list_cons, Hx. f_equal. exact (IH ys).
  - destruct b' as [| | | | |k2|]; try reflexivity.
    rewrite canon_obj, !py_eq_obj, ksort_length, cmap_length. f_equal.
    unfold obj_all. rewrite forallb_ksort.
    induction H as [|[k v] r Hx Hr IH]; [reflexivity|]. simpl in *.
    rewrite IH. destruct (assoc k k2); [|reflexivity]. now rewrite Hx.
Qed.

Lemma py_eq_canon_r : forall a b, py_eq a (canon b) = py_eq a b.
Proof.
  induction a using value_ind'; intros b'; try (destruct b'; reflexivity).
  - destruct b' as [| | | |l2| |]; try reflexivity.
    revert l2. induction H as [|x r Hx Hr IH]; intros l2; destruct l2 as [|y ys]; try reflexivity.
    change (canon (VList (y :: ys))) with (VList (canon y :: map canon ys)).
    rewrite !py_eq_list_cons, Hx. f_equal. exact (IH ys).
  - destruct b' as [| | | | |k2|]; try reflexivity.
    rewrite canon_obj, !py_eq_obj, ksort_length, cmap_length. f_equal.
    unfold obj_all.
    induction H as [|[k v] r Hx Hr IH]; [reflexivity|]. simpl in *.
    rewrite IH, assoc_canon. destruct (assoc k k2); [|reflexivity]. simpl. now rewrite Hx.
Qed.

Lemma py_eq_canon : forall a b, py_eq a b = py_eq (canon a) (canon b).
Proof. intros a b. now rewrite py_eq_canon_l, py_eq_canon_r. Qed.

Lemma kins_not_nil k v l : kins k v l <> [].
Proof. destruct l as [|[k2 v2] r]; simpl; [discriminate|]. destruct (String.leb k k2); discriminate. Qed.

Lemma py_truthy_canon v : py_truthy (canon v) = py_truthy v.
Proof.
  destruct v; try reflexivity.
  - destruct l; reflexivity.
  - destruct kvs as [|[k v] r]; [reflexivity|]. simpl.
    destruct (kins k (canon v) _) eqn:E; [|reflexivity]. exfalso. exact (kins_not_nil _ _ _ E).
Qed.

Lemma has_nan_canon : forall v, has_nan (canon v) = has_nan v.
Proof.
  induction v using value_ind'; try reflexivity.
  - simpl. induction H as [|x r Hx Hr IH]; [reflexivity|]. simpl. now rewrite Hx, IH.
  - rewrite canon_obj. simpl. rewrite existsb_ksort.
    induction H as [|[k v] r Hx Hr IH]; [reflexivity|]. simpl in *. now rewrite Hx, IH.
Qed.

Lemma nested_nan_canon v : nested_nan (canon v) = nested_nan v.
Proof.
  destruct v; try reflexivity.
  - exact (has_nan_canon (VList l)).
  - exact (has_nan_canon (VObj kvs)).
Qed.

Lemma get_key_canon k v : get_key k (canon v) = canon (get_key k v).
Proof.
  destruct v; try reflexivity. rewrite canon_obj. simpl. rewrite assoc_canon.
  destruct (assoc k kvs); reflexivity.
Qed.

Lemma has_key_canon k v : has_key k (canon v) = has_key k v.
Proof.
  destruct v; try reflexivity. rewrite canon_obj. simpl. rewrite assoc_canon.
  destruct (assoc k kvs); reflexivity.
Qed.

(* ---------- the same-key relation ---------- *)
Local Notation SK a b := (canon a = canon b).

Lemma sk_py_eq a1 a2 b1 b2 : SK a1 a2 -> SK b1 b2 -> py_eq a1 b1 = py_eq a2 b2.
Proof. intros Ha Hb. rewrite (py_eq_canon a1 b1), (py_eq_canon a2 b2), Ha, Hb. reflexivity. Qed.
Lemma sk_truthy a b : SK a b -> py_truthy a = py_truthy b.
Proof. intros H. rewrite <- (py_truthy_canon a), <- (py_truthy_canon b), H. reflexivity. Qed.
Lemma sk_has_nan a b : SK a b -> has_nan a = has_nan b.
Proof. intros H. rewrite <- (has_nan_canon a), <- (has_nan_canon b), H. reflexivity. Qed.
Lemma sk_nested_nan a b : SK a b -> nested_nan a = nested_nan b.
Proof. intros H. rewrite <- (nested_nan_canon a), <- (nested_nan_canon b), H. reflexivity. Qed.
Lemma sk_get_key k a b : SK a b -> SK (get_key k a) (get_key k b).
Proof. intros H. rewrite <- !get_key_canon, H. reflexivity. Qed.
Lemma sk_has_key k a b : SK a b -> has_key k a = has_key k b.
Proof. intros H. rewrite <- (has_key_canon k a), <- (has_key_canon k b), H. reflexivity. Qed.
Lemma sk_py_or a b c d : SK a b -> SK c d -> SK (py_or a c) (py_or b d).
Proof. intros H1 H2. unfold py_or. rewrite (sk_truthy a b H1). destruct (py_truthy b); assumption. Qed.
Lemma sk_assoc k k1 k2 : SK (VObj k1) (VObj k2) -> option_map canon (assoc k k1) = option_map canon (assoc k k2).
Proof. intros H. apply sk_inv in H. rewrite <- !assoc_canon, H. reflexivity. Qed.

(* same head constructor; scalars equal; lists pointwise *)
Definition head_same (a b : value) : Prop :=
  match a, b with
  | VList l1, VList l2 => Forall2 (fun x y => SK x y) l1 l2
  | VObj _, VObj _ => True
  | VList _, _ | _, VList _ | VObj _, _ | _, VObj _ => False
  | _, _ => a = b
  end.
Lemma map_canon_forall2 l1 l2 : map canon l1 = map canon l2 -> Forall2 (fun x y => SK x y) l1 l2.
Proof.
  revert l2. induction l1 as [|x r IH]; intros [|y ys] H; try discriminate; constructor;
    simpl in H; inversion H; auto.
Qed.
Lemma sk_head a b : SK a b -> head_same a b.
Proof.
  intros H. apply sk_inv in H. destruct a, b; simpl in *; try contradiction; try exact H; try exact I.
  now apply map_canon_forall2.
Qed.
Lemma sk_scalar a b : SK a b -> is_list a = false -> is_obj a = false -> a = b.
Proof. intros H Hl Ho. apply sk_inv in H. destruct a, b; simpl in *; try contradiction; try discriminate; exact H. Qed.
Lemma sk_is_null a b : SK a b -> is_null a = is_null b.
Proof. intros H. apply sk_inv in H. destruct a, b; simpl in *; try contradiction; try discriminate; reflexivity. Qed.
Lemma sk_is_obj a b : SK a b -> is_obj a = is_obj b.
Proof. intros H. apply sk_inv in H. destruct a, b; simpl in *; try contradiction; try discriminate; reflexivity. Qed.
Lemma sk_of_eq_order_free a b : SK a b -> order_free a = true -> a = b.
Proof. apply order_free_same_key. Qed.

Lemma sk_in_list x1 x2 l1 l2 :
  SK x1 x2 -> Forall2 (fun x y => SK x y) l1 l2 -> py_in_list x1 l1 = py_in_list x2 l2.
Proof.
  intros Hx H. unfold py_in_list. induction H as [|a b r1 r2 Hab Hr IH]; [reflexivity|].
  simpl. now rewrite (sk_py_eq a b x1 x2 Hab Hx), IH.
Qed.

(* ====================================================================== *)
(* 5. the decision does not see key order                                  *)
(* ====================================================================== *)
Definition res_rel {A} (R : A -> A -> Prop) (r1 r2 : res A) : Prop :=
  match r1, r2 with
  | Ok a, Ok b => R a b
  | TypeErr, TypeErr => True
  | Raise w, Raise w' => w = w'
  | Ood, Ood => True
  | _, _ => False
  end.

Lemma res_rel_mono {A} (R R' : A -> A -> Prop) r1 r2 :
  (forall a b, R a b -> R' a b) -> res_rel R r1 r2 -> res_rel R' r1 r2.
Proof. intros HR. destruct r1, r2; simpl; auto. Qed.

Lemma rbind_rel {A B} (R : A -> A -> Prop) (r1 r2 : res A) (f1 f2 : A -> res B) :
  res_rel R r1 r2 -> (forall a b, R a b -> f1 a = f2 b) -> rbind r1 f1 = rbind r2 f2.
Proof. destruct r1, r2; simpl; intros H Hf; try contradiction; auto. now subst. Qed.

(* a value reached from the env: same key, and (left one) reference-safe *)
Definition RS (a b : value) : Prop := SK a b /\ ref_safe a = true.
(* a resolved token: a literal of the policy (equal) or a value reached from the env *)
Definition RT (a b : value) : Prop := a = b \/ RS a b.

Lemma RT_sk a b : RT a b -> SK a b.
Proof. intros [->|[H _]]; [reflexivity|exact H]. Qed.

Lemma ref_safe_assoc p kvs v : ref_safe (VObj kvs) = true -> assoc p kvs = Some v -> ref_safe v = true.
Proof.
  intros H Ha. simpl in H. apply andb_true_iff in H. destruct H as [_ H].
  rewrite forallb_forall in H. apply assoc_in in Ha. exact (H _ Ha).
Qed.
Lemma ref_safe_attr t : ref_safe t = true -> order_free (get_key "attr" t) = true.
Proof. destruct t; try reflexivity. simpl. intros H. apply andb_true_iff in H. exact (proj1 H). Qed.

Lemma step_path_rs r1 r2 p : res_rel RS r1 r2 -> res_rel RS (step_path r1 p) (step_path r2 p).
Proof.
  assert (N : RS VNull VNull) by (split; reflexivity).
  destruct r1 as [a| | |], r2 as [b| | |]; simpl; try contradiction; auto.
  intros [Hs Hr]. pose proof (sk_inv _ _ Hs) as Hi.
  destruct a, b; simpl in Hi |- *; try contradiction; try discriminate; auto.
  pose proof (sk_assoc p _ _ Hs) as Ha.
  destruct (assoc p kvs) as [v1|] eqn:E1, (assoc p kvs0) as [v2|] eqn:E2; simpl in Ha; try discriminate; auto.
  inversion Ha. split; [assumption|]. exact (ref_safe_assoc _ _ _ Hr E1).
Qed.

Lemma fold_step_rs path : forall r1 r2,
  res_rel RS r1 r2 -> res_rel RS (fold_left step_path path r1) (fold_left step_path path r2).
Proof. induction path as [|p r IH]; intros r1 r2 H; simpl; [exact H|]. apply IH. now apply step_path_rs. Qed.

Lemma RT_list a b : RT a b ->
  match a, b with
  | VList l1, VList l2 => Forall2 RT l1 l2
  | VList _, _ | _, VList _ => False
  | _, _ => True
  end.
Proof.
  intros [->|[Hs Hr]].
  - destruct b; auto. induction l; constructor; auto. now left.
  - pose proof (sk_head _ _ Hs) as Hh. destruct a, b; simpl in Hh; try contradiction; try discriminate; auto.
    change (forallb ref_safe l = true) in Hr. clear Hs. revert Hr.
    induction Hh as [|x y r1 r2 Hxy Hrr IH]; intros Hr; constructor;
      simpl in Hr; apply andb_true_iff in Hr; destruct Hr as [Hr1 Hr2].
    + right. split; assumption.
    + apply IH. assumption.
Qed.

Lemma Forall2_two {A} (R : A -> A -> Prop) l1 l2 : Forall2 R l1 l2 ->
  match l1, l2 with
  | [a; b], [c; d] => R a c /\ R b d
  | [_; _], _ | _, [_; _] => False
  | _, _ => True
  end.
Proof.
  intros H. destruct H as [|a c r1 r2 Hac Hr]; [exact I|].
  destruct Hr as [|b d r1 r2 Hbd Hr]; [exact I|].
  destruct Hr as [|? ? ? ? _ _]; [split; assumption|exact I].
Qed.

Lemma sk_num_of a b : SK a b -> num_of a = num_of b.
Proof. intros H. apply sk_inv in H. destruct a, b; simpl in *; try contradiction; try discriminate; try reflexivity. now inversion H. Qed.
Lemma sk_cmp_numeric x1 y1 x2 y2 : SK x1 x2 -> SK y1 y2 -> cmp_numeric x1 y1 = cmp_numeric x2 y2.
Proof. intros Hx Hy. unfold cmp_numeric. now rewrite (sk_num_of _ _ Hx), (sk_num_of _ _ Hy). Qed.
Lemma sk_parse_dt strict a b : SK a b -> parse_dt strict a = parse_dt strict b.
Proof.
  intros H. apply sk_inv in H.
  destruct a, b; simpl in H; try contradiction; try discriminate; try (inversion H; subst; reflexivity);
    destruct strict; reflexivity.
Qed.
Lemma sk_nan_guard x1 y1 x2 y2 r : SK x1 x2 -> SK y1 y2 -> nan_guard x1 y1 r = nan_guard x2 y2 r.
Proof. intros Hx Hy. unfold nan_guard. now rewrite (sk_nested_nan _ _ Hx), (sk_nested_nan _ _ Hy). Qed.
Lemma sk_nan_guard_any x1 y1 x2 y2 r : SK x1 x2 -> SK y1 y2 -> nan_guard_any x1 y1 r = nan_guard_any x2 y2 r.
Proof. intros Hx Hy. unfold nan_guard_any. now rewrite (sk_has_nan _ _ Hx), (sk_has_nan _ _ Hy). Qed.

Lemma sk_existsb_in l1 l1' l2 l2' :
  Forall2 (fun x y => SK x y) l1 l1' -> Forall2 (fun x y => SK x y) l2 l2' ->
  existsb (fun v => py_in_list v l1) l2 = existsb (fun v => py_in_list v l1') l2'.
Proof.
  intros H1 H2. induction H2 as [|a b r r' Hab Hr IH]; [reflexivity|].
  simpl. now rewrite (sk_in_list a b l1 l1' Hab H1), IH.
Qed.
Lemma sk_forallb_in l1 l1' l2 l2' :
  Forall2 (fun x y => SK x y) l1 l1' -> Forall2 (fun x y => SK x y) l2 l2' ->
  forallb (fun v => py_in_list v l1) l2 = forallb (fun v => py_in_list v l1') l2'.
Proof.
  intros H1 H2. induction H2 as [|a b r r' Hab Hr IH]; [reflexivity|].
  simpl. now rewrite (sk_in_list a b l1 l1' Hab H1), IH.
Qed.

(* split a same-key pair by head constructor; scalars become equal *)
Ltac sk_destruct H :=
  let Hh := fresh "Hh" in
  pose proof (sk_head _ _ H) as Hh;
  match type of H with canon ?a = canon ?b => destruct a, b end;
  simpl in Hh; try contradiction; try discriminate Hh;
  try (match type of Hh with _ = _ => inversion Hh; subst; clear Hh | True => clear Hh end).

Lemma op_contains x1 y1 x2 y2 : SK x1 x2 -> SK y1 y2 ->
  match x1, y1 with
  | VList l, _ => nan_guard_any x1 y1 (Ok (py_in_list y1 l))
  | VStr s1, VStr s2 => Ok (str_contains s2 s1)
  | _, _ => TypeErr
  end =
  match x2, y2 with
  | VList l, _ => nan_guard_any x2 y2 (Ok (py_in_list y2 l))
  | VStr s1, VStr s2 => Ok (str_contains s2 s1)
  | _, _ => TypeErr
  end.
Proof.
  intros Hx Hy. sk_destruct Hx; try reflexivity.
  - sk_destruct Hy; reflexivity.
  - rewrite (sk_nan_guard_any _ _ _ _ (Ok (py_in_list y1 l)) Hx Hy).
    now rewrite (sk_in_list y1 y2 l l0 Hy Hh).
Qed.

Lemma op_in x1 y1 x2 y2 : SK x1 x2 -> SK y1 y2 ->
  match x1, y1 with
  | VList l1, VList l2 => nan_guard_any x1 y1 (Ok (existsb (fun v => py_in_list v l1) l2))
  | _, VList l2 => nan_guard_any x1 y1 (Ok (py_in_list x1 l2))
  | VList l1, _ => nan_guard_any x1 y1 (Ok (py_in_list y1 l1))
  | VStr s1, VStr s2 => Ok (str_contains s1 s2)
  | _, _ => TypeErr
  end =
  match x2, y2 with
  | VList l1, VList l2 => nan_guard_any x2 y2 (Ok (existsb (fun v => py_in_list v l1) l2))
  | _, VList l2 => nan_guard_any x2 y2 (Ok (py_in_list x2 l2))
  | VList l1, _ => nan_guard_any x2 y2 (Ok (py_in_list y2 l1))
  | VStr s1, VStr s2 => Ok (str_contains s1 s2)
  | _, _ => TypeErr
  end.
Proof.
  intros Hx Hy. sk_destruct Hx; sk_destruct Hy; try reflexivity;
    try (match goal with
         | |- nan_guard_any ?a ?b ?r = nan_guard_any ?c ?d ?r' =>
             rewrite (sk_nan_guard_any a b c d r Hx Hy)
         end);
    try (f_equal; f_equal; first [ apply sk_existsb_in; assumption
                                 | apply sk_in_list; assumption ]).
Qed.

Lemma sk_as_coll a b : SK a b -> res_rel (Forall2 (fun x y => SK x y)) (as_coll a) (as_coll b).
Proof. intros H. sk_destruct H; simpl; auto. Qed.

Lemma op_hasAll x1 y1 x2 y2 : SK x1 x2 -> SK y1 y2 ->
  (col <- as_coll x1 ;; needed <- as_coll y1 ;;
   nan_guard_any x1 y1 (Ok (forallb (fun x => py_in_list x col) needed))) =
  (col <- as_coll x2 ;; needed <- as_coll y2 ;;
   nan_guard_any x2 y2 (Ok (forallb (fun x => py_in_list x col) needed))).
Proof.
  intros Hx Hy. apply (rbind_rel _ _ _ _ _ (sk_as_coll _ _ Hx)). intros c1 c2 Hc.
  apply (rbind_rel _ _ _ _ _ (sk_as_coll _ _ Hy)). intros n1 n2 Hn.
  rewrite (sk_nan_guard_any x1 y1 x2 y2 _ Hx Hy). now rewrite (sk_forallb_in _ _ _ _ Hc Hn).
Qed.
Lemma op_hasAny x1 y1 x2 y2 : SK x1 x2 -> SK y1 y2 ->
  (col <- as_coll x1 ;; opts <- as_coll y1 ;;
   nan_guard_any x1 y1 (Ok (existsb (fun x => py_in_list x col) opts))) =
  (col <- as_coll x2 ;; opts <- as_coll y2 ;;
   nan_guard_any x2 y2 (Ok (existsb (fun x => py_in_list x col) opts))).
Proof.
  intros Hx Hy. apply (rbind_rel _ _ _ _ _ (sk_as_coll _ _ Hx)). intros c1 c2 Hc.
  apply (rbind_rel _ _ _ _ _ (sk_as_coll _ _ Hy)). intros n1 n2 Hn.
  rewrite (sk_nan_guard_any x1 y1 x2 y2 _ Hx Hy). now rewrite (sk_existsb_in _ _ _ _ Hc Hn).
Qed.
Lemma op_str2 (g : string -> string -> bool) x1 y1 x2 y2 : SK x1 x2 -> SK y1 y2 ->
  match x1, y1 with VStr s1, VStr s2 => Ok (g s1 s2) | _, _ => @TypeErr bool end =
  match x2, y2 with VStr s1, VStr s2 => Ok (g s1 s2) | _, _ => TypeErr end.
Proof. intros Hx Hy. sk_destruct Hx; try reflexivity. sk_destruct Hy; reflexivity. Qed.
Lemma op_time2 strict f x1 y1 x2 y2 : SK x1 x2 -> SK y1 y2 -> time2 strict x1 y1 f = time2 strict x2 y2 f.
Proof. intros Hx Hy. unfold time2. now rewrite (sk_parse_dt strict _ _ Hx), (sk_parse_dt strict _ _ Hy). Qed.

Section Decide.
  Variable relh : rel_query -> unit -> bool * unit.
  Variables e1 e2 : value.
  Hypothesis Hsk : SK e1 e2.
  Hypothesis Hs1 : str_safe e1 = true.
  Hypothesis Hr1 : ref_safe e1 = true.

  (* ---------- (a) resolve ---------- *)
  Lemma resolve_same t : res_rel RT (resolve t e1) (resolve t e2).
  Proof.
    unfold resolve. destruct (is_attr_ref t); [|simpl; now left].
    destruct (py_str (get_key "attr" t)); [|exact I].
    apply (res_rel_mono RS RT); [intros a b H; now right|].
    apply fold_step_rs. simpl. split; assumption.
  Qed.

  Lemma resolve_tok t1 t2 : RT t1 t2 -> res_rel RT (resolve t1 e1) (resolve t2 e2).
  Proof.
    intros [->|[Hs Hr]]; [apply resolve_same|].
    assert (Ha : get_key "attr" t1 = get_key "attr" t2).
    { apply order_free_same_key; [now apply sk_get_key|now apply ref_safe_attr]. }
    unfold resolve, is_attr_ref. rewrite <- (sk_has_key "attr" t1 t2 Hs), <- Ha.
    destruct (has_key "attr" t1).
    - destruct (py_str (get_key "attr" t1)); [|exact I].
      apply (res_rel_mono RS RT); [intros a b H; now right|].
      apply fold_step_rs. simpl. split; assumption.
    - simpl. right. split; assumption.
  Qed.

  Lemma resolve2_rel v :
    res_rel (fun p q => SK (fst p) (fst q) /\ SK (snd p) (snd q)) (resolve2 v e1) (resolve2 v e2).
  Proof.
    unfold resolve2. destruct (unpack2 v) as [[a b]| | |]; simpl; auto.
    pose proof (resolve_same a) as Ha. pose proof (resolve_same b) as Hb.
    destruct (resolve a e1), (resolve a e2); simpl in *; try contradiction; auto;
    destruct (resolve b e1), (resolve b e2); simpl in *; try contradiction; auto.
    split; apply RT_sk; assumption.
  Qed.

  Lemma binop_sk v (f : value -> value -> res bool) :
    (forall x1 y1 x2 y2, SK x1 x2 -> SK y1 y2 -> f x1 y1 = f x2 y2) ->
    (xy <- resolve2 v e1 ;; f (fst xy) (snd xy)) = (xy <- resolve2 v e2 ;; f (fst xy) (snd xy)).
  Proof.
    intros Hf. apply (rbind_rel _ _ _ _ _ (resolve2_rel v)). intros p q [H1 H2]. now apply Hf.
  Qed.

  Lemma strict_eq : py_truthy (get_key "__strict_types__" e1) = py_truthy (get_key "__strict_types__" e2).
  Proof. apply sk_truthy, sk_get_key, Hsk. Qed.

  Lemma between_sk v strict :
    (ab <- unpack2 v ;;
     x <- resolve (fst ab) e1 ;;
     the_dt <- parse_dt strict x ;;
     rng <- resolve (snd ab) e1 ;;
     match rng with
     | VList [lo; hi] =>
         lo' <- resolve lo e1 ;; s <- parse_dt strict lo' ;;
         hi' <- resolve hi e1 ;; e <- parse_dt strict hi' ;;
         Ok (Z.leb s the_dt && Z.leb the_dt e)
     | _ => TypeErr
     end) =
    (ab <- unpack2 v ;;
     x <- resolve (fst ab) e2 ;;
     the_dt <- parse_dt strict x ;;
     rng <- resolve (snd ab) e2 ;;
     match rng with
     | VList [lo; hi] =>
         lo' <- resolve lo e2 ;; s <- parse_dt strict lo' ;;
         hi' <- resolve hi e2 ;; e <- parse_dt strict hi' ;;
         Ok (Z.leb s the_dt && Z.leb the_dt e)
     | _ => TypeErr
     end).
  Proof.
    destruct (unpack2 v) as [[a b]| | |]; try reflexivity. simpl.
    apply (rbind_rel RT); [apply resolve_same|]. intros x1 x2 Hx.
    rewrite (sk_parse_dt strict x1 x2 (RT_sk _ _ Hx)).
    destruct (parse_dt strict x2) as [t| | |]; try reflexivity. simpl.
    apply (rbind_rel RT); [apply resolve_same|]. intros g1 g2 Hg.
    pose proof (RT_list _ _ Hg) as Hl.
    destruct g1, g2; try contradiction; try reflexivity.
    pose proof (Forall2_two _ _ _ Hl) as H2.
    destruct l as [|lo1 [|hi1 [|? ?]]], l0 as [|lo2 [|hi2 [|? ?]]]; try contradiction; try reflexivity.
    destruct H2 as [Hlo Hhi].
    apply (rbind_rel RT); [now apply resolve_tok|]. intros a1 a2 Ha.
    rewrite (sk_parse_dt strict a1 a2 (RT_sk _ _ Ha)).
    destruct (parse_dt strict a2); try reflexivity. simpl.
    apply (rbind_rel RT); [now apply resolve_tok|]. intros b1 b2 Hb.
    rewrite (sk_parse_dt strict b1 b2 (RT_sk _ _ Hb)). reflexivity.
  Qed.

  (* ---------- what str_safe gives ---------- *)
  Lemma str_safe_facts e : str_safe e = true ->
    order_free (get_key "action" e) = true /\
    order_free (get_key "id" (get_key "subject" e)) = true /\
    order_free (get_key "type" (get_key "resource" e)) = true /\
    order_free (get_key "id" (get_key "resource" e)) = true /\
    order_free (get_key "_rebac" (get_key "context" e)) = true /\
    (strict_of e = true \/
     match attrs_of (get_key "resource" e) with
     | VObj kvs => forallb (fun kv => order_free (snd kv)) kvs
     | _ => true
     end = true).
  Proof.
    unfold str_safe. cbv zeta. rewrite !andb_true_iff, orb_true_iff. tauto.
  Qed.

  Lemma of_eq k (a b : value) : SK a b -> order_free (get_key k a) = true -> get_key k a = get_key k b.
  Proof. intros H Hf. apply order_free_same_key; [now apply sk_get_key|exact Hf]. Qed.

  Lemma act_eq : get_key "action" e1 = get_key "action" e2.
  Proof. apply of_eq; [exact Hsk|]. apply (str_safe_facts e1 Hs1). Qed.
  Lemma sid_eq : get_key "id" (get_key "subject" e1) = get_key "id" (get_key "subject" e2).
  Proof. apply of_eq; [now apply sk_get_key|]. apply (str_safe_facts e1 Hs1). Qed.
  Lemma rtype_eq : get_key "type" (get_key "resource" e1) = get_key "type" (get_key "resource" e2).
  Proof. apply of_eq; [now apply sk_get_key|]. apply (str_safe_facts e1 Hs1). Qed.
  Lemma rid_eq : get_key "id" (get_key "resource" e1) = get_key "id" (get_key "resource" e2).
  Proof. apply of_eq; [now apply sk_get_key|]. apply (str_safe_facts e1 Hs1). Qed.
  Lemma rebac_eq : get_key "_rebac" (get_key "context" e1) = get_key "_rebac" (get_key "context" e2).
  Proof. apply of_eq; [now apply sk_get_key|]. apply (str_safe_facts e1 Hs1). Qed.

  (* ---------- (c) rel ---------- *)
  Lemma canon_subject_eq o : canon_subject e1 o = canon_subject e2 o.
  Proof.
    unfold canon_subject. cbv zeta. rewrite sid_eq.
    destruct (is_null o); [reflexivity|].
    apply (rbind_rel RT); [apply resolve_same|]. intros a b Hab.
    pose proof (RT_sk _ _ Hab) as H. sk_destruct H; reflexivity.
  Qed.

  Lemma canon_resource_eq o : canon_resource e1 o = canon_resource e2 o.
  Proof.
    unfold canon_resource. cbv zeta. rewrite rtype_eq, rid_eq.
    destruct (is_null o); [reflexivity|].
    apply (rbind_rel RT); [apply resolve_same|]. intros a b Hab.
    pose proof (RT_sk _ _ Hab) as H. sk_destruct H; reflexivity.
  Qed.

  Lemma ctx_sk : SK (py_or (get_key "context" e1) (VObj [])) (py_or (get_key "context" e2) (VObj [])).
  Proof. apply sk_py_or; [now apply sk_get_key|reflexivity]. Qed.
  Lemma ctx_rebac_eq :
    get_key "_rebac" (py_or (get_key "context" e1) (VObj [])) =
    get_key "_rebac" (py_or (get_key "context" e2) (VObj [])).
  Proof.
    unfold py_or. rewrite (sk_truthy _ _ (sk_get_key "context" _ _ Hsk)).
    destruct (py_truthy (get_key "context" e2)); [exact rebac_eq|reflexivity].
  Qed.

  Lemma rel_prepare_eq expr : rel_prepare expr e1 = rel_prepare expr e2.
  Proof.
    assert (B : forall relation so ro lc,
      (if String.eqb relation "" then Ok None else
       s <- canon_subject e1 so ;;
       r <- canon_resource e1 ro ;;
       match py_or (get_key "context" e1) (VObj []) with
       | VObj _ =>
           base <- as_dict_or_empty (get_key "_rebac" (py_or (get_key "context" e1) (VObj []))) ;;
           merged <- (if py_truthy lc then (u <- as_dict_or_empty lc ;; Ok (dict_update base u)) else Ok base) ;;
           Ok (Some {| rq_subject := s; rq_relation := relation; rq_resource := r; rq_ctx := VObj merged |})
       | _ => Raise "AttributeError"
       end) =
      (if String.eqb relation "" then Ok None else
       s <- canon_subject e2 so ;;
       r <- canon_resource e2 ro ;;
       match py_or (get_key "context" e2) (VObj []) with
       | VObj _ =>
           base <- as_dict_or_empty (get_key "_rebac" (py_or (get_key "context" e2) (VObj []))) ;;
           merged <- (if py_truthy lc then (u <- as_dict_or_empty lc ;; Ok (dict_update base u)) else Ok base) ;;
           Ok (Some {| rq_subject := s; rq_relation := relation; rq_resource := r; rq_ctx := VObj merged |})
       | _ => Raise "AttributeError"
       end)).
    { intros relation so ro lc. destruct (String.eqb relation ""); [reflexivity|].
      rewrite canon_subject_eq, canon_resource_eq, ctx_rebac_eq.
      pose proof (sk_is_obj _ _ ctx_sk) as Ho.
      destruct (py_or (get_key "context" e1) (VObj [])), (py_or (get_key "context" e2) (VObj []));
        simpl in Ho; try discriminate; reflexivity. }
    unfold rel_prepare. destruct expr; try reflexivity.
    - apply B.
    - destruct (py_str (py_or (get_key "relation" (VObj kvs)) (VStr ""))); [apply B|reflexivity].
  Qed.

  (* ---------- (b) the leaf operators ---------- *)
  Ltac leaf_step k kvs v :=
    destruct (assoc k kvs) as [v|];
    [ cbv beta iota; do 2 f_equal;
      (apply (rbind_rel _ _ _ _ _ (resolve2_rel v));
           let x1 := fresh "x1" in let y1 := fresh "y1" in
           let x2 := fresh "x2" in let y2 := fresh "y2" in
           let Hx := fresh "Hx" in let Hy := fresh "Hy" in
           intros [x1 y1] [x2 y2] [Hx Hy]; cbn [fst snd] in Hx, Hy |- *;
           first [ exact (op_contains _ _ _ _ Hx Hy)
                 | exact (op_in _ _ _ _ Hx Hy)
                 | exact (op_hasAll _ _ _ _ Hx Hy)
                 | exact (op_hasAny _ _ _ _ Hx Hy)
                 | exact (op_str2 (fun s1 s2 => str_prefix s2 s1) _ _ _ _ Hx Hy)
                 | exact (op_str2 (fun s1 s2 => str_suffix s2 s1) _ _ _ _ Hx Hy)
                 | exact (op_time2 _ _ _ _ _ _ Hx Hy)
                 | rewrite (sk_nan_guard _ _ _ _ _ Hx Hy), (sk_py_eq _ _ _ _ Hx Hy); reflexivity
                 | rewrite (sk_cmp_numeric _ _ _ _ Hx Hy); reflexivity ])
    | cbv beta iota ].
  Lemma eval_leaf_eq kvs : eval_leaf unit relh kvs e1 tt = eval_leaf unit relh kvs e2 tt.
  Proof.
    unfold eval_leaf. cbv zeta. rewrite strict_eq.
    destruct (assoc "rel" kvs) as [expr|].
    { rewrite rel_prepare_eq. reflexivity. }
    cbv beta iota fix.
    leaf_step "==" kvs v. leaf_step "!=" kvs v.
    leaf_step ">" kvs v. leaf_step "<" kvs v. leaf_step ">=" kvs v. leaf_step "<=" kvs v.
    leaf_step "contains" kvs v. leaf_step "in" kvs v.
    leaf_step "hasAll" kvs v. leaf_step "hasAny" kvs v.
    leaf_step "startsWith" kvs v. leaf_step "endsWith" kvs v.
    leaf_step "before" kvs v. leaf_step "after" kvs v.
    destruct (assoc "between" kvs) as [v|]; [|reflexivity].
    cbv beta iota. do 2 f_equal. exact (between_sk v _).
  Qed.

  (* ---------- (d) conditions ---------- *)
  Notation ev c e := (eval_cond unit relh c e tt).

  Definition cond_ok (c : value) : Prop :=
    ev c e1 = ev c e2 /\
    match c with VList l => Forall (fun x => ev x e1 = ev x e2) l | _ => True end.

  Lemma eval_cond_ok : forall c, cond_ok c.
  Proof.
    induction c using value_ind'; try (split; [reflexivity|exact I]).
    - split; [reflexivity|]. induction H as [|x r Hx Hr IH]; constructor; [exact (proj1 Hx)|exact IH].
    - split; [|exact I]. cbn [eval_cond]. rewrite eval_leaf_eq.
      destruct (eval_leaf unit relh kvs e2 tt) as [r|]; [reflexivity|].
      (* "and" *)
      match goal with |- match ?A with _ => _ end = match ?B with _ => _ end =>
        assert (HA : A = B) end.
      { induction H as [|[k v] r Hv Hr IH]; [reflexivity|]. cbn -[String.eqb].
        destruct (String.eqb "and" k); [|exact IH]. f_equal.
        destruct v; try reflexivity. destruct Hv as [_ Hv]. cbn [snd] in Hv.
        induction Hv as [|x s Hx Hs IH2]; [reflexivity|]. cbn. rewrite Hx.
        destruct (eval_cond unit relh x e2 tt) as [[[|]| | |] []]; try reflexivity. exact IH2. }
      rewrite HA. clear HA.
      match goal with |- match ?B with _ => _ end = _ => destruct B end; [reflexivity|].
      (* "or" *)
      match goal with |- match ?A with _ => _ end = match ?B with _ => _ end =>
        assert (HA : A = B) end.
      { induction H as [|[k v] r Hv Hr IH]; [reflexivity|]. cbn -[String.eqb].
        destruct (String.eqb "or" k); [|exact IH]. f_equal.
        destruct v; try reflexivity. destruct Hv as [_ Hv]. cbn [snd] in Hv.
        induction Hv as [|x s Hx Hs IH2]; [reflexivity|]. cbn. rewrite Hx.
        destruct (eval_cond unit relh x e2 tt) as [[[|]| | |] []]; try reflexivity. exact IH2. }
      rewrite HA. clear HA.
      match goal with |- match ?B with _ => _ end = _ => destruct B end; [reflexivity|].
      (* "not" *)
      match goal with |- match ?A with _ => _ end = match ?B with _ => _ end =>
        assert (HA : A = B) end.
      { induction H as [|[k v] r Hv Hr IH]; [reflexivity|]. cbn -[String.eqb].
        destruct (String.eqb "not" k); [|exact IH]. f_equal.
        destruct Hv as [Hv _]. cbn [snd] in Hv. rewrite Hv. reflexivity. }
      rewrite HA. reflexivity.
  Qed.

  Lemma eval_cond_eq c : eval_cond unit relh c e1 tt = eval_cond unit relh c e2 tt.
  Proof. exact (proj1 (eval_cond_ok c)). Qed.

  (* ---------- (e) the resource target ---------- *)
  Lemma existsb_py_eq_sk rv1 rv2 opts : SK rv1 rv2 ->
    existsb (fun x => py_eq rv1 x) opts = existsb (fun x => py_eq rv2 x) opts.
  Proof.
    intros H. induction opts as [|a r IH]; [reflexivity|]. simpl.
    now rewrite (sk_py_eq rv1 rv2 a a H eq_refl), IH.
  Qed.

  Lemma attr_clause_sk strict v rv1 rv2 :
    SK rv1 rv2 -> (strict = true \/ rv1 = rv2) -> attr_clause strict v rv1 = attr_clause strict v rv2.
  Proof.
    intros H [->| ->]; [|reflexivity]. unfold attr_clause.
    destruct v; rewrite ?(sk_nested_nan _ _ H), ?(sk_has_nan _ _ H), ?(sk_py_eq rv1 rv2 _ _ H eq_refl);
      try reflexivity.
    now rewrite (existsb_py_eq_sk rv1 rv2 l H).
  Qed.

  Lemma attrs_clause_sk strict r_attrs k1 k2 :
    SK (VObj k1) (VObj k2) ->
    (strict = true \/ forallb (fun kv => order_free (snd kv)) k1 = true) ->
    attrs_clause strict r_attrs k1 = attrs_clause strict r_attrs k2.
  Proof.
    intros H Hd. induction r_attrs as [|[k v] rest IH]; [reflexivity|]. simpl.
    pose proof (sk_assoc k _ _ H) as Ha.
    destruct (assoc k k1) as [v1|] eqn:E1, (assoc k k2) as [v2|] eqn:E2; simpl in Ha; try discriminate;
      [|reflexivity].
    inversion Ha as [Hv].
    rewrite (attr_clause_sk strict v v1 v2 Hv), IH; [reflexivity|].
    destruct Hd as [Hd|Hd]; [now left|right].
    apply order_free_same_key; [exact Hv|].
    rewrite forallb_forall in Hd. exact (Hd _ (assoc_in _ _ _ E1)).
  Qed.

  Lemma sk_attrs_of r1 r2 : SK r1 r2 -> SK (attrs_of r1) (attrs_of r2).
  Proof.
    intros H. unfold attrs_of.
    apply sk_py_or; [now apply sk_get_key|]. apply sk_py_or; [now apply sk_get_key|reflexivity].
  Qed.

  Definition attrs_free (r : value) : Prop :=
    match attrs_of r with
    | VObj kvs => forallb (fun kv => order_free (snd kv)) kvs
    | _ => true
    end = true.

  Lemma match_resource_sk rdef r1 r2 sa :
    SK r1 r2 ->
    get_key "type" r1 = get_key "type" r2 ->
    get_key "id" r1 = get_key "id" r2 ->
    (sa = Some true \/ attrs_free r1) ->
    match_resource rdef r1 sa = match_resource rdef r2 sa.
  Proof.
    intros H Ht Hi Hd. unfold match_resource.
    destruct rdef as [| | | | |dk|]; try reflexivity. destruct dk as [|d0 dk]; [reflexivity|].
    pose proof (sk_is_obj _ _ H) as Ho.
    destruct r1 as [| | | | |k1|], r2 as [| | | | |k2|]; simpl in Ho; try discriminate; try reflexivity.
    cbv zeta. rewrite Ht, Hi.
    rewrite (sk_truthy _ _ (sk_get_key "__strict_types__" _ _ H)).
    set (strict := match sa with Some b => b | None => py_truthy (get_key "__strict_types__" (VObj k2)) end).
    assert (HA : forall r_attrs,
      match attrs_of (VObj k1) with VObj res_attrs => attrs_clause strict r_attrs res_attrs | _ => Ok false end =
      match attrs_of (VObj k2) with VObj res_attrs => attrs_clause strict r_attrs res_attrs | _ => Ok false end).
    { intros r_attrs. pose proof (sk_attrs_of _ _ H) as Hs. unfold attrs_free in Hd.
      remember (attrs_of (VObj k1)) as A1. remember (attrs_of (VObj k2)) as A2.
      pose proof (sk_is_obj _ _ Hs) as Hao.
      destruct A1, A2; simpl in Hao; try discriminate; try reflexivity.
      apply attrs_clause_sk; [exact Hs|].
      destruct Hd as [->|Hd]; [left; reflexivity|right; exact Hd]. }
    destruct (type_clause strict (get_key "type" (VObj (d0 :: dk))) (get_key "type" (VObj k2))) as [[|]| | |];
      try reflexivity. cbn [rbind negb].
    destruct (id_clause strict (get_key "id" (VObj (d0 :: dk))) (get_key "id" (VObj k2))) as [[|]| | |];
      try reflexivity. cbn [rbind negb].
    destruct (attrs_of (VObj (d0 :: dk))); try reflexivity. apply HA.
  Qed.

  Notation R1 := (py_or (get_key "resource" e1) (VObj [])).
  Notation R2 := (py_or (get_key "resource" e2) (VObj [])).

  Lemma res_sk : SK R1 R2.
  Proof. apply sk_py_or; [now apply sk_get_key|reflexivity]. Qed.
  Lemma res_type_eq : get_key "type" R1 = get_key "type" R2.
  Proof.
    unfold py_or. rewrite (sk_truthy _ _ (sk_get_key "resource" _ _ Hsk)).
    destruct (py_truthy (get_key "resource" e2)); [exact rtype_eq|reflexivity].
  Qed.
  Lemma res_id_eq : get_key "id" R1 = get_key "id" R2.
  Proof.
    unfold py_or. rewrite (sk_truthy _ _ (sk_get_key "resource" _ _ Hsk)).
    destruct (py_truthy (get_key "resource" e2)); [exact rid_eq|reflexivity].
  Qed.
  Lemma strict_of_eq : strict_of e1 = strict_of e2.
  Proof. exact strict_eq. Qed.

  Lemma mr_eq rdef :
    match_resource rdef R1 (if strict_of e1 then Some true else None) =
    match_resource rdef R2 (if strict_of e2 then Some true else None).
  Proof.
    rewrite <- strict_of_eq.
    apply match_resource_sk; [exact res_sk|exact res_type_eq|exact res_id_eq|].
    destruct (proj2 (proj2 (proj2 (proj2 (proj2 (str_safe_facts e1 Hs1)))))) as [Hd|Hd].
    - left. rewrite Hd. reflexivity.
    - right. unfold attrs_free, py_or. destruct (py_truthy (get_key "resource" e1)); [exact Hd|reflexivity].
  Qed.

  (* ---------- (f) rules, policies, policy sets, the compiled path ---------- *)
  Lemma rule_outcome_eq rule : rule_outcome unit relh rule e1 tt = rule_outcome unit relh rule e2 tt.
  Proof.
    unfold rule_outcome. destruct rule; try reflexivity.
    unfold env_action. rewrite act_eq, mr_eq, eval_cond_eq. reflexivity.
  Qed.

  Lemma loop_eq al : forall rules a,
    loop unit relh al rules e1 a tt = loop unit relh al rules e2 a tt.
  Proof.
    induction rules as [|rule rest IH]; intros a; [reflexivity|].
    cbn [loop]. rewrite rule_outcome_eq.
    destruct (rule_outcome unit relh rule e2 tt) as [[|reason|w|] []]; try reflexivity.
    - destruct (rule_effect rule); [|reflexivity].
      destruct (a_broke _); [reflexivity|apply IH].
    - apply IH.
  Qed.

  Lemma evaluate_eq o pol : evaluate unit relh o pol e1 tt = evaluate unit relh o pol e2 tt.
  Proof.
    unfold evaluate. destruct pol; try reflexivity.
    destruct (policy_algo o (VObj kvs)); [|reflexivity].
    destruct (policy_rules (VObj kvs)); [|reflexivity].
    rewrite loop_eq. reflexivity.
  Qed.

  Notation dec p e := (decide unit relh p e tt).
  Definition dec_ok (p : value) : Prop :=
    dec p e1 = dec p e2 /\
    match p with VList l => Forall (fun x => dec x e1 = dec x e2) l | _ => True end.

  Lemma decide_ok : forall p, dec_ok p.
  Proof.
    induction p using value_ind'; try (split; [reflexivity|exact I]).
    - split; [reflexivity|]. induction H as [|x r Hx Hr IH]; constructor; [exact (proj1 Hx)|exact IH].
    - split; [|exact I]. cbn [decide].
      destruct (set_algo (VObj kvs)) as [al|]; [|reflexivity].
      match goal with |- match ?A with _ => _ end = match ?B with _ => _ end =>
        assert (HA : A = B) end.
      { induction H as [|[k v] r Hv Hr IH]; [reflexivity|]. cbn -[String.eqb has_key].
        destruct (String.eqb "policies" k); [|exact IH]. f_equal.
        destruct v; try reflexivity. destruct Hv as [_ Hv]. cbn [snd] in Hv.
        generalize sacc0.
        induction Hv as [|x s Hx Hs IH2]; intros a0; [reflexivity|]. cbn -[String.eqb has_key].
        rewrite Hx, evaluate_eq.
        destruct x as [| | | | |ck|]; try reflexivity.
        destruct (has_key "policies" (VObj ck)).
        - destruct (decide unit relh (VObj ck) e2 tt) as [[r0|w|] []]; try reflexivity.
          destruct (s_broke _); [reflexivity|apply IH2].
        - destruct (evaluate unit relh None (VObj ck) e2 tt) as [[r0|w|] []]; try reflexivity.
          destruct (s_broke _); [reflexivity|apply IH2]. }
      rewrite HA. reflexivity.
  Qed.

  Lemma decide_eq p : decide unit relh p e1 tt = decide unit relh p e2 tt.
  Proof. exact (proj1 (decide_ok p)). Qed.

  Lemma buckets_eq action rt : forall rules,
    buckets action rt R1 (if strict_of e1 then Some true else None) rules =
    buckets action rt R2 (if strict_of e2 then Some true else None) rules.
  Proof.
    induction rules as [|r rest IH]; [reflexivity|].
    cbn [buckets]. rewrite IH, mr_eq. reflexivity.
  Qed.

  Lemma compiled_decide_eq p : compiled_decide unit relh p e1 tt = compiled_decide unit relh p e2 tt.
  Proof.
    unfold compiled_decide. rewrite decide_eq.
    destruct (has_key "policies" p); [reflexivity|].
    destruct (compiled_algo p) as [al|]; [|reflexivity].
    destruct (policy_rules p) as [rules|]; [|reflexivity].
    cbv zeta. rewrite act_eq, res_type_eq.
    destruct (if is_null (get_key "action" e2) then Some "" else py_str (get_key "action" e2)) as [action|];
      [|reflexivity].
    destruct (if is_null (get_key "type" R2) then Some None else option_map Some (py_str (get_key "type" R2)))
      as [rt|]; [|reflexivity].
    rewrite buckets_eq.
    destruct (buckets action rt R2 (if strict_of e2 then Some true else None) rules); try reflexivity.
    apply evaluate_eq.
  Qed.

  Lemma interpret_eq p : interpret unit relh p e1 tt = interpret unit relh p e2 tt.
  Proof. unfold interpret. rewrite decide_eq, evaluate_eq. reflexivity. Qed.

  Lemma guard_decide_eq p : guard_decide unit relh p e1 tt = guard_decide unit relh p e2 tt.
  Proof.
    unfold guard_decide. rewrite compiled_decide_eq.
    destruct (compilable p); [|apply interpret_eq].
    destruct (compiled_decide unit relh p e2 tt) as [[r|w|] []]; try reflexivity.
    apply interpret_eq.
  Qed.
End Decide.

(* MAIN THEOREM.  ref_safe is needed (between_reresolves_env_tokens below) and is
   only used for the first env; the symmetric form is the one quoted by props/C08.v. *)
Theorem decide_canon_left :
  forall (relh : rel_query -> unit -> bool * unit) (p e1 e2 : value),
    canon e1 = canon e2 -> str_safe e1 = true -> ref_safe e1 = true ->
    guard_decide unit relh p e1 tt = guard_decide unit relh p e2 tt.
Proof. intros relh p e1 e2 H Hs Hr. exact (guard_decide_eq relh e1 e2 H Hs Hr p). Qed.

Theorem decide_canon :
  forall (relh : rel_query -> unit -> bool * unit) (p e1 e2 : value),
    canon e1 = canon e2 -> str_safe e1 = true -> str_safe e2 = true ->
    ref_safe e1 = true -> ref_safe e2 = true ->
    guard_decide unit relh p e1 tt = guard_decide unit relh p e2 tt.
Proof. intros relh p e1 e2 H Hs1 _ Hr1 _. now apply decide_canon_left. Qed.

Theorem decide_canon_key_safe :
  forall (relh : rel_query -> unit -> bool * unit) (p e1 e2 : value),
    canon e1 = canon e2 -> key_safe e1 = true -> key_safe e2 = true ->
    guard_decide unit relh p e1 tt = guard_decide unit relh p e2 tt.
Proof.
  intros relh p e1 e2 H H1 _. unfold key_safe in H1. apply andb_true_iff in H1.
  destruct H1 as [Hs Hr]. now apply decide_canon_left.
Qed.

(* why ref_safe is there: `between` resolves the elements of a range that itself came
   from the env a second time, and resolve() takes str() of the token's "attr" value —
   a two-key dict there prints in insertion order, and that text is then looked up as
   a top-level env key.  Both envs below are str_safe and have the same key. *)
Lemma between_reresolves_env_tokens :
  exists p e1 e2,
    canon e1 = canon e2 /\ str_safe e1 = true /\ str_safe e2 = true /\
    fst (guard_decide unit (fun _ _ => (false, tt)) p e1 tt) <>
    fst (guard_decide unit (fun _ _ => (false, tt)) p e2 tt).
Proof.
  pose (one := VNum (NInt 1)). pose (two := VNum (NInt 2)).
  pose (mk := fun tok =>
    VObj [("subject", VObj [("id", VStr "u")]); ("action", VStr "read");
          ("resource", VObj [("type", VStr "doc"); ("id", VStr "1")]);
          ("context", VObj [("t", VNum (NInt 5)); ("rng", VList [tok; VNum (NInt 100)])]);
          ("{'a': 1, 'b': 2}", VNum (NInt 0))]).
  exists (VObj [("algorithm", VStr "deny-overrides");
                ("rules", VList [VObj [("id", VStr "r1"); ("effect", VStr "permit");
                   ("actions", VList [VStr "read"]);
                   ("resource", VObj [("type", VStr "doc")]);
                   ("condition", VObj [("between",
                      VList [VObj [("attr", VStr "context.t")]; VObj [("attr", VStr "context.rng")]])])]])]).
  exists (mk (VObj [("attr", VObj [("a", one); ("b", two)])])).
  exists (mk (VObj [("attr", VObj [("b", two); ("a", one)])])).
  split; [vm_compute; reflexivity|].
  split; [vm_compute; reflexivity|].
  split; [vm_compute; reflexivity|].
  intros H. vm_compute in H. discriminate H.
Qed.

(* ====================================================================== *)
(* 6. the obligation checker does not see key order                        *)
(* ====================================================================== *)
Lemma sk_py_int a b : SK a b -> py_int a = py_int b.
Proof. intros H. sk_destruct H; reflexivity. Qed.

Lemma check_one_sk ob c1 c2 : SK c1 c2 -> check_one ob c1 = check_one ob c2.
Proof.
  intros H.
  assert (F : forall key, py_truthy (get_key key c1) = py_truthy (get_key key c2)).
  { intros key. apply sk_truthy, sk_get_key, H. }
  assert (L : py_int (py_or (get_key "auth_level" c1) (VNum (NInt 0))) =
              py_int (py_or (get_key "auth_level" c2) (VNum (NInt 0)))).
  { apply sk_py_int, sk_py_or; [now apply sk_get_key|reflexivity]. }
  assert (G : forall key : value,
    match py_or (get_key "consent" c1) (VObj []), key with
    | VObj kvs, VStr k => match assoc k kvs with Some v => py_truthy v | None => false end
    | _, _ => false
    end =
    match py_or (get_key "consent" c2) (VObj []), key with
    | VObj kvs, VStr k => match assoc k kvs with Some v => py_truthy v | None => false end
    | _, _ => false
    end).
  { intros key.
    assert (Hs : SK (py_or (get_key "consent" c1) (VObj [])) (py_or (get_key "consent" c2) (VObj [])))
      by (apply sk_py_or; [now apply sk_get_key|reflexivity]).
    remember (py_or (get_key "consent" c1) (VObj [])) as A1.
    remember (py_or (get_key "consent" c2) (VObj [])) as A2.
    pose proof (sk_is_obj _ _ Hs) as Ho.
    destruct A1, A2; simpl in Ho; try discriminate; try reflexivity.
    destruct key; try reflexivity.
    pose proof (sk_assoc s _ _ Hs) as Ha.
    destruct (assoc s kvs) as [v1|], (assoc s kvs0) as [v2|]; simpl in Ha; try discriminate; [|reflexivity].
    inversion Ha. now apply sk_truthy. }
  assert (A0 : is_null (get_key "reauth_age_seconds" c1) = is_null (get_key "reauth_age_seconds" c2))
    by (apply sk_is_null, sk_get_key, H).
  assert (A1 : py_int (get_key "reauth_age_seconds" c1) = py_int (get_key "reauth_age_seconds" c2))
    by (apply sk_py_int, sk_get_key, H).
  unfold check_one. cbv zeta beta. rewrite !F, L, G, A0, A1. reflexivity.
Qed.

Lemma check_list_sk c1 c2 eff b : SK c1 c2 -> forall obs,
  check_list obs c1 eff b = check_list obs c2 eff b.
Proof.
  intros H. induction obs as [|ob rest IH]; [reflexivity|].
  cbn [check_list]. cbv zeta. rewrite IH, (check_one_sk _ c1 c2 H). reflexivity.
Qed.

Theorem check_canon : forall d obs c1 c2, canon c1 = canon c2 -> Oblig.check d obs c1 = Oblig.check d obs c2.
Proof.
  intros d obs c1 c2 H. unfold check. destruct obs as [|ob rest]; [reflexivity|].
  rewrite (sk_truthy c1 c2 H). destruct (py_truthy c2); [|reflexivity].
  pose proof (sk_is_obj _ _ H) as Ho.
  destruct c1, c2; simpl in Ho; try discriminate; try reflexivity.
  now apply check_list_sk.
Qed.

Print Assumptions veqb_eq.
Print Assumptions assoc_ksort.
Print Assumptions order_free_canon.
Print Assumptions order_free_same_key.
Print Assumptions py_eq_canon.
Print Assumptions decide_canon_left.
Print Assumptions decide_canon.
Print Assumptions decide_canon_key_safe.
Print Assumptions between_reresolves_env_tokens.
Print Assumptions check_canon.
