(* ReloadRun.v — wire entry point for the Reload/Sources models.
   reload.run  kind cfg initial_load async p0 world script  ->  list of snapshots
     kind   : ["gen", mode] | ["file", incl] | ["http", etags] | ["s3", det, prefer|null]
     cfg    : [backoff_min, backoff_max, jitter_ratio]
     world  : [store|null, wver, fail_etag, fail_load, head_fail, attr_fail, versioning, algos]
              store = [bytes, m]; bytes = ["d", n] | ["b", k]
     script : commands  ["ev", event] | ["check", force, now, u, event|null]
                      | ["spawn", force] | ["step", i, now, u]
     event  : ["write", bytes] | ["delete"] | ["touch"] | ["fail_etag", b] | ["fail_load", b]
            | ["head_fail", b] | ["attr_fail", b] | ["versioning", b] | ["algos", [..]]
   One snapshot after construction and one after every command:
     [result|null, policy, sets, n_etag, n_load, last_etag|null, last_error,
      [num, den] suppress_until, [num, den] backoff, [thread results|null ...],
      source-specific: null | HTTP [remembered ETag|null, number of 304 answers]] *)
From Coq Require Import List Bool String ZArith QArith.
From Rbacx Require Import Value Wire Reload Sources.
Import ListNotations.
Local Open Scope string_scope.

Definition dec_nat (v : value) : option nat :=
  match v with
  | VNum (NInt z) => if (z <? 0)%Z then None else Some (Z.to_nat z)
  | _ => None
  end.
Definition dec_bool (v : value) : option bool :=
  match v with VBool b => Some b | _ => None end.
Definition dec_q (v : value) : option Q :=
  match v with
  | VNum (NInt z) => Some (z # 1)
  | VNum (NFlt (FFin m e) _) =>
      if (0 <=? e)%Z then Some ((m * 2 ^ e)%Z # 1)
      else Some (m # Z.to_pos (2 ^ (- e))%Z)
  | _ => None
  end.
Definition dec_bytes (v : value) : option bytes :=
  match v with
  | VList [VStr "d"; n] => option_map BDoc (dec_nat n)
  | VList [VStr "b"; n] => option_map BBad (dec_nat n)
  | _ => None
  end.
Definition dec_nats (v : value) : option (list nat) :=
  match v with VList l => opt_all (map dec_nat l) | _ => None end.

Definition dec_event (v : value) : option event :=
  match v with
  | VList [VStr "write"; b] => option_map EWrite (dec_bytes b)
  | VList [VStr "delete"] => Some EDelete
  | VList [VStr "touch"] => Some ETouch
  | VList [VStr "fail_etag"; b] => option_map EFailEtag (dec_bool b)
  | VList [VStr "fail_load"; b] => option_map EFailLoad (dec_bool b)
  | VList [VStr "head_fail"; b] => option_map EHeadFail (dec_bool b)
  | VList [VStr "attr_fail"; b] => option_map EAttrFail (dec_bool b)
  | VList [VStr "versioning"; b] => option_map EVersioning (dec_bool b)
  | VList [VStr "algos"; l] => option_map EAlgos (dec_nats l)
  | _ => None
  end.

Definition dec_world (v : value) : option world :=
  match v with
  | VList [st; ver; fe; fl; hf; af; vs; al] =>
      let sto := match st with
                 | VNull => Some None
                 | VList [b; m] => match dec_bytes b, dec_nat m with
                                   | Some b', Some m' => Some (Some (b', m'))
                                   | _, _ => None
                                   end
                 | _ => None
                 end in
      match sto, dec_nat ver, dec_bool fe, dec_bool fl, dec_bool hf, dec_bool af, dec_bool vs, dec_nats al with
      | Some s, Some ver', Some fe', Some fl', Some hf', Some af', Some vs', Some al' =>
          Some {| store := s; wver := ver'; fail_etag := fe'; fail_load := fl'; head_fail := hf';
                  attr_fail := af'; versioning := vs'; algos := al' |}
      | _, _, _, _, _, _, _, _ => None
      end
  | _ => None
  end.

Definition dec_cfg (v : value) : option cfg :=
  match v with
  | VList [a; b; j] =>
      match dec_q a, dec_q b, dec_q j with
      | Some a', Some b', Some j' => Some {| bmin := a'; bmax := b'; jratio := j' |}
      | _, _, _ => None
      end
  | _ => None
  end.

Inductive cmd :=
| CEv (e : event)
| CCheck (force : bool) (now u : Q) (mid : option event)
| CSpawn (force : bool)
| CStep (i : nat) (now u : Q).

Definition dec_cmd (v : value) : option cmd :=
  match v with
  | VList [VStr "ev"; e] => option_map CEv (dec_event e)
  | VList [VStr "check"; f; n; u; m] =>
      match dec_bool f, dec_q n, dec_q u with
      | Some f', Some n', Some u' =>
          match m with
          | VNull => Some (CCheck f' n' u' None)
          | _ => match dec_event m with Some e => Some (CCheck f' n' u' (Some e)) | None => None end
          end
      | _, _, _ => None
      end
  | VList [VStr "spawn"; f] => option_map CSpawn (dec_bool f)
  | VList [VStr "step"; i; n; u] =>
      match dec_nat i, dec_q n, dec_q u with
      | Some i', Some n', Some u' => Some (CStep i' n' u')
      | _, _, _ => None
      end
  | _ => None
  end.

(* ---------- encoding ---------- *)
Definition enc_bytes (b : bytes) : value :=
  match b with BDoc d => VList [VStr "d"; vnat d] | BBad k => VList [VStr "b"; vnat k] end.
Definition enc_tag (t : tag) : value :=
  match t with
  | TContent b => VList [VStr "content"; enc_bytes b]
  | TVersion m => VList [VStr "version"; vnat m]
  | TSha b => VList [VStr "sha"; enc_bytes b]
  | TShaM b m => VList [VStr "sham"; enc_bytes b; vnat m]
  | TS3Etag b => VList [VStr "s3etag"; enc_bytes b]
  | TS3Vid m => VList [VStr "s3vid"; vnat m]
  | TS3Ck a b => VList [VStr "s3ck"; vnat a; enc_bytes b]
  | THttp b => VList [VStr "http"; enc_bytes b]
  end.
Definition enc_q (q : Q) : value :=
  let r := Qred q in VList [vint (Qnum r); vint (Zpos (Qden r))].

Definition snapshot {St} (obs : St -> value) (res : option bool) (cf : conf world St) : value :=
  let s := cs cf in
  VList [vopt vbool res; vnat (policy (gd s)); vnat (sets (gd s)); vnat (n_etag s); vnat (n_load s);
         vopt enc_tag (last_etag (rl s)); vbool (last_error (rl s));
         enc_q (suppress_until (rl s)); enc_q (backoff (rl s));
         VList (map (fun p => vopt vbool (result p)) (thr cf));
         obs (sst s)].

Definition mid_fun (m : option event) : world -> world :=
  match m with Some e => apply_ev e | None => fun w => w end.

Definition run_cmd {St} (c : cfg) (src : source world St) (cf : conf world St) (k : cmd)
  : conf world St * option bool :=
  match k with
  | CEv e => (exec c src cf (LWorld (apply_ev e)), None)
  | CCheck force now u m =>
      let (s', p) := run_check c src force now u (mid_fun m) (cs cf) in
      ({| cs := s'; thr := thr cf |}, result p)
  | CSpawn force => (exec c src cf (LSpawn force), None)
  | CStep i now u => (exec c src cf (LStep i now u), None)
  end.

Fixpoint run_script {St} (obs : St -> value) (c : cfg) (src : source world St) (cf : conf world St)
                    (ks : list cmd) : list value :=
  match ks with
  | [] => []
  | k :: r => let (cf', res) := run_cmd c src cf k in snapshot obs res cf' :: run_script obs c src cf' r
  end.

Definition run_all {St} (obs : St -> value) (c : cfg) (src : source world St) (st0 : St) (il async : bool)
                   (p0 : doc) (w : world) (ks : list cmd) : value :=
  let cf := {| cs := init c src il async p0 w st0; thr := [] |} in
  VList (snapshot obs None cf :: run_script obs c src cf ks).

(* source-specific observables: HTTP: the remembered ETag and the number of 304 answers *)
Definition obs_none {St} (_ : St) : value := VNull.
Definition obs_http (st : hsrc) : value := VList [vopt enc_tag (h_etag st); vnat (h_n304 st)].

Definition dec_gmode (n : nat) : gmode :=
  match n with 0%nat => GContent | 1%nat => GVersion | 2%nat => GNoTag | _ => GNonStr end.

Definition run_reload (args : list value) : value :=
  match args with
  | [kind; cv; il; asy; p0; wv; sc] =>
      match dec_cfg cv, dec_bool il, dec_bool asy, dec_nat p0, dec_world wv,
            match sc with VList l => opt_all (map dec_cmd l) | _ => None end with
      | Some c, Some il', Some asy', Some p0', Some w, Some ks =>
          match kind with
          | VList [VStr "gen"; m] =>
              match dec_nat m with
              | Some m' => run_all obs_none c (gen_source (dec_gmode m')) tt il' asy' p0' w ks
              | None => vtag "ood" []
              end
          | VList [VStr "file"; incl] =>
              match dec_bool incl with
              | Some i => run_all obs_none c (file_source i) {| fc_sig := None; fc_sha := None |} il' asy' p0' w ks
              | None => vtag "ood" []
              end
          | VList [VStr "http"; et] =>
              match dec_bool et with
              | Some e => run_all obs_http c (http_source e) {| h_etag := None; h_cache := None; h_n304 := 0 |} il' asy' p0' w ks
              | None => vtag "ood" []
              end
          | VList [VStr "s3"; det; pref] =>
              let pr := match pref with VNull => None | _ => dec_nat pref end in
              match dec_nat det with
              | Some 0%nat => run_all obs_none c (s3_source DEtag) tt il' asy' p0' w ks
              | Some 1%nat => run_all obs_none c (s3_source DVid) tt il' asy' p0' w ks
              | Some 2%nat => run_all obs_none c (s3_source (DCk pr)) tt il' asy' p0' w ks
              | _ => vtag "ood" []
              end
          | _ => vtag "ood" []
          end
      | _, _, _, _, _, _ => vtag "ood" []
      end
  | _ => vtag "badargs" []
  end.

Definition entries : list (string * (list value -> value)) :=
  [("reload.run", run_reload)].

Definition run_line : string -> string := run_with entries.
