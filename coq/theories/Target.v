(* Target.v — model of rbacx.core.policy.match_actions / match_resource
   (src/rbacx/core/policy.py:22-112 as of the current tree). *)
From Coq Require Import ZArith List Bool String Ascii.
From Rbacx Require Import Value.
Import ListNotations.
Local Open Scope string_scope.

(* acts = [a for a in rule["actions"] if isinstance(a, str)] for a list; a str
   iterates its characters, a dict its keys; non-iterables give no actions. *)
Definition string_actions (rule : value) : option (list string) :=
  match get_key "actions" rule with
  | VList l => Some (flat_map (fun a => match a with VStr s => [s] | _ => [] end) l)
  | VObj kvs => Some (map fst kvs)
  | VStr s => None            (* characters of a str: outside the modelled domain *)
  | _ => Some []
  end.

Definition match_actions (rule : value) (action : string) : res bool :=
  match string_actions rule with
  | Some acts => Ok (existsb (String.eqb action) acts || existsb (String.eqb "*") acts)
  | None => Ood
  end.

Definition strs_of (l : list value) : option (list string) := opt_all (map py_str l).

Definition mem_str (s : string) (l : list string) : bool := existsb (String.eqb s) l.

(* rdef.get("attrs") or rdef.get("attributes") or {} *)
Definition attrs_of (d : value) : value :=
  py_or (get_key "attrs" d) (py_or (get_key "attributes" d) (VObj [])).

(* the three clauses; strict = the mode the caller passes *)
Definition type_clause (strict : bool) (r_type res_type : value) : res bool :=
  if is_null r_type then Ok true
  else
    let allowed := match r_type with VList l => l | _ => [r_type] end in
    match strs_of allowed with
    | None => Ood
    | Some strs =>
        if mem_str "*" strs then Ok true
        else if strict then
          match res_type with
          | VStr t =>
              if forallb is_str allowed
              then Ok (existsb (fun x => py_eq x res_type) allowed)
              else Ok false
          | _ => Ok false
          end
        else
          if is_null res_type then Ok false
          else match py_str res_type with
               | Some t => Ok (mem_str t strs)
               | None => Ood
               end
    end.

Definition id_clause (strict : bool) (r_id res_id : value) : res bool :=
  if is_null r_id then Ok true
  else if is_null res_id then Ok false
  else if strict then
    (if nested_nan r_id || nested_nan res_id then Ood else Ok (py_eq res_id r_id))
  else match py_str res_id, py_str r_id with
       | Some a, Some b => Ok (String.eqb a b)
       | _, _ => Ood
       end.

Definition attr_clause (strict : bool) (v rv : value) : res bool :=
  match v with
  | VList opts =>
      if strict then
        (if has_nan v || has_nan rv then Ood else Ok (existsb (fun x => py_eq rv x) opts))
      else match py_str rv, strs_of opts with
           | Some s, Some strs => Ok (mem_str s strs)
           | _, _ => Ood
           end
  | _ =>
      if strict then
        (if nested_nan v || nested_nan rv then Ood else Ok (py_eq rv v))
      else match py_str rv, py_str v with
           | Some a, Some b => Ok (String.eqb a b)
           | _, _ => Ood
           end
  end.

Fixpoint attrs_clause (strict : bool) (r_attrs res_attrs : list (string * value)) : res bool :=
  match r_attrs with
  | [] => Ok true
  | (k, v) :: rest =>
      match assoc k res_attrs with
      | None => Ok false
      | Some rv =>
          b <- attr_clause strict v rv ;;
          if b then attrs_clause strict rest res_attrs else Ok false
      end
  end.

(* match_resource(rdef, resource, strict=...) where [strict_arg] is what
   evaluate() passes: Some true in strict mode, None otherwise (then the legacy
   flag inside the resource dict decides). *)
Definition match_resource (rdef resource : value) (strict_arg : option bool) : res bool :=
  match rdef with
  | VObj [] => Ok true
  | VObj _ =>
      match resource with
      | VObj _ =>
          let strict := match strict_arg with
                        | Some b => b
                        | None => py_truthy (get_key "__strict_types__" resource)
                        end in
          b1 <- type_clause strict (get_key "type" rdef) (get_key "type" resource) ;;
          if negb b1 then Ok false else
          b2 <- id_clause strict (get_key "id" rdef) (get_key "id" resource) ;;
          if negb b2 then Ok false else
          match attrs_of rdef with
          | VObj r_attrs =>
              match attrs_of resource with
              | VObj res_attrs => attrs_clause strict r_attrs res_attrs
              | _ => Ok false
              end
          | _ => Ok true        (* r_attrs is not a dict: no attribute constraint *)
          end
      | _ => Raise "AttributeError"     (* resource.get on a non-dict *)
      end
  | _ => Ok false                       (* not isinstance(rdef, dict) *)
  end.
