(* EngineProofs.v — every reported rule is real: explanations of raw decisions for single
   policies, (nested) sets, the compiled path and the engine (C01, C11). Pure instance. *)
From Coq Require Import ZArith List Bool String Ascii Lia.
From Rbacx Require Import Value ValueInd Cond Target Policy PolicySet Compiler Oblig Engine
     PolicyProofs PolicySetProofs CompilerProofs ObligProofs.
Import ListNotations.
Local Open Scope string_scope.

Section Pure.
  Variable rel : rel_query -> bool.
  Notation relh := (relh_pure rel).

  (* what it means for a rule to explain a raw decision *)
  Definition explains (env rule : value) (r : raw) : Prop :=
    applicable rel rule env /\
    (exists s, r_rule_id r = Some s /\ rule_id rule = VStr s) /\
    exists eff, rule_effect rule = Some eff /\
      ((eff = "deny" /\ r_decision r = "deny" /\ r_reason r = "explicit_deny" /\
        (r_obligations r = [] \/ r_obligations r = rule_obls rule)) \/
       (eff <> "deny" /\ r_reason r = "matched" /\ r_obligations r = rule_obls rule /\
        (r_decision r = "permit" \/ r_decision r = eff))).

  (* ---------- single policy ---------- *)
  Theorem evaluate_explained override kvs env r s :
    evaluate unit relh override (VObj kvs) env tt = (ERaw r, tt) ->
    policy_algo override (VObj kvs) <> Some OtherAlgo ->
    r_rule_id r = Some s ->
    exists rules rule, policy_rules (VObj kvs) = Some rules /\ In rule rules /\ explains env rule r.
  Proof.
    intros H Hal Hs.
    destruct (evaluate_prefix rel _ _ _ _ H) as [[_ ->]|(al & rules & pre & post & evs & Ha & Hr & -> & He & Hres)];
      [discriminate|].
    assert (Hal' : al <> OtherAlgo) by (intros ->; apply Hal; exact Ha).
    destruct (spec_result al evs) as [[[d reason] l] o] eqn:Hsp. unfold raw_of_result in Hres.
    destruct l as [[| | |s'| | |]|]; try discriminate; inversion Hres; subst; simpl in Hs; try discriminate.
    inversion Hs; subst s'.
    destruct (spec_explained al evs _ _ _ _ Hal' Hsp) as (eff & obl' & Hin & Hcase).
    apply (events_in rel _ _ _ He) in Hin. destruct Hin as [rule [Hr' Hev]].
    apply ev_of_app in Hev. destruct Hev as (Happ & Heff & Hid & Hobl).
    exists (pre ++ post)%list, rule. split; [assumption|]. split; [apply in_or_app; now left|].
    split; [exact Happ|]. split; [exists s; split; [reflexivity|symmetry; exact Hid]|].
    exists eff. split; [exact Heff|]. simpl. subst obl'. exact Hcase.
  Qed.

  Theorem evaluate_permit_has_rule override kvs env r :
    evaluate unit relh override (VObj kvs) env tt = (ERaw r, tt) ->
    r_decision r = "permit" ->
    policy_algo override (VObj kvs) <> Some OtherAlgo /\ exists s, r_rule_id r = Some s.
  Proof.
    intros H Hd.
    destruct (evaluate_prefix rel _ _ _ _ H) as [[_ ->]|(al & rules & pre & post & evs & Ha & Hr & -> & He & Hres)];
      [discriminate|].
    assert (Hdec : decision_of (spec_result al evs) = "permit").
    { destruct (spec_result al evs) as [[[d reason] l] o]. unfold raw_of_result in Hres.
      destruct l as [[| | |s'| | |]|]; try discriminate; inversion Hres; subst; exact Hd. }
    destruct (spec_permit_has_rule al evs Hdec) as (rid & obl & Hsp).
    split.
    - rewrite Ha. intros Hx. inversion Hx; subst. unfold spec_result in Hsp. discriminate.
    - rewrite Hsp in Hres. unfold raw_of_result in Hres.
      destruct rid; try discriminate. inversion Hres; subst. simpl. eauto.
  Qed.

  (* ---------- (nested) policy sets ---------- *)
  (* how a set passes a child's result on: same rule, obligations and decision; the reason is kept,
     set to "matched" when empty (permit), or to "explicit_deny" (deny) *)
  Definition rel_child (r' r : raw) : Prop :=
    r_rule_id r = r_rule_id r' /\ r_obligations r = r_obligations r' /\ r_decision r = r_decision r' /\
    (r_decision r = "permit" -> r_reason r = r_reason r' \/ (r_reason r' = "" /\ r_reason r = "matched")) /\
    (r_decision r = "deny" -> r_reason r = "explicit_deny" \/ r_reason r = r_reason r').

  Lemma rel_child_refl r : rel_child r r.
  Proof. unfold rel_child. repeat split; auto. Qed.
  Lemma rel_child_trans a b c : rel_child a b -> rel_child b c -> rel_child a c.
  Proof.
    unfold rel_child. intros (A1 & A2 & A3 & A4 & A5) (B1 & B2 & B3 & B4 & B5).
    repeat split; try congruence.
    - intros Hc. assert (Hb : r_decision b = "permit") by congruence.
      destruct (B4 Hc) as [E|[E1 E2]]; destruct (A4 Hb) as [F|[F1 F2]].
      + left; congruence.
      + right; split; congruence.
      + right; split; congruence.
      + rewrite E1 in F2. discriminate.
    - intros Hc. assert (Hb : r_decision b = "deny") by congruence.
      destruct (B5 Hc) as [E|E]; [left; exact E|].
      destruct (A5 Hb) as [F|F]; [left; congruence|right; congruence].
  Qed.

  Definition decision_ok (r : raw) : Prop := r_decision r = "permit" \/ r_decision r = "deny".

  Lemma c_permit_facts c : c_permit c = true -> applicable_raw (snd c) = true /\ r_decision (snd c) = "permit".
  Proof.
    unfold c_permit, c_app. intros H. apply andb_true_iff in H. destruct H as [H Hp].
    apply andb_true_iff in H. destruct H as [Ha _]. apply String.eqb_eq in Hp. tauto.
  Qed.
  Lemma c_deny_facts c : c_deny c = true -> applicable_raw (snd c) = true /\ r_decision (snd c) = "deny".
  Proof.
    unfold c_deny, c_app. intros H. apply andb_true_iff in H. destruct H as [Ha Hd].
    apply String.eqb_eq in Hd. tauto.
  Qed.

  Lemma rel_with_pid_permit r pid : r_decision r = "permit" -> rel_child r (with_pid r pid true).
  Proof.
    intros Hd. unfold rel_child, with_pid. simpl. repeat split; try reflexivity.
    - intros _. destruct (String.eqb (r_reason r) "") eqn:E; [|left; reflexivity].
      apply String.eqb_eq in E. right. split; [exact E|reflexivity].
    - intros Hx. congruence.
  Qed.
  Lemma rel_with_pid_keep r pid : rel_child r (with_pid r pid false).
  Proof. unfold rel_child, with_pid. simpl. repeat split; auto. Qed.
  Lemma rel_deny_out r pid : r_decision r = "deny" -> rel_child r (deny_out r pid).
  Proof.
    intros Hd. unfold rel_child, deny_out. simpl. repeat split; auto. intros Hx. discriminate.
  Qed.

  Lemma set_spec_rel al crs s :
    r_rule_id (set_spec al crs) = Some s -> s <> "" ->
    (forall c, In c crs -> applicable_raw (snd c) = true -> decision_ok (snd c)) ->
    exists pid r', In (pid, r') crs /\ applicable_raw r' = true /\ rel_child r' (set_spec al crs).
  Proof.
    intros H Hs Hok.
    assert (Hp : forall pid r, find c_permit crs = Some (pid, r) ->
                 In (pid, r) crs /\ applicable_raw r = true /\ rel_child r (with_pid r pid true)).
    { intros pid r F. apply find_some in F. destruct F as [Hin Hx]. apply c_permit_facts in Hx.
      destruct Hx as [Ha Hd]. simpl in Ha, Hd. split; [exact Hin|]. split; [exact Ha|].
      apply rel_with_pid_permit. exact Hd. }
    assert (Hd : forall pid r, find c_deny crs = Some (pid, r) ->
                 In (pid, r) crs /\ applicable_raw r = true /\ rel_child r (deny_out r pid)).
    { intros pid r F. apply find_some in F. destruct F as [Hin Hx]. apply c_deny_facts in Hx.
      destruct Hx as [Ha Hdd]. simpl in Ha, Hdd. split; [exact Hin|]. split; [exact Ha|].
      apply rel_deny_out. exact Hdd. }
    (* with every applicable child deciding permit or deny, "no match" reports no rule *)
    assert (Hnone : find c_permit crs = None -> find c_deny crs = None -> last_app_rule crs = None).
    { intros Fp Fd. unfold last_app_rule.
      assert (G : forall c, In c crs -> c_app c = false).
      { intros c Hc. destruct (c_app c) eqn:E; [|reflexivity]. exfalso.
        pose proof (proj1 (find_none_iff _ _) Fp c Hc) as Np.
        pose proof (proj1 (find_none_iff _ _) Fd c Hc) as Nd.
        unfold c_permit, c_deny in Np, Nd. rewrite E in Np, Nd. simpl in Np, Nd.
        destruct (Hok c Hc E) as [Hx|Hx]; rewrite Hx in Np, Nd; simpl in *; discriminate. }
      clear - G. induction crs as [|[pid r] rest IH]; [reflexivity|]. simpl.
      rewrite (G (pid, r) (or_introl eq_refl)). apply IH. intros c Hc. apply G. now right. }
    unfold set_spec in *. destruct al.
    - destruct (find c_deny crs) as [[pid r]|] eqn:Fd; [destruct (Hd _ _ eq_refl) as (A & B & C); eauto|].
      destruct (find c_permit crs) as [[pid r]|] eqn:Fp; [destruct (Hp _ _ eq_refl) as (A & B & C); eauto|].
      rewrite (Hnone eq_refl eq_refl) in H. discriminate.
    - destruct (find c_permit crs) as [[pid r]|] eqn:Fp; [destruct (Hp _ _ eq_refl) as (A & B & C); eauto|].
      destruct (find c_deny crs) as [[pid r]|] eqn:Fd; [destruct (Hd _ _ eq_refl) as (A & B & C); eauto|].
      rewrite (Hnone eq_refl eq_refl) in H. discriminate.
    - destruct (find c_app crs) as [[pid r]|] eqn:Fa; [|discriminate].
      apply find_some in Fa. destruct Fa as [Hin Hx]. exists pid, r.
      split; [exact Hin|]. split; [exact Hx|]. apply rel_with_pid_keep.
    - destruct (find c_permit crs) as [[pid r]|] eqn:Fp; [destruct (Hp _ _ eq_refl) as (A & B & C); eauto|].
      destruct (find c_deny crs) as [[pid r]|] eqn:Fd; [destruct (Hd _ _ eq_refl) as (A & B & C); eauto|].
      rewrite (Hnone eq_refl eq_refl) in H. discriminate.
  Qed.

  (* the leaf policies of a (nested) set *)
  Fixpoint all_leaves (p : value) : list value :=
    match p with
    | VObj kvs =>
        match (fix find (l : list (string * value)) : option (list value) :=
                 match l with
                 | [] => None
                 | (k, v) :: r =>
                     if String.eqb "policies" k then
                       Some (match v with
                             | VList children =>
                                 (fix go (l : list value) : list value :=
                                    match l with
                                    | [] => []
                                    | pol :: rest =>
                                        ((if has_key "policies" pol then all_leaves pol else [pol]) ++ go rest)%list
                                    end) children
                             | _ => []
                             end)
                     else find r
                 end) kvs with
        | Some l => l
        | None => [p]
        end
    | _ => []
    end.
  Definition child_leaves (pol : value) : list value :=
    if has_key "policies" pol then all_leaves pol else [pol].
  Lemma all_leaves_unfold kvs :
    all_leaves (VObj kvs) =
    match assoc "policies" kvs with
    | Some (VList children) => flat_map child_leaves children
    | Some _ => []
    | None => [VObj kvs]
    end.
  Proof.
    cbn [all_leaves]. generalize ([VObj kvs]) as d.
    induction kvs as [|[k v] kvs IH]; intros d; [reflexivity|].
    cbn [assoc]. destruct (String.eqb "policies" k) eqn:E.
    - destruct v; reflexivity.
    - apply IH.
  Qed.

  Definition leaf_ok (env leaf : value) : Prop :=
    forall r', fst (evaluate unit relh None leaf env tt) = ERaw r' -> applicable_raw r' = true -> decision_ok r'.

  Definition explained_by_leaf (env ps : value) (r : raw) : Prop :=
    exists leaf r'', In leaf (all_leaves ps) /\ is_obj leaf = true /\
                     fst (evaluate unit relh None leaf env tt) = ERaw r'' /\ rel_child r'' r.

  Definition set_expl_stmt (env ps : value) : Prop :=
    Forall (leaf_ok env) (all_leaves ps) ->
    forall r s, decide unit relh ps env tt = (ERaw r, tt) ->
      r_rule_id r = Some s -> s <> "" -> explained_by_leaf env ps r.

  Lemma applicable_raw_iff r : applicable_raw r = true <-> exists s, r_rule_id r = Some s /\ s <> "".
  Proof.
    unfold applicable_raw. destruct (r_rule_id r) as [s|].
    - destruct (String.eqb s "") eqn:E; simpl.
      + apply String.eqb_eq in E. split; [discriminate|]. intros [s' [H Hn]]. inversion H; subst. contradiction.
      + apply String.eqb_neq in E. split; [intros _; eauto|reflexivity].
    - split; [discriminate|]. intros [s [H _]]. discriminate.
  Qed.

  Lemma set_expl_all env : forall v,
    set_expl_stmt env v /\ match v with VList l => Forall (set_expl_stmt env) l | _ => True end.
  Proof.
    induction v as [| | | |l IHl|kvs IH|] using value_ind';
      try (split; [intros _ r0 s0 H; simpl in H; discriminate|exact I]).
    - split; [intros _ r0 s0 H; simpl in H; discriminate|].
      rewrite Forall_forall in *. intros x Hx. apply (IHl x Hx).
    - split; [|exact I]. intros Hleaves r s H Hs Hne.
      rewrite decide_unfold in H. unfold explained_by_leaf. rewrite all_leaves_unfold in *.
      destruct (set_algo (VObj kvs)) as [al|]; [|discriminate].
      destruct (assoc "policies" kvs) as [v|] eqn:A.
      + destruct v as [| | | |children| |];
          try (match type of A with _ = Some ?v0 => apply (nolist_result al v0) in H end;
               subst; simpl in Hs; discriminate).
        inversion H as [Hl]. clear H.
        destruct (set_loop_prefix rel _ _ _ _ _ Hl) as (pre & post & crs & -> & Hcr & ->).
        rewrite set_finalize_spec in *.
        (* induction hypothesis for the children *)
        apply assoc_in in A. rewrite Forall_forall in IH. specialize (IH _ A). simpl in IH.
        destruct IH as [_ IHc]. rewrite Forall_forall in IHc.
        rewrite Forall_forall in Hleaves.
        (* every child result in crs is explained by a leaf below that child (when it names a rule) *)
        assert (Hchild : forall pid r', In (pid, r') crs -> applicable_raw r' = true ->
                  exists pol leaf r'', In pol pre /\ In leaf (child_leaves pol) /\ is_obj leaf = true /\
                     fst (evaluate unit relh None leaf env tt) = ERaw r'' /\ rel_child r'' r').
        { intros pid r' Hin Happ.
          assert (exists pol, In pol pre /\ is_obj pol = true /\ child_result rel pol env = ERaw r')
            as (pol & Hpol & Hobj & Hres).
          { clear - Hcr Hin. induction Hcr as [|pol c pre crs Hh Ht IHc]; [destruct Hin|].
            destruct Hin as [Heq|Hin].
            - subst c. exists pol. destruct Hh as (Ho & Hr & _). simpl in Hr.
              repeat split; [now left|assumption|assumption].
            - destruct (IHc Hin) as (pol' & Hp & Ho & Hr). exists pol'.
              repeat split; [now right|assumption|assumption]. }
          exists pol. unfold child_result in Hres. unfold child_leaves.
          destruct pol as [| | | | |ckvs|]; try discriminate.
          destruct (has_key "policies" (VObj ckvs)) eqn:Hk.
          - destruct (decide unit relh (VObj ckvs) env tt) as [res u] eqn:Hd. destruct u. simpl in Hres. subst res.
            apply applicable_raw_iff in Happ. destruct Happ as (s' & Hs' & Hne').
            assert (Hch : In (VObj ckvs) (pre ++ post)%list) by (apply in_or_app; now left).
            assert (Hl' : Forall (leaf_ok env) (all_leaves (VObj ckvs))).
            { apply Forall_forall. intros lf Hlf. apply Hleaves. apply in_flat_map.
              exists (VObj ckvs). split; [exact Hch|]. unfold child_leaves. rewrite Hk. exact Hlf. }
            destruct (IHc (VObj ckvs) Hch Hl' r' s' Hd Hs' Hne') as (leaf & r'' & Hin' & Ho & He & Hrel).
            exists leaf, r''. split; [exact Hpol|]. split; [exact Hin'|]. split; [exact Ho|].
            split; [exact He|exact Hrel].
          - destruct (evaluate unit relh None (VObj ckvs) env tt) as [res u] eqn:He. destruct u.
            simpl in Hres. subst res.
            exists (VObj ckvs), r'. split; [exact Hpol|]. split; [now left|]. split; [reflexivity|].
            split; [rewrite He; reflexivity|apply rel_child_refl]. }
        (* applicable child results decide permit or deny *)
        assert (Hok : forall c, In c crs -> applicable_raw (snd c) = true -> decision_ok (snd c)).
        { intros [pid r'] Hin Happ. simpl in *.
          destruct (Hchild pid r' Hin Happ) as (pol & leaf & r'' & Hpol & Hleaf & Ho & He & Hrel).
          assert (Hlk : leaf_ok env leaf).
          { apply Hleaves. apply in_flat_map. exists pol. split; [apply in_or_app; now left|exact Hleaf]. }
          destruct Hrel as (R1 & R2 & R3 & _).
          assert (Ha'' : applicable_raw r'' = true).
          { unfold applicable_raw in *. rewrite <- R1. exact Happ. }
          unfold decision_ok. rewrite R3. apply (Hlk r'' He Ha''). }
        destruct (set_spec_rel al crs s Hs Hne Hok) as (pid & r' & Hin & Happ & Hrel).
        destruct (Hchild pid r' Hin Happ) as (pol & leaf & r'' & Hpol & Hleaf & Ho & He & Hrel').
        exists leaf, r''. split; [apply in_flat_map; exists pol; split; [apply in_or_app; now left|exact Hleaf]|].
        split; [exact Ho|]. split; [exact He|]. eapply rel_child_trans; eassumption.
      + inversion H; subst. destruct al; simpl in Hs; discriminate.
  Qed.

  Theorem set_explained ps env r s :
    Forall (leaf_ok env) (all_leaves ps) ->
    decide unit relh ps env tt = (ERaw r, tt) ->
    r_rule_id r = Some s -> s <> "" -> explained_by_leaf env ps r.
  Proof. intros Hl. apply (proj1 (set_expl_all env ps) Hl). Qed.

  (* the rules of a tree are the rules of its leaves *)
  Lemma all_rules_leaves_all : forall v,
    all_rules v = flat_map own_rules (all_leaves v) /\
    match v with VList l => Forall (fun x => all_rules x = flat_map own_rules (all_leaves x)) l | _ => True end.
  Proof.
    induction v as [| | | |l IHl|kvs IH|] using value_ind'; try (split; [reflexivity|exact I]).
    - split; [reflexivity|]. rewrite Forall_forall in *. intros x Hx. apply (IHl x Hx).
    - split; [|exact I]. rewrite all_rules_unfold, all_leaves_unfold.
      destruct (assoc "policies" kvs) as [v|] eqn:A.
      + destruct v as [| | | |children| |]; try reflexivity.
        apply assoc_in in A. rewrite Forall_forall in IH. specialize (IH _ A). simpl in IH.
        destruct IH as [_ IHc]. clear A.
        induction children as [|pol rest IHr]; [reflexivity|].
        inversion IHc as [|? ? Hp Hrest]; subst. cbn [flat_map]. rewrite flat_map_app.
        rewrite (IHr Hrest). f_equal.
        unfold child_rules, child_leaves. destruct (has_key "policies" pol); [exact Hp|].
        simpl. rewrite app_nil_r. reflexivity.
      + simpl. rewrite app_nil_r. reflexivity.
  Qed.
  Lemma all_rules_leaves v : all_rules v = flat_map own_rules (all_leaves v).
  Proof. apply (proj1 (all_rules_leaves_all v)). Qed.

  (* ---------- well-formedness of a policy tree (implied by schema validity) ---------- *)
  Definition algo_field_ok (p : value) : Prop :=
    py_truthy (get_key "algorithm" p) = false \/
    exists s, get_key "algorithm" p = VStr s /\ is_ascii_str s = true /\
              algo_of_string (str_lower s) <> OtherAlgo.
  Definition effects_ok (leaf : value) : Prop :=
    forall rule eff, In rule (own_rules leaf) -> rule_effect rule = Some eff -> eff = "permit" \/ eff = "deny".
  Definition tree_ok (policy : value) : Prop :=
    Forall (fun leaf => algo_field_ok leaf /\ effects_ok leaf) (all_leaves policy).

  Lemma algo_ok_interp p : algo_field_ok p -> policy_algo None p <> Some OtherAlgo.
  Proof.
    unfold algo_field_ok, policy_algo, py_or. intros [Hf|(s & Hs & Ha & Hk)].
    - rewrite Hf. simpl. discriminate.
    - rewrite Hs. destruct (py_truthy (VStr s)); [rewrite Ha; congruence|simpl; discriminate].
  Qed.
  Lemma algo_ok_compiled p al : algo_field_ok p -> compiled_algo p = Some al -> algo_of_string al <> OtherAlgo.
  Proof.
    unfold algo_field_ok, compiled_algo, py_or. intros [Hf|(s & Hs & Ha & Hk)].
    - rewrite Hf. simpl. intros H; inversion H; subst. discriminate.
    - rewrite Hs. destruct (py_truthy (VStr s)).
      + rewrite Ha. intros H; inversion H; subst. exact Hk.
      + simpl. intros H; inversion H; subst. discriminate.
  Qed.

  Lemma leaf_ok_of kvs env : algo_field_ok (VObj kvs) -> effects_ok (VObj kvs) -> leaf_ok env (VObj kvs).
  Proof.
    intros Ha He r' Hev Happ.
    destruct (evaluate unit relh None (VObj kvs) env tt) as [res u] eqn:E. destruct u. simpl in Hev. subst res.
    apply applicable_raw_iff in Happ. destruct Happ as (s & Hs & _).
    destruct (evaluate_explained None kvs env r' s E (algo_ok_interp _ Ha) Hs)
      as (rules & rule & Hr & Hin & (_ & _ & eff & Heff & Hcase)).
    unfold decision_ok. destruct Hcase as [(_ & Hd & _)|(Hne & _ & _ & [Hd|Hd])]; auto.
    assert (Hin' : In rule (own_rules (VObj kvs))) by (unfold own_rules; rewrite Hr; exact Hin).
    destruct (He rule eff Hin' Heff) as [->| ->]; [left; exact Hd|contradiction].
  Qed.

  (* ---------- the engine's raw decision is explained by a rule of the policy ---------- *)
  Definition explained (env policy : value) (r : raw) : Prop :=
    exists rule r0, In rule (all_rules policy) /\ explains env rule r0 /\ rel_child r0 r.

  Lemma tree_leaf_ok env policy : tree_ok policy -> Forall (leaf_ok env) (all_leaves policy) .
  Proof.
    unfold tree_ok. rewrite !Forall_forall. intros H leaf Hl r' Hev Happ.
    destruct leaf as [| | | | |kvs|]; try (simpl in Hev; discriminate).
    destruct (H _ Hl) as [Ha He]. apply (leaf_ok_of kvs env Ha He r' Hev Happ).
  Qed.

  Lemma decide_explained ps env r s :
    tree_ok ps -> decide unit relh ps env tt = (ERaw r, tt) -> r_rule_id r = Some s -> s <> "" ->
    explained env ps r.
  Proof.
    intros Ht Hd Hs Hne.
    destruct (set_explained ps env r s (tree_leaf_ok env ps Ht) Hd Hs Hne) as (leaf & r'' & Hin & Ho & He & Hrel).
    destruct leaf as [| | | | |kvs|]; try discriminate.
    destruct (evaluate unit relh None (VObj kvs) env tt) as [res u] eqn:E. destruct u. simpl in He. subst res.
    unfold tree_ok in Ht. rewrite Forall_forall in Ht. destruct (Ht _ Hin) as [Ha _].
    assert (Hs'' : r_rule_id r'' = Some s) by (destruct Hrel as (R1 & _); congruence).
    destruct (evaluate_explained None kvs env r'' s E (algo_ok_interp _ Ha) Hs'') as (rules & rule & Hr & Hin' & Hex).
    exists rule, r''. split; [|split; assumption].
    rewrite all_rules_leaves. apply in_flat_map. exists (VObj kvs). split; [exact Hin|].
    unfold own_rules. rewrite Hr. exact Hin'.
  Qed.

  Lemma single_leaves kvs : has_key "policies" (VObj kvs) = false -> all_leaves (VObj kvs) = [VObj kvs].
  Proof.
    intros H. rewrite all_leaves_unfold. unfold has_key in H. destruct (assoc "policies" kvs); [discriminate|reflexivity].
  Qed.
  Lemma single_rules kvs : has_key "policies" (VObj kvs) = false -> all_rules (VObj kvs) = own_rules (VObj kvs).
  Proof. intros H. rewrite all_rules_leaves, (single_leaves kvs H). simpl. apply app_nil_r. Qed.

  Lemma interpret_explained kvs env r s :
    tree_ok (VObj kvs) -> interpret unit relh (VObj kvs) env tt = (ERaw r, tt) ->
    r_rule_id r = Some s -> (has_key "policies" (VObj kvs) = true -> s <> "") ->
    explained env (VObj kvs) r.
  Proof.
    intros Ht H Hs Hne. unfold interpret in H. destruct (has_key "policies" (VObj kvs)) eqn:Hk.
    - apply (decide_explained _ env r s Ht H Hs (Hne eq_refl)).
    - unfold tree_ok in Ht. rewrite (single_leaves kvs Hk) in Ht. inversion Ht as [|? ? [Ha _] _]; subst.
      destruct (evaluate_explained None kvs env r s H (algo_ok_interp _ Ha) Hs) as (rules & rule & Hr & Hin & Hex).
      exists rule, r. split; [|split; [exact Hex|apply rel_child_refl]].
      rewrite (single_rules kvs Hk). unfold own_rules. rewrite Hr. exact Hin.
  Qed.

  Theorem guard_decide_explained kvs env r s :
    tree_ok (VObj kvs) -> guard_decide unit relh (VObj kvs) env tt = (ERaw r, tt) ->
    r_rule_id r = Some s -> (has_key "policies" (VObj kvs) = true -> s <> "") ->
    explained env (VObj kvs) r.
  Proof.
    intros Ht H Hs Hne. unfold guard_decide in H.
    destruct (compilable (VObj kvs)); [|apply (interpret_explained kvs env r s Ht H Hs Hne)].
    destruct (compiled_decide unit relh (VObj kvs) env tt) as [res u] eqn:Hc. destruct u.
    destruct res as [r1|w|]; try discriminate.
    - inversion H; subst r1. clear H. unfold compiled_decide in Hc.
      destruct (has_key "policies" (VObj kvs)) eqn:Hk.
      + apply (decide_explained _ env r s Ht Hc Hs (Hne eq_refl)).
      + destruct (compiled_algo (VObj kvs)) as [al|] eqn:Hal; [|discriminate].
        destruct (policy_rules (VObj kvs)) as [rules|] eqn:Hr; [|discriminate].
        destruct (if is_null (get_key "action" env) then Some "" else py_str (get_key "action" env)) as [action|];
          [|discriminate].
        set (resource := py_or (get_key "resource" env) (VObj [])) in *.
        destruct (if is_null (get_key "type" resource) then Some None
                  else option_map Some (py_str (get_key "type" resource))) as [rt|]; [|discriminate].
        destruct (buckets action rt resource (if strict_of env then Some true else None) rules) as [bs| | |] eqn:Hb;
          try discriminate.
        unfold tree_ok in Ht. rewrite (single_leaves kvs Hk) in Ht. inversion Ht as [|? ? [Ha _] _]; subst.
        pose proof (algo_ok_compiled _ _ Ha Hal) as Hknown.
        assert (Halgo : policy_algo None (VObj [("algorithm", VStr al); ("rules", VList (select bs))])
                        <> Some OtherAlgo).
        { destruct (known_algo al Hknown) as [E|[E|E]]; rewrite E; simpl; discriminate. }
        destruct (evaluate_explained None _ env r s Hc Halgo Hs) as (rules' & rule & Hr' & Hin & Hex).
        rewrite literal_rules in Hr'. inversion Hr'; subst rules'.
        exists rule, r. split; [|split; [exact Hex|apply rel_child_refl]].
        rewrite (single_rules kvs Hk). unfold own_rules. rewrite Hr.
        apply (selected_rules_subset _ _ _ _ _ _ Hb). exact Hin.
    - (* the compiled function raised: the interpreter decides *)
      apply (interpret_explained kvs env r s Ht H Hs Hne).
  Qed.

  (* ---------- a permit always names a rule ---------- *)
  Lemma set_spec_permit_applicable al crs :
    r_decision (set_spec al crs) = "permit" -> applicable_raw (set_spec al crs) = true.
  Proof.
    assert (Hp : forall pid r, find c_permit crs = Some (pid, r) -> applicable_raw r = true).
    { intros pid r F. apply find_some in F. destruct F as [_ Hx]. apply c_permit_facts in Hx. tauto. }
    unfold set_spec. destruct al.
    - destruct (find c_deny crs) as [[pid r]|]; [discriminate|].
      destruct (find c_permit crs) as [[pid r]|] eqn:F; [|discriminate]. intros _. apply (Hp _ _ eq_refl).
    - destruct (find c_permit crs) as [[pid r]|] eqn:F; [intros _; apply (Hp _ _ eq_refl)|].
      destruct (find c_deny crs) as [[pid r]|]; discriminate.
    - destruct (find c_app crs) as [[pid r]|] eqn:F; [|discriminate]. intros _.
      apply find_some in F. destruct F as [_ Hx]. exact Hx.
    - destruct (find c_permit crs) as [[pid r]|] eqn:F; [intros _; apply (Hp _ _ eq_refl)|].
      destruct (find c_deny crs) as [[pid r]|]; discriminate.
  Qed.
  Lemma decide_permit_applicable kvs env r :
    decide unit relh (VObj kvs) env tt = (ERaw r, tt) -> r_decision r = "permit" -> applicable_raw r = true.
  Proof.
    intros H Hd. destruct (decide_prefix rel kvs env r H) as (al & _ & [(ch & pre & post & crs & _ & _ & _ & ->)|[_ ->]]).
    - apply set_spec_permit_applicable. exact Hd.
    - discriminate.
  Qed.

  Lemma guard_decide_permit_rule kvs env r :
    guard_decide unit relh (VObj kvs) env tt = (ERaw r, tt) -> r_decision r = "permit" ->
    exists s, r_rule_id r = Some s /\ (has_key "policies" (VObj kvs) = true -> s <> "").
  Proof.
    intros H Hd.
    assert (Hint : forall r0, interpret unit relh (VObj kvs) env tt = (ERaw r0, tt) -> r_decision r0 = "permit" ->
                   exists s, r_rule_id r0 = Some s /\ (has_key "policies" (VObj kvs) = true -> s <> "")).
    { intros r0 Hi Hd0. unfold interpret in Hi. destruct (has_key "policies" (VObj kvs)) eqn:Hk.
      - pose proof (decide_permit_applicable kvs env r0 Hi Hd0) as Ha. apply applicable_raw_iff in Ha.
        destruct Ha as (s & Hs & Hne). exists s. split; [exact Hs|intros _; exact Hne].
      - destruct (evaluate_permit_has_rule None kvs env r0 Hi Hd0) as [_ [s Hs]]. exists s. split; [exact Hs|discriminate]. }
    unfold guard_decide in H. destruct (compilable (VObj kvs)); [|apply (Hint r H Hd)].
    destruct (compiled_decide unit relh (VObj kvs) env tt) as [res u] eqn:Hc. destruct u.
    destruct res as [r1|w|]; try discriminate; [|apply (Hint r H Hd)].
    inversion H; subst r1. clear H. unfold compiled_decide in Hc.
    destruct (has_key "policies" (VObj kvs)) eqn:Hk.
    - pose proof (decide_permit_applicable kvs env r Hc Hd) as Ha. apply applicable_raw_iff in Ha.
      destruct Ha as (s & Hs & Hne). exists s. split; [exact Hs|intros _; exact Hne].
    - destruct (compiled_algo (VObj kvs)) as [al|]; [|discriminate].
      destruct (policy_rules (VObj kvs)) as [rules|]; [|discriminate].
      destruct (if is_null (get_key "action" env) then Some "" else py_str (get_key "action" env)) as [action|];
        [|discriminate].
      destruct (if is_null (get_key "type" (py_or (get_key "resource" env) (VObj []))) then Some None
                else option_map Some (py_str (get_key "type" (py_or (get_key "resource" env) (VObj []))))) as [rt|];
        [|discriminate].
      destruct (buckets action rt (py_or (get_key "resource" env) (VObj []))
                        (if strict_of env then Some true else None) rules) as [bs| | |]; try discriminate.
      destruct (evaluate_permit_has_rule None _ env r Hc Hd) as [_ [s Hs]]. exists s. split; [exact Hs|discriminate].
  Qed.

  (* ---------- C01: no permit without an applicable, satisfied permit rule ---------- *)
  Theorem no_spurious_permit strict kvs req resolved d :
    tree_ok (VObj kvs) ->
    guard_eval unit relh builtin_oblig strict (VObj kvs) req resolved tt = (GDecision d, tt) ->
    d_allowed d = true ->
    exists env rule eff,
      build_env strict req resolved = Some env /\
      In rule (all_rules (VObj kvs)) /\ applicable rel rule env /\
      rule_effect rule = Some eff /\ eff <> "deny" /\
      d_obligations d = rule_obls rule /\
      (forall ok ch, check "permit" (rule_obls rule) (get_key "context" env) = Ok (ok, ch) -> ok = true).
  Proof.
    intros Ht H Hall. unfold guard_eval in H.
    destruct (build_env strict req resolved) as [env|] eqn:Hb; [|discriminate].
    destruct (guard_decide unit relh (VObj kvs) env tt) as [res u] eqn:Hg. destruct u.
    destruct res as [r|w|]; try discriminate. inversion H; subst d. clear H.
    assert (Hperm : r_decision r = "permit").
    { unfold finish in Hall. destruct (String.eqb (r_decision r) "permit") eqn:E;
        [apply String.eqb_eq in E; exact E|simpl in Hall; discriminate]. }
    destruct (guard_decide_permit_rule kvs env r Hg Hperm) as (s & Hs & Hne).
    destruct (guard_decide_explained kvs env r s Ht Hg Hs Hne) as (rule & r0 & Hin & Hex & Hrel).
    destruct Hex as (Happ & _ & eff & Heff & Hcase).
    destruct Hrel as (R1 & R2 & R3 & _).
    exists env, rule, eff. split; [reflexivity|]. split; [exact Hin|]. split; [exact Happ|]. split; [exact Heff|].
    destruct Hcase as [(_ & Hd0 & _)|(Hned & _ & Hobl & _)]; [rewrite <- R3 in Hd0; congruence|].
    split; [exact Hned|].
    assert (Hob : d_obligations (finish builtin_oblig r (get_key "context" env)) = rule_obls rule).
    { unfold finish. rewrite Hperm. simpl. destruct (builtin_oblig r (get_key "context" env)) as [[ok ch]|];
        simpl; congruence. }
    split; [exact Hob|].
    intros ok ch Hck. unfold finish in Hall. rewrite Hperm in Hall. simpl in Hall.
    unfold builtin_oblig in Hall. rewrite Hperm, R2, Hobl, Hck in Hall. simpl in Hall. exact Hall.
  Qed.

  Theorem nothing_applies_denies strict kvs req resolved d env :
    tree_ok (VObj kvs) ->
    guard_eval unit relh builtin_oblig strict (VObj kvs) req resolved tt = (GDecision d, tt) ->
    build_env strict req resolved = Some env ->
    (forall rule, In rule (all_rules (VObj kvs)) -> ~ applicable rel rule env) ->
    d_allowed d = false /\ d_effect d = "deny".
  Proof.
    intros Ht H Hb Hn.
    assert (Hf : d_allowed d = false).
    { destruct (d_allowed d) eqn:E; [|reflexivity]. exfalso.
      destruct (no_spurious_permit strict kvs req resolved d Ht H E) as (env' & rule & eff & Hb' & Hin & Happ & _).
      rewrite Hb in Hb'. inversion Hb'; subst env'. apply (Hn rule Hin Happ). }
    split; [exact Hf|].
    unfold guard_eval in H. rewrite Hb in H.
    destruct (guard_decide unit relh (VObj kvs) env tt) as [res u]. destruct u.
    destruct res as [r|w|]; try discriminate. inversion H; subst d.
    unfold finish in *. destruct (String.eqb (r_decision r) "permit"); [|reflexivity].
    destruct (builtin_oblig r (get_key "context" env)) as [[[|] ch]|]; simpl in *; try discriminate; reflexivity.
  Qed.

  (* an empty policy, or an empty set, denies *)
  Corollary no_rules_denies strict kvs req resolved d env :
    tree_ok (VObj kvs) -> all_rules (VObj kvs) = [] ->
    guard_eval unit relh builtin_oblig strict (VObj kvs) req resolved tt = (GDecision d, tt) ->
    build_env strict req resolved = Some env ->
    d_allowed d = false /\ d_effect d = "deny".
  Proof.
    intros Ht He H Hb. apply (nothing_applies_denies strict kvs req resolved d env Ht H Hb).
    intros rule Hin. rewrite He in Hin. destruct Hin.
  Qed.

  (* ---------- C11: the reported rule id is truthful ---------- *)
  Theorem rule_id_truthful strict kvs req resolved d s oblig :
    tree_ok (VObj kvs) ->
    guard_eval unit relh oblig strict (VObj kvs) req resolved tt = (GDecision d, tt) ->
    d_rule_id d = Some s -> (has_key "policies" (VObj kvs) = true -> s <> "") ->
    exists env rule eff,
      build_env strict req resolved = Some env /\
      In rule (all_rules (VObj kvs)) /\ applicable rel rule env /\ rule_id rule = VStr s /\
      rule_effect rule = Some eff /\
      ((eff = "deny" /\ d_effect d = "deny" /\ d_allowed d = false /\ d_reason d = "explicit_deny") \/
       (eff = "permit" /\ d_obligations d = rule_obls rule /\
        ((d_effect d = "permit" /\ d_allowed d = true /\ d_reason d = "matched") \/
         (d_effect d = "deny" /\ d_allowed d = false /\ d_reason d = "obligation_failed")))).
  Proof.
    intros Ht H Hs Hne. unfold guard_eval in H.
    destruct (build_env strict req resolved) as [env|] eqn:Hb; [|discriminate].
    destruct (guard_decide unit relh (VObj kvs) env tt) as [res u] eqn:Hg. destruct u.
    destruct res as [r|w|]; try discriminate. inversion H; subst d. clear H.
    assert (Hrs : r_rule_id r = Some s).
    { unfold finish in Hs. destruct (String.eqb (r_decision r) "permit");
        [destruct (oblig r (get_key "context" env)) as [[ok ch]|]|]; simpl in Hs; exact Hs. }
    destruct (guard_decide_explained kvs env r s Ht Hg Hrs Hne) as (rule & r0 & Hin & Hex & Hrel).
    destruct Hex as (Happ & (s0 & Hs0 & Hid) & eff & Heff & Hcase).
    destruct Hrel as (R1 & R2 & R3 & R4 & R5).
    assert (s0 = s) by congruence. subst s0.
    (* the rule belongs to a leaf whose effects are permit/deny *)
    assert (Heffok : eff = "permit" \/ eff = "deny").
    { unfold tree_ok in Ht. rewrite Forall_forall in Ht. rewrite all_rules_leaves in Hin.
      apply in_flat_map in Hin. destruct Hin as (leaf & Hl & Hr). destruct (Ht leaf Hl) as [_ He].
      apply (He rule eff Hr Heff). }
    exists env, rule, eff. split; [reflexivity|]. split; [exact Hin|]. split; [exact Happ|].
    split; [exact Hid|]. split; [exact Heff|].
    destruct Hcase as [(He & Hd0 & Hr0 & _)|(Hned & Hr0 & Hobl & Hd0)].
    - left. subst eff. rewrite <- R3 in Hd0.
      assert (Hrr : r_reason r = "explicit_deny") by (destruct (R5 Hd0) as [E|E]; congruence).
      unfold finish. assert (E : String.eqb (r_decision r) "permit" = false) by (rewrite Hd0; reflexivity).
      rewrite E. simpl. repeat split; auto.
    - right. destruct Heffok as [-> | ->]; [|contradiction]. split; [reflexivity|].
      assert (Hd : r_decision r = "permit") by (destruct Hd0 as [E|E]; congruence).
      assert (Hrr : r_reason r = "matched") by (destruct (R4 Hd) as [E|[_ E]]; congruence).
      unfold finish. rewrite Hd. simpl.
      destruct (oblig r (get_key "context" env)) as [[[|] ch]|]; simpl.
      + split; [congruence|]. left. repeat split; auto.
      + split; [congruence|]. right. repeat split; auto.
      + split; [congruence|]. left. repeat split; auto.
  Qed.

  (* ---------- C11: when no rule is reported, the reason is no_match or a mismatch some rule exhibited ---------- *)
  Lemma last_na_reason_in : forall evs dflt,
    last_na_reason dflt evs = dflt \/ In (ENa (last_na_reason dflt evs)) evs.
  Proof.
    induction evs as [|e evs IH]; intros dflt; simpl; [now left|].
    destruct e as [r|eff rid obl].
    - destruct (IH r) as [E|E]; [right; left; congruence|right; right; exact E].
    - destruct (IH dflt) as [E|E]; [left; exact E|right; right; exact E].
  Qed.

  Lemma spec_none_reason al evs d reason o :
    spec_result al evs = (d, reason, None, o) -> reason = last_na_reason "no_match" evs.
  Proof.
    unfold spec_result. destruct al.
    - destruct (find is_deny_ev evs) as [[|]|]; try discriminate;
      destruct (find_last is_permit_ev evs) as [[|]|]; try discriminate; intros H; inversion H; reflexivity.
    - destruct (find is_permit_ev evs) as [[|]|]; try discriminate;
      destruct (find_last is_deny_ev evs) as [[|]|]; try discriminate; intros H; inversion H; reflexivity.
    - destruct (find is_app_ev evs) as [[|]|]; try discriminate; intros H; inversion H; reflexivity.
    - intros H; inversion H; reflexivity.
  Qed.

  Definition exhibited (env : value) (rules : list value) (reason : string) : Prop :=
    reason = "no_match" \/ exists rule, In rule rules /\ outcome_of rel rule env = ONa reason.

  Theorem evaluate_no_rule override kvs env r :
    evaluate unit relh override (VObj kvs) env tt = (ERaw r, tt) -> r_rule_id r = None ->
    exhibited env (own_rules (VObj kvs)) (r_reason r).
  Proof.
    intros H Hn.
    destruct (evaluate_prefix rel _ _ _ _ H) as [[_ ->]|(al & rules & pre & post & evs & Ha & Hr & -> & He & Hres)].
    - left. reflexivity.
    - destruct (spec_result al evs) as [[[d reason] l] o] eqn:Hsp. unfold raw_of_result in Hres.
      destruct l as [[| | |s'| | |]|]; try discriminate; inversion Hres; subst; simpl in Hn; try discriminate.
      simpl. rewrite (spec_none_reason _ _ _ _ _ Hsp).
      destruct (last_na_reason_in evs "no_match") as [E|E]; [left; exact E|right].
      apply (events_in rel _ _ _ He) in E. destruct E as [rule [Hin Hev]]. apply ev_of_na in Hev.
      exists rule. split; [|exact Hev]. unfold own_rules. rewrite Hr. apply in_or_app. now left.
  Qed.

  Lemma set_spec_none al crs : r_rule_id (set_spec al crs) = None -> r_reason (set_spec al crs) = "no_match".
  Proof.
    assert (Hp : forall pid r, find c_permit crs = Some (pid, r) -> r_rule_id r <> None).
    { intros pid r F. apply find_some in F. destruct F as [_ Hx]. apply c_permit_facts in Hx.
      destruct Hx as [Ha _]. apply applicable_raw_iff in Ha. destruct Ha as (s & Hs & _). simpl in Hs. congruence. }
    assert (Hd : forall pid r, find c_deny crs = Some (pid, r) -> r_rule_id r <> None).
    { intros pid r F. apply find_some in F. destruct F as [_ Hx]. apply c_deny_facts in Hx.
      destruct Hx as [Ha _]. apply applicable_raw_iff in Ha. destruct Ha as (s & Hs & _). simpl in Hs. congruence. }
    unfold set_spec. destruct al.
    - destruct (find c_deny crs) as [[pid r]|] eqn:Fd; [intros H; exfalso; apply (Hd _ _ eq_refl); exact H|].
      destruct (find c_permit crs) as [[pid r]|] eqn:Fp; [intros H; exfalso; apply (Hp _ _ eq_refl); exact H|reflexivity].
    - destruct (find c_permit crs) as [[pid r]|] eqn:Fp; [intros H; exfalso; apply (Hp _ _ eq_refl); exact H|].
      destruct (find c_deny crs) as [[pid r]|] eqn:Fd; [intros H; exfalso; apply (Hd _ _ eq_refl); exact H|reflexivity].
    - destruct (find c_app crs) as [[pid r]|] eqn:Fa; [|reflexivity].
      intros H. exfalso. apply find_some in Fa. destruct Fa as [_ Hx]. apply applicable_raw_iff in Hx.
      destruct Hx as (s & Hs & _). simpl in *. congruence.
    - destruct (find c_permit crs) as [[pid r]|] eqn:Fp; [intros H; exfalso; apply (Hp _ _ eq_refl); exact H|].
      destruct (find c_deny crs) as [[pid r]|] eqn:Fd; [intros H; exfalso; apply (Hd _ _ eq_refl); exact H|reflexivity].
  Qed.

  Theorem guard_decide_no_rule kvs env r :
    guard_decide unit relh (VObj kvs) env tt = (ERaw r, tt) -> r_rule_id r = None ->
    exhibited env (all_rules (VObj kvs)) (r_reason r).
  Proof.
    intros H Hn.
    assert (Hset : forall r0, decide unit relh (VObj kvs) env tt = (ERaw r0, tt) -> r_rule_id r0 = None ->
                              r_reason r0 = "no_match").
    { intros r0 Hd Hn0. destruct (decide_prefix rel kvs env r0 Hd) as (al & _ & [(ch & pre & post & crs & _ & _ & _ & ->)|[_ ->]]).
      - apply set_spec_none. exact Hn0.
      - reflexivity. }
    assert (Hint : forall r0, interpret unit relh (VObj kvs) env tt = (ERaw r0, tt) -> r_rule_id r0 = None ->
                              exhibited env (all_rules (VObj kvs)) (r_reason r0)).
    { intros r0 Hi Hn0. unfold interpret in Hi. destruct (has_key "policies" (VObj kvs)) eqn:Hk.
      - left. apply (Hset r0 Hi Hn0).
      - rewrite (single_rules kvs Hk). apply (evaluate_no_rule None kvs env r0 Hi Hn0). }
    unfold guard_decide in H. destruct (compilable (VObj kvs)); [|apply (Hint r H Hn)].
    destruct (compiled_decide unit relh (VObj kvs) env tt) as [res u] eqn:Hc. destruct u.
    destruct res as [r1|w|]; try discriminate; [|apply (Hint r H Hn)].
    inversion H; subst r1. clear H. unfold compiled_decide in Hc.
    destruct (has_key "policies" (VObj kvs)) eqn:Hk; [left; apply (Hset r Hc Hn)|].
    destruct (compiled_algo (VObj kvs)) as [al|]; [|discriminate].
    destruct (policy_rules (VObj kvs)) as [rules|] eqn:Hr; [|discriminate].
    destruct (if is_null (get_key "action" env) then Some "" else py_str (get_key "action" env)) as [action|];
      [|discriminate].
    destruct (if is_null (get_key "type" (py_or (get_key "resource" env) (VObj []))) then Some None
              else option_map Some (py_str (get_key "type" (py_or (get_key "resource" env) (VObj []))))) as [rt|];
      [|discriminate].
    destruct (buckets action rt (py_or (get_key "resource" env) (VObj []))
                      (if strict_of env then Some true else None) rules) as [bs| | |] eqn:Hb; try discriminate.
    destruct (evaluate_no_rule None _ env r Hc Hn) as [E|(rule & Hin & Ho)]; [left; exact E|right].
    exists rule. split; [|exact Ho]. rewrite (single_rules kvs Hk). unfold own_rules in *. rewrite Hr.
    rewrite literal_rules in Hin. apply (selected_rules_subset _ _ _ _ _ _ Hb). exact Hin.
  Qed.

  Theorem no_rule_reason strict kvs req resolved d oblig :
    guard_eval unit relh oblig strict (VObj kvs) req resolved tt = (GDecision d, tt) ->
    d_rule_id d = None ->
    exists env, build_env strict req resolved = Some env /\
                exhibited env (all_rules (VObj kvs)) (d_reason d) /\ d_allowed d = false /\ d_effect d = "deny".
  Proof.
    intros H Hn. unfold guard_eval in H.
    destruct (build_env strict req resolved) as [env|] eqn:Hb; [|discriminate].
    destruct (guard_decide unit relh (VObj kvs) env tt) as [res u] eqn:Hg. destruct u.
    destruct res as [r|w|]; try discriminate. inversion H; subst d. clear H.
    exists env. split; [reflexivity|].
    destruct (String.eqb (r_decision r) "permit") eqn:E.
    - (* a permit always names a rule *)
      apply String.eqb_eq in E. destruct (guard_decide_permit_rule kvs env r Hg E) as (s & Hs & _).
      unfold finish in Hn. rewrite E in Hn. simpl in Hn.
      destruct (oblig r (get_key "context" env)) as [[ok ch]|]; simpl in Hn; congruence.
    - unfold finish in *. rewrite E in *. simpl in *. repeat split.
      apply (guard_decide_no_rule kvs env r Hg Hn).
  Qed.
End Pure.

(* ---------- audit trail: one payload and one metric per evaluation, sinks cannot interfere ---------- *)
Definition audit_payload (env : value) (d : decision) : value :=
  VObj [("env", env); ("decision", VStr (d_effect d)); ("allowed", VBool (d_allowed d));
        ("rule_id", match d_rule_id d with Some s => VStr s | None => VNull end);
        ("policy_id", match d_policy_id d with Some v => v | None => VNull end);
        ("reason", VStr (d_reason d)); ("obligations", VList (d_obligations d))].
Definition metric_label (d : decision) : string := d_effect d.

(* sinks are arbitrary: each is handed its argument and may fail (false) or succeed (true);
   Guard looks at neither *)
Record emitted := { e_decision : decision; e_logged : list value; e_counted : list string }.
Definition emit (log : value -> bool) (inc : string -> bool) (env : value) (d : decision) : emitted :=
  let _ := inc (metric_label d) in
  let _ := log (audit_payload env d) in
  {| e_decision := d; e_logged := [audit_payload env d]; e_counted := [metric_label d] |}.

Theorem sinks_inert log1 inc1 log2 inc2 env d : emit log1 inc1 env d = emit log2 inc2 env d.
Proof. reflexivity. Qed.
Theorem audit_agrees log inc env d :
  let e := emit log inc env d in
  e_decision e = d /\
  e_counted e = [d_effect d] /\
  exists p, e_logged e = [p] /\ get_key "decision" p = VStr (d_effect d) /\ get_key "allowed" p = VBool (d_allowed d) /\
            get_key "rule_id" p = match d_rule_id d with Some s => VStr s | None => VNull end /\
            get_key "reason" p = VStr (d_reason d) /\ get_key "env" p = env.
Proof. simpl. repeat split. eexists. repeat split. Qed.
