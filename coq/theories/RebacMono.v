(* RebacMono.v — how the answer of the local checker depends on the store
   (property C12): the tuple store enters the specification only as a SET, and
   positively.  So insertion order and duplicate tuples never change what is
   derivable, adding a tuple never revokes anything, and — with a node budget
   that cannot be exhausted and no deadline — the same holds of check() itself.
   Proofs only; the model is Rebac.v, the specification RebacProofs.derivable. *)
From Coq Require Import List Bool String Ascii Arith ZArith Lia.
From Rbacx Require Import Value Rebac RebacProofs.
Import ListNotations.
Local Open Scope nat_scope.

(* the store enters positively, and only through membership *)
Lemma derivable_store_mono cfg1 cfg2 :
  incl (c_store cfg1) (c_store cfg2) -> c_rules cfg1 = c_rules cfg2 -> c_reg cfg1 = c_reg cfg2 ->
  forall d n, derivable cfg1 d n -> derivable cfg2 d n.
Proof.
  intros Hst Hru Hre.
  assert (Hk : forall c, caveat_ok cfg1 c -> caveat_ok cfg2 c).
  { unfold caveat_ok. rewrite Hre. auto. }
  assert (Hrw : forall s obj e n, Rewrite cfg1 s obj e n -> Rewrite cfg2 s obj e n).
  { intros s obj e n H. induction H as [r|ts cu t Hin Hrel Hres Hcol Hcav|l e n Hin Hr IH].
    - constructor.
    - apply rw_ttu; auto.
    - eapply rw_union; eauto. }
  intros d n H. induction H as [n [t [Hin [Hn Hc]]]|d n n' Hs Hd IH].
  - constructor. exists t. auto.
  - eapply der_step; [|exact IH]. destruct n as [[s rel] obj]. destruct Hs as [e [He Hr]].
    exists e. rewrite <- Hru. auto.
Qed.

Lemma derivable_within_store_mono cfg1 cfg2 D1 D2 n :
  incl (c_store cfg1) (c_store cfg2) -> c_rules cfg1 = c_rules cfg2 -> c_reg cfg1 = c_reg cfg2 ->
  (D1 <= D2)%Z ->
  derivable_within cfg1 D1 n -> derivable_within cfg2 D2 n.
Proof.
  intros Hst Hru Hre HD [d [Hd H]]. exists d. split; [lia|].
  eapply derivable_store_mono; eauto.
Qed.

(* two stores with the same elements (any order, any multiplicity) derive the same *)
Theorem derivable_store_set cfg1 cfg2 :
  (forall t, In t (c_store cfg1) <-> In t (c_store cfg2)) ->
  c_rules cfg1 = c_rules cfg2 -> c_reg cfg1 = c_reg cfg2 ->
  forall d n, derivable cfg1 d n <-> derivable cfg2 d n.
Proof.
  intros Hst Hru Hre d n. split; apply derivable_store_mono; auto;
    intros t Ht; apply Hst; exact Ht.
Qed.

Definition with_store (cfg : config) (st : store) : config :=
  mkCfg st (c_rules cfg) (c_reg cfg) (c_max_depth cfg) (c_max_nodes cfg).

(* check() itself: an answer True under any limits stays True when tuples are
   added (anywhere in the insertion order, duplicates included), the depth limit
   raised, the node budget made sufficient and the deadline removed *)
Theorem more_tuples_only_grant cfg hit s rel obj st' md' mn' :
  incl (c_store cfg) st' ->
  (c_max_depth cfg <= md')%Z ->
  (Z.of_nat (node_bound (with_store cfg st') (s, rel, obj)) <= mn')%Z ->
  check cfg hit s rel obj = true ->
  check (with_limits (with_store cfg st') md' mn') (fun _ => false) s rel obj = true.
Proof.
  intros Hst Hmd Hmn H. apply check_sound in H.
  apply check_complete_unlimited; [reflexivity|exact Hmn|].
  simpl. eapply derivable_within_store_mono; [| | | |exact H]; simpl; auto.
Qed.

(* order and duplicates: with sufficient budgets and no deadline, two checkers
   whose stores have the same elements give the same answer to every query *)
Theorem same_tuples_same_answer cfg1 cfg2 s rel obj :
  (forall t, In t (c_store cfg1) <-> In t (c_store cfg2)) ->
  c_rules cfg1 = c_rules cfg2 -> c_reg cfg1 = c_reg cfg2 -> c_max_depth cfg1 = c_max_depth cfg2 ->
  (Z.of_nat (node_bound cfg1 (s, rel, obj)) <= c_max_nodes cfg1)%Z ->
  (Z.of_nat (node_bound cfg2 (s, rel, obj)) <= c_max_nodes cfg2)%Z ->
  check cfg1 (fun _ => false) s rel obj = check cfg2 (fun _ => false) s rel obj.
Proof.
  intros Hst Hru Hre Hmd Hn1 Hn2.
  assert (E1 := check_exact cfg1 (fun _ => false) s rel obj (fun _ => eq_refl) Hn1).
  assert (E2 := check_exact cfg2 (fun _ => false) s rel obj (fun _ => eq_refl) Hn2).
  assert (Hd : derivable_within cfg1 (c_max_depth cfg1) (s, rel, obj) <->
               derivable_within cfg2 (c_max_depth cfg2) (s, rel, obj)).
  { rewrite Hmd. unfold derivable_within. split; intros [d [Hd H]]; exists d; (split; [exact Hd|]);
      apply (derivable_store_set cfg1 cfg2 Hst Hru Hre d (s, rel, obj)); exact H. }
  destruct (check cfg1 (fun _ => false) s rel obj) eqn:C1;
    destruct (check cfg2 (fun _ => false) s rel obj) eqn:C2; try reflexivity.
  - assert (X : false = true) by (apply E2, Hd, E1; reflexivity). discriminate X.
  - assert (X : false = true) by (apply E1, Hd, E2; reflexivity). discriminate X.
Qed.

(* the depth limit alone: what is found within D is found within every D' >= D *)
Theorem deeper_only_grants cfg D D' n :
  (D <= D')%Z -> derivable_within cfg D n -> derivable_within cfg D' n.
Proof. intros HD [d [Hd H]]. exists d. split; [lia|exact H]. Qed.

(* removing tuples can only revoke: a relation not derivable from a store is not
   derivable from any sub-store, so check() answers False on it whatever the limits *)
Theorem fewer_tuples_only_revoke cfg hit s rel obj st' :
  incl (c_store cfg) st' ->
  ~ derivable_within (with_store cfg st') (c_max_depth cfg) (s, rel, obj) ->
  check cfg hit s rel obj = false.
Proof.
  intros Hst Hn. destruct (check cfg hit s rel obj) eqn:C; [|reflexivity].
  exfalso. apply Hn. apply check_sound in C.
  eapply derivable_within_store_mono; [| | | |exact C]; simpl; auto. lia.
Qed.
