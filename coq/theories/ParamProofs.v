(* ParamProofs.v — the evaluation functions touch the state S only through the relationship
   handler: a relation between two handler instances lifts to every evaluation function
   (conditions, rules, policies, nested sets, compiled path, engine).  Used by C13. *)
From Coq Require Import ZArith List Bool String Ascii Lia.
From Rbacx Require Import Value ValueInd Cond Target Policy PolicySet Compiler Oblig Engine CondProofs.
Import ListNotations.
Local Open Scope string_scope.

(* ---------- unfolding eval_cond / decide for arbitrary objects, generic in S ---------- *)
Section Unfold.
  Variable S : Type.
  Variable relh : rel_query -> S -> bool * S.
  Notation eval := (eval_cond S relh).

  Definition and_of (v env : value) (st : S) : res bool * S :=
    match v with
    | VList subs => eval_all S relh subs env st
    | _ => match iter_truths v with
           | Some bs => (Ok (forallb (fun b => b) bs), st)
           | None => (TypeErr, st)
           end
    end.
  Definition or_of (v env : value) (st : S) : res bool * S :=
    match v with
    | VList subs => eval_any S relh subs env st
    | _ => match iter_truths v with
           | Some bs => (Ok (existsb (fun b => b) bs), st)
           | None => (TypeErr, st)
           end
    end.
  Definition not_of (v env : value) (st : S) : res bool * S :=
    match eval v env st with (Ok b, st') => (Ok (negb b), st') | other => other end.

  Lemma eval_cond_unfold kvs env st :
    eval (VObj kvs) env st =
    match eval_leaf S relh kvs env st with
    | Some r => r
    | None =>
        match assoc "and" kvs with
        | Some v => and_of v env st
        | None => match assoc "or" kvs with
                  | Some v => or_of v env st
                  | None => match assoc "not" kvs with
                            | Some v => not_of v env st
                            | None => (Ok false, st)
                            end
                  end
        end
    end.
  Proof.
    cbn [eval_cond]. destruct (eval_leaf S relh kvs env st); [reflexivity|].
    assert (Hand : forall l,
      (fix find (l : list (string * value)) : option (res bool * S) :=
         match l with
         | [] => None
         | (k, v) :: r =>
             if String.eqb "and" k then
               Some (match v with
                     | VList subs =>
                         (fix all (l0 : list value) (st0 : S) : res bool * S :=
                            match l0 with
                            | [] => (Ok true, st0)
                            | x :: r0 => match eval x env st0 with
                                         | (Ok true, st') => all r0 st'
                                         | other => other
                                         end
                            end) subs st
                     | _ => match iter_truths v with
                            | Some bs => (Ok (forallb (fun b => b) bs), st)
                            | None => (TypeErr, st)
                            end
                     end)
             else find r
         end) l = option_map (fun v => and_of v env st) (assoc "and" l)).
    { induction l as [|[k v] l IH]; [reflexivity|]. cbn [assoc]. destruct (String.eqb "and" k); [|exact IH].
      simpl. f_equal. destruct v as [| | | |subs| |]; try reflexivity. unfold and_of.
      generalize st. induction subs as [|x r IHs]; intros s0; [reflexivity|].
      cbn. destruct (eval x env s0) as [[[|]| | |] st']; try reflexivity. apply IHs. }
    assert (Hor : forall l,
      (fix find (l : list (string * value)) : option (res bool * S) :=
         match l with
         | [] => None
         | (k, v) :: r =>
             if String.eqb "or" k then
               Some (match v with
                     | VList subs =>
                         (fix any (l0 : list value) (st0 : S) : res bool * S :=
                            match l0 with
                            | [] => (Ok false, st0)
                            | x :: r0 => match eval x env st0 with
                                         | (Ok false, st') => any r0 st'
                                         | other => other
                                         end
                            end) subs st
                     | _ => match iter_truths v with
                            | Some bs => (Ok (existsb (fun b => b) bs), st)
                            | None => (TypeErr, st)
                            end
                     end)
             else find r
         end) l = option_map (fun v => or_of v env st) (assoc "or" l)).
    { induction l as [|[k v] l IH]; [reflexivity|]. cbn [assoc]. destruct (String.eqb "or" k); [|exact IH].
      simpl. f_equal. destruct v as [| | | |subs| |]; try reflexivity. unfold or_of.
      generalize st. induction subs as [|x r IHs]; intros s0; [reflexivity|].
      cbn. destruct (eval x env s0) as [[[|]| | |] st']; try reflexivity. apply IHs. }
    assert (Hnot : forall l,
      (fix find (l : list (string * value)) : option (res bool * S) :=
         match l with
         | [] => None
         | (k, v) :: r =>
             if String.eqb "not" k then
               Some (match eval v env st with
                     | (Ok b, st') => (Ok (negb b), st')
                     | other => other
                     end)
             else find r
         end) l = option_map (fun v => not_of v env st) (assoc "not" l)).
    { induction l as [|[k v] l IH]; [reflexivity|]. cbn [assoc]. destruct (String.eqb "not" k); [|exact IH].
      reflexivity. }
    rewrite Hand. destruct (assoc "and" kvs); [reflexivity|]. simpl.
    rewrite Hor. destruct (assoc "or" kvs); [reflexivity|]. simpl.
    rewrite Hnot. destruct (assoc "not" kvs); reflexivity.
  Qed.
End Unfold.

(* ---------- parametricity in the relationship handler ---------- *)
Section Param.
  Variables S1 S2 : Type.
  Variable relh1 : rel_query -> S1 -> bool * S1.
  Variable relh2 : rel_query -> S2 -> bool * S2.
  Variable R : S1 -> S2 -> Prop.
  Hypothesis HR : forall q s1 s2, R s1 s2 ->
    fst (relh1 q s1) = fst (relh2 q s2) /\ R (snd (relh1 q s1)) (snd (relh2 q s2)).

  Definition sim {A} (x : A * S1) (y : A * S2) : Prop := fst x = fst y /\ R (snd x) (snd y).

  Lemma eval_leaf_sim kvs env s1 s2 : R s1 s2 ->
    match eval_leaf S1 relh1 kvs env s1, eval_leaf S2 relh2 kvs env s2 with
    | Some x, Some y => sim x y
    | None, None => True
    | _, _ => False
    end.
  Proof.
    intros Hr. unfold eval_leaf. destruct (assoc "rel" kvs) as [expr|].
    - destruct (rel_prepare expr env) as [[q|]| | |]; try (split; [reflexivity|exact Hr]).
      destruct (HR q s1 s2 Hr) as [Hb Hs].
      destruct (relh1 q s1) as [b1 t1]. destruct (relh2 q s2) as [b2 t2]. simpl in *. subst. split; [reflexivity|exact Hs].
    - match goal with |- match (match ?x with _ => _ end) with _ => _ end => destruct x end;
        [split; [reflexivity|exact Hr]|exact I].
  Qed.

  Definition cond_sim_stmt (c : value) : Prop :=
    forall env s1 s2, R s1 s2 -> sim (eval_cond S1 relh1 c env s1) (eval_cond S2 relh2 c env s2).

  Lemma eval_all_sim subs : Forall cond_sim_stmt subs ->
    forall env s1 s2, R s1 s2 -> sim (eval_all S1 relh1 subs env s1) (eval_all S2 relh2 subs env s2).
  Proof.
    induction subs as [|x r IH]; intros Hf env s1 s2 Hr; simpl; [split; [reflexivity|exact Hr]|].
    inversion Hf as [|? ? Hx Hrest]; subst. destruct (Hx env s1 s2 Hr) as [Hb Hs].
    destruct (eval_cond S1 relh1 x env s1) as [r1 t1]. destruct (eval_cond S2 relh2 x env s2) as [r2 t2].
    simpl in *. subst r2. destruct r1 as [[|]| | |]; try (split; [reflexivity|exact Hs]).
    apply IH; assumption.
  Qed.
  Lemma eval_any_sim subs : Forall cond_sim_stmt subs ->
    forall env s1 s2, R s1 s2 -> sim (eval_any S1 relh1 subs env s1) (eval_any S2 relh2 subs env s2).
  Proof.
    induction subs as [|x r IH]; intros Hf env s1 s2 Hr; simpl; [split; [reflexivity|exact Hr]|].
    inversion Hf as [|? ? Hx Hrest]; subst. destruct (Hx env s1 s2 Hr) as [Hb Hs].
    destruct (eval_cond S1 relh1 x env s1) as [r1 t1]. destruct (eval_cond S2 relh2 x env s2) as [r2 t2].
    simpl in *. subst r2. destruct r1 as [[|]| | |]; try (split; [reflexivity|exact Hs]).
    apply IH; assumption.
  Qed.

  Lemma cond_sim_all : forall c,
    cond_sim_stmt c /\ match c with VList l => Forall cond_sim_stmt l | _ => True end.
  Proof.
    induction c as [|b|n|s|l IHl|kvs IH|a u] using value_ind';
      try (split; [intros env s1 s2 Hr; split; [reflexivity|exact Hr]|exact I]).
    - split; [intros env s1 s2 Hr; split; [reflexivity|exact Hr]|].
      rewrite Forall_forall in *. intros x Hx. apply (IHl x Hx).
    - split; [|exact I]. intros env s1 s2 Hr. rewrite !eval_cond_unfold.
      pose proof (eval_leaf_sim kvs env s1 s2 Hr) as Hl.
      destruct (eval_leaf S1 relh1 kvs env s1) as [x|]; destruct (eval_leaf S2 relh2 kvs env s2) as [y|];
        try contradiction; [exact Hl|].
      rewrite Forall_forall in IH.
      destruct (assoc "and" kvs) as [v|] eqn:Aa.
      { apply assoc_in in Aa. destruct (IH _ Aa) as [_ Hv]. simpl in Hv. unfold and_of.
        destruct v; try (destruct (iter_truths _); split; try reflexivity; exact Hr).
        apply eval_all_sim; assumption. }
      destruct (assoc "or" kvs) as [v|] eqn:Ao.
      { apply assoc_in in Ao. destruct (IH _ Ao) as [_ Hv]. simpl in Hv. unfold or_of.
        destruct v; try (destruct (iter_truths _); split; try reflexivity; exact Hr).
        apply eval_any_sim; assumption. }
      destruct (assoc "not" kvs) as [v|] eqn:An; [|split; [reflexivity|exact Hr]].
      apply assoc_in in An. destruct (IH _ An) as [Hv _]. simpl in Hv. unfold not_of.
      destruct (Hv env s1 s2 Hr) as [Hb Hs].
      destruct (eval_cond S1 relh1 v env s1) as [r1 t1]. destruct (eval_cond S2 relh2 v env s2) as [r2 t2].
      simpl in *. subst r2. destruct r1; split; try reflexivity; exact Hs.
  Qed.

  Theorem eval_cond_sim c env s1 s2 : R s1 s2 -> sim (eval_cond S1 relh1 c env s1) (eval_cond S2 relh2 c env s2).
  Proof. apply (proj1 (cond_sim_all c)). Qed.

  Lemma rule_outcome_sim rule env s1 s2 : R s1 s2 ->
    sim (rule_outcome S1 relh1 rule env s1) (rule_outcome S2 relh2 rule env s2).
  Proof.
    intros Hr. unfold rule_outcome. destruct rule; try (split; [reflexivity|exact Hr]).
    destruct (match env_action env with Some a => match_actions (VObj kvs) a | None => _ end) as [[|]| | |];
      try (split; [reflexivity|exact Hr]).
    destruct (match_resource _ _ _) as [[|]| | |]; try (split; [reflexivity|exact Hr]).
    cbv zeta. destruct (is_null _); [split; [reflexivity|exact Hr]|].
    destruct (eval_cond_sim (get_key "condition" (VObj kvs)) env s1 s2 Hr) as [Hb Hs].
    destruct (eval_cond S1 relh1 _ env s1) as [r1 t1]. destruct (eval_cond S2 relh2 _ env s2) as [r2 t2].
    simpl in *. subst r2. destruct r1 as [[|]| | |]; split; try reflexivity; exact Hs.
  Qed.

  Lemma loop_sim al env : forall rules a s1 s2, R s1 s2 ->
    sim (loop S1 relh1 al rules env a s1) (loop S2 relh2 al rules env a s2).
  Proof.
    induction rules as [|r rest IH]; intros a s1 s2 Hr; simpl; [split; [reflexivity|exact Hr]|].
    destruct (rule_outcome_sim r env s1 s2 Hr) as [Hb Hs].
    destruct (rule_outcome S1 relh1 r env s1) as [o1 t1]. destruct (rule_outcome S2 relh2 r env s2) as [o2 t2].
    simpl in *. subst o2. destruct o1 as [|reason|w|]; try (split; [reflexivity|exact Hs]).
    - destruct (rule_effect r); [|split; [reflexivity|exact Hs]].
      destruct (a_broke _); [split; [reflexivity|exact Hs]|]. apply IH. exact Hs.
    - apply IH. exact Hs.
  Qed.

  Lemma evaluate_sim override policy env s1 s2 : R s1 s2 ->
    sim (evaluate S1 relh1 override policy env s1) (evaluate S2 relh2 override policy env s2).
  Proof.
    intros Hr. unfold evaluate. destruct policy; try (split; [reflexivity|exact Hr]).
    destruct (policy_algo override (VObj kvs)); [|split; [reflexivity|exact Hr]].
    destruct (policy_rules (VObj kvs)); [|split; [reflexivity|exact Hr]].
    destruct (loop_sim a env l acc0 s1 s2 Hr) as [Hb Hs].
    destruct (loop S1 relh1 a l env acc0 s1) as [r1 t1]. destruct (loop S2 relh2 a l env acc0 s2) as [r2 t2].
    simpl in *. subst r2. destruct r1; try (split; [reflexivity|exact Hs]).
    destruct (raw_of_acc _); split; try reflexivity; exact Hs.
  Qed.

  (* nested sets *)
  Definition set_sim_stmt (ps : value) : Prop :=
    forall env s1 s2, R s1 s2 -> sim (decide S1 relh1 ps env s1) (decide S2 relh2 ps env s2).

  Lemma set_sim_all : forall v,
    set_sim_stmt v /\ match v with VList l => Forall set_sim_stmt l | _ => True end.
  Proof.
    induction v as [|b|n|s|l IHl|kvs IH|a u] using value_ind';
      try (split; [intros env s1 s2 Hr; split; [reflexivity|exact Hr]|exact I]).
    - split; [intros env s1 s2 Hr; split; [reflexivity|exact Hr]|].
      rewrite Forall_forall in *. intros x Hx. apply (IHl x Hx).
    - split; [|exact I]. intros env s1 s2 Hr. cbn [decide].
      destruct (set_algo (VObj kvs)) as [al|]; [|split; [reflexivity|exact Hr]].
      (* walk to the "policies" key *)
      rewrite Forall_forall in IH.
      assert (Hkvs : forall l, (forall kv, In kv l -> In kv kvs) ->
        match
          (fix find (l0 : list (string * value)) : option (eres * S1) :=
             match l0 with
             | [] => None
             | (k, v) :: r =>
                 if String.eqb "policies" k then
                   Some (match v with
                         | VList children =>
                             (fix go (l1 : list value) (a : sacc) (st : S1) : eres * S1 :=
                                match l1 with
                                | [] => (ERaw (set_finalize al a), st)
                                | pol :: rest =>
                                    match pol with
                                    | VObj _ =>
                                        let '(res, st') :=
                                          if has_key "policies" pol then decide S1 relh1 pol env st
                                          else evaluate S1 relh1 None pol env st in
                                        match res with
                                        | ERaw r0 =>
                                            let a' := set_step al a (pid_of pol) r0 in
                                            if s_broke a' then (ERaw (set_finalize al a'), st') else go rest a' st'
                                        | other => (other, st')
                                        end
                                    | _ => (EErr "AttributeError", st)
                                    end
                                end) children sacc0 s1
                         | _ => if py_truthy v then (ERaw (set_no_match None), s1)
                                else (ERaw (set_finalize al sacc0), s1)
                         end)
                 else find r
             end) l,
          (fix find (l0 : list (string * value)) : option (eres * S2) :=
             match l0 with
             | [] => None
             | (k, v) :: r =>
                 if String.eqb "policies" k then
                   Some (match v with
                         | VList children =>
                             (fix go (l1 : list value) (a : sacc) (st : S2) : eres * S2 :=
                                match l1 with
                                | [] => (ERaw (set_finalize al a), st)
                                | pol :: rest =>
                                    match pol with
                                    | VObj _ =>
                                        let '(res, st') :=
                                          if has_key "policies" pol then decide S2 relh2 pol env st
                                          else evaluate S2 relh2 None pol env st in
                                        match res with
                                        | ERaw r0 =>
                                            let a' := set_step al a (pid_of pol) r0 in
                                            if s_broke a' then (ERaw (set_finalize al a'), st') else go rest a' st'
                                        | other => (other, st')
                                        end
                                    | _ => (EErr "AttributeError", st)
                                    end
                                end) children sacc0 s2
                         | _ => if py_truthy v then (ERaw (set_no_match None), s2)
                                else (ERaw (set_finalize al sacc0), s2)
                         end)
                 else find r
             end) l
        with
        | Some x, Some y => sim x y
        | None, None => True
        | _, _ => False
        end).
      { induction l as [|[k v] l IHk]; intros Hin; [exact I|].
        destruct (String.eqb "policies" k).
        - destruct v as [| | | |children| |]; try (destruct (py_truthy _); split; try reflexivity; exact Hr);
            try (split; [reflexivity|exact Hr]).
          destruct (IH (k, VList children) (Hin _ (or_introl eq_refl))) as [_ Hch]. simpl in Hch.
          clear IHk Hin. generalize sacc0. revert s1 s2 Hr.
          induction children as [|pol rest IHc]; intros s1 s2 Hr a; [split; [reflexivity|exact Hr]|].
          inversion Hch as [|? ? Hp Hrest]; subst.
          destruct pol; try (split; [reflexivity|exact Hr]).
          assert (Hchild : sim (if has_key "policies" (VObj kvs0) then decide S1 relh1 (VObj kvs0) env s1
                                else evaluate S1 relh1 None (VObj kvs0) env s1)
                               (if has_key "policies" (VObj kvs0) then decide S2 relh2 (VObj kvs0) env s2
                                else evaluate S2 relh2 None (VObj kvs0) env s2)).
          { destruct (has_key "policies" (VObj kvs0)); [apply Hp; exact Hr|apply evaluate_sim; exact Hr]. }
          destruct Hchild as [Hb Hs].
          destruct (if has_key "policies" (VObj kvs0) then decide S1 relh1 (VObj kvs0) env s1
                    else evaluate S1 relh1 None (VObj kvs0) env s1) as [r1 t1].
          destruct (if has_key "policies" (VObj kvs0) then decide S2 relh2 (VObj kvs0) env s2
                    else evaluate S2 relh2 None (VObj kvs0) env s2) as [r2 t2].
          simpl in Hb, Hs. subst r2. destruct r1 as [r0|w|]; try (split; [reflexivity|exact Hs]).
          cbv zeta. destruct (s_broke (set_step al a (pid_of (VObj kvs0)) r0)); [split; [reflexivity|exact Hs]|]. exact (IHc Hrest t1 t2 Hs (set_step al a (pid_of (VObj kvs0)) r0)).
        - apply IHk. intros kv Hkv. apply Hin. now right. }
      specialize (Hkvs kvs (fun kv H => H)).
      match type of Hkvs with match ?x with _ => _ end => destruct x as [xx|] end;
      match type of Hkvs with match ?y with _ => _ end => destruct y as [yy|] end; try contradiction;
      [exact Hkvs|split; [reflexivity|exact Hr]].
  Qed.

  Theorem decide_sim ps env s1 s2 : R s1 s2 -> sim (decide S1 relh1 ps env s1) (decide S2 relh2 ps env s2).
  Proof. apply (proj1 (set_sim_all ps)). Qed.

  Lemma interpret_sim policy env s1 s2 : R s1 s2 ->
    sim (interpret S1 relh1 policy env s1) (interpret S2 relh2 policy env s2).
  Proof. intros Hr. unfold interpret. destruct (has_key "policies" policy); [apply decide_sim|apply evaluate_sim]; exact Hr. Qed.

  Lemma compiled_sim policy env s1 s2 : R s1 s2 ->
    sim (compiled_decide S1 relh1 policy env s1) (compiled_decide S2 relh2 policy env s2).
  Proof.
    intros Hr. unfold compiled_decide. destruct (has_key "policies" policy); [apply decide_sim; exact Hr|].
    destruct (compiled_algo policy); [|split; [reflexivity|exact Hr]].
    destruct (policy_rules policy); [|split; [reflexivity|exact Hr]].
    destruct (if is_null (get_key "action" env) then Some "" else py_str (get_key "action" env));
      [|split; [reflexivity|exact Hr]].
    destruct (if is_null (get_key "type" (py_or (get_key "resource" env) (VObj []))) then Some None
              else option_map Some (py_str (get_key "type" (py_or (get_key "resource" env) (VObj [])))));
      [|split; [reflexivity|exact Hr]].
    destruct (buckets _ _ _ _ _); try (split; [reflexivity|exact Hr]). apply evaluate_sim. exact Hr.
  Qed.

  Theorem guard_decide_sim policy env s1 s2 : R s1 s2 ->
    sim (guard_decide S1 relh1 policy env s1) (guard_decide S2 relh2 policy env s2).
  Proof.
    intros Hr. unfold guard_decide. destruct (compilable policy); [|apply interpret_sim; exact Hr].
    destruct (compiled_sim policy env s1 s2 Hr) as [Hb Hs].
    destruct (compiled_decide S1 relh1 policy env s1) as [r1 t1].
    destruct (compiled_decide S2 relh2 policy env s2) as [r2 t2]. simpl in *. subst r2.
    destruct r1; try (split; [reflexivity|exact Hs]). apply interpret_sim. exact Hs.
  Qed.

  Theorem guard_eval_sim oblig strict policy req resolved s1 s2 : R s1 s2 ->
    sim (guard_eval S1 relh1 oblig strict policy req resolved s1) (guard_eval S2 relh2 oblig strict policy req resolved s2).
  Proof.
    intros Hr. unfold guard_eval. destruct (build_env strict req resolved); [|split; [reflexivity|exact Hr]].
    destruct (guard_decide_sim policy v s1 s2 Hr) as [Hb Hs].
    destruct (guard_decide S1 relh1 policy v s1) as [r1 t1]. destruct (guard_decide S2 relh2 policy v s2) as [r2 t2].
    simpl in *. subst r2. destruct r1; split; try reflexivity; exact Hs.
  Qed.
End Param.
