(* PolicySet.v — model of rbacx.core.policyset.decide (nested sets included).
   The record field r_rule_id of a result stands for the expression
   `res.get("last_rule_id") or res.get("rule_id")`, which is the only way the set
   evaluator and the engine ever read the two keys. *)
From Coq Require Import ZArith List Bool String Ascii.
From Rbacx Require Import Value Cond Target Policy.
Import ListNotations.
Local Open Scope string_scope.

Section Eval.
  Variable S : Type.
  Variable relh : rel_query -> S -> bool * S.

  (* (policyset.get("algorithm") or "deny-overrides").lower() *)
  Definition set_algo (ps : value) : option algo :=
    match py_or (get_key "algorithm" ps) (VStr "deny-overrides") with
    | VStr s => if is_ascii_str s then Some (algo_of_string (str_lower s)) else None
    | _ => None
    end.

  (* _is_applicable *)
  Definition applicable_raw (r : raw) : bool :=
    match r_rule_id r with Some s => negb (String.eqb s "") | None => false end.

  Definition pid_of (pol : value) : option value :=
    let v := get_key "id" pol in if is_null v then None else Some v.

  Record sacc := {
    s_any_permit : bool; s_any_deny : bool;
    s_first : option (raw * option value);
    s_permit : option (raw * option value);
    s_deny : option (raw * option value);
    s_last : option string;
    s_broke : bool
  }.
  Definition sacc0 : sacc :=
    {| s_any_permit := false; s_any_deny := false; s_first := None; s_permit := None; s_deny := None;
       s_last := None; s_broke := false |}.

  Definition set_step (al : algo) (a : sacc) (pid : option value) (res : raw) : sacc :=
    let last := if applicable_raw res then r_rule_id res else s_last a in
    if negb (applicable_raw res) then
      {| s_any_permit := s_any_permit a; s_any_deny := s_any_deny a; s_first := s_first a;
         s_permit := s_permit a; s_deny := s_deny a; s_last := last; s_broke := false |}
    else
      match al with
      | FirstApplicable =>
          {| s_any_permit := s_any_permit a; s_any_deny := s_any_deny a; s_first := Some (res, pid);
             s_permit := s_permit a; s_deny := s_deny a; s_last := last; s_broke := true |}
      | _ =>
          if String.eqb (r_decision res) "deny" then
            {| s_any_permit := s_any_permit a; s_any_deny := true; s_first := s_first a;
               s_permit := s_permit a;
               s_deny := match s_deny a with None => Some (res, pid) | x => x end;
               s_last := last;
               s_broke := match al with DenyOverrides => true | _ => false end |}
          else if String.eqb (r_decision res) "permit" then
            {| s_any_permit := true; s_any_deny := s_any_deny a; s_first := s_first a;
               s_permit := match s_permit a with None => Some (res, pid) | x => x end;
               s_deny := s_deny a; s_last := last;
               s_broke := match al with PermitOverrides => true | _ => false end |}
          else
            {| s_any_permit := s_any_permit a; s_any_deny := s_any_deny a; s_first := s_first a;
               s_permit := s_permit a; s_deny := s_deny a; s_last := last; s_broke := false |}
      end.

  Definition set_no_match (last : option string) : raw :=
    {| r_decision := "deny"; r_reason := "no_match"; r_rule_id := last; r_obligations := [];
       r_policy_id := None |}.

  Definition with_pid (r : raw) (pid : option value) (fix_reason : bool) : raw :=
    {| r_decision := r_decision r;
       r_reason := if fix_reason && String.eqb (r_reason r) "" then "matched" else r_reason r;
       r_rule_id := r_rule_id r; r_obligations := r_obligations r; r_policy_id := pid |}.

  Definition deny_out (r : raw) (pid : option value) : raw :=
    {| r_decision := "deny"; r_reason := "explicit_deny"; r_rule_id := r_rule_id r;
       r_obligations := r_obligations r; r_policy_id := pid |}.

  Definition set_finalize (al : algo) (a : sacc) : raw :=
    match al with
    | FirstApplicable =>
        match s_first a with
        | Some (r, pid) => with_pid r pid false
        | None => set_no_match (s_last a)
        end
    | DenyOverrides =>
        match s_deny a, s_permit a with
        | Some (r, pid), _ => deny_out r pid
        | None, Some (r, pid) => with_pid r pid true
        | None, None => set_no_match (s_last a)
        end
    | _ =>
        match s_permit a, s_deny a with
        | Some (r, pid), _ => with_pid r pid true
        | None, Some (r, pid) => deny_out r pid
        | None, None => set_no_match (s_last a)
        end
    end.

  Fixpoint decide (ps env : value) (st : S) {struct ps} : eres * S :=
    match ps with
    | VObj kvs =>
        match set_algo ps with
        | None => (EOod, st)
        | Some al =>
            (* policies = policyset.get("policies") or [] *)
            match (fix find (l : list (string * value)) : option (eres * S) :=
                     match l with
                     | [] => None
                     | (k, v) :: r =>
                         if String.eqb "policies" k then
                           Some (match v with
                                 | VList children =>
                                     (fix go (l : list value) (a : sacc) (st : S) : eres * S :=
                                        match l with
                                        | [] => (ERaw (set_finalize al a), st)
                                        | pol :: rest =>
                                            match pol with
                                            | VObj _ =>
                                                let '(res, st') :=
                                                  if has_key "policies" pol then decide pol env st
                                                  else evaluate S relh None pol env st in
                                                match res with
                                                | ERaw r =>
                                                    let a' := set_step al a (pid_of pol) r in
                                                    if s_broke a' then (ERaw (set_finalize al a'), st')
                                                    else go rest a' st'
                                                | other => (other, st')
                                                end
                                            | _ => (EErr "AttributeError", st)
                                            end
                                        end) children sacc0 st
                                 | _ =>
                                     if py_truthy v then (ERaw (set_no_match None), st)   (* not a list *)
                                     else (ERaw (set_finalize al sacc0), st)             (* falsy -> [] *)
                                 end)
                         else find r
                     end) kvs with
            | Some r => r
            | None => (ERaw (set_finalize al sacc0), st)        (* no "policies" key: [] *)
            end
        end
    | _ => (EErr "AttributeError", st)
    end.
End Eval.
