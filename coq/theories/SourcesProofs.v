(* SourcesProofs.v — the sources of Sources.v are honest (gen, file, S3, HTTP without server
   ETags); coherence of stored tag and active policy as an invariant of all interleavings;
   convergence for honest sources; HTTP with ETags: convergence outside the class of F9 and
   the refutations (F9, F20). *)
From Coq Require Import List Bool Arith QArith Lqa Lia.
From Rbacx Require Import Reload Sources ReloadProofs.
Import ListNotations.
Local Open Scope Q_scope.

Notation wld := Reload.world.    (* the world component of a system state (Sources.world is the type) *)

(* ---------- the world ---------- *)
Definition wf (w : world) : Prop := forall b m, store w = Some (b, m) -> (m <= wver w)%nat.

Lemma wf_ev e w : wf w -> wf (apply_ev e w).
Proof.
  intros H b m. destruct e; simpl; try apply H.
  - intro E; inversion E; subst; auto.
  - discriminate.
  - destruct (store w) as [[b' m']|]; intro E; inversion E; subst; auto.
Qed.

Lemma wver_ev e w : (wver w <= wver (apply_ev e w))%nat.
Proof. destruct e; simpl; lia. Qed.

(* an event keeps the stored object untouched, or stores one with a number never used before *)
Lemma store_ev e w : wf w ->
  store (apply_ev e w) = store w
  \/ forall b m, store (apply_ev e w) = Some (b, m) -> (wver w < m)%nat.
Proof.
  intro H. destruct e; simpl; auto; right; intros b' m' E.
  - inversion E; subst; lia.
  - discriminate.
  - destruct (store w) as [[b0 m0]|]; inversion E; subst; lia.
Qed.

Definition apply_evs (es : list event) (w : world) : world := fold_left (fun w e => apply_ev e w) es w.

Lemma wf_evs es w : wf w -> wf (apply_evs es w).
Proof. revert w. induction es; simpl; auto. intros w H. apply IHes, wf_ev, H. Qed.

(* a healthy world holding the valid document d *)
Definition loadable (w : world) (d : doc) : Prop :=
  (exists m, store w = Some (BDoc d, m)) /\ fail_etag w = false /\ fail_load w = false.

(* ---------- what a tag says ---------- *)
Definition tagver (t : tag) : option nat :=           (* the tag names a write (mtime / version id) *)
  match t with TVersion m | TShaM _ m | TS3Vid m => Some m | _ => None end.
Definition tagbytes (t : tag) : option bytes :=       (* the tag is a function of the bytes only *)
  match t with
  | TContent b | TSha b | TS3Etag b | TS3Ck _ b | THttp b | TShaM b _ => Some b
  | _ => None
  end.
(* t is a tag of the object (b, m) *)
Definition tag_of_store (t : tag) (b : bytes) (m : nat) : Prop :=
  match tagver t with Some m' => m' = m | None => tagbytes t = Some b end.

(* ---------- honest sources ---------- *)
Record honest {St : Type} (src : source world St) : Type := {
  h_inv : world -> St -> Prop;                 (* invariant tying the source's state to the world *)
  h_tag : world -> option tag;                 (* what etag() reports in a healthy world *)
  h_ev : forall e w st, wf w -> h_inv w st -> h_inv (apply_ev e w) st;
  h_etag_inv : forall w st, wf w -> h_inv w st -> h_inv w (fst (s_etag src st w));
  h_load_inv : forall w st, wf w -> h_inv w st -> h_inv w (fst (s_load src st w));
  h_etag_ok : forall w st d, wf w -> h_inv w st -> loadable w d ->
      exists raw, snd (s_etag src st w) = SOk raw /\ norm raw = h_tag w;
  h_load_ok : forall w st d, wf w -> h_inv w st -> loadable w d -> snd (s_load src st w) = SOk d;
  h_etag_honest : forall w st raw t, wf w -> h_inv w st ->
      snd (s_etag src st w) = SOk raw -> norm raw = Some t ->
      exists b m, store w = Some (b, m) /\ tag_of_store t b m;
  h_load_honest : forall w st d, wf w -> h_inv w st -> snd (s_load src st w) = SOk d ->
      exists b m, store w = Some (b, m) /\ parse b = SOk d
}.
Arguments h_inv {St src}.
Arguments h_tag {St src}.

Lemma h_evs {St} (src : source world St) (H : honest src) es w st :
  wf w -> h_inv H w st -> h_inv H (apply_evs es w) st.
Proof.
  revert w. induction es as [|e es IH]; simpl; auto. intros w Hw Hi. apply IH; [apply wf_ev; auto|].
  apply (h_ev src H); auto.
Qed.

(* --- custom source --- *)
Definition gen_tag (m : gmode) (w : world) : option tag :=
  match store w with
  | Some (b, v) => match m with GContent => Some (TContent b) | GVersion => Some (TVersion v) | _ => None end
  | None => None
  end.

Definition honest_gen (m : gmode) : honest (gen_source m).
Proof.
  refine {| h_inv := fun _ _ => True; h_tag := gen_tag m |}; auto.
  - intros w st d _ _ ((mm & Es) & Fe & Fl). simpl. rewrite Fe. simpl. eexists; split; [reflexivity|].
    unfold gen_tag. rewrite Es. destruct m; reflexivity.
  - intros w st d _ _ ((mm & Es) & Fe & Fl). simpl. rewrite Fl, Es. reflexivity.
  - intros w st raw t _ _. simpl. destruct (fail_etag w); simpl; [discriminate|].
    intros E N. inversion E; subst; clear E.
    destruct (store w) as [[b v]|]; [|discriminate]. exists b, v. split; auto.
    destruct m; simpl in N; inversion N; subst; reflexivity.
  - intros w st d _ _. simpl. destruct (fail_load w); simpl; [discriminate|].
    destruct (store w) as [[b v]|]; simpl; [|discriminate]. intro E. exists b, v. auto.
Defined.

(* --- FilePolicySource --- *)
Definition file_inv (w : world) (st : fsrc) : Prop :=
  forall sz mt b', fc_sig st = Some (sz, mt) -> fc_sha st = Some b' ->
    (mt <= wver w)%nat /\ (forall b, store w = Some (b, mt) -> b' = b).

Definition file_tag (incl : bool) (w : world) : option tag :=
  match store w with
  | Some (b, m) => Some (if incl then TShaM b m else TSha b)
  | None => None
  end.

Lemma file_etag_spec incl w st : wf w -> file_inv w st ->
  file_inv w (fst (file_etag incl st w))
  /\ snd (file_etag incl st w) = SOk (match file_tag incl w with Some t => RStr t | None => RNone end).
Proof.
  intros Hw Hi. unfold file_etag, file_tag. destruct (store w) as [[b m]|] eqn:Es.
  - destruct (fc_sig st) as [[sz mt]|] eqn:E1; destruct (fc_sha st) as [b'|] eqn:E2; cbn [fst snd];
      try (split; [intros sz' mt' b'' A B; simpl in *; inversion A; inversion B; subst; split;
                   [eapply Hw; eauto | intros b0 E0; congruence] | reflexivity]).
    destruct (Nat.eqb sz (bsize b) && Nat.eqb mt m) eqn:Eh; cbn [fst snd].
    + split; auto. rewrite E2. apply andb_true_iff in Eh. destruct Eh as [_ Em]. apply Nat.eqb_eq in Em. subst mt.
      destruct (Hi _ _ _ E1 E2) as [_ Hb]. rewrite (Hb b Es). reflexivity.
    + split; [|reflexivity]. intros sz' mt' b'' A B; simpl in *; inversion A; inversion B; subst. split.
      * eapply Hw; eauto.
      * intros b0 E0. congruence.
  - cbn [fst snd]. split; [|reflexivity]. intros sz mt b' A; simpl in A; discriminate.
Qed.

Definition honest_file (incl : bool) : honest (file_source incl).
Proof.
  refine {| h_inv := file_inv; h_tag := file_tag incl |}.
  - intros e w st Hw Hi sz mt b' A B. destruct (Hi _ _ _ A B) as [L Hb]. split.
    + pose proof (wver_ev e w). lia.
    + intros b E. destruct (store_ev e w Hw) as [S|S].
      * rewrite S in E. auto.
      * specialize (S _ _ E). lia.
  - intros w st Hw Hi. apply file_etag_spec; auto.
  - intros w st Hw Hi. simpl. destruct (store w) as [[b m]|]; simpl; auto.
  - intros w st d Hw Hi ((m & Es) & _). simpl. destruct (file_etag_spec incl w st Hw Hi) as [_ E]. rewrite E.
    eexists; split; [reflexivity|]. destruct (file_tag incl w); reflexivity.
  - intros w st d Hw Hi ((m & Es) & _). simpl. rewrite Es. reflexivity.
  - intros w st raw t Hw Hi. simpl. destruct (file_etag_spec incl w st Hw Hi) as [_ E]. rewrite E.
    intros A N. inversion A; subst; clear A. unfold file_tag in N.
    destruct (store w) as [[b m]|]; [|discriminate]. exists b, m. split; auto.
    simpl in N. inversion N; subst. destruct incl; reflexivity.
  - intros w st d Hw Hi. simpl. destruct (store w) as [[b m]|]; simpl; [|discriminate]. intro E. exists b, m. auto.
Defined.

(* --- S3PolicySource --- *)
Lemma s3_tag_honest det w t : s3_tag det w = Some t -> exists b m, store w = Some (b, m) /\ tag_of_store t b m.
Proof.
  assert (He : forall t, head_etag w = Some t -> exists b m, store w = Some (b, m) /\ tag_of_store t b m).
  { unfold head_etag. intros t0. destruct (head_fail w); [discriminate|].
    destruct (store w) as [[b m]|]; [|discriminate]. intro E; inversion E; subst. exists b, m. split; reflexivity. }
  destruct det as [| |p]; simpl; auto.
  - unfold head_vid. destruct (head_fail w) eqn:Hf; auto.
    destruct (store w) as [[b m]|] eqn:Es; auto.
    destruct (versioning w); auto. intro E; inversion E; subst. exists b, m. split; reflexivity.
  - unfold checksum. destruct (attr_fail w); auto.
    destruct (store w) as [[b m]|] eqn:Es; auto.
    destruct (match p with Some p0 => if mem_nat p0 (algos w) then Some p0 else first_avail (algos w)
                      | None => first_avail (algos w) end) as [a|]; auto.
    intro E; inversion E; subst. exists b, m. split; reflexivity.
Qed.

Definition honest_s3 (det : detector) : honest (s3_source det).
Proof.
  refine {| h_inv := fun _ _ => True; h_tag := s3_tag det |}; auto.
  - intros w st d _ _ _. simpl. eexists; split; [reflexivity|]. destruct (s3_tag det w); reflexivity.
  - intros w st d _ _ ((m & Es) & _ & Fl). simpl. rewrite Fl, Es. reflexivity.
  - intros w st raw t _ _. simpl. intros E N. inversion E; subst; clear E.
    destruct (s3_tag det w) as [t'|] eqn:Et; [|discriminate]. simpl in N. inversion N; subst.
    eapply s3_tag_honest; eauto.
  - intros w st d _ _. simpl. destruct (fail_load w); simpl; [discriminate|].
    destruct (store w) as [[b v]|]; simpl; [|discriminate]. intro E. exists b, v. auto.
Defined.

(* --- HTTPPolicySource behind a server that sends no ETag --- *)
Definition honest_http_noetag : honest (http_source false).
Proof.
  refine {| h_inv := fun _ st => h_etag st = None; h_tag := fun _ => None |}; auto.
  - intros w st _ Hi. simpl. destruct (fail_load w); simpl; auto.
    destruct (store w) as [[b m]|]; simpl; auto. destruct (parse b); simpl; auto.
  - intros w st d _ Hi _. simpl. rewrite Hi. eexists; split; reflexivity.
  - intros w st d _ Hi ((m & Es) & _ & Fl). simpl. rewrite Fl, Es. reflexivity.
  - intros w st raw t _ Hi. simpl. rewrite Hi. intros E N. inversion E; subst. discriminate.
  - intros w st d _ Hi. simpl. destruct (fail_load w); simpl; [discriminate|].
    destruct (store w) as [[b m]|]; simpl; [|discriminate].
    destruct (parse b) eqn:Ep; simpl; [|discriminate]. intro E; inversion E; subst. exists b, m. auto.
Defined.

(* ---------- schedules whose world changes are events ---------- *)
Inductive slabel :=
| SLEv (e : event)
| SLSpawn (force : bool)
| SLStep (i : nat) (now u : Q).
Definition to_label (l : slabel) : label world :=
  match l with
  | SLEv e => LWorld (apply_ev e)
  | SLSpawn f => LSpawn f
  | SLStep i n u => LStep i n u
  end.

(* ---------- the stored tag does not lie: an invariant ---------- *)
(* tag t, stored together with document pol, is truthful in world w *)
Definition tag_ok (t : tag) (pol : doc) (w : world) : Prop :=
  match tagver t with
  | Some m => (m <= wver w)%nat /\ forall b, store w = Some (b, m) -> parse b = SOk pol
  | None => forall b, tagbytes t = Some b -> parse b = SOk pol
  end.

Definition thr_ok (w : world) (p : pc) : Prop :=
  match p with
  | PLoad _ (Some t) =>
      match tagver t with
      | Some m => (m <= wver w)%nat
      | None => exists b m, tagbytes t = Some b /\ store w = Some (b, m)   (* the bytes it hashed are still there *)
      end
  | PApply _ (Some t) d => tag_ok t d w
  | _ => True
  end.

Lemma tag_ok_ev e t pol w : wf w -> tag_ok t pol w -> tag_ok t pol (apply_ev e w).
Proof.
  intros Hw. unfold tag_ok. destruct (tagver t) as [m|]; auto. intros [L Hb]. split.
  - pose proof (wver_ev e w). lia.
  - intros b E. destruct (store_ev e w Hw) as [S|S].
    + rewrite S in E. auto.
    + specialize (S _ _ E). lia.
Qed.
Lemma tag_ok_evs es t pol w : wf w -> tag_ok t pol w -> tag_ok t pol (apply_evs es w).
Proof.
  revert w. induction es as [|e es IH]; simpl; auto. intros w Hw Ht. apply IH; [apply wf_ev; auto|].
  apply tag_ok_ev; auto.
Qed.

(* a check that has hashed the bytes and not yet loaded them *)
Definition waits_on_content (p : pc) : Prop :=
  match p with PLoad _ (Some t) => tagver t = None | _ => False end.
Definition keeps_bytes (e : event) (w : world) : Prop :=
  option_map fst (store (apply_ev e w)) = option_map fst (store w).

Lemma thr_ok_ev e w p : wf w -> thr_ok w p -> (waits_on_content p -> keeps_bytes e w) -> thr_ok (apply_ev e w) p.
Proof.
  intros Hw Hp Hk. destruct p as [| |n [t|]|n [t|] d| |]; simpl in *; auto.
  - destruct (tagver t) as [m|] eqn:Ev.
    + pose proof (wver_ev e w). lia.
    + destruct Hp as (b & m & Hb & Es). specialize (Hk eq_refl). unfold keeps_bytes in Hk. rewrite Es in Hk. simpl in Hk.
      destruct (store (apply_ev e w)) as [[b' m']|]; simpl in Hk; inversion Hk; subst. eauto.
  - apply tag_ok_ev; auto.
Qed.

Section Honest.
Context {St : Type}.
Variable c : cfg.
Variable src : source world St.
Variable H : honest src.

Notation sys := (sys world St).
Notation conf := (conf world St).

Definition rl_ok (e0 : option tag) (p0 : doc) (s : sys) : Prop :=
  (sets (gd s) = O /\ last_etag (rl s) = e0 /\ policy (gd s) = p0)       (* nothing applied yet *)
  \/ forall t, last_etag (rl s) = Some t -> tag_ok t (policy (gd s)) (wld s).

Definition J (e0 : option tag) (p0 : doc) (cf : conf) : Prop :=
  wf (wld (cs cf)) /\ h_inv H (wld (cs cf)) (sst (cs cf)) /\ rl_ok e0 p0 (cs cf)
  /\ Forall (thr_ok (wld (cs cf))) (thr cf).

Lemma J_step e0 p0 now u (s s' : sys) p p' :
  wf (wld s) -> h_inv H (wld s) (sst s) -> rl_ok e0 p0 s -> thr_ok (wld s) p ->
  step c src now u s p = (s', p') ->
  wld s' = wld s /\ h_inv H (wld s) (sst s') /\ rl_ok e0 p0 s' /\ thr_ok (wld s) p'.
Proof.
  intros Hw Hi Hr Hp. destruct p as [force|force now0 last|now0 e|now0 e d|now0|r]; cbn [step]; intro E.
  - destruct (qltb now (suppress_until (rl s)) && negb force); inversion E; subst; simpl; auto.
  - pose proof (h_etag_inv src H _ _ Hw Hi) as Hi'.
    pose proof (h_etag_honest src H (wld s) (sst s)) as Hh.
    destruct (s_etag src (sst s) (wld s)) as [st' r]. cbn [fst snd] in *.
    assert (Hload : forall raw, r = SOk raw -> thr_ok (wld s) (PLoad now0 (norm raw))).
    { intros raw Er. simpl. destruct (norm raw) as [t|] eqn:En; auto.
      destruct (Hh raw t Hw Hi Er En) as (b & m & Es & Ht). unfold tag_of_store in Ht.
      destruct (tagver t) as [m'|]; [subst; eapply Hw; eauto | eauto]. }
    destruct force.
    + inversion E; subst; simpl. repeat split; auto. destruct r as [raw|]; [apply (Hload raw eq_refl)|exact I].
    + destruct r as [raw|]; [destruct (same_tag (norm raw) last)|]; inversion E; subst; simpl; repeat split; auto.
      apply (Hload raw eq_refl).
  - pose proof (h_load_inv src H _ _ Hw Hi) as Hi'.
    pose proof (h_load_honest src H (wld s) (sst s)) as Hh.
    destruct (s_load src (sst s) (wld s)) as [st' r]. cbn [fst snd] in *.
    destruct r as [d|]; inversion E; subst; simpl; repeat split; auto.
    destruct e as [t|]; auto. simpl in Hp.
    destruct (Hh d Hw Hi eq_refl) as (b & m & Es & Hd). unfold tag_ok.
    destruct (tagver t) as [m'|].
    + split; auto. intros b0 E0. rewrite Es in E0. inversion E0; subst. auto.
    + destruct Hp as (b1 & m1 & Hb1 & Es1). rewrite Es in Es1. inversion Es1; subst.
      intros b2 Hb2. congruence.
  - inversion E; subst; simpl. repeat split; auto. right. simpl. intros t Et. subst. exact Hp.
  - inversion E; subst; simpl. repeat split; auto.
  - inversion E; subst; simpl. auto.
Qed.

Definition label_fine (cf : conf) (l : slabel) : Prop :=
  match l with
  | SLEv e => Exists waits_on_content (thr cf) -> keeps_bytes e (wld (cs cf))
  | _ => True
  end.

Lemma J_exec e0 p0 cf l : J e0 p0 cf -> label_fine cf l -> J e0 p0 (exec c src cf (to_label l)).
Proof.
  intros (Hw & Hi & Hr & Hf) Hl. destruct l as [e|force|i now u]; cbn [to_label exec].
  - unfold J; simpl. repeat split.
    + apply wf_ev; auto.
    + apply (h_ev src H); auto.
    + destruct Hr as [Hr|Hr]; [left; exact Hr|right]. simpl. intros t Et. apply tag_ok_ev; auto.
    + simpl in Hl. apply Forall_forall. intros p Hin. apply thr_ok_ev; auto.
      * eapply Forall_forall in Hf; eauto.
      * intro Hwc. apply Hl. apply Exists_exists. eauto.
  - unfold J; simpl. repeat split; auto. apply Forall_app. split; auto.
  - destruct (nth_error (thr cf) i) as [p|] eqn:E; [|unfold J; auto].
    destruct (step c src now u (cs cf) p) as [s' p'] eqn:Es.
    destruct (J_step e0 p0 now u _ _ _ _ Hw Hi Hr (nth_error_Forall _ _ _ _ Hf E) Es) as (A & B & C & D).
    unfold J; cbn [cs thr]. rewrite A. repeat split; auto. apply replace_Forall; auto.
Qed.

Fixpoint sched_fine (ls : list slabel) (cf : conf) : Prop :=
  match ls with
  | [] => True
  | l :: r => label_fine cf l /\ sched_fine r (exec c src cf (to_label l))
  end.

Theorem J_run e0 p0 ls cf : J e0 p0 cf -> sched_fine ls cf -> J e0 p0 (run c src (map to_label ls) cf).
Proof.
  revert cf. induction ls as [|l ls IH]; intros cf Hj Hs; simpl; auto.
  destruct Hs as [Hl Hs]. apply IH; auto. apply J_exec; auto.
Qed.

(* sources whose tags always name a write are immune: every schedule is fine *)
Definition versioned : Prop :=
  forall w st raw t, snd (s_etag src st w) = SOk raw -> norm raw = Some t -> tagver t <> None.

Definition no_content_wait (cf : conf) : Prop := Forall (fun p => ~ waits_on_content p) (thr cf).

Lemma ncw_exec cf l : versioned -> no_content_wait cf -> no_content_wait (exec c src cf (to_label l)).
Proof.
  intros Hv Hn. destruct l as [e|force|i now u]; cbn [to_label exec]; auto.
  - unfold no_content_wait; simpl. apply Forall_app. split; auto.
  - destruct (nth_error (thr cf) i) as [p|] eqn:E; auto.
    destruct (step c src now u (cs cf) p) as [s' p'] eqn:Es.
    unfold no_content_wait; cbn [thr]. apply replace_Forall; auto.
    destruct p as [force|force now0 last|now0 e|now0 e d|now0|r]; cbn [step] in Es.
    + destruct (qltb now (suppress_until (rl (cs cf))) && negb force); inversion Es; subst; simpl; auto.
    + pose proof (Hv (wld (cs cf)) (sst (cs cf))) as Hv'.
      destruct (s_etag src (sst (cs cf)) (wld (cs cf))) as [st' r]. cbn [snd] in Hv'.
      assert (Hl : forall raw, r = SOk raw -> ~ waits_on_content (PLoad now0 (norm raw))).
      { intros raw Er. simpl. destruct (norm raw) as [t|] eqn:En; auto. apply (Hv' raw t Er En). }
      destruct force.
      * inversion Es; subst. destruct r as [raw|]; [apply (Hl raw eq_refl)|simpl; auto].
      * destruct r as [raw|]; [destruct (same_tag (norm raw) last)|]; inversion Es; subst; simpl; auto.
        apply (Hl raw eq_refl).
    + destruct (s_load src (sst (cs cf)) (wld (cs cf))) as [st' [d|]]; inversion Es; subst; simpl; auto.
    + inversion Es; subst; simpl; auto.
    + inversion Es; subst; simpl; auto.
    + inversion Es; subst; simpl; auto.
Qed.

Lemma versioned_fine ls cf : versioned -> no_content_wait cf -> sched_fine ls cf.
Proof.
  intros Hv. revert cf. induction ls as [|l ls IH]; intros cf Hn; simpl; auto. split.
  - destruct l; simpl; auto. intro Hex. exfalso. apply Exists_exists in Hex. destruct Hex as (p & Hin & Hp).
    eapply Forall_forall in Hn; eauto.
  - apply IH. apply ncw_exec; auto.
Qed.

(* ---------- the initial configuration ---------- *)
Definition cf_init (il asy : bool) (p0 : doc) (w0 : world) (st0 : St) : conf :=
  {| cs := init c src il asy p0 w0 st0; thr := [] |}.

Lemma J_init il asy p0 w0 st0 :
  wf w0 -> h_inv H w0 st0 ->
  J (last_etag (rl (cs (cf_init il asy p0 w0 st0)))) p0 (cf_init il asy p0 w0 st0).
Proof.
  intros Hw Hi. unfold cf_init, init, prime.
  destruct (il || asy).
  - unfold J, rl_ok; simpl. repeat split; auto.
  - pose proof (h_etag_inv src H _ _ Hw Hi) as Hi'.
    destruct (s_etag src st0 w0) as [st' r]. unfold J, rl_ok; simpl. repeat split; auto.
Qed.

(* ---------- coherence with a later stable world ---------- *)
Lemma J_coh e0 p0 cf es d :
  J e0 p0 cf ->
  let w := apply_evs es (wld (cs cf)) in
  loadable w d ->
  (sets (gd (cs cf)) = O -> e0 <> h_tag H w \/ p0 = d) ->
  coh d (h_tag H w) (cs cf).
Proof.
  intros (Hw & Hi & Hr & _) w Hl Hp t Ht Hlast.
  assert (Hww : wf w) by (apply wf_evs; auto).
  assert (Hiw : h_inv H w (sst (cs cf))) by (apply h_evs; auto).
  destruct Hr as [(Hs & He & Hpol)|Hr].
  - destruct (Hp Hs) as [Hne|Hpd]; [|congruence]. exfalso. apply Hne. congruence.
  - specialize (Hr t Hlast). apply (tag_ok_evs es) in Hr; auto. fold w in Hr.
    destruct (h_etag_ok src H w _ d Hww Hiw Hl) as (raw & Er & En).
    rewrite Ht in En.
    destruct (h_etag_honest src H w _ raw t Hww Hiw Er En) as (b & m & Es & Hts).
    destruct Hl as ((m0 & Es0) & _). rewrite Es0 in Es. inversion Es; subst b m.
    unfold tag_ok in Hr. unfold tag_of_store in Hts. destruct (tagver t) as [m'|].
    + subst m'. destruct Hr as [_ Hb]. specialize (Hb _ Es0). simpl in Hb. inversion Hb. auto.
    + specialize (Hr _ Hts). simpl in Hr. inversion Hr. auto.
Qed.

(* ---------- convergence for honest sources ---------- *)
Theorem converge_honest il asy p0 w0 st0 ls es d force1 now1 u1 now2 u2 :
  wf w0 -> h_inv H w0 st0 ->
  let cf0 := cf_init il asy p0 w0 st0 in
  sched_fine ls cf0 ->
  let s := cs (run c src (map to_label ls) cf0) in
  let w := apply_evs es (wld s) in
  loadable w d ->
  (sets (gd s) = O -> last_etag (rl (cs cf0)) <> h_tag H w \/ p0 = d) ->
  let s1 := fst (run_check c src force1 now1 u1 (fun _ => w) s) in
  suppress_until (rl s1) <= now2 ->
  settled w d (h_tag H w) (h_inv H w) (fst (run_check c src false now2 u2 idw s1)).
Proof.
  intros Hw0 Hi0 cf0 Hsf s w Hl Hpro s1 Hn.
  pose proof (J_run _ p0 ls cf0 (J_init il asy p0 w0 st0 Hw0 Hi0) Hsf) as Hj.
  pose proof (J_coh _ p0 _ es d Hj Hl Hpro) as Hc.
  destruct Hj as (Hw & Hi & _ & _). fold s in Hw, Hi, Hc. fold w in Hc.
  assert (Hww : wf w) by (apply wf_evs; auto).
  apply (converge_two c src w d (h_tag H w) (h_inv H w)); auto.
  - intros st Hst. destruct (h_etag_ok src H w st d Hww Hst Hl) as (raw & Er & En).
    exists (fst (s_etag src st w)), raw. repeat split; auto.
    + rewrite <- Er. apply surjective_pairing.
    + apply (h_etag_inv src H); auto.
  - intros st Hst. exists (fst (s_load src st w)). split.
    + rewrite <- (h_load_ok src H w st d Hww Hst Hl). apply surjective_pairing.
    + apply (h_load_inv src H); auto.
  - apply h_evs; auto.
  - apply h_evs; auto. apply (h_etag_inv src H); auto.
Qed.

(* the two hypotheses of the generic convergence section, from honesty *)
Lemma honest_Hetag w d : wf w -> loadable w d ->
  forall st, h_inv H w st ->
  exists st' raw, s_etag src st w = (st', SOk raw) /\ norm raw = h_tag H w /\ h_inv H w st'.
Proof.
  intros Hww Hl st Hst. destruct (h_etag_ok src H w st d Hww Hst Hl) as (raw & Er & En).
  exists (fst (s_etag src st w)), raw. repeat split; auto.
  - rewrite <- Er. apply surjective_pairing.
  - apply (h_etag_inv src H); auto.
Qed.
Lemma honest_Hload w d : wf w -> loadable w d ->
  forall st, h_inv H w st -> exists st', s_load src st w = (st', SOk d) /\ h_inv H w st'.
Proof.
  intros Hww Hl st Hst. exists (fst (s_load src st w)). split.
  - rewrite <- (h_load_ok src H w st d Hww Hst Hl). apply surjective_pairing.
  - apply (h_load_inv src H); auto.
Qed.

(* what "settled" buys, spelled out *)
Theorem settled_forever w d (s2 : sys) :
  wf w -> loadable w d -> settled w d (h_tag H w) (h_inv H w) s2 ->
  policy (gd s2) = d /\
  forall its, only_checks its ->
    let s3 := run_seq c src its s2 in
    policy (gd s3) = d
    /\ (forall t, h_tag H w = Some t -> forall now u,
          snd (run_check c src false now u idw s3) = PDone false
          /\ n_load (fst (run_check c src false now u idw s3)) = n_load s3)
    /\ (h_tag H w = None -> forall now u, suppress_until (rl s3) <= now ->
          snd (run_check c src false now u idw s3) = PDone true
          /\ policy (gd (fst (run_check c src false now u idw s3))) = d).
Proof.
  intros Hww Hl Hs. split; [apply Hs|]. intros its Ho s3.
  pose proof (settled_seq c src w d (h_tag H w) (h_inv H w) (honest_Hetag w d Hww Hl) (honest_Hload w d Hww Hl)
                its s2 Ho Hs) as Hs3. fold s3 in Hs3.
  split; [apply Hs3|]. split.
  - intros t Et now u.
    destruct (settled_check c src w d (h_tag H w) (h_inv H w) (honest_Hetag w d Hww Hl) (honest_Hload w d Hww Hl)
                false now u s3 Hs3) as (_ & A & _).
    destruct (A t Et eq_refl) as (R & L & _). auto.
  - intros En now u Hn.
    destruct (settled_check c src w d (h_tag H w) (h_inv H w) (honest_Hetag w d Hww Hl) (honest_Hload w d Hww Hl)
                false now u s3 Hs3) as (S4 & _ & B).
    split; [apply B; auto | apply S4].
Qed.

(* convergence, spelled out *)
Theorem converge_honest_full il asy p0 w0 st0 ls es d force1 now1 u1 now2 u2 :
  wf w0 -> h_inv H w0 st0 ->
  let cf0 := cf_init il asy p0 w0 st0 in
  sched_fine ls cf0 ->
  let s := cs (run c src (map to_label ls) cf0) in
  let w := apply_evs es (wld s) in
  loadable w d ->
  (sets (gd s) = O -> last_etag (rl (cs cf0)) <> h_tag H w \/ p0 = d) ->
  let s1 := fst (run_check c src force1 now1 u1 (fun _ => w) s) in
  suppress_until (rl s1) <= now2 ->
  let s2 := fst (run_check c src false now2 u2 idw s1) in
  policy (gd s2) = d /\
  forall its, only_checks its ->
    let s3 := run_seq c src its s2 in
    policy (gd s3) = d
    /\ (forall t, h_tag H w = Some t -> forall now u,
          snd (run_check c src false now u idw s3) = PDone false
          /\ n_load (fst (run_check c src false now u idw s3)) = n_load s3)
    /\ (h_tag H w = None -> forall now u, suppress_until (rl s3) <= now ->
          snd (run_check c src false now u idw s3) = PDone true
          /\ policy (gd (fst (run_check c src false now u idw s3))) = d).
Proof.
  intros Hw0 Hi0 cf0 Hsf s w Hl Hpro s1 Hn s2.
  pose proof (J_run _ p0 ls cf0 (J_init il asy p0 w0 st0 Hw0 Hi0) Hsf) as (Hw & _).
  assert (Hww : wf w) by (apply wf_evs; auto).
  apply settled_forever; auto.
  apply (converge_honest il asy p0 w0 st0 ls es d force1 now1 u1 now2 u2); auto.
Qed.

(* the other side: stored tag = source's tag, whatever the engine holds: no unforced check loads *)
Theorem honest_stuck w d t its (s : sys) :
  wf w -> loadable w d -> wld s = w -> h_inv H w (sst s) ->
  h_tag H w = Some t -> last_etag (rl s) = Some t -> unforced_checks its ->
  gd (run_seq c src its s) = gd s /\ n_load (run_seq c src its s) = n_load s.
Proof.
  intros Hww Hl Hw Hi Et Hlast Hu.
  apply (stuck_seq c src w (h_tag H w) (h_inv H w) (honest_Hetag w d Hww Hl) t); auto.
  unfold stuck. repeat split; auto. congruence.
Qed.

End Honest.

(* sources whose every tag names a write *)
Lemma versioned_gen : versioned (gen_source GVersion).
Proof.
  intros w st raw t. simpl. destruct (fail_etag w); simpl; [discriminate|].
  intros E N. inversion E; subst; clear E. destruct (store w) as [[b v]|]; simpl in N; inversion N; subst.
  simpl. discriminate.
Qed.
Lemma versioned_file : versioned (file_source true).
Proof.
  intros w st raw t. simpl. unfold file_etag. destruct (store w) as [[b m]|]; simpl.
  - intros E N. inversion E; subst; clear E. simpl in N. inversion N; subst. simpl. discriminate.
  - intros E N. inversion E; subst. discriminate.
Qed.

(* ---------- HTTPPolicySource behind a server that sends ETags ---------- *)
Definition http := http_source true.

(* the remembered tag is the tag of a parsed document, and that document is the cached one *)
Definition http_inv (st : hsrc) : Prop :=
  forall t, h_etag st = Some t -> exists d', t = THttp (BDoc d') /\ h_cache st = Some d'.

Lemma http_etag_eq st w :
  s_etag http st w = (st, SOk match h_etag st with Some t => RStr t | None => RNone end).
Proof. reflexivity. Qed.

Lemma http_inv_load w st : http_inv st -> http_inv (fst (s_load http st w)).
Proof.
  intro Hi. simpl. destruct (fail_load w); simpl; auto.
  destruct (store w) as [[b m]|]; simpl; auto.
  destruct (same_tag (h_etag st) (Some (THttp b))); simpl; auto.
  destruct b as [d|k]; simpl; auto.
  intros t E. simpl in *. inversion E; subst. eauto.
Qed.

(* with that invariant load() returns nothing but the server's current document (this is what
   commit e788bd5 repaired: before it a 304 could hand out an older cached policy, or {}) *)
Lemma http_load_honest w st d : http_inv st -> snd (s_load http st w) = SOk d ->
  exists m, store w = Some (BDoc d, m).
Proof.
  intro Hi. simpl. destruct (fail_load w); simpl; [discriminate|].
  destruct (store w) as [[b m]|]; simpl; [|discriminate].
  destruct (same_tag (h_etag st) (Some (THttp b))) eqn:E; simpl.
  - apply same_tag_true in E. destruct E as (t & A & B). inversion B; subst.
    destruct (Hi _ A) as (d' & Ed & Ec). inversion Ed; subst. rewrite Ec. intro X; inversion X; subst. eauto.
  - destruct b as [d0|k]; simpl; [|discriminate]. intro X; inversion X; subst. eauto.
Qed.

(* an unparsable body (or 5xx, 404) leaves the source object exactly as it was *)
Lemma http_failed_load_inert w st : snd (s_load http st w) = SErr -> fst (s_load http st w) = st.
Proof.
  simpl. destruct (fail_load w); simpl; auto.
  destruct (store w) as [[b m]|]; simpl; auto.
  destruct (same_tag (h_etag st) (Some (THttp b))); simpl; [discriminate|].
  destruct (parse b); simpl; auto. discriminate.
Qed.

(* the class of F9: the reloader's stored tag equals the tag the source object remembers *)
Definition f9_class (s : sys world hsrc) : Prop :=
  exists t, last_etag (rl s) = Some t /\ h_etag (sst s) = Some t.

Section Http.
Variable c : cfg.
Notation sys := (sys world hsrc).

(* inside the class no unforced check ever contacts the server, whatever the world does *)
Lemma f9_check now u mid (s : sys) :
  f9_class s ->
  snd (run_check c http false now u mid s) = PDone false
  /\ gd (fst (run_check c http false now u mid s)) = gd s
  /\ n_load (fst (run_check c http false now u mid s)) = n_load s
  /\ f9_class (fst (run_check c http false now u mid s)).
Proof.
  intros (t & Hl & He). rewrite run_check_big. unfold check_big.
  destruct (qltb now (suppress_until (rl s)) && negb false); cbn [fst snd].
  { unfold f9_class, set_world; simpl. repeat split; eauto. }
  rewrite http_etag_eq, He. cbn [is_err negb andb norm]. rewrite Hl, same_tag_refl. cbn [fst snd].
  unfold f9_class, mk; simpl. repeat split; eauto.
Qed.

Definition no_forced (its : list (@sitem world)) : Prop :=
  Forall (fun it => match it with SCheck true _ _ _ => False | _ => True end) its.

Theorem f9_forever its (s : sys) :
  f9_class s -> no_forced its ->
  gd (run_seq c http its s) = gd s /\ n_load (run_seq c http its s) = n_load s.
Proof.
  revert s. induction its as [|it its IH]; intros s Hc Hn; simpl; auto.
  inversion Hn; subst. destruct it as [f|[|] now u mid]; try contradiction.
  - simpl. assert (Hc' : f9_class (set_world (f (wld s)) s)) by exact Hc.
    destruct (IH _ Hc' H2) as [A B]. split; [rewrite A|rewrite B]; reflexivity.
  - destruct (f9_check now u mid s Hc) as (_ & A & B & C). simpl.
    destruct (IH _ C H2) as [D E]. split; congruence.
Qed.

(* outside the class the source converges like an honest one, in at most two checks *)
Definition http_settled (w : world) (d : doc) (s : sys) : Prop :=
  wld s = w /\ policy (gd s) = d /\ h_cache (sst s) = Some d
  /\ h_etag (sst s) = Some (THttp (BDoc d)) /\ last_etag (rl s) = Some (THttp (BDoc d)).

Lemma http_load_ok w d st : loadable w d -> http_inv st ->
  snd (s_load http st w) = SOk d
  /\ h_etag (fst (s_load http st w)) = Some (THttp (BDoc d))
  /\ h_cache (fst (s_load http st w)) = Some d.
Proof.
  intros ((m & Es) & _ & Fl) Hi. simpl. rewrite Fl, Es. simpl.
  destruct (same_tag (h_etag st) (Some (THttp (BDoc d)))) eqn:E; simpl.
  - apply same_tag_true in E. destruct E as (t & A & B). inversion B; subst.
    destruct (Hi _ A) as (d' & Ed & Ec). inversion Ed; subst. rewrite Ec. auto.
  - auto.
Qed.

Theorem http_converges w d now1 u1 now2 u2 (s : sys) :
  wld s = w -> loadable w d -> http_inv (sst s) -> ~ f9_class s ->
  suppress_until (rl s) <= now1 ->
  let s1 := fst (run_check c http false now1 u1 idw s) in
  suppress_until (rl s1) <= now2 ->
  let s2 := fst (run_check c http false now2 u2 idw s1) in
  policy (gd s1) = d /\ http_settled w d s2.
Proof.
  intros Hw Hl Hi Hn9 Hn1.
  assert (S1 : let s1 := fst (run_check c http false now1 u1 idw s) in
               wld s1 = w /\ policy (gd s1) = d /\ h_cache (sst s1) = Some d
               /\ h_etag (sst s1) = Some (THttp (BDoc d)) /\ suppress_until (rl s1) = suppress_until (rl s)
               /\ http_inv (sst s1)).
  { rewrite run_check_big. unfold check_big, idw. apply qltb_false in Hn1. rewrite Hn1. cbn [andb negb].
    rewrite http_etag_eq. cbn [is_err andb].
    destruct (same_tag (norm match h_etag (sst s) with Some t => RStr t | None => RNone end) (last_etag (rl s))) eqn:E.
    { exfalso. apply Hn9. apply same_tag_true in E. destruct E as (t & A & B).
      exists t. split; auto. destruct (h_etag (sst s)); simpl in A; congruence. }
    rewrite Hw. destruct (http_load_ok w d (sst s) Hl Hi) as (A & B & C).
    pose proof (http_inv_load w (sst s) Hi) as D.
    destruct (s_load http (sst s) w) as [st2 r2]. cbn [fst snd] in *. subst r2. cbn [fst].
    unfold mk; simpl. repeat split; auto. }
  cbv zeta in S1. destruct S1 as (W1 & P1 & C1 & E1 & Su1 & I1).
  intros s1 Hn2 s2. fold s1 in W1, P1, C1, E1, Su1, I1. split; [exact P1|].
  unfold s2. rewrite run_check_big. unfold check_big, idw. apply qltb_false in Hn2. rewrite Hn2. cbn [andb negb].
  rewrite http_etag_eq. rewrite E1. cbn [is_err andb norm].
  destruct (same_tag (Some (THttp (BDoc d))) (last_etag (rl s1))) eqn:E.
  - apply same_tag_true in E. destruct E as (t & A & B). inversion A; subst t. cbn [fst].
    unfold http_settled, mk; simpl. repeat split; auto.
  - rewrite W1.
    destruct (http_load_ok w d (sst s1) Hl I1) as (A & B & C).
    destruct (s_load http (sst s1) w) as [st2 r2]. cbn [fst snd] in *. subst r2. cbn [fst].
    unfold http_settled, mk; simpl. repeat split; auto.
Qed.

(* once settled, an HTTP source is in the class of F9 - with the right document: later unforced checks
   return False without loading (which is the property's last clause, and also the defect) *)
Lemma http_settled_f9 w d (s : sys) : http_settled w d s -> f9_class s.
Proof. intros (_ & _ & _ & A & B). exists (THttp (BDoc d)). auto. Qed.

End Http.

(* ---------- concrete histories: the two open findings ---------- *)
Definition cfg0 : cfg := {| bmin := 2; bmax := 30; jratio := 1 # 8 |}.
Definition w1 : world :=
  {| store := Some (BDoc 1%nat, 1%nat); wver := 1%nat; fail_etag := false; fail_load := false;
     head_fail := false; attr_fail := false; versioning := false; algos := [] |}.
Definition write (d : doc) : @sitem world := SEv (apply_ev (EWrite (BDoc d))).
Definition chk (now : Q) : @sitem world := SCheck false now 0 idw.

(* F9: HTTP source, server sends ETags; reloader created with initial_load=True on document 1;
   two polls; the server's document is replaced by document 2 *)
Definition f9_state : sys world hsrc :=
  run_seq cfg0 http [chk 1; chk 2; write 2%nat]
          (init cfg0 http true false 1%nat w1 {| h_etag := None; h_cache := None; h_n304 := 0%nat |}).

Theorem f9_refutes :
  loadable (wld f9_state) 2%nat /\ suppress_until (rl f9_state) <= 0 /\ policy (gd f9_state) = 1%nat /\
  forall its, no_forced its ->
    policy (gd (run_seq cfg0 http its f9_state)) = 1%nat
    /\ n_load (run_seq cfg0 http its f9_state) = n_load f9_state.
Proof.
  split; [|split; [|split]].
  - unfold loadable. vm_compute. repeat split; eauto.
  - vm_compute. discriminate.
  - vm_compute. reflexivity.
  - intros its Hn.
    assert (Hc : f9_class f9_state) by (exists (THttp (BDoc 1%nat)); split; vm_compute; reflexivity).
    destruct (f9_forever cfg0 its f9_state Hc Hn) as [A B]. split; [rewrite A|exact B]. vm_compute. reflexivity.
Qed.

(* F20: file source without mtime in the tag; reloader created with initial_load=True on document 1;
   one check during which the file is replaced by document 2 between etag() and load(); then the
   file is rolled back to document 1 and never changes again *)
Definition aba_state : sys world fsrc :=
  run_seq cfg0 (file_source false) [SCheck false 1 0 (apply_ev (EWrite (BDoc 2%nat))); write 1%nat]
          (init cfg0 (file_source false) true false 1%nat w1 {| fc_sig := None; fc_sha := None |}).

Lemma aba_world : wld aba_state =
  {| store := Some (BDoc 1%nat, 3%nat); wver := 3%nat; fail_etag := false; fail_load := false;
     head_fail := false; attr_fail := false; versioning := false; algos := [] |}.
Proof. vm_compute. reflexivity. Qed.
Lemma aba_sst : sst aba_state = {| fc_sig := Some (65%nat, 1%nat); fc_sha := Some (BDoc 1%nat) |}.
Proof. vm_compute. reflexivity. Qed.

Theorem aba_refutes :
  loadable (wld aba_state) 1%nat /\ suppress_until (rl aba_state) <= 0 /\ policy (gd aba_state) = 2%nat /\
  forall its, unforced_checks its ->
    policy (gd (run_seq cfg0 (file_source false) its aba_state)) = 2%nat
    /\ n_load (run_seq cfg0 (file_source false) its aba_state) = n_load aba_state.
Proof.
  assert (Hl : loadable (wld aba_state) 1%nat).
  { rewrite aba_world. unfold loadable; simpl. repeat split; eauto. }
  assert (Hw : wf (wld aba_state)).
  { rewrite aba_world. intros b m E. simpl in E. inversion E; subst. simpl. lia. }
  split; [exact Hl|split; [|split]].
  - vm_compute. discriminate.
  - vm_compute. reflexivity.
  - intros its Hu.
    assert (Hi : h_inv (honest_file false) (wld aba_state) (sst aba_state)).
    { change (file_inv (wld aba_state) (sst aba_state)). rewrite aba_world, aba_sst.
      intros sz mt b' E1 E2. simpl in *. inversion E1; inversion E2; subst.
      split; [lia|]. intros b E. inversion E. }
    assert (Ht : h_tag (honest_file false) (wld aba_state) = Some (TSha (BDoc 1%nat))).
    { change (file_tag false (wld aba_state) = Some (TSha (BDoc 1%nat))). rewrite aba_world. reflexivity. }
    assert (Hlast : last_etag (rl aba_state) = Some (TSha (BDoc 1%nat))) by (vm_compute; reflexivity).
    destruct (honest_stuck cfg0 (file_source false) (honest_file false) (wld aba_state) 1%nat
                (TSha (BDoc 1%nat)) its aba_state Hw Hl eq_refl Hi Ht Hlast Hu) as [A B].
    split; [rewrite A|exact B]. vm_compute. reflexivity.
Qed.
