(* SwapProofs.v — proofs about the Swap model: an inductive invariant of the
   current protocol over every step of every interleaving, the theorems of C09
   derived from it, and the refutation of the pre-40ecad2 protocol. *)
From Coq Require Import List Bool Arith Lia.
From Rbacx Require Import Swap.
Import ListNotations.

(* ---------------------------------------------------------------------- *)
(* generic: invariants hold in every reachable configuration               *)
(* ---------------------------------------------------------------------- *)
Section Generic.
  Variables shared local envlab : Type.
  Variable tstep : nat -> shared -> local -> option (shared * local).
  Variable estep : envlab -> shared -> shared.

  Lemma invariant_reachable (I : conf shared local -> Prop) c0 :
    I c0 ->
    (forall c l c', I c -> cstep tstep estep c l = Some c' -> I c') ->
    forall c, reachable tstep estep c0 c -> I c.
  Proof. intros H0 Hs c R. induction R; eauto. Qed.

  Lemma run_reachable c0 : forall sched c,
    reachable tstep estep c0 c -> reachable tstep estep c0 (fst (run tstep estep c sched)).
  Proof.
    induction sched as [|l r IH]; intros c R; simpl; auto.
    destruct (cstep tstep estep c l) as [c'|] eqn:E.
    - specialize (IH c' (reach_step _ _ _ tstep estep c0 c l c' R E)). destruct (run tstep estep c' r). exact IH.
    - specialize (IH c R). destruct (run tstep estep c r). exact IH.
  Qed.

  Lemma upd_same (f : nat -> local) i l : upd f i l i = l.
  Proof. unfold upd. rewrite Nat.eqb_refl. reflexivity. Qed.
  Lemma upd_other (f : nat -> local) i l j : j <> i -> upd f i l j = f j.
  Proof. intros H. unfold upd. apply Nat.eqb_neq in H. rewrite H. reflexivity. Qed.
End Generic.

Section SwapProofs.
  Variables policy tag env decision : Type.
  Variable tag_of : policy -> option tag.
  Variable compile_ok : policy -> bool.
  Variable decide : policy -> env -> decision.
  Variable tag_eqb : tag -> tag -> bool.
  Variable env_eqb : env -> env -> bool.
  Variable has_cache : bool.
  Hypothesis tag_eqb_eq : forall a b, tag_eqb a b = true -> a = b.
  Hypothesis env_eqb_eq : forall a b, env_eqb a b = true -> a = b.
  (* the tag identifies the policy content (SHA3-256 of the canonical JSON assumed collision-free) *)
  Hypothesis tag_inj : forall p q k, tag_of p = Some k -> tag_of q = Some k -> p = q.
  Variable p0 : policy.
  Variable progs : nat -> list (op policy env).

  Notation event := (event policy env decision).
  Notation shared := (shared policy tag env decision).
  Notation pc := (pc policy tag env decision).
  Notation local := (local policy tag env decision).
  Notation cache_t := (cache_t tag env decision).
  Notation conf := (conf shared local).
  Notation tstep := (tstep policy tag env decision tag_of compile_ok decide tag_eqb env_eqb has_cache).
  Notation estep := (estep policy tag env decision tag_eqb env_eqb).
  Notation comp_of := (comp_of policy compile_ok).
  Notation c_get := (c_get tag env decision tag_eqb env_eqb).
  Notation c_set := (c_set tag env decision tag_eqb env_eqb).
  Notation c_del := (c_del tag env decision tag_eqb env_eqb).
  Notation cur := (cur policy env decision p0).
  Notation win := (win policy env decision p0).
  Notation pubs := (pubs policy env decision).
  Notation inflight := (inflight policy env decision).
  Notation quiescent := (quiescent policy env decision).
  Notation no_start := (no_start policy env decision).
  Notation no_upstart := (no_upstart policy env decision).
  Notation reach := (sreach policy tag env decision tag_of compile_ok decide tag_eqb env_eqb has_cache p0 progs).

  (* ------------------------------------------------------------------ *)
  (* the cache                                                           *)
  (* ------------------------------------------------------------------ *)
  Definition coherent (c : cache_t) : Prop :=
    forall k e d, In (k, e, d) c -> exists p, tag_of p = Some k /\ d = decide p e.

  Lemma c_get_in k e c d : c_get k e c = Some d -> In (k, e, d) c.
  Proof.
    induction c as [|[[k' e'] d'] r IH]; simpl; [discriminate|].
    unfold key_eqb; simpl. destruct (tag_eqb k k') eqn:Ek; destruct (env_eqb e e') eqn:Ee; simpl; auto.
    intros H; inversion H; subst. apply tag_eqb_eq in Ek. apply env_eqb_eq in Ee. subst. auto.
  Qed.
  Lemma coherent_del k e c : coherent c -> coherent (c_del k e c).
  Proof. intros H k' e' d' I. unfold Swap.c_del in I. apply filter_In in I. apply H. tauto. Qed.
  Lemma coherent_set k e d c :
    coherent c -> (exists p, tag_of p = Some k /\ d = decide p e) -> coherent (c_set k e d c).
  Proof.
    intros H Hd k' e' d' [I|I].
    - inversion I; subst; auto.
    - eapply coherent_del; eauto.
  Qed.
  Lemma coherent_nil : coherent [].
  Proof. intros ? ? ? []. Qed.

  (* ------------------------------------------------------------------ *)
  (* the log                                                             *)
  (* ------------------------------------------------------------------ *)
  (* thread t's evaluation has seen no update: none was in flight when it started, none started since *)
  Fixpoint calm (t : nat) (lg : list event) : bool :=
    match lg with
    | [] => false
    | EvStart t' _ :: r => if Nat.eqb t' t then quiescent r else calm t r
    | UpStart _ _ :: _ => false
    | _ :: r => calm t r
    end.
  (* the policy that was current when thread t's latest evaluation started *)
  Fixpoint start_cur (t : nat) (lg : list event) : policy :=
    match lg with
    | [] => p0
    | EvStart t' _ :: r => if Nat.eqb t' t then cur r else start_cur t r
    | _ :: r => start_cur t r
    end.

  Lemma calm_inflight t lg : calm t lg = true -> inflight lg = [].
  Proof.
    induction lg as [|ev r IH]; simpl; [discriminate|].
    destruct ev; simpl; auto; try discriminate.
    - destruct (Nat.eqb t0 t); auto. unfold Swap.quiescent. destruct (inflight r); auto; discriminate.
    - intros H. rewrite (IH H). reflexivity.
  Qed.

  (* what a completed evaluation must satisfy, recorded when its EvRet is logged *)
  Fixpoint log_ok (lg : list event) : Prop :=
    match lg with
    | [] => True
    | EvRet t e d :: r =>
        (exists q, In q (win t r) /\ d = decide q e) /\
        (calm t r = true -> d = decide (start_cur t r) e) /\
        log_ok r
    | _ :: r => log_ok r
    end.

  Lemma log_ok_split l : forall t e d r,
    log_ok (l ++ EvRet t e d :: r) ->
    (exists q, In q (win t r) /\ d = decide q e) /\ (calm t r = true -> d = decide (start_cur t r) e).
  Proof.
    induction l as [|ev l IH]; simpl; intros t e d r H.
    - tauto.
    - destruct ev; try (apply IH; assumption). apply IH; tauto.
  Qed.

  (* shape lemmas used to read the invariant off a decomposed log *)
  Lemma win_segment t e' l1 : forall l2,
    no_start t l2 = true -> win t (l2 ++ EvStart t e' :: l1) = pubs l2 ++ [cur l1].
  Proof.
    induction l2 as [|ev l2 IH]; simpl; intros H.
    - rewrite Nat.eqb_refl. reflexivity.
    - apply andb_prop in H. destruct H as [H1 H2]. destruct ev; simpl in *; try (apply IH; assumption).
      + destruct (Nat.eqb t0 t); [discriminate|]. auto.
      + rewrite IH; auto.
  Qed.
  Lemma start_cur_segment t e' l1 : forall l2,
    no_start t l2 = true -> start_cur t (l2 ++ EvStart t e' :: l1) = cur l1.
  Proof.
    induction l2 as [|ev l2 IH]; simpl; intros H.
    - rewrite Nat.eqb_refl. reflexivity.
    - apply andb_prop in H. destruct H as [H1 H2]. destruct ev; simpl in *; auto.
      destruct (Nat.eqb t0 t); [discriminate|]. auto.
  Qed.
  Lemma calm_segment t e' l1 : forall l2,
    no_start t l2 = true -> no_upstart l2 = true -> quiescent l1 = true ->
    calm t (l2 ++ EvStart t e' :: l1) = true.
  Proof.
    induction l2 as [|ev l2 IH]; simpl; intros H U Q.
    - rewrite Nat.eqb_refl. exact Q.
    - apply andb_prop in H. destruct H as [H1 H2]. apply andb_prop in U. destruct U as [U1 U2].
      destruct ev; simpl in *; auto; try discriminate.
      destruct (Nat.eqb t0 t); [discriminate|]. auto.
  Qed.

  Lemma in_remove_other (u v : nat) l : In u l -> u <> v -> In u (remove Nat.eq_dec v l).
  Proof. intros. apply in_in_remove; auto. Qed.

  (* ------------------------------------------------------------------ *)
  (* reading a program counter                                           *)
  (* ------------------------------------------------------------------ *)
  Definition upd_pc (c : pc) : bool :=
    match c with UAcq _ | UWPol _ | UWTag _ | UWComp _ | UInc _ | URel _ | UClear _ => true | _ => false end.
  Definition ev_pc (c : pc) : bool :=
    match c with
    | Idle | UAcq _ | UWPol _ | UWTag _ | UWComp _ | UInc _ | URel _ | UClear _ => false
    | _ => true
    end.
  Definition lock_of (i : nat) (c : pc) : option lockst :=
    match c with
    | UWPol _ | UWTag _ | UWComp _ | UInc _ | URel _ => Some (HeldU i)
    | ERdV1 _ | ERel1 _ _ | ERdV2 _ _ _ _ | ERel2 _ _ _ _ _ => Some (HeldE i)
    | _ => None
    end.
  Definition v0_of (c : pc) : option nat :=
    match c with
    | ERel1 _ v | ERdTag _ v | EGet _ v _ | ERdComp _ v _ | ERdPol _ v _ _ | ECompute _ v _ _ _
    | EAcq2 _ v _ _ | ERdV2 _ v _ _ | ERel2 _ v _ _ _ => Some v
    | _ => None
    end.
  Definition v1_of (c : pc) : option nat :=
    match c with ERel2 _ _ _ _ v1 => Some v1 | _ => None end.
  Definition key_of (c : pc) : option tag :=
    match c with
    | EGet _ _ k | EAcq2 _ _ k _ | ERdV2 _ _ k _ | ERel2 _ _ k _ _ => Some k
    | ERdComp _ _ ok | ERdPol _ _ ok _ | ECompute _ _ ok _ _ => ok
    | _ => None
    end.
  Definition fn_of (c : pc) : option (option policy) :=
    match c with ERdPol _ _ _ fn | ECompute _ _ _ fn _ => Some fn | _ => None end.
  Definition pol_of (c : pc) : option policy :=
    match c with ECompute _ _ _ _ pol => Some pol | _ => None end.
  Definition raw_of (c : pc) : option (env * decision) :=
    match c with
    | EAcq2 e _ _ d | ERdV2 e _ _ d | ERel2 e _ _ d _ | ESet e _ d | EFin e d => Some (e, d)
    | _ => None
    end.
  (* evaluator pcs from which one of the three fields may still be read *)
  Definition reading (c : pc) : bool :=
    match c with ERdTag _ _ | EGet _ _ _ | ERdComp _ _ _ | ERdPol _ _ _ _ => true | _ => false end.

  (* the locals read so far all describe policy P *)
  Definition loc_coh (P : policy) (c : pc) : Prop :=
    (forall k, key_of c = Some k -> tag_of P = Some k) /\
    (forall f, fn_of c = Some f -> f = comp_of P) /\
    (forall q, pol_of c = Some q -> q = P) /\
    (forall e d, raw_of c = Some (e, d) -> d = decide P e).
  (* the locals read so far each describe a policy of the window W *)
  Definition loc_snap (W : list policy) (c : pc) : Prop :=
    (forall k, key_of c = Some k -> exists q, In q W /\ tag_of q = Some k) /\
    (forall q, fn_of c = Some (Some q) -> In q W) /\
    (forall q, pol_of c = Some q -> In q W) /\
    (forall e d, raw_of c = Some (e, d) -> exists q, In q W /\ d = decide q e).

  Definition not_heldU (l : lockst) : Prop := match l with HeldU _ => False | _ => True end.
  Definition guard (s : shared) (t : nat) (c : pc) : Prop :=
    calm t (s_log s) = true \/
    (exists v0, v0_of c = Some v0 /\ s_ver s = v0 /\ not_heldU (s_lock s)).

  Record thr_inv (s : shared) (t : nat) (c : pc) : Prop := {
    ti_infl : upd_pc c = true -> In t (inflight (s_log s));
    ti_win : ev_pc c = true -> In (cur (s_log s)) (win t (s_log s));
    ti_ver : forall v0, v0_of c = Some v0 -> v0 <= s_ver s;
    ti_v1 : forall v1, v1_of c = Some v1 -> v1 = s_ver s;
    ti_lock : forall l, lock_of t c = Some l -> s_lock s = l;
    ti_coh : guard s t c -> loc_coh (s_policy s) c;
    ti_snap : loc_snap (win t (s_log s)) c;
    ti_set : forall e k raw, c = ESet e k raw -> exists p, tag_of p = Some k /\ raw = decide p e
  }.

  Definition fields (s : shared) : Prop :=
    s_etag s = tag_of (s_policy s) /\ s_comp s = comp_of (s_policy s).
  Definition oldq (c : conf) (q : policy) : Prop :=
    forall t, reading (snd (th c t)) = true -> In q (win t (s_log (sh c))).
  Definition lock_inv (c : conf) : Prop :=
    let s := sh c in
    match s_lock s with
    | Free | HeldE _ => fields s
    | HeldU u =>
        match snd (th c u) with
        | UWPol _ => fields s
        | UWTag p => s_policy s = p /\ exists q, s_etag s = tag_of q /\ s_comp s = comp_of q /\ oldq c q
        | UWComp p => s_policy s = p /\ s_etag s = tag_of p /\ exists q, s_comp s = comp_of q /\ oldq c q
        | UInc _ => fields s
        | URel _ => fields s /\ forall t v0, v0_of (snd (th c t)) = Some v0 -> v0 < s_ver s
        | _ => False
        end
    end.

  Record Inv (c : conf) : Prop := {
    i_cache : coherent (s_cache (sh c));
    i_cur : s_policy (sh c) = cur (s_log (sh c));
    i_lock : lock_inv c;
    i_calm : forall t, calm t (s_log (sh c)) = true -> cur (s_log (sh c)) = start_cur t (s_log (sh c));
    i_log : log_ok (s_log (sh c));
    i_thr : forall t, thr_inv (sh c) t (snd (th c t))
  }.

  Lemma inv_init : Inv (init policy tag env decision tag_of compile_ok p0 progs).
  Proof.
    constructor; simpl; auto.
    - apply coherent_nil.
    - unfold lock_inv, fields; simpl; auto.
    - intros t. constructor; simpl; try discriminate; auto.
      + intros [H|[v0 [H _]]]; discriminate.
      + unfold loc_snap; simpl. repeat split; intros; discriminate.
  Qed.

  (* ------------------------------------------------------------------ *)
  (* small facts about the log functions                                 *)
  (* ------------------------------------------------------------------ *)
  Lemma win_cons_incl t ev lg : is_start policy env decision t ev = false -> incl (win t lg) (win t (ev :: lg)).
  Proof.
    intros H. destruct ev; simpl in *; try apply incl_refl.
    - rewrite H. apply incl_refl.
    - apply incl_tl, incl_refl.
  Qed.
  Lemma loc_snap_incl W W' c : incl W W' -> loc_snap W c -> loc_snap W' c.
  Proof.
    intros I (A & B & C & D). repeat split; intros.
    - destruct (A _ H) as [q [? ?]]; eauto.
    - auto.
    - auto.
    - destruct (D _ _ H) as [q [? ?]]; eauto.
  Qed.
  Lemma calm_cons t ev lg :
    is_start policy env decision t ev = false -> calm t (ev :: lg) = true -> calm t lg = true.
  Proof.
    intros H. destruct ev; simpl in *; auto; try discriminate. rewrite H. auto.
  Qed.
  Lemma cur_in_win_cons t ev lg :
    is_start policy env decision t ev = false ->
    In (cur lg) (win t lg) -> In (cur (ev :: lg)) (win t (ev :: lg)).
  Proof.
    intros H I. destruct ev; simpl in *; auto. rewrite H. auto.
  Qed.

  Definition pcs (c : conf) (t : nat) : pc := snd (th c t).

  Ltac step_cases H i :=
    unfold sstep, cstep in H;
    match type of H with
    | context [Swap.tstep _ _ _ _ _ _ _ _ _ _ _ _ (th ?c i)] =>
        let todo := fresh "todo" in let pci := fresh "pci" in let Eth := fresh "Eth" in
        let s' := fresh "s'" in let l' := fresh "l'" in let E := fresh "E" in
        destruct (th c i) as [todo pci] eqn:Eth;
        match type of H with
        | match ?x with Some _ => _ | None => _ end = _ => destruct x as [[s' l']|] eqn:E; [|discriminate H]
        end;
        inversion H; subst; clear H;
        destruct pci; simpl in E;
        try match type of E with
            | match ?x with [] => _ | _ => _ end = _ => destruct x as [|[?e|?p] ?r]; [discriminate E| |]
            end;
        try match type of E with
            | match ?x with Free => _ | _ => _ end = _ => let El := fresh "El" in destruct x eqn:El; try discriminate E
            end;
        inversion E; subst; clear E
    end.

  Notation sstep := (sstep policy tag env decision tag_of compile_ok decide tag_eqb env_eqb has_cache).

  Lemma step_cache c l c' : Inv c -> sstep c l = Some c' -> coherent (s_cache (sh c')).
  Proof.
    intros I H. pose proof (i_cache _ I) as C. destruct l as [i|[k e]].
    2: { inversion H; subst; simpl. apply coherent_del; auto. }
    pose proof (i_thr _ I i) as Hi.
    step_cases H i; simpl; auto.
    - apply coherent_nil.
    - simpl in Hi. apply coherent_set; auto. eapply ti_set; eauto.
  Qed.

  Lemma step_cur c l c' : Inv c -> sstep c l = Some c' -> s_policy (sh c') = cur (s_log (sh c')).
  Proof.
    intros I H. pose proof (i_cur _ I) as C. destruct l as [i|[k e]].
    2: { inversion H; subst; simpl. auto. }
    step_cases H i; simpl; auto.
  Qed.

  Lemma step_calm c l c' : Inv c -> sstep c l = Some c' ->
    forall t, calm t (s_log (sh c')) = true -> cur (s_log (sh c')) = start_cur t (s_log (sh c')).
  Proof.
    intros I H. pose proof (i_calm _ I) as C. destruct l as [i|[k e]].
    2: { inversion H; subst; simpl. auto. }
    pose proof (i_thr _ I i) as Hi.
    step_cases H i; simpl; auto; intros t; try discriminate.
    - destruct (Nat.eqb i t); auto.
    - intros Hc. simpl in Hi. apply calm_inflight in Hc.
      pose proof (ti_infl _ _ _ Hi eq_refl) as F. rewrite Hc in F. destruct F.
  Qed.

  Lemma step_log c l c' : Inv c -> sstep c l = Some c' -> log_ok (s_log (sh c')).
  Proof.
    intros I H. pose proof (i_log _ I) as C. destruct l as [i|[k e]].
    2: { inversion H; subst; simpl. auto. }
    pose proof (i_thr _ I i) as Hi.
    step_cases H i; simpl; auto.
    simpl in Hi. repeat split; auto.
    - destruct (ti_snap _ _ _ Hi) as (_ & _ & _ & D). apply (D e d eq_refl).
    - intros Hc. destruct (ti_coh _ _ _ Hi) as (_ & _ & _ & D). { left; exact Hc. }
      rewrite (D e d eq_refl). rewrite (i_cur _ I). rewrite (i_calm _ I _ Hc). reflexivity.
  Qed.

  (* ------------------------------------------------------------------ *)
  (* where the values of the three fields come from                      *)
  (* ------------------------------------------------------------------ *)
  Lemma comp_of_some p q : comp_of p = Some q -> q = p.
  Proof. unfold Swap.comp_of. destruct (compile_ok p); congruence. Qed.

  Lemma not_heldU_fields c : Inv c -> not_heldU (s_lock (sh c)) -> fields (sh c).
  Proof.
    intros I N. pose proof (i_lock _ I) as L. unfold lock_inv in L.
    destruct (s_lock (sh c)); simpl in *; tauto.
  Qed.

  Lemma heldU_inflight c u : Inv c -> s_lock (sh c) = HeldU u -> In u (inflight (s_log (sh c))).
  Proof.
    intros I E. pose proof (i_lock _ I) as L. unfold lock_inv in L. rewrite E in L.
    pose proof (i_thr _ I u) as Hu. apply (ti_infl _ _ _ Hu).
    destruct (snd (th c u)); simpl; auto; contradiction.
  Qed.

  Lemma calm_not_heldU c t : Inv c -> calm t (s_log (sh c)) = true -> not_heldU (s_lock (sh c)).
  Proof.
    intros I Hc. destruct (s_lock (sh c)) eqn:E; simpl; auto.
    pose proof (heldU_inflight _ _ I E) as F. rewrite (calm_inflight _ _ Hc) in F. destruct F.
  Qed.

  Lemma guard_fields c t ct : Inv c -> guard (sh c) t ct -> fields (sh c).
  Proof.
    intros I [Hc|(v0 & _ & _ & N)]; apply not_heldU_fields; auto. eapply calm_not_heldU; eauto.
  Qed.

  (* a field value read by an evaluator that is past its first lock comes from a
     policy of its window *)
  Lemma src_cases c t : Inv c -> reading (snd (th c t)) = true ->
    let s := sh c in let W := win t (s_log s) in
    In (s_policy s) W /\
    (exists q, In q W /\ s_etag s = tag_of q) /\
    (exists q, In q W /\ s_comp s = comp_of q).
  Proof.
    intros I R s W. pose proof (i_thr _ I t) as Ht.
    assert (HP : In (s_policy s) W).
    { unfold s, W. rewrite (i_cur _ I). apply (ti_win _ _ _ Ht). destruct (snd (th c t)); simpl in *; congruence. }
    split; auto.
    pose proof (i_lock _ I) as L. unfold lock_inv in L. fold s in L.
    assert (F : fields s -> (exists q, In q W /\ s_etag s = tag_of q) /\ (exists q, In q W /\ s_comp s = comp_of q)).
    { intros [F1 F2]. split; exists (s_policy s); auto. }
    destruct (s_lock s); auto.
    destruct (snd (th c u)); try contradiction; auto.
    - destruct L as (E1 & q & E2 & E3 & O). split; exists q; split; auto; apply O; auto.
    - destruct L as (E1 & E2 & q & E3 & O). split.
      + exists (s_policy s). split; auto. rewrite E1. auto.
      + exists q. split; auto. apply O; auto.
    - tauto.
  Qed.

  (* ------------------------------------------------------------------ *)
  (* another thread's step leaves a thread's invariant intact            *)
  (* ------------------------------------------------------------------ *)
  Lemma thr_frame s s' t ct :
    thr_inv s t ct ->
    (upd_pc ct = true -> In t (inflight (s_log s)) -> In t (inflight (s_log s'))) ->
    (In (cur (s_log s)) (win t (s_log s)) -> In (cur (s_log s')) (win t (s_log s'))) ->
    s_ver s <= s_ver s' ->
    (forall v1, v1_of ct = Some v1 -> s_ver s' = s_ver s) ->
    (forall l, lock_of t ct = Some l -> s_lock s = l -> s_lock s' = l) ->
    (guard s' t ct -> guard s t ct /\ s_policy s' = s_policy s) ->
    incl (win t (s_log s)) (win t (s_log s')) ->
    thr_inv s' t ct.
  Proof.
    intros T A B C D E F G. constructor.
    - intros U. apply A; auto. apply (ti_infl _ _ _ T U).
    - intros U. apply B. apply (ti_win _ _ _ T U).
    - intros v0 U. pose proof (ti_ver _ _ _ T _ U). lia.
    - intros v1 U. rewrite (D _ U). apply (ti_v1 _ _ _ T _ U).
    - intros l U. apply E; auto. apply (ti_lock _ _ _ T _ U).
    - intros U. destruct (F U) as [U1 U2]. rewrite U2. apply (ti_coh _ _ _ T U1).
    - eapply loc_snap_incl; eauto. apply (ti_snap _ _ _ T).
    - apply (ti_set _ _ _ T).
  Qed.

  Lemma lock_of_held t ct l : lock_of t ct = Some l -> l = HeldU t \/ l = HeldE t.
  Proof. destruct ct; simpl; intros H; inversion H; auto. Qed.
  Lemma v1_lock t ct v1 : v1_of ct = Some v1 -> lock_of t ct = Some (HeldE t).
  Proof. destruct ct; simpl; intros H; inversion H; auto. Qed.

  Lemma step_thr_other c i c' t : Inv c -> sstep c (Run i) = Some c' -> t <> i ->
    thr_inv (sh c') t (snd (th c' t)).
  Proof.
    intros I H Hne.
    assert (Hb : Nat.eqb i t = false) by (apply Nat.eqb_neq; auto).
    pose proof (i_thr _ I i) as Hi. pose proof (i_thr _ I t) as Ht.
    pose proof (i_lock _ I) as L. unfold lock_inv in L.
    step_cases H i; simpl in Hi; simpl; rewrite (upd_other _ _ _ _ _ Hne);
      (eapply thr_frame; [exact Ht | simpl; rewrite ?Hb; auto ..]).
    all: try solve [apply incl_refl | apply incl_tl, incl_refl | intros; apply in_remove_other; auto].
    all: try (pose proof (ti_lock _ _ _ Hi _ eq_refl) as Li; simpl in Li).
    (* lock ownership *)
    all: try solve [intros l Lo E; destruct (lock_of_held _ _ _ Lo) as [Hl|Hl]; rewrite Hl in E;
                    first [rewrite El in E; discriminate E | rewrite Li in E; inversion E; congruence]].
    (* version read under the lock *)
    all: try solve [intros v1 V; pose proof (ti_lock _ _ _ Ht _ (v1_lock t _ _ V)) as Lt;
                    rewrite Li in Lt; discriminate Lt].
    (* guard *)
    all: unfold guard; intros [Hc|(w0 & A & B & N)]; simpl in *; rewrite ?Hb in *; try discriminate;
         try solve [split; auto; left; auto
                   | split; auto; right; exists w0; repeat split; auto
                   | contradiction
                   | rewrite Li in N; contradiction
                   | split; auto; right; exists w0; repeat split; auto; rewrite El; simpl; auto
                   | split; auto; right; exists w0; repeat split; auto; rewrite Li; simpl; auto].
    - exfalso. apply calm_inflight in Hc. pose proof (ti_infl _ _ _ Hi eq_refl) as F.
      rewrite Hc in F. exact F.
    - exfalso. rewrite Li in L. rewrite Eth in L. simpl in L. destruct L as [_ L].
      specialize (L t w0 A). lia.
  Qed.

  Lemma loc_coh_none P c :
    key_of c = None -> fn_of c = None -> pol_of c = None -> raw_of c = None -> loc_coh P c.
  Proof. intros A B C D. unfold loc_coh. rewrite A, B, C, D. repeat split; intros; discriminate. Qed.
  Lemma loc_snap_none W c :
    key_of c = None -> fn_of c = None -> pol_of c = None -> raw_of c = None -> loc_snap W c.
  Proof. intros A B C D. unfold loc_snap. rewrite A, B, C, D. repeat split; intros; discriminate. Qed.

  Lemma guard_mono s s' t c1 c2 :
    s_log s' = s_log s -> s_ver s' = s_ver s ->
    (not_heldU (s_lock s') -> not_heldU (s_lock s)) ->
    (forall v, v0_of c1 = Some v -> v0_of c2 = Some v) ->
    guard s' t c1 -> guard s t c2.
  Proof.
    intros A B C D [G|(v & G1 & G2 & G3)].
    - left. rewrite <- A. exact G.
    - right. exists v. repeat split; auto. congruence.
  Qed.

  Ltac old_coh Hi G :=
    match type of Hi with
    | thr_inv ?s ?i ?oldpc =>
        let G' := fresh "G'" in
        assert (G' : guard s i oldpc)
          by (eapply guard_mono; [ | | | | exact G]; simpl; auto;
              try (intros ? V; inversion V; subst; auto; fail);
              try (intros _; match goal with E : s_lock _ = _ |- _ => rewrite E; exact Logic.I end);
              try (intros _; rewrite (ti_lock _ _ _ Hi _ eq_refl); exact Logic.I));
        let K := fresh "K" in let F := fresh "F" in let Q := fresh "Q" in let R := fresh "R" in
        destruct (ti_coh _ _ _ Hi G') as (K & F & Q & R); simpl in K, F, Q, R
    end.
  Ltac old_snap Hi :=
    let K := fresh "SK" in let F := fresh "SF" in let Q := fresh "SQ" in let R := fresh "SR" in
    destruct (ti_snap _ _ _ Hi) as (K & F & Q & R); simpl in K, F, Q, R.
  Ltac split4 := unfold loc_coh, loc_snap; simpl; repeat split;
                 (let x := fresh "x" in let y := fresh "y" in let V := fresh "V" in
                  first [intros x y V | intros x V]; try discriminate V; try (inversion V; subst; clear V)).

  Lemma step_thr_self c i c' : Inv c -> sstep c (Run i) = Some c' ->
    thr_inv (sh c') i (snd (th c' i)).
  Proof.
    intros I H.
    pose proof (i_thr _ I i) as Hi.
    step_cases H i; simpl in Hi; simpl; rewrite upd_same; simpl.
    all: repeat match goal with
         | |- context [if has_cache then _ else _] => destruct has_cache
         | |- context [match s_etag ?s with _ => _ end] => let E := fresh "Etag" in destruct (s_etag s) eqn:E
         | |- context [match c_get ?k ?e ?s with _ => _ end] => let E := fresh "Eget" in destruct (c_get k e s) eqn:E
         | |- context [match ?ok with Some k => EAcq2 _ _ k _ | None => _ end] => destruct ok
         | |- context [if Nat.eqb ?a ?b then _ else _] => let E := fresh "Eeq" in destruct (Nat.eqb a b) eqn:E
         end.
    all: constructor; simpl; try discriminate; auto.
    all: try solve [intros _; apply (ti_infl _ _ _ Hi eq_refl)
                   | intros _; apply (ti_win _ _ _ Hi eq_refl)
                   | intros v V; inversion V; subst; eapply (ti_ver _ _ _ Hi); reflexivity
                   | intros l V; inversion V; subst; eapply (ti_lock _ _ _ Hi); reflexivity
                   | intros x V; inversion V; subst; auto
                   | intros; apply loc_coh_none; reflexivity
                   | apply loc_snap_none; reflexivity ].
    - (* EvStart: window *) intros _. rewrite Nat.eqb_refl. left; reflexivity.
    - (* ERdTag -> EGet: coh *)
      intros G. destruct (guard_fields _ _ _ I G) as [F1 F2]. split4. congruence.
    - (* snap *)
      assert (Rd : reading (snd (th c i)) = true) by (rewrite Eth; reflexivity).
      destruct (src_cases _ _ I Rd) as (S1 & (q & S2 & S3) & _).
      split4. exists q. split; auto. congruence.
    - (* EGet hit -> EFin: coh *)
      intros G. old_coh Hi G. split4.
      destruct (i_cache _ I _ _ _ (c_get_in _ _ _ _ Eget)) as (p' & T1 & T2).
      rewrite (tag_inj _ _ _ (K _ eq_refl) T1). exact T2.
    - old_snap Hi. split4.
      destruct (i_cache _ I _ _ _ (c_get_in _ _ _ _ Eget)) as (p' & T1 & T2).
      destruct (SK _ eq_refl) as (q & Q1 & Q2). exists q. split; auto.
      rewrite (tag_inj _ _ _ Q2 T1). exact T2.
    - (* EGet miss -> ERdComp *)
      intros G. old_coh Hi G. split4. auto.
    - old_snap Hi. split4. auto.
    - (* ERdComp -> ERdPol *)
      intros G. destruct (guard_fields _ _ _ I G) as [F1 F2]. old_coh Hi G. split4; auto.
    - old_snap Hi. assert (Rd : reading (snd (th c i)) = true) by (rewrite Eth; reflexivity).
      destruct (src_cases _ _ I Rd) as (S1 & _ & (q & S2 & S3)).
      split4; auto. rewrite S3 in H0. apply comp_of_some in H0. subst. auto.
    - (* ERdPol -> ECompute *)
      intros G. old_coh Hi G. split4; auto.
    - old_snap Hi. assert (Rd : reading (snd (th c i)) = true) by (rewrite Eth; reflexivity).
      destruct (src_cases _ _ I Rd) as (S1 & _ & _).
      split4; auto.
    - (* ECompute -> EAcq2 *)
      intros G. old_coh Hi G. split4; auto.
      rewrite (F _ eq_refl). unfold Swap.comp_of. rewrite (Q _ eq_refl). destruct (compile_ok (s_policy (sh c))); auto.
    - old_snap Hi. split4; auto. destruct fn as [q|]; eauto.
    - (* ECompute -> EFin (no key) *)
      intros G. old_coh Hi G. split4; auto.
      rewrite (F _ eq_refl). unfold Swap.comp_of. rewrite (Q _ eq_refl). destruct (compile_ok (s_policy (sh c))); auto.
    - old_snap Hi. split4; auto. destruct fn as [q|]; eauto.
    - (* EAcq2 -> ERdV2 *)
      intros G. old_coh Hi G. split4; auto.
    - old_snap Hi. split4; auto.
    - (* ERdV2 -> ERel2 *)
      intros G. old_coh Hi G. split4; auto.
    - old_snap Hi. split4; auto.
    - (* ERel2 -> ESet *)
      intros G. old_coh Hi G. split4; auto.
    - old_snap Hi. split4; auto.
    - intros e0 k0 raw0 V. inversion V; subst; clear V.
      apply Nat.eqb_eq in Eeq. subst v1.
      pose proof (ti_v1 _ _ _ Hi _ eq_refl) as V1. pose proof (ti_lock _ _ _ Hi _ eq_refl) as Lk. simpl in Lk.
      assert (G : guard (sh c) i (ERel2 e0 v0 k0 raw0 v0)).
      { right. exists v0. simpl. repeat split; auto. rewrite Lk. exact Logic.I. }
      destruct (ti_coh _ _ _ Hi G) as (K & _ & _ & R). simpl in K, R.
      exists (s_policy (sh c)). split; auto.
    - (* ERel2 -> EFin *)
      intros G. old_coh Hi G. split4; auto.
    - old_snap Hi. split4; auto.
    - (* ESet -> EFin *)
      intros G. old_coh Hi G. split4; auto.
    - old_snap Hi. split4; auto.
  Qed.

  (* ------------------------------------------------------------------ *)
  (* the lock clause                                                     *)
  (* ------------------------------------------------------------------ *)
  Lemma oldq_step c i c' u q : Inv c -> sstep c (Run i) = Some c' ->
    s_lock (sh c) = HeldU u -> u <> i -> oldq c q -> oldq c' q.
  Proof.
    intros I H Lu Hne O.
    pose proof (i_thr _ I i) as Hi.
    step_cases H i; simpl in Hi; unfold oldq; simpl; intros t R;
      (destruct (Nat.eq_dec t i) as [->|Hti];
       [rewrite upd_same in R; simpl in R; try discriminate R
       |rewrite (upd_other _ _ _ _ _ Hti) in R;
        assert (Hb : Nat.eqb i t = false) by (apply Nat.eqb_neq; auto);
        simpl; rewrite ?Hb; auto]).
    all: try (pose proof (ti_lock _ _ _ Hi _ eq_refl) as Li; simpl in Li; rewrite Li in Lu; inversion Lu; congruence).
    all: try solve [apply O; rewrite Eth; reflexivity].
    destruct ok; discriminate R.
  Qed.

  Lemma v0lt_step c i c' u n : Inv c -> sstep c (Run i) = Some c' ->
    s_lock (sh c) = HeldU u -> u <> i ->
    (forall t v0, v0_of (snd (th c t)) = Some v0 -> v0 < n) ->
    (forall t v0, v0_of (snd (th c' t)) = Some v0 -> v0 < n).
  Proof.
    intros I H Lu Hne O.
    pose proof (i_thr _ I i) as Hi.
    step_cases H i; simpl in Hi; simpl; intros t w R;
      (destruct (Nat.eq_dec t i) as [->|Hti];
       [rewrite upd_same in R; simpl in R; try discriminate R
       |rewrite (upd_other _ _ _ _ _ Hti) in R; eauto]).
    all: try (pose proof (ti_lock _ _ _ Hi _ eq_refl) as Li; simpl in Li; rewrite Li in Lu; inversion Lu; congruence).
    all: apply (O i); rewrite Eth; simpl;
         repeat match type of R with context [match ?x with _ => _ end] => destruct x end;
         simpl in R; congruence.
  Qed.

  Lemma step_th_other c i c' u : sstep c (Run i) = Some c' -> u <> i -> th c' u = th c u.
  Proof.
    unfold Swap.sstep, cstep. destruct (tstep i (sh c) (th c i)) as [[s' l']|]; [|discriminate].
    intros H Hne. inversion H; subst; simpl. apply upd_other; auto.
  Qed.

  (* a step that neither touches the lock nor the three fields nor the version,
     taken by a thread that is not the updater holding the lock *)
  Lemma lock_frame c i c' : Inv c -> sstep c (Run i) = Some c' ->
    s_lock (sh c') = s_lock (sh c) -> (forall u, s_lock (sh c) = HeldU u -> u <> i) ->
    s_policy (sh c') = s_policy (sh c) -> s_etag (sh c') = s_etag (sh c) ->
    s_comp (sh c') = s_comp (sh c) -> s_ver (sh c') = s_ver (sh c) ->
    lock_inv c'.
  Proof.
    intros I H E1 NU E2 E3 E4 E5. pose proof (i_lock _ I) as L. unfold lock_inv in *.
    assert (F : fields (sh c) -> fields (sh c')) by (unfold fields; rewrite E2, E3, E4; auto).
    rewrite E1. destruct (s_lock (sh c)) as [|u|t0] eqn:Lk; auto.
    specialize (NU u eq_refl). rewrite (step_th_other _ _ _ _ H NU).
    destruct (snd (th c u)); auto.
    - destruct L as (A & q & B & C & O). rewrite E2, E3, E4. split; auto. exists q. repeat split; auto.
      eapply oldq_step; eauto.
    - destruct L as (A & B & q & C & O). rewrite E2, E3, E4. repeat split; auto. exists q. split; auto.
      eapply oldq_step; eauto.
    - destruct L as (A & B). split; auto. rewrite E5. eapply v0lt_step; eauto.
  Qed.

  Lemma step_lock c l c' : Inv c -> sstep c l = Some c' -> lock_inv c'.
  Proof.
    intros I H. destruct l as [i|[k e]].
    2: { inversion H; subst. exact (i_lock _ I). }
    pose proof (i_thr _ I i) as Hi. pose proof (i_lock _ I) as L. unfold lock_inv in L.
    pose proof (i_cur _ I) as Cu. pose proof H as H'.
    step_cases H i; simpl in Hi.
    all: try solve [eapply lock_frame; [exact I | exact H' | simpl; auto ..];
                    intros u Lu Eu; subst u; rewrite Lu in L; rewrite Eth in L; exact L].
    all: unfold lock_inv; simpl.
    all: try (pose proof (ti_lock _ _ _ Hi _ eq_refl) as Li; simpl in Li).
    all: try (rewrite Li in L; try rewrite Eth in L; simpl in L).
    all: try (rewrite Li; rewrite upd_same; simpl).
    all: try (rewrite El in L).
    all: try rewrite upd_same; simpl.
    all: try solve [unfold fields in *; simpl in *; tauto].
    - (* UWPol *) destruct L as [L1 L2]. split; auto. exists (s_policy (sh c)). repeat split; auto.
      unfold oldq; simpl. intros t R. destruct (Nat.eq_dec t i) as [->|Hti].
      + rewrite upd_same in R. discriminate R.
      + rewrite (upd_other _ _ _ _ _ Hti) in R. right. rewrite Cu.
        apply (ti_win _ _ _ (i_thr _ I t)). destruct (snd (th c t)); simpl in *; congruence.
    - (* UWTag *) destruct L as (A & q & B & C & O). repeat split; auto. exists q. split; auto.
      unfold oldq; simpl. intros t R. destruct (Nat.eq_dec t i) as [->|Hti].
      + rewrite upd_same in R. discriminate R.
      + rewrite (upd_other _ _ _ _ _ Hti) in R. apply O; auto.
    - (* UWComp *) destruct L as (A & B & _). unfold fields; simpl. rewrite A. auto.
    - (* UInc *) split; [exact L|]. intros t v0 V. destruct (Nat.eq_dec t i) as [->|Hti].
      + rewrite upd_same in V. discriminate V.
      + rewrite (upd_other _ _ _ _ _ Hti) in V. pose proof (ti_ver _ _ _ (i_thr _ I t) _ V). lia.
  Qed.

  Theorem inv_step c l c' : Inv c -> sstep c l = Some c' -> Inv c'.
  Proof.
    intros I H. constructor.
    - eapply step_cache; eauto.
    - eapply step_cur; eauto.
    - eapply step_lock; eauto.
    - eapply step_calm; eauto.
    - eapply step_log; eauto.
    - intros t. destruct l as [i|x].
      + destruct (Nat.eq_dec t i) as [->|Hne].
        * eapply step_thr_self; eauto.
        * eapply step_thr_other; eauto.
      + destruct x as [k e]. inversion H; subst; simpl. pose proof (i_thr _ I t) as T.
        eapply thr_frame; eauto; simpl; auto. apply incl_refl.
  Qed.

  Theorem inv_reachable c : reach c -> Inv c.
  Proof.
    unfold Swap.sreach. apply invariant_reachable.
    - apply inv_init.
    - intros; eapply inv_step; eauto.
  Qed.

  (* ------------------------------------------------------------------ *)
  (* the theorems of C09, read off the invariant                          *)
  (* ------------------------------------------------------------------ *)
  Theorem coherent_always c : reach c ->
    (forall k e d, In (k, e, d) (s_cache (sh c)) -> exists p, tag_of p = Some k /\ d = decide p e) /\
    s_policy (sh c) = cur (s_log (sh c)) /\
    match s_lock (sh c) with
    | HeldU _ => True
    | _ => s_etag (sh c) = tag_of (s_policy (sh c)) /\ s_comp (sh c) = comp_of (s_policy (sh c))
    end.
  Proof.
    intros R. pose proof (inv_reachable _ R) as I. split; [exact (i_cache _ I)|]. split; [exact (i_cur _ I)|].
    pose proof (i_lock _ I) as L. unfold lock_inv, fields in L. destruct (s_lock (sh c)); auto.
  Qed.

  Theorem snapshot_always c : reach c ->
    forall l3 t e d l2 e' l1,
      s_log (sh c) = l3 ++ EvRet t e d :: l2 ++ EvStart t e' :: l1 ->
      no_start t l2 = true ->
      exists p, In p (pubs l2 ++ [cur l1]) /\ d = decide p e.
  Proof.
    intros R l3 t e d l2 e' l1 E N. pose proof (i_log _ (inv_reachable _ R)) as L.
    rewrite E in L. destruct (log_ok_split _ _ _ _ _ L) as [(q & Q1 & Q2) _].
    rewrite (win_segment _ _ _ _ N) in Q1. eauto.
  Qed.

  Theorem after_update_always c : reach c ->
    forall l3 t e d l2 e' l1,
      s_log (sh c) = l3 ++ EvRet t e d :: l2 ++ EvStart t e' :: l1 ->
      no_start t l2 = true -> no_upstart l2 = true -> quiescent l1 = true ->
      d = decide (cur l1) e.
  Proof.
    intros R l3 t e d l2 e' l1 E N U Q. pose proof (i_log _ (inv_reachable _ R)) as L.
    rewrite E in L. destruct (log_ok_split _ _ _ _ _ L) as [_ C].
    rewrite (start_cur_segment _ _ _ _ N) in C. apply C. apply calm_segment; auto.
  Qed.

  (* no entry whose tag and decision come from different policies *)
  Theorem no_stale_entry c : reach c ->
    forall k e d, In (k, e, d) (s_cache (sh c)) -> forall p, tag_of p = Some k -> d = decide p e.
  Proof.
    intros R k e d H p T. destruct (i_cache _ (inv_reachable _ R) _ _ _ H) as (p' & T' & D).
    rewrite (tag_inj _ _ _ T T'). exact D.
  Qed.

  (* ... in particular, whenever no replacement is being published, a hit under the
     current tag is the current policy's decision *)
  Theorem hit_is_current c : reach c ->
    not_heldU (s_lock (sh c)) ->
    forall k e d, s_etag (sh c) = Some k -> c_get k e (s_cache (sh c)) = Some d ->
    d = decide (s_policy (sh c)) e.
  Proof.
    intros R N k e d K G. pose proof (inv_reachable _ R) as I.
    destruct (not_heldU_fields _ I N) as [F _].
    eapply no_stale_entry; eauto. eapply c_get_in; eauto. congruence.
  Qed.

  (* ------------------------------------------------------------------ *)
  (* the shape of the update events in the log, and the sequential-update *)
  (* reading of c09_after_update                                          *)
  (* ------------------------------------------------------------------ *)
  (* what thread u's set_policy call is doing according to the log:
     None = not inside one, Some (q, published?) *)
  Fixpoint ustate (u : nat) (lg : list event) : option (policy * bool) :=
    match lg with
    | [] => None
    | UpStart u' q :: r => if Nat.eqb u' u then Some (q, false) else ustate u r
    | Pub u' q :: r => if Nat.eqb u' u then Some (q, true) else ustate u r
    | UpRet u' _ :: r => if Nat.eqb u' u then None else ustate u r
    | _ :: r => ustate u r
    end.
  Fixpoint wf_log (lg : list event) : Prop :=
    match lg with
    | [] => True
    | Pub u q :: r => ustate u r = Some (q, false) /\ wf_log r
    | UpRet u q :: r => ustate u r = Some (q, true) /\ wf_log r
    | _ :: r => wf_log r
    end.
  Definition upc_ok (lg : list event) (t : nat) (c : pc) : Prop :=
    match c with
    | UAcq q | UWPol q => ustate t lg = Some (q, false)
    | UWTag q | UWComp q | UInc q | URel q | UClear q => ustate t lg = Some (q, true)
    | _ => True
    end.
  Definition Inv2 (c : conf) : Prop :=
    wf_log (s_log (sh c)) /\ forall t, upc_ok (s_log (sh c)) t (snd (th c t)).

  Lemma inv2_init : Inv2 (init policy tag env decision tag_of compile_ok p0 progs).
  Proof. split; simpl; auto. Qed.

  Lemma inv2_step c l c' : Inv2 c -> sstep c l = Some c' -> Inv2 c'.
  Proof.
    intros [W U] H. destruct l as [i|[k e]].
    2: { inversion H; subst; simpl. split; auto. }
    pose proof (U i) as Ui.
    step_cases H i; simpl in Ui; simpl; (split; [simpl; auto|]); intros t; simpl;
      (destruct (Nat.eq_dec t i) as [->|Hne];
       [rewrite upd_same; simpl; rewrite ?Nat.eqb_refl; auto
       |rewrite (upd_other _ _ _ _ _ Hne); specialize (U t);
        assert (Hb : Nat.eqb i t = false) by (apply Nat.eqb_neq; auto);
        destruct (snd (th c t)); simpl in *; rewrite ?Hb; auto]).
    all: repeat match goal with
         | |- context [if has_cache then _ else _] => destruct has_cache
         | |- context [match s_etag ?s with _ => _ end] => destruct (s_etag s)
         | |- context [match c_get ?k ?e ?s with _ => _ end] => destruct (c_get k e s)
         | |- context [match ?ok with Some k => EAcq2 _ _ k _ | None => _ end] => destruct ok
         | |- context [if Nat.eqb ?a ?b then _ else _] => destruct (Nat.eqb a b)
         end; simpl; auto.
  Qed.

  Lemma inv2_reachable c : reach c -> Inv2 c.
  Proof.
    unfold Swap.sreach. apply invariant_reachable.
    - apply inv2_init.
    - intros; eapply inv2_step; eauto.
  Qed.

  Lemma ustate_inflight u : forall lg x, wf_log lg -> ustate u lg = Some x -> In u (inflight lg).
  Proof.
    induction lg as [|ev r IH]; simpl; intros x W H; [discriminate|].
    destruct ev; simpl in *; eauto.
    - destruct (Nat.eqb u0 u) eqn:E.
      + apply Nat.eqb_eq in E. subst. left; auto.
      + right. eauto.
    - destruct W as [W1 W2]. destruct (Nat.eqb u0 u) eqn:E.
      + apply Nat.eqb_eq in E. subst. eauto.
      + eauto.
    - destruct W as [W1 W2]. destruct (Nat.eqb u0 u) eqn:E; [discriminate|].
      apply in_remove_other; eauto. apply Nat.eqb_neq in E. auto.
  Qed.
  Lemma quiescent_ustate lg u : wf_log lg -> quiescent lg = true -> ustate u lg = None.
  Proof.
    intros W Q. destruct (ustate u lg) as [x|] eqn:E; auto.
    pose proof (ustate_inflight _ _ _ W E) as I. unfold Swap.quiescent in Q.
    destruct (inflight lg); [destruct I | discriminate].
  Qed.
  Lemma wf_log_app l : forall r, wf_log (l ++ r) -> wf_log r.
  Proof. induction l as [|ev l IH]; simpl; auto. intros r W. destruct ev; try tauto; apply IH; tauto. Qed.

  (* while only thread u is inside set_policy and no set_policy starts, the current
     policy is what u has published, if it has *)
  Lemma solo_update u q0 R : 
    (forall u', u' <> u -> ustate u' R = None) -> ustate u R = Some (q0, false) ->
    forall l, wf_log (l ++ R) -> no_upstart l = true ->
      (forall u', u' <> u -> ustate u' (l ++ R) = None) /\
      match ustate u (l ++ R) with
      | Some (q, true) => cur (l ++ R) = q
      | Some (q, false) => q = q0 /\ cur (l ++ R) = cur R
      | None => True
      end.
  Proof.
    intros HO HU. induction l as [|ev l IH]; simpl; intros W N.
    - split; auto. rewrite HU. auto.
    - apply andb_prop in N. destruct N as [N1 N2].
      assert (W' : wf_log (l ++ R)) by (destruct ev; simpl in W; tauto).
      destruct (IH W' N2) as [IO IU]. clear IH.
      destruct ev; simpl in *; try discriminate; auto.
      + (* Pub *) destruct W as [W1 _].
        destruct (Nat.eq_dec u0 u) as [->|Hne].
        * rewrite Nat.eqb_refl. rewrite W1 in IU. split; auto.
          intros u' Hu. assert (Hb : Nat.eqb u u' = false) by (apply Nat.eqb_neq; auto). rewrite Hb. auto.
        * rewrite (IO _ Hne) in W1. discriminate.
      + (* UpRet *) destruct W as [W1 _].
        destruct (Nat.eq_dec u0 u) as [->|Hne].
        * rewrite Nat.eqb_refl. split; auto.
          intros u' Hu. assert (Hb : Nat.eqb u u' = false) by (apply Nat.eqb_neq; auto). rewrite Hb. auto.
        * rewrite (IO _ Hne) in W1. discriminate.
  Qed.

  (* while nobody is inside set_policy and no set_policy starts, nothing is published *)
  Lemma idle_segment X : (forall u, ustate u X = None) ->
    forall l, wf_log (l ++ X) -> no_upstart l = true ->
      (forall u, ustate u (l ++ X) = None) /\ cur (l ++ X) = cur X.
  Proof.
    intros HX. induction l as [|ev l IH]; simpl; intros W N; auto.
    apply andb_prop in N. destruct N as [N1 N2].
    assert (W' : wf_log (l ++ X)) by (destruct ev; simpl in W; tauto).
    destruct (IH W' N2) as [IO IC]. clear IH.
    destruct ev; simpl in *; try discriminate; auto.
    - destruct W as [W1 _]. rewrite IO in W1. discriminate.
    - destruct W as [W1 _]. rewrite IO in W1. discriminate.
  Qed.

  Lemma inflight_no_upstart r : forall l, no_upstart l = true -> incl (inflight (l ++ r)) (inflight r).
  Proof.
    induction l as [|ev l IH]; simpl; intros N; [apply incl_refl|].
    apply andb_prop in N. destruct N as [N1 N2]. specialize (IH N2).
    destruct ev; simpl in *; try discriminate; auto.
    intros x Hx. apply in_remove in Hx. apply IH. tauto.
  Qed.
  Lemma remove_all_same (u : nat) : forall X, incl X [u] -> remove Nat.eq_dec u X = [].
  Proof.
    induction X as [|x X IH]; simpl; intros I; auto.
    destruct (Nat.eq_dec u x) as [E|E].
    - apply IH. intros y Hy. apply I. right; auto.
    - exfalso. destruct (I x (or_introl eq_refl)) as [H|[]]. congruence.
  Qed.

  (* the prose of C09: set_policy(p) of thread u ran with no other replacement in
     flight or starting (quiescent l0, no UpStart in lu), has returned (UpRet u p),
     no replacement started since (l1', l2): an evaluation started afterwards
     returns p's decision. *)
  Theorem after_update_seq c : reach c ->
    forall l3 t e d l2 e' l1' u p lu l0,
      s_log (sh c) = l3 ++ EvRet t e d :: l2 ++ EvStart t e' :: l1' ++ UpRet u p :: lu ++ UpStart u p :: l0 ->
      no_start t l2 = true -> no_upstart l2 = true -> no_upstart l1' = true -> no_upstart lu = true ->
      quiescent l0 = true ->
      d = decide p e.
  Proof.
    intros R l3 t e d l2 e' l1' u p lu l0 E N U2 U1 Uu Q0.
    destruct (inv2_reachable _ R) as [W _]. rewrite E in W.
    apply wf_log_app in W. simpl in W. apply wf_log_app in W. simpl in W.
    pose proof (wf_log_app _ _ W) as WX. simpl in WX. destruct WX as [WU WR].
    pose proof (wf_log_app _ _ WR) as W0. simpl in W0.
    set (Rr := UpStart u p :: l0) in *.
    assert (HO : forall u', u' <> u -> ustate u' Rr = None).
    { intros u' Hu. unfold Rr. simpl. assert (Hb : Nat.eqb u u' = false) by (apply Nat.eqb_neq; auto).
      rewrite Hb. apply quiescent_ustate; auto. }
    assert (HU : ustate u Rr = Some (p, false)) by (unfold Rr; simpl; rewrite Nat.eqb_refl; auto).
    destruct (solo_update u p Rr HO HU lu WR Uu) as [SO SU]. rewrite WU in SU.
    set (X := UpRet u p :: lu ++ Rr) in *.
    assert (HX : forall u', ustate u' X = None).
    { intros u'. unfold X. simpl. destruct (Nat.eqb u u') eqn:Eb; auto. apply SO.
      apply Nat.eqb_neq in Eb. auto. }
    destruct (idle_segment X HX l1' W U1) as [_ IC].
    assert (C : cur (l1' ++ X) = p) by (rewrite IC; unfold X; simpl; exact SU).
    rewrite <- C. eapply after_update_always; eauto.
    (* quiescent *)
    unfold Swap.quiescent.
    assert (I1 : incl (inflight (l1' ++ X)) (inflight X)) by (apply inflight_no_upstart; auto).
    assert (I2 : inflight X = []).
    { unfold X. simpl. apply remove_all_same.
      pose proof (inflight_no_upstart Rr lu Uu) as I3. unfold Rr in I3 at 2. simpl in I3.
      unfold Swap.quiescent in Q0. destruct (inflight l0); [exact I3 | discriminate]. }
    rewrite I2 in I1. destruct (inflight (l1' ++ X)) as [|y ys]; auto. destruct (I1 y (or_introl eq_refl)).
  Qed.

  (* the log is ghost: replacing it does not change what a step does to the rest *)
  Definition with_log (s : shared) (lg : list event) : shared :=
    mkS (s_policy s) (s_etag s) (s_comp s) (s_ver s) (s_lock s) (s_cache s) lg.
  Theorem log_is_ghost i s l lg :
    match tstep i s l, tstep i (with_log s lg) l with
    | Some (s1, l1), Some (s2, l2) => l1 = l2 /\ exists lg', s2 = with_log s1 lg'
    | None, None => True
    | _, _ => False
    end.
  Proof.
    destruct l as [todo ci]. destruct ci; simpl; try (split; auto; eexists; reflexivity).
    - destruct todo as [|[e|p] r]; auto; split; auto; eexists; reflexivity.
    - destruct (s_lock s); auto. split; auto; eexists; reflexivity.
    - destruct (s_lock s); auto. split; auto; eexists; reflexivity.
    - destruct (s_lock s); auto. split; auto; eexists; reflexivity.
  Qed.
End SwapProofs.

(* ---------------------------------------------------------------------- *)
(* The protocol before commit 40ecad2 violates the property (finding F7)   *)
(* ---------------------------------------------------------------------- *)
Section Refuted.
  Notation ev := (event nat nat (nat * nat)).
  Notation ncur := (cur nat nat (nat * nat)).
  Notation nno_start := (no_start nat nat (nat * nat)).
  Notation nno_upstart := (no_upstart nat nat (nat * nat)).
  Notation nquiescent := (quiescent nat nat (nat * nat)).

  (* thread 0 replaces policy 0 (A) by policy 1 (B); thread 1 evaluates request 7
     concurrently; thread 2 evaluates request 7 after set_policy has returned.
       U: policy := B, etag := tag B | E: key from tag B, miss, fn := compiled A |
       U: compiled := B, clear, return | E: compute with A, cache.set | E2: hit *)
  Definition f7_progs : list (list (op nat nat)) := [[OpSet 1]; [OpEval 7]; [OpEval 7]].
  Definition f7_sched : list (label unit) :=
    map Run [0;0;0; 1;1;1;1; 0;0; 1;1;1;1; 2;2;2;2].
  Definition f7_final := fst (run (notstep [] []) (oestep _ _ _ _) (noinit [] [] 0 f7_progs) f7_sched).

  (* A -> B -> A: the entry is stored under tag A with B's decision *)
  Definition f7aba_progs : list (list (op nat nat)) := [[OpSet 1; OpSet 0]; [OpEval 7]; [OpEval 7]].
  Definition f7aba_sched : list (label unit) :=
    map Run [0;0;0;0;0; 0;0;0; 1;1;1;1; 0;0; 1;1;1;1; 2;2;2;2].
  Definition f7aba_final := fst (run (notstep [] []) (oestep _ _ _ _) (noinit [] [] 0 f7aba_progs) f7aba_sched).

  Definition stale_after_update (p0 : nat) (lg : list ev) : Prop :=
    exists l3 t e d l2 e' l1,
      lg = l3 ++ EvRet t e d :: l2 ++ EvStart t e' :: l1 /\
      nno_start t l2 = true /\ nno_upstart l2 = true /\ nquiescent l1 = true /\
      d <> ndecide (ncur p0 l1) e.

  Notation noreach := (oreach nat nat nat (nat * nat) (ntag_of []) (ncompile_ok []) ndecide Nat.eqb Nat.eqb).

  Theorem refuted_unlocked :
    noreach 0 (nprogs f7_progs) f7_final /\
    In (1, 7, ndecide 0 7) (o_cache (sh f7_final)) /\       (* tag of B, decision of A *)
    stale_after_update 0 (o_log (sh f7_final)).
  Proof.
    split; [|split].
    - unfold f7_final. apply run_reachable. apply reach_init.
    - vm_compute. auto.
    - exists [], 2, 7, (0, 7), [], 7, [EvRet 1 7 (0, 7); UpRet 0 1; EvStart 1 7; Pub 0 1; UpStart 0 1].
      vm_compute. repeat split; auto. discriminate.
  Qed.

  Theorem refuted_unlocked_aba :
    noreach 0 (nprogs f7aba_progs) f7aba_final /\
    In (0, 7, ndecide 1 7) (o_cache (sh f7aba_final)) /\    (* tag of A, decision of B *)
    stale_after_update 0 (o_log (sh f7aba_final)).
  Proof.
    split; [|split].
    - unfold f7aba_final. apply run_reachable. apply reach_init.
    - vm_compute. auto.
    - exists [], 2, 7, (1, 7), [], 7,
        [EvRet 1 7 (1, 7); UpRet 0 0; EvStart 1 7; Pub 0 0; UpStart 0 0; UpRet 0 1; Pub 0 1; UpStart 0 1].
      vm_compute. repeat split; auto. discriminate.
  Qed.
End Refuted.

(* ---------------------------------------------------------------------- *)
(* The concrete instance satisfies the hypotheses; a worked schedule        *)
(* ---------------------------------------------------------------------- *)
Lemma nat_eqb_sound : forall a b : nat, Nat.eqb a b = true -> a = b.
Proof. intros a b H. apply Nat.eqb_eq. exact H. Qed.
Lemma ntag_inj untagged : forall p q k : nat,
  ntag_of untagged p = Some k -> ntag_of untagged q = Some k -> p = q.
Proof.
  unfold ntag_of. intros p q k. destruct (nmem p untagged); [discriminate|].
  destruct (nmem q untagged); [discriminate|]. congruence.
Qed.

(* the schedule of finding F7 on the CURRENT protocol: thread 1's evaluation of
   request 7 overlaps set_policy(1) exactly as in f7_sched (reads the new tag, then
   the old compiled function); its second version check fails, so nothing is
   stored; thread 2, started after set_policy returned, computes with policy 1. *)
Definition ex_progs : list (list (op nat nat)) := [[OpSet 1]; [OpEval 7]; [OpEval 7]].
Definition ex_sched : list (label (envlab nat nat)) :=
  map Run [1;1;1;1; 0;0;0;0; 1;1;1; 0;0;0;0; 1;1;1;1;1;1; 2;2;2;2;2;2;2;2;2;2;2;2;2;2].
Definition ex_final := fst (run (ntstep [] [] true) nestep (ninit [] [] 0 ex_progs) ex_sched).
Lemma ex_reach :
  sreach nat nat nat (nat * nat) (ntag_of []) (ncompile_ok []) ndecide Nat.eqb Nat.eqb true 0
         (nprogs ex_progs) ex_final.
Proof. unfold ex_final, sreach, ntstep, nestep, ninit. apply run_reachable. apply reach_init. Qed.
Lemma ex_log :
  s_log (sh ex_final) =
    [EvRet 2 7 (1, 7); EvStart 2 7; EvRet 1 7 (0, 7); UpRet 0 1; Pub 0 1; UpStart 0 1; EvStart 1 7]
  /\ s_cache (sh ex_final) = [(1, 7, (1, 7))].
Proof. vm_compute. auto. Qed.
