(* ReloadFile.v — the deployment the docs describe, as ONE system: an operator replaces the
   policy file with  atomic_write(path, new_text)  while a  HotReloader  polls a
   FilePolicySource(path).  Composition of C16 (FileStore.v: atomic_write with every fault
   script, FilePolicySource.etag()/load() on a directory) and C10 (Reload.v: the reloader
   for an arbitrary source over an arbitrary world).

   The combined state.  Reload.v is generic in the world type W and in the type St of the
   source object's own attributes.  Here
       W  := FileStore.fsys                      the directory (name -> content, mtime_ns)
       St := FileStore.source Reload.bytes       (_cached_stat_sig, _cached_sha)
   and the source record [fs_source] is FileStore's own  etag_call / load  for the
   configuration [fcfg] (path, include_mtime_in_etag, validate_schema).  Sources.v has a
   file source too, but over its own one-object world (a store cell with a write counter for
   mtime and a two-valued size): that world cannot hold the temp file and the piecewise
   write of atomic_write, so the instance is built here from the more detailed model
   (same tag vocabulary: TSha / TShaM).  One  Reload.conf fsys _  therefore holds the
   directory, the source object, the reloader, the guard and the checks in flight; its
   [world] component is changed by the writer's steps and read by the source calls.

   The bridge between the two models' vocabularies (Section variables, no axioms):
     h     : FileStore.bytes -> Reload.bytes   the SHA-256 hex digest of a text, in the
             reloader model's tag vocabulary ("what the string was computed from");
             safety needs nothing of it, convergence needs  h old <> h new ;
     code  : value -> doc                      the name (a nat) the reloader model gives
             to a parsed policy; nothing is assumed of it;
     znat  : Z -> nat                          mtime_ns inside the tag "<sha>:<mtime_ns>",
             an injective coding defined here (znat_inj).
   Text -> policy is FileStore's  parse_file  (json.loads / yaml.safe_load by extension,
   then the optional schema validation), with its own abstract  json_loads, yaml_safe_load,
   schema_ok ; any non-Ok result is "the call raised" (SErr).

   The writer.  [atomic_write fs0 path new now cands sc] yields the trace of its completed
   steps, each with the directory right after it (mkstemp, fdopen, every piece of the write
   reaching the temp file, close, os.replace, the finally-unlink); the script [sc] ranges
   over all failures and crash points.  A schedule is a list of [item]s:  IWrite  = the
   writer performs its next step (nothing once it has finished, failed or died),  ISpawn /
   IStep  = the reloader's labels.  [compile] turns it into Reload.v's labels, the writer's
   k-th step becoming  LWorld (fun _ => the directory after step k) : the writer is the only
   process that changes the directory.  A schedule with fewer IWrite than the trace is long
   is a writer killed (or merely slow) at that point, so crash points are covered twice:
   by the script and by the schedule.
   As in C10 each etag() / load() call is atomic with respect to the world (Reload.v's step
   granularity); a writer step between the os.stat and the read inside ONE etag() call is
   outside this composition (C16 treats it: c16_midcall_change_refuted).

   Results (all for every fault script and every schedule; none is conditional on the bridge
   except where h is named):
     aw_final_is_last, aw_load_whole          FileStore-level: the trace is the whole run; load()
                                              at any moment parses the whole old or new file
     run_sys_world                            the combined world follows the writer
     reload_never_sees_torn_policy      (2)   FULL generality: any interleaving of any number of
                                              plain / forced / overlapping checks with the steps
     reload_failed_load_keeps_policy          C10's fail-safe clause at any point of the write
     reload_converges_after_atomic_write (3)  one due / forced check after the write returned
     ftag_differs, ftag_differs_mtime, coherent_from_old     its hypotheses, from h and (size, mtime)
     reload_converges_through_atomic_write    (3) from the start of the write, through any schedule
     Example.*                          (4)   "v: 1" -> "v: 22" with the valid prefix "v: 2": a crash
                                              mid-write, a completed write with a check straddling
                                              the rename, and the in-place rewrite that does tear *)
From Coq Require Import List Bool Arith String ZArith QArith Lia.
From Rbacx Require Import Value FileStore FileStoreProofs Reload ReloadProofs.
Import ListNotations.
Local Open Scope list_scope.

(* ------------------------------------------------------------------ *)
(* mtime_ns inside a tag                                               *)
(* ------------------------------------------------------------------ *)
Definition znat (z : Z) : nat :=
  match z with
  | Z0 => 0
  | Zpos p => 2 * Pos.to_nat p
  | Zneg p => 2 * Pos.to_nat p - 1
  end.

Lemma znat_inj a b : znat a = znat b -> a = b.
Proof.
  destruct a as [|p|p], b as [|q|q]; simpl; intro E;
    pose proof (Pos2Nat.is_pos 1) as _;
    try pose proof (Pos2Nat.is_pos p); try pose proof (Pos2Nat.is_pos q);
    try reflexivity; lia.
Qed.

(* ------------------------------------------------------------------ *)
(* schedules of one writer and any number of checks                    *)
(* ------------------------------------------------------------------ *)
Inductive item :=
| IWrite                                 (* the writer performs its next step *)
| ISpawn (force : bool)                  (* somebody calls check_and_reload(force=...) *)
| IStep (i : nat) (now u : Q).           (* check no. i performs its next atomic step *)

(* [states]: the directories after the writer's steps still to come *)
Fixpoint compile (its : list item) (states : list fsys) : list (label fsys) :=
  match its with
  | [] => []
  | IWrite :: r =>
      match states with
      | [] => compile r []
      | s :: states' => LWorld (fun _ => s) :: compile r states'
      end
  | ISpawn f :: r => LSpawn f :: compile r states
  | IStep i n u :: r => LStep i n u :: compile r states
  end.

(* the writer's steps not yet performed at the end of the schedule *)
Fixpoint pending (its : list item) (states : list fsys) : list fsys :=
  match its with
  | [] => states
  | IWrite :: r => match states with [] => pending r [] | _ :: states' => pending r states' end
  | _ :: r => pending r states
  end.

Definition aw_states (r : wresult) : list fsys := map snd (r_trace r).

(* ------------------------------------------------------------------ *)
(* the directory at the end of a run of atomic_write is the one after  *)
(* its last completed step                                             *)
(* ------------------------------------------------------------------ *)
Lemma last_app_cons {A} (l : list A) x d : last (l ++ [x]) d = x.
Proof. induction l as [|a l IH]; [reflexivity|]. simpl. destruct (l ++ [x]) eqn:E; [destruct l; discriminate|exact IH]. Qed.
Lemma last_cons_default {A} (a : A) l d : last (a :: l) d = last l a.
Proof.
  revert a d. induction l as [|b l IH]; intros a d; [reflexivity|].
  change (last (a :: b :: l) d) with (last (b :: l) d). rewrite (IH b d). symmetry. apply (IH b a).
Qed.

Lemma write_pieces_last tmp now ps : forall rest fs w rest' fs' tr,
  write_pieces tmp now rest ps fs = (w, rest', fs', tr) -> fs' = last (map snd tr) fs.
Proof.
  induction ps as [|[n o] ps IH]; intros rest fs w rest' fs' tr E; simpl in E.
  - inversion E; subst. reflexivity.
  - destruct o; try (inversion E; subst; reflexivity).
    destruct (write_pieces tmp now (sdrop n rest) ps (append_to tmp (stake n rest) now fs))
      as [[[w1 r1] f1] t1] eqn:E1.
    inversion E; subst. rewrite (IH _ _ _ _ _ _ E1).
    cbn [map snd]. symmetry. apply last_cons_default.
Qed.

Lemma body_last tmp path data now sc fs1 b fs2 tr :
  body tmp path data now sc fs1 = (b, fs2, tr) -> fs2 = last (map snd tr) fs1.
Proof.
  unfold body. intro E.
  destruct (k_fdopen sc); try (inversion E; subst; reflexivity).
  destruct (write_pieces tmp now data (k_pieces sc) fs1) as [[[w rest] f2] trw] eqn:Ew.
  pose proof (write_pieces_last _ _ _ _ _ _ _ _ _ Ew) as L2.
  assert (Lc : f2 = last (map snd ((EFdopen, fs1) :: trw)) fs1).
  { cbn [map snd]. rewrite last_cons_default. exact L2. }
  destruct w.
  - destruct (k_close sc); try (inversion E; subst; exact Lc).
    destruct (k_replace sc).
    + destruct (rename tmp path (append_to tmp rest now f2)) as [fs4|].
      * inversion E; subst. rewrite app_comm_cons, map_app. cbn [map snd]. symmetry. apply last_app_cons.
      * inversion E; subst. rewrite app_comm_cons, map_app. cbn [map snd]. symmetry. apply last_app_cons.
    + inversion E; subst. rewrite app_comm_cons, map_app. cbn [map snd]. symmetry. apply last_app_cons.
    + inversion E; subst. rewrite app_comm_cons, map_app. cbn [map snd]. symmetry. apply last_app_cons.
  - destruct (k_close sc); try (inversion E; subst; exact Lc).
    inversion E; subst. rewrite app_comm_cons, map_app. cbn [map snd]. symmetry. apply last_app_cons.
  - inversion E; subst. exact Lc.
Qed.

Lemma aw_final_is_last fs0 path data now cands sc :
  let r := atomic_write fs0 path data now cands sc in
  r_fs r = last (aw_states r) fs0.
Proof.
  unfold aw_states, atomic_write.
  destruct (k_mkstemp sc); try reflexivity.
  destruct (pick_name cands fs0) as [tmp|]; [|reflexivity].
  destruct (body tmp path data now sc (bind tmp (mkFile ""%string now) fs0)) as [[b fs2] tr] eqn:Eb.
  pose proof (body_last _ _ _ _ _ _ _ _ _ Eb) as L.
  assert (Lc : fs2 = last (map snd ((EMkstemp, bind tmp (mkFile ""%string now) fs0) :: tr)) fs0).
  { cbn [map snd]. rewrite last_cons_default. exact L. }
  unfold finally_unlink.
  destruct b; destruct (k_unlink sc); cbn [r_fs r_trace]; try exact Lc;
    rewrite ?app_comm_cons, map_app; cbn [map snd]; symmetry; apply last_app_cons.
Qed.

(* load() at any moment of a run of atomic_write - before it, after any completed step, at the end,
   whatever fails and wherever the writer dies - parses the complete old or the complete new file *)
Lemma aw_load_whole json_loads yaml_safe_load schema_ok (cfg : config) fs0 fold data now cands sc :
  not_candidate (c_path cfg) cands -> lookup (c_path cfg) fs0 = Some fold ->
  let r := atomic_write fs0 (c_path cfg) data now cands sc in
  forall s, s = fs0 \/ In s (map snd (r_trace r)) \/ s = r_fs r ->
    FileStore.load json_loads yaml_safe_load schema_ok cfg s
      = parse_file json_loads yaml_safe_load schema_ok cfg (Some fold)
    \/ FileStore.load json_loads yaml_safe_load schema_ok cfg s
      = parse_file json_loads yaml_safe_load schema_ok cfg (Some (mkFile data now)).
Proof.
  intros Hnc Hold r s Hs. unfold FileStore.load.
  assert (L : lookup (c_path cfg) s = Some fold \/ lookup (c_path cfg) s = Some (mkFile data now)).
  { destruct Hs as [-> |[Hin| ->]].
    - now left.
    - apply in_map_iff in Hin. destruct Hin as [[e s'] [Es Hin]]. cbn [snd] in Es. subst s'.
      destruct (aw_reader_sees_whole fs0 (c_path cfg) data now cands sc Hnc e s Hin) as [A|A];
        [left; now rewrite A|right; exact A].
    - destruct (aw_all_or_nothing fs0 (c_path cfg) data now cands sc Hnc) as [[_ A]|[_ A]];
        [left; fold r in A; now rewrite A|right; exact A]. }
  destruct L as [-> | ->]; auto.
Qed.

(* ================================================================== *)
(* the combined system                                                 *)
(* ================================================================== *)
Section ReloadFile.
  Variable h : FileStore.bytes -> Reload.bytes.          (* SHA-256 of a text, as the tag model names it *)
  Variables (json_loads yaml_safe_load : FileStore.bytes -> res value) (schema_ok : value -> bool).
  Variable code : value -> doc.                          (* the reloader model's name of a parsed policy *)
  Variable fcfg : config.                                (* path, include_mtime_in_etag, validate_schema *)
  Variable c : Reload.cfg.                               (* backoff_min, backoff_max, jitter_ratio *)

  Let path := c_path fcfg.
  Notation fstate := (FileStore.source Reload.bytes).    (* (_cached_stat_sig, _cached_sha) *)
  Notation sys := (Reload.sys fsys fstate).
  Notation conf := (Reload.conf fsys fstate).

  (* what load() makes of the file at the path: FileStore's parse_file *)
  Definition parse_at (fo : option file) : res value :=
    parse_file json_loads yaml_safe_load schema_ok fcfg fo.

  (* ---------- the two vocabularies ---------- *)
  Definition conv_tag (t : tagres Reload.bytes) : sres rawtag :=
    match t with
    | TagNone _ => SOk RNone
    | Tag _ sha None => SOk (RStr (TSha sha))
    | Tag _ sha (Some m) => SOk (RStr (TShaM sha (znat m)))
    | TagRaise _ => SErr
    end.
  Definition conv_load (r : res value) : sres doc :=
    match r with Ok v => SOk (code v) | _ => SErr end.

  (* FilePolicySource(path, ...) as a source of the reloader model over the directory *)
  Definition fs_source : Reload.source fsys fstate :=
    {| s_etag := fun st fs =>
         match etag_call Reload.bytes h fcfg WNone fs st with
         | (t, st', _) => (st', conv_tag t)
         end;
       s_load := fun st fs =>
         (st, conv_load (FileStore.load json_loads yaml_safe_load schema_ok fcfg fs)) |}.

  (* the tag of a file, as the reloader stores it *)
  Definition ftag (f : file) : tag :=
    if c_incl_mtime fcfg then TShaM (h (f_data f)) (znat (f_mtime f)) else TSha (h (f_data f)).

  Lemma conv_exact_tag f : conv_tag (exact_tag Reload.bytes h fcfg (Some f)) = SOk (RStr (ftag f)).
  Proof. unfold exact_tag, ftag. destruct (c_incl_mtime fcfg); reflexivity. Qed.

  Lemma s_load_eq st fs : s_load fs_source st fs = (st, conv_load (parse_at (lookup path fs))).
  Proof. reflexivity. Qed.

  (* the whole system: run a schedule against the steps of one atomic_write *)
  Definition run_sys (its : list item) (states : list fsys) (cf : conf) : conf :=
    Reload.run c fs_source (compile its states) cf.

  (* ---------- one step of a check never changes the directory ---------- *)
  Lemma step_world now u (s s' : sys) p p' :
    step c fs_source now u s p = (s', p') -> world s' = world s.
  Proof.
    destruct p as [force|force now0 last|now0 e|now0 e d|now0|r]; cbn [step]; intro E.
    - destruct (qltb now (suppress_until (rl s)) && negb force); inversion E; reflexivity.
    - destruct (s_etag fs_source (sst s) (world s)) as [st' r]. destruct force.
      + inversion E; reflexivity.
      + destruct r as [raw|]; [destruct (same_tag (norm raw) last)|]; inversion E; reflexivity.
    - destruct (s_load fs_source (sst s) (world s)) as [st' [d|]]; inversion E; reflexivity.
    - inversion E; reflexivity.
    - inversion E; reflexivity.
    - inversion E; reflexivity.
  Qed.

  (* ================================================================ *)
  (* (2) safety: only whole files are ever parsed                      *)
  (* ================================================================ *)
  (* [P] says which files may stand at the path; [lg0] is the log of loaded documents the
     run starts with.  A document in the log was there at the start or is the parse of a
     file satisfying P. *)
  Section Whole.
    Variable P : option file -> Prop.
    Variable lg0 : list doc.

    Definition from_whole (d : doc) : Prop :=
      In d lg0 \/ exists fo v, P fo /\ parse_at fo = Ok v /\ d = code v.

    Definition label_whole (l : label fsys) : Prop :=
      match l with LWorld f => forall w, P (lookup path (f w)) | _ => True end.

    Definition whole_inv (cf : conf) : Prop :=
      P (lookup path (world (cs cf))) /\ Forall from_whole (loaded (cs cf)).

    Lemma whole_step now u (s s' : sys) p p' :
      P (lookup path (world s)) -> Forall from_whole (loaded s) ->
      step c fs_source now u s p = (s', p') -> Forall from_whole (loaded s').
    Proof.
      intros Hp Hl.
      destruct p as [force|force now0 last|now0 e|now0 e d|now0|r]; cbn [step]; intro E.
      - destruct (qltb now (suppress_until (rl s)) && negb force); inversion E; subst; exact Hl.
      - destruct (s_etag fs_source (sst s) (world s)) as [st' r]. destruct force.
        + inversion E; subst; exact Hl.
        + destruct r as [raw|]; [destruct (same_tag (norm raw) last)|]; inversion E; subst; exact Hl.
      - rewrite s_load_eq in E. destruct (parse_at (lookup path (world s))) as [v| |w|] eqn:Ep;
          cbn [conv_load] in E; inversion E; subst; cbn [loaded]; try exact Hl.
        constructor; [|exact Hl]. right. exists (lookup path (world s)), v. auto.
      - inversion E; subst; exact Hl.
      - inversion E; subst; exact Hl.
      - inversion E; subst; exact Hl.
    Qed.

    Lemma whole_exec cf l : label_whole l -> whole_inv cf -> whole_inv (exec c fs_source cf l).
    Proof.
      intros Hl [Hp Hf]. destruct l as [f|force|i now u]; cbn [exec].
      - split; [apply Hl|exact Hf].
      - split; assumption.
      - destruct (nth_error (thr cf) i) as [p|]; [|split; assumption].
        destruct (step c fs_source now u (cs cf) p) as [s' p'] eqn:Es.
        unfold whole_inv; cbn [cs]. rewrite (step_world _ _ _ _ _ _ Es). split; [exact Hp|].
        exact (whole_step _ _ _ _ _ _ Hp Hf Es).
    Qed.

    Lemma whole_run ls : forall cf, Forall label_whole ls -> whole_inv cf -> whole_inv (Reload.run c fs_source ls cf).
    Proof.
      induction ls as [|l ls IH]; intros cf Hl Hi; [exact Hi|].
      inversion Hl; subst. cbn [Reload.run fold_left]. apply IH; [assumption|]. now apply whole_exec.
    Qed.

    Lemma compile_whole its : forall states,
      Forall (fun s => P (lookup path s)) states -> Forall label_whole (compile its states).
    Proof.
      induction its as [|it its IH]; intros states Hs; [constructor|].
      destruct it as [|f|i n u]; cbn [compile].
      - destruct states as [|s states']; [apply IH; constructor|].
        inversion Hs; subst. constructor; [intros _; assumption|now apply IH].
      - constructor; [exact I|now apply IH].
      - constructor; [exact I|now apply IH].
    Qed.
  End Whole.

  (* the world after a schedule: the directory after the writer's last performed step *)
  Lemma run_sys_world its : forall states cf,
    world (cs (run_sys its states cf)) =
    last (firstn (List.length states - List.length (pending its states))%nat states) (world (cs cf)).
  Proof.
    unfold run_sys.
    assert (Hstep : forall cf i now u, world (cs (exec c fs_source cf (LStep i now u))) = world (cs cf)).
    { intros cf i now u. cbn [exec]. destruct (nth_error (thr cf) i) as [p|]; [|reflexivity].
      destruct (step c fs_source now u (cs cf) p) as [s' p'] eqn:Es. cbn [cs]. exact (step_world _ _ _ _ _ _ Es). }
    assert (Hpl : forall its states, (List.length (pending its states) <= List.length states)%nat).
    { clear. induction its as [|it its IH]; intros states; [apply Nat.le_refl|].
      destruct it; cbn [pending]; try apply IH.
      destruct states as [|s states']; [apply IH|]. cbn [List.length]. specialize (IH states'). lia. }
    induction its as [|it its IH]; intros states cf.
    - cbn [compile pending Reload.run fold_left]. rewrite Nat.sub_diag. reflexivity.
    - destruct it as [|f|i n u]; cbn [compile pending].
      + destruct states as [|s states'].
        * rewrite (IH [] cf). reflexivity.
        * cbn [Reload.run fold_left]. change (fold_left (exec c fs_source) ?l ?x) with (Reload.run c fs_source l x).
          rewrite (IH states' _). cbn [exec cs world set_world List.length].
          specialize (Hpl its states').
          replace (S (List.length states') - List.length (pending its states'))%nat with (S (List.length states' - List.length (pending its states')))%nat by lia.
          cbn [firstn]. rewrite last_cons_default. reflexivity.
      + cbn [Reload.run fold_left]. change (fold_left (exec c fs_source) ?l ?x) with (Reload.run c fs_source l x).
        rewrite (IH states _). reflexivity.
      + cbn [Reload.run fold_left]. change (fold_left (exec c fs_source) ?l ?x) with (Reload.run c fs_source l x).
        rewrite (IH states _). rewrite Hstep. reflexivity.
  Qed.

  (* ---------- a check that fails: C10's fail-safe clause at any point of the write ---------- *)
  (* In ANY state of the directory (mid-write, after a crash, file missing): if what stands at
     the path when load() runs does not parse / validate, or is missing, the check returns
     False and guard, log of loaded documents and stored tag are exactly as before. *)
  Theorem reload_failed_load_keeps_policy force now u mid (s : sys) :
    (forall v, parse_at (lookup path (mid (world s))) <> Ok v) ->
    let r := run_check c fs_source force now u mid s in
    snd r = PDone false /\ gd (fst r) = gd s /\ loaded (fst r) = loaded s
    /\ last_etag (rl (fst r)) = last_etag (rl s).
  Proof.
    intros Hbad r.
    assert (Hf : snd r = PDone false).
    { apply check_fails. right. right. rewrite s_load_eq. cbn [snd].
      destruct (parse_at (lookup path (mid (world s)))) as [v| |w|] eqn:E; try reflexivity.
      exfalso. exact (Hbad v eq_refl). }
    destruct (run_check_false c fs_source force now u mid s Hf) as (A & B & C & _). auto.
  Qed.

  (* ================================================================ *)
  (* the source in a directory that no longer changes                  *)
  (* ================================================================ *)
  (* FileStoreProofs' [coherent st fs]: the (size, mtime_ns)-keyed cache does not pair the
     signature of the file that is at the path with the hash of another content. *)
  Notation coherent_in fs st := (coherent Reload.bytes h fcfg st fs).

  Lemma etag_coherent fs st f :
    lookup path fs = Some f -> coherent_in fs st ->
    exists st', etag_call Reload.bytes h fcfg WNone fs st = (exact_tag Reload.bytes h fcfg (Some f), st', fs)
                /\ coherent_in fs st'
                /\ (st' = st \/ st' = mkSrc Reload.bytes (Some (sig_of f)) (Some (h (f_data f)))).
  Proof.
    intros L C. unfold etag_call, stat_sig. cbn [apply_wop]. fold path. rewrite L.
    change (String.length (f_data f), f_mtime f) with (sig_of f).
    assert (Rehash : exists st',
              (mk_tag Reload.bytes fcfg (h (f_data f)) (sig_of f),
               mkSrc Reload.bytes (Some (sig_of f)) (Some (h (f_data f))), fs)
              = (exact_tag Reload.bytes h fcfg (Some f), st', fs) /\ coherent_in fs st'
              /\ (st' = st \/ st' = mkSrc Reload.bytes (Some (sig_of f)) (Some (h (f_data f))))).
    { eexists. split; [rewrite mk_tag_exact; reflexivity|]. split; [|right; reflexivity].
      unfold coherent. fold path. rewrite L. cbn [csig csha]. auto. }
    unfold coherent in C. fold path in C. rewrite L in C.
    destruct (csha Reload.bytes st) as [sha|] eqn:Cs; [|exact Rehash].
    destruct (csig Reload.bytes st) as [sg|] eqn:Cg; [|exact Rehash].
    destruct (sig_eqb sg (sig_of f)) eqn:Q; [|exact Rehash].
    apply sig_eqb_eq in Q. exists st. split.
    - rewrite (C Q), mk_tag_exact. reflexivity.
    - split; [|left; reflexivity]. unfold coherent. fold path. rewrite L, Cg, Cs. exact C.
  Qed.

  Section AfterWrite.
    Variables (w : fsys) (fnew : file) (vnew : value).
    Hypothesis Hw : lookup path w = Some fnew.
    Hypothesis Hparse : parse_at (Some fnew) = Ok vnew.

    Definition cache_fine (st : fstate) : Prop := coherent_in w st.

    Lemma Hetag_w : forall st, cache_fine st ->
      exists st' raw, s_etag fs_source st w = (st', SOk raw) /\ norm raw = Some (ftag fnew) /\ cache_fine st'.
    Proof.
      intros st C. destruct (etag_coherent w st fnew Hw C) as (st' & E & C' & _).
      exists st', (RStr (ftag fnew)). cbn [s_etag fs_source]. rewrite E, conv_exact_tag. auto.
    Qed.
    Lemma Hload_w : forall st, cache_fine st ->
      exists st', s_load fs_source st w = (st', SOk (code vnew)) /\ cache_fine st'.
    Proof. intros st C. exists st. rewrite s_load_eq, Hw, Hparse. auto. Qed.

    Notation settled_new := (settled w (code vnew) (Some (ftag fnew)) cache_fine).

    (* one check that is due, or forced, in the final directory *)
    Lemma check_after_write force now1 u1 (s : sys) :
      world s = w -> cache_fine (sst s) ->
      (force = true \/ suppress_until (rl s) <= now1)%Q ->
      let r1 := run_check c fs_source force now1 u1 idw s in
      (* the stored tag is not the new file's (or the check is forced): it loads and applies *)
      ((force = true \/ last_etag (rl s) <> Some (ftag fnew)) ->
         snd r1 = PDone true /\ gd (fst r1) = set_policy (code vnew) (gd s)
         /\ n_load (fst r1) = S (n_load s) /\ last_error (rl (fst r1)) = false /\ settled_new (fst r1))
      (* the stored tag is already the new file's: False, nothing changes *)
      /\ (force = false -> last_etag (rl s) = Some (ftag fnew) ->
            snd r1 = PDone false /\ gd (fst r1) = gd s /\ n_load (fst r1) = n_load s).
    Proof.
      intros Hws HI Hdue r1. unfold r1. rewrite run_check_big. unfold check_big, idw. rewrite Hws.
      assert (Hsup : qltb now1 (suppress_until (rl s)) && negb force = false).
      { destruct Hdue as [-> | Hd]; [apply andb_false_r|]. apply qltb_false in Hd. rewrite Hd. reflexivity. }
      rewrite Hsup.
      destruct (Hetag_w _ HI) as (st1 & raw & E1 & Hr & HI1). rewrite E1. cbn [is_err]. rewrite andb_false_r.
      destruct (Hload_w _ HI1) as (st2 & E2 & HI2). rewrite E2. rewrite Hr.
      split.
      - intros Hne.
        assert (Hg : negb force && same_tag (Some (ftag fnew)) (last_etag (rl s)) = false).
        { destruct Hne as [-> | Hne]; [reflexivity|].
          destruct (same_tag (Some (ftag fnew)) (last_etag (rl s))) eqn:Es; [|apply andb_false_r].
          apply same_tag_true in Es. destruct Es as (t & A & B). exfalso. apply Hne. congruence. }
        rewrite Hg. cbn [fst snd mk gd n_load rl applied last_error].
        repeat split; auto.
      - intros -> Hl. rewrite Hl, same_tag_refl. cbn [negb andb fst snd mk gd n_load]. auto.
    Qed.

    (* settled is for ever: later checks keep the policy; unforced ones return False, do not call
       load() and leave the guard alone *)
    Lemma settled_after_write (s : sys) :
      settled_new s ->
      policy (gd s) = code vnew /\
      forall its, only_checks its ->
        let s3 := run_seq c fs_source its s in
        policy (gd s3) = code vnew /\ world s3 = w /\
        forall now u,
          snd (run_check c fs_source false now u idw s3) = PDone false
          /\ gd (fst (run_check c fs_source false now u idw s3)) = gd s3
          /\ n_load (fst (run_check c fs_source false now u idw s3)) = n_load s3.
    Proof.
      intros Hs. split; [apply Hs|]. intros its Ho s3.
      pose proof (settled_seq c fs_source w (code vnew) (Some (ftag fnew)) cache_fine Hetag_w Hload_w its s Ho Hs) as H3.
      fold s3 in H3. split; [apply H3|]. split; [apply H3|]. intros now u.
      destruct (settled_check c fs_source w (code vnew) (Some (ftag fnew)) cache_fine Hetag_w Hload_w false now u s3 H3)
        as (_ & A & _).
      destruct (A _ eq_refl eq_refl) as (R & L & G). auto.
    Qed.
  End AfterWrite.

  (* ================================================================ *)
  (* one atomic_write of [new] over a complete document [fold]         *)
  (* ================================================================ *)
  Section OneWrite.
    Variables (fs0 : fsys) (fold : file) (new : FileStore.bytes) (now : Z) (cands : list string) (sc : script).
    Hypothesis Hnc : not_candidate path cands.
    Hypothesis Hold : lookup path fs0 = Some fold.

    Let r := atomic_write fs0 path new now cands sc.
    Let fnew := mkFile new now.

    Definition old_or_new (fo : option file) : Prop := fo = Some fold \/ fo = Some fnew.

    (* a document that is the parse of the complete old or the complete new file *)
    Definition whole_doc (d : doc) : Prop :=
      exists v, (parse_at (Some fold) = Ok v \/ parse_at (Some fnew) = Ok v) /\ d = code v.

    Lemma aw_states_whole : Forall (fun s => old_or_new (lookup path s)) (aw_states r).
    Proof.
      unfold aw_states. apply Forall_forall. intros s Hin. apply in_map_iff in Hin.
      destruct Hin as [[e s'] [Es Hin]]. cbn [snd] in Es. subst s'.
      destruct (aw_reader_sees_whole fs0 path new now cands sc Hnc e s Hin) as [A|A].
      - left. rewrite A. exact Hold.
      - right. exact A.
    Qed.

    (* (2) *)
    Theorem reload_never_sees_torn_policy (s0 : sys) (its : list item) :
      world s0 = fs0 -> loaded s0 = [] ->
      let cf := run_sys its (aw_states r) {| cs := s0; thr := [] |} in
      (* the reader's view of the path: a complete file *)
      old_or_new (lookup path (world (cs cf)))
      (* the active policy *)
      /\ (policy (gd (cs cf)) = policy (gd s0)
          \/ (exists v, parse_at (Some fold) = Ok v /\ policy (gd (cs cf)) = code v)
          \/ (exists v, parse_at (Some fnew) = Ok v /\ policy (gd (cs cf)) = code v))
      (* everything load() ever returned, and what checks in flight are about to install *)
      /\ Forall whole_doc (loaded (cs cf))
      /\ Forall (fun p => match p with PApply _ _ d => whole_doc d | _ => True end) (thr cf)
      (* fail-safe: set_policy ran once per check that returned True, never otherwise *)
      /\ sets (gd (cs cf)) = (sets (gd s0) + count_true (thr cf))%nat.
    Proof.
      intros Hw Hl cf.
      assert (Hinv : whole_inv old_or_new [] cf).
      { unfold cf, run_sys. apply whole_run.
        - apply compile_whole. exact aw_states_whole.
        - split; cbn [cs]; [rewrite Hw; left; exact Hold|rewrite Hl; constructor]. }
      destruct Hinv as [Hp Hf].
      assert (Hwd : forall d, from_whole old_or_new [] d -> whole_doc d).
      { intros d [[]|(fo & v & Hfo & Hv & Hd)]. exists v. split; [|exact Hd].
        destruct Hfo as [-> | ->]; auto. }
      assert (Hf' : Forall whole_doc (loaded (cs cf))).
      { apply Forall_forall. intros d Hd. apply Hwd. rewrite Forall_forall in Hf. now apply Hf. }
      destruct (safe_from_start c fs_source s0 (compile its (aw_states r))) as (A & B & C).
      fold (run_sys its (aw_states r) {| cs := s0; thr := [] |}) in A, B, C. fold cf in A, B, C.
      split; [exact Hp|]. split; [|split; [exact Hf'|split; [|exact B]]].
      - destruct A as [A|A]; [now left|right].
        rewrite Forall_forall in Hf'. destruct (Hf' _ A) as (v & [Hv|Hv] & Hd); [left|right]; eauto.
      - apply Forall_forall. intros p Hp'. rewrite Forall_forall in C. specialize (C p Hp').
        destruct p; auto. simpl in C. rewrite Forall_forall in Hf'. now apply Hf'.
    Qed.

    (* ================================================================ *)
    (* (3) convergence once the write has completed                      *)
    (* ================================================================ *)
    Lemma aw_returned_new : r_out r = Returned -> lookup path (r_fs r) = Some fnew.
    Proof.
      intro R. pose proof (aw_returned_replaced fs0 path new now cands sc Hnc R) as Rp.
      destruct (aw_all_or_nothing fs0 path new now cands sc Hnc) as [[A _]|[_ B]]; [|exact B].
      unfold r in *. congruence.
    Qed.

    (* The write returned; [s] is the system at any later moment with the directory as the
       write left it.  Hypotheses on the tag, as in C10's convergence theorem: the stat-signature
       cache is coherent with the new file (see coherent_from_old for what that requires of
       (size, mtime_ns)), and the stored tag is not already the new file's (see ftag_differs:
       a different content hash suffices).  Then the next check that is due, or a forced one,
       returns True and installs parse(new); every later unforced check returns False, does not
       call load() and leaves the guard alone. *)
    Theorem reload_converges_after_atomic_write vnew (s : sys) force now1 u1 :
      r_out r = Returned ->
      world s = r_fs r ->
      parse_at (Some fnew) = Ok vnew ->
      coherent_in (r_fs r) (sst s) ->
      last_etag (rl s) <> Some (ftag fnew) ->
      (force = true \/ suppress_until (rl s) <= now1)%Q ->
      let r1 := run_check c fs_source force now1 u1 idw s in
      snd r1 = PDone true
      /\ gd (fst r1) = set_policy (code vnew) (gd s)
      /\ last_etag (rl (fst r1)) = Some (ftag fnew)
      /\ last_error (rl (fst r1)) = false
      /\ forall its, only_checks its ->
           let s3 := run_seq c fs_source its (fst r1) in
           policy (gd s3) = code vnew /\ world s3 = r_fs r /\
           forall now' u',
             let r4 := run_check c fs_source false now' u' idw s3 in
             snd r4 = PDone false /\ gd (fst r4) = gd s3 /\ n_load (fst r4) = n_load s3.
    Proof.
      intros R Hws Hp HI Hne Hdue r1.
      pose proof (aw_returned_new R) as Hnew.
      destruct (check_after_write (r_fs r) fnew vnew Hnew Hp force now1 u1 s Hws HI Hdue) as [A _].
      destruct (A (or_intror Hne)) as (A1 & A2 & _ & A4 & A5). fold r1 in A1, A2, A4, A5.
      split; [exact A1|]. split; [exact A2|]. split; [apply A5|]. split; [exact A4|].
      intros its Ho s3.
      destruct (settled_after_write (r_fs r) fnew vnew Hnew Hp (fst r1) A5) as [_ B].
      exact (B its Ho).
    Qed.

    (* the two hypotheses on the tag, from what an operator can see *)
    Lemma ftag_differs : h (f_data fold) <> h new -> ftag fold <> ftag fnew.
    Proof. unfold ftag, fnew. cbn [f_data f_mtime]. intros N E. destruct (c_incl_mtime fcfg); inversion E; contradiction. Qed.
    Lemma ftag_differs_mtime : c_incl_mtime fcfg = true -> f_mtime fold <> now -> ftag fold <> ftag fnew.
    Proof.
      unfold ftag, fnew. cbn [f_data f_mtime]. intros -> N E. injection E as _ Z. apply znat_inj in Z. contradiction.
    Qed.

    (* The stat-signature cache after the write: it is empty, or was filled from the old file;
       and the new file's (size, mtime_ns) differs from the old one's - or else the text has
       the old hash.  (atomic_write stamps the temp file with the time of its last write; an
       operator who rewrites a same-length document within one mtime tick violates this, and
       c16_stale_without_sig_change shows the stale tag that results.) *)
    Definition cache_of_old (st : fstate) : Prop :=
      match csig Reload.bytes st, csha Reload.bytes st with
      | Some sg, Some sha => sg = sig_of fold /\ sha = h (f_data fold)
      | _, _ => True
      end.
    Lemma coherent_from_old st :
      r_out r = Returned -> cache_of_old st ->
      (sig_of fold = sig_of fnew -> h (f_data fold) = h new) ->
      coherent_in (r_fs r) st.
    Proof.
      intros R Hc Hs. unfold coherent. fold path. rewrite (aw_returned_new R).
      unfold cache_of_old in Hc.
      destruct (csig Reload.bytes st) as [sg|]; [|exact I]. destruct (csha Reload.bytes st) as [sha|]; [|exact I].
      destruct Hc as [-> ->]. exact Hs.
    Qed.

    (* ================================================================ *)
    (* (3') convergence THROUGH the write: any interleaving, then one    *)
    (* check                                                             *)
    (* ================================================================ *)
    Section Through.
      Variable vnew : value.
      Hypothesis Hparse : parse_at (Some fnew) = Ok vnew.
      Hypothesis Htag : ftag fold <> ftag fnew.
      Hypothesis Hsig : sig_of fold = sig_of fnew -> h (f_data fold) = h new.

      Definition is_old (s : fsys) : Prop := lookup path s = Some fold.
      Definition is_new (s : fsys) : Prop := lookup path s = Some fnew.

      (* old ... old new ... new : the path never goes back *)
      Fixpoint mono (l : list fsys) : Prop :=
        match l with
        | [] => True
        | s :: l' => (is_old s /\ mono l') \/ Forall is_new (s :: l')
        end.

      Lemma new_mono l : Forall is_new l -> mono l.
      Proof. destruct l; [exact (fun _ => I)|]. intro F. right. exact F. Qed.
      Lemma mono_tail s l : mono (s :: l) -> mono l.
      Proof. intros [[_ M]|F]; [exact M|]. inversion F; subst. now apply new_mono. Qed.
      Lemma mono_head s l : mono (s :: l) -> is_old s \/ is_new s.
      Proof. intros [[O _]|F]; [now left|]. inversion F; subst. now right. Qed.
      Lemma old_new_excl s : is_old s -> is_new s -> False.
      Proof. unfold is_old, is_new. intros O N. rewrite O in N. inversion N as [E]. apply Htag. now rewrite E. Qed.
      Lemma mono_new s l : is_new s -> mono (s :: l) -> Forall is_new (s :: l).
      Proof. intros N [[O _]|F]; [destruct (old_new_excl s O N)|exact F]. Qed.

      Lemma timeline_mono (tr : FileStore.trace) :
        (forall t1 e s t2, tr = t1 ++ (e, s) :: t2 ->
           lookup path s = if has_replace (t1 ++ [(e, s)]) then Some fnew else Some fold) ->
        forall t2 t1, tr = t1 ++ t2 ->
          if has_replace t1 then Forall is_new (map snd t2) else mono (map snd t2).
      Proof.
        intros T. induction t2 as [|[e s] t2 IH]; intros t1 E.
        - destruct (has_replace t1); constructor.
        - specialize (T t1 e s t2 E).
          assert (E' : tr = (t1 ++ [(e, s)]) ++ t2) by (rewrite <- app_assoc; exact E).
          specialize (IH _ E'). rewrite has_replace_app in *. cbn [map snd].
          destruct (has_replace t1); cbn [orb] in *.
          + constructor; [exact T|exact IH].
          + destruct (has_replace [(e, s)]).
            * right. constructor; [exact T|exact IH].
            * left. split; [exact T|exact IH].
      Qed.

      Lemma aw_mono : mono (fs0 :: aw_states r).
      Proof.
        left. split; [exact Hold|]. unfold aw_states.
        apply (timeline_mono (r_trace r)) with (t1 := []); [|reflexivity].
        intros t1 e s t2 E. rewrite (aw_timeline fs0 path new now cands sc Hnc t1 e s t2 E). rewrite Hold. reflexivity.
      Qed.

      Definition cache_ok (st : fstate) : Prop :=
        match csig Reload.bytes st, csha Reload.bytes st with
        | Some sg, Some sha =>
            (sg = sig_of fold /\ sha = h (f_data fold)) \/ (sg = sig_of fnew /\ sha = h new)
        | _, _ => True
        end.

      Lemma cache_ok_coherent fs st : is_old fs \/ is_new fs -> cache_ok st -> coherent_in fs st.
      Proof.
        intros Hf Hc. unfold coherent, cache_ok in *. fold path.
        destruct (csig Reload.bytes st) as [sg|]; [|destruct (lookup path fs); exact I].
        destruct (csha Reload.bytes st) as [sha|]; [|destruct (lookup path fs); exact I].
        destruct Hf as [O|N]; [rewrite O|rewrite N]; intros ->.
        - destruct Hc as [[_ ->]|[E ->]]; [reflexivity|]. symmetry. apply Hsig. exact E.
        - destruct Hc as [[E ->]|[_ ->]]; [|reflexivity]. apply Hsig. symmetry. exact E.
      Qed.

      (* etag() during and after the write: exact, and the cache stays of the two files *)
      Lemma s_etag_exact fs st : mono [fs] -> cache_ok st ->
        exists st' f, lookup path fs = Some f /\ (f = fold \/ f = fnew)
                      /\ s_etag fs_source st fs = (st', SOk (RStr (ftag f))) /\ cache_ok st'.
      Proof.
        intros M Hc. pose proof (cache_ok_coherent fs st (mono_head _ _ M) Hc) as Co.
        assert (Hf : exists f, lookup path fs = Some f /\ (f = fold \/ f = fnew)).
        { destruct (mono_head _ _ M) as [O|N]; [exists fold|exists fnew]; auto. }
        destruct Hf as (f & L & Hf).
        destruct (etag_coherent fs st f L Co) as (st' & E & _ & Hst).
        exists st', f. split; [exact L|]. split; [exact Hf|]. split.
        - cbn [s_etag fs_source]. rewrite E, conv_exact_tag. reflexivity.
        - destruct Hst as [-> | ->]; [exact Hc|]. unfold cache_ok. cbn [csig csha].
          destruct Hf as [-> | ->]; [left|right]; auto.
      Qed.

      (* what a check in flight may hold *)
      Definition thr_conv (w : fsys) (p : pc) : Prop :=
        match p with
        | PLoad _ (Some t) => t = ftag fnew -> is_new w           (* it hashed the new file: the new file is there *)
        | PApply _ (Some t) d => t = ftag fnew -> d = code vnew   (* new tag, new document *)
        | _ => True
        end.

      Notation coh_new := (coh (code vnew) (Some (ftag fnew))).

      Definition Kinv (states : list fsys) (cf : conf) : Prop :=
        mono (world (cs cf) :: states) /\ cache_ok (sst (cs cf)) /\ coh_new (cs cf)
        /\ Forall (thr_conv (world (cs cf))) (thr cf).

      Lemma K_step now' u' (s s' : sys) p p' :
        mono [world s] -> cache_ok (sst s) -> coh_new s -> thr_conv (world s) p ->
        step c fs_source now' u' s p = (s', p') ->
        cache_ok (sst s') /\ coh_new s' /\ thr_conv (world s) p'.
      Proof.
        intros M Hc Hco Hp.
        destruct p as [force|force now0 last|now0 e|now0 e d|now0|rr]; cbn [step]; intro E.
        - destruct (qltb now' (suppress_until (rl s)) && negb force); inversion E; subst; cbn [thr_conv]; auto.
        - destruct (s_etag_exact (world s) (sst s) M Hc) as (st' & f & L & Hf & Ee & Hc').
          rewrite Ee in E. cbn [norm] in E.
          assert (Hl : thr_conv (world s) (PLoad now0 (Some (ftag f)))).
          { cbn [thr_conv]. intro Et. destruct Hf as [-> | ->]; [contradiction|exact L]. }
          destruct force.
          + inversion E; subst. cbn [sst]. auto.
          + destruct (same_tag (Some (ftag f)) last); inversion E; subst; cbn [sst thr_conv]; auto.
        - rewrite s_load_eq in E.
          destruct (parse_at (lookup path (world s))) as [v| |wh|] eqn:Ep; cbn [conv_load] in E;
            inversion E; subst; cbn [sst thr_conv]; auto.
          split; [exact Hc|]. split; [exact Hco|]. destruct e as [t|]; [|exact I].
          intro Et. cbn [thr_conv] in Hp. specialize (Hp Et). unfold is_new in Hp. rewrite Hp, Hparse in Ep.
          inversion Ep. reflexivity.
        - inversion E; subst. cbn [sst thr_conv]. split; [exact Hc|]. split; [|exact I].
          intros t Et Hl. cbn [rl applied last_etag] in Hl. cbn [gd set_policy policy].
          destruct e as [t'|]; [|discriminate]. cbn [thr_conv] in Hp. apply Hp. congruence.
        - inversion E; subst. cbn [sst thr_conv]. auto.
        - inversion E; subst. auto.
      Qed.

      Lemma K_run its : forall states cf,
        Kinv states cf -> Kinv (pending its states) (run_sys its states cf).
      Proof.
        unfold run_sys.
        induction its as [|it its IH]; intros states cf K; [exact K|].
        assert (Hnw : forall l, (match l with LWorld _ => False | _ => True end) ->
                  Kinv states (exec c fs_source cf l)).
        { intros l Hl. destruct K as (M & Hc & Hco & Hf). destruct l as [f|force|i now' u']; [contradiction| |].
          - cbn [exec]. unfold Kinv; cbn [cs thr]. repeat split; auto.
            apply Forall_app. split; [exact Hf|]. constructor; [exact I|constructor].
          - cbn [exec]. destruct (nth_error (thr cf) i) as [p|] eqn:En; [|unfold Kinv; auto].
            destruct (step c fs_source now' u' (cs cf) p) as [s' p'] eqn:Es.
            assert (M1 : mono [world (cs cf)]).
            { destruct (mono_head _ _ M) as [O|N]; [left; split; [exact O|exact I]|right; constructor; [exact N|constructor]]. }
            destruct (K_step now' u' _ _ _ _ M1 Hc Hco (nth_error_Forall _ _ _ _ Hf En) Es) as (A & B & C).
            unfold Kinv; cbn [cs thr]. rewrite (step_world _ _ _ _ _ _ Es). repeat split; auto.
            apply replace_Forall; auto. }
        destruct it as [|f|i n u]; cbn [compile pending].
        - destruct states as [|s' states'].
          + apply (IH [] cf K).
          + cbn [Reload.run fold_left]. apply (IH states'). destruct K as (M & Hc & Hco & Hf).
            unfold Kinv; cbn [exec cs thr world set_world sst rl gd]. repeat split; auto.
            * exact (mono_tail _ _ M).
            * apply Forall_forall. intros p Hp. rewrite Forall_forall in Hf. specialize (Hf p Hp).
              destruct p as [| |n0 [t|]|n0 [t|] d| |]; cbn [thr_conv] in *; auto.
              intro Et. specialize (Hf Et). pose proof (mono_new _ _ Hf M) as F.
              inversion F as [|? ? _ F']. inversion F'; subst. assumption.
        - cbn [Reload.run fold_left]. apply (IH states). exact (Hnw (LSpawn f) I).
        - cbn [Reload.run fold_left]. apply (IH states). exact (Hnw (LStep i n u) I).
      Qed.

      (* The operator's atomic_write returns; the reloader polls all along: ANY schedule of
         checks (plain or forced, overlapping) with the writer's steps in which the writer
         finishes.  Start: the file holds [fold]; no check in flight; the stat-signature cache
         is empty or of the old file (cache_ok); the stored tag is not the new file's unless
         the guard already enforces parse(new) (coh: C10's proviso - e.g. the reloader was primed
         on, or last loaded, the old file).  Then one more check that is due, or forced, leaves
         the engine on parse(new) with the new file's tag stored, and from there every unforced
         check returns False without loading. *)
      Theorem reload_converges_through_atomic_write (s0 : sys) (its : list item) force now1 u1 :
        r_out r = Returned ->
        world s0 = fs0 -> cache_ok (sst s0) -> coh_new s0 ->
        pending its (aw_states r) = [] ->
        let s := cs (run_sys its (aw_states r) {| cs := s0; thr := [] |}) in
        (force = true \/ suppress_until (rl s) <= now1)%Q ->
        let s1 := fst (run_check c fs_source force now1 u1 idw s) in
        world s = r_fs r
        /\ policy (gd s1) = code vnew /\ last_etag (rl s1) = Some (ftag fnew)
        /\ forall its', only_checks its' ->
             let s3 := run_seq c fs_source its' s1 in
             policy (gd s3) = code vnew /\ world s3 = r_fs r /\
             forall now' u',
               let r4 := run_check c fs_source false now' u' idw s3 in
               snd r4 = PDone false /\ gd (fst r4) = gd s3 /\ n_load (fst r4) = n_load s3.
      Proof.
        intros R Hw0 Hc0 Hco0 Hpend s Hdue s1.
        pose proof (aw_returned_new R) as Hnew.
        assert (K0 : Kinv (aw_states r) {| cs := s0; thr := [] |}).
        { unfold Kinv; cbn [cs thr]. rewrite Hw0. repeat split; auto. exact aw_mono. }
        pose proof (K_run its _ _ K0) as K. rewrite Hpend in K. destruct K as (_ & Hc & Hco & _). fold s in Hc, Hco.
        assert (Hws : world s = r_fs r).
        { unfold s. rewrite run_sys_world, Hpend. cbn [List.length cs]. rewrite Nat.sub_0_r, firstn_all, Hw0.
          symmetry. apply aw_final_is_last. }
        split; [exact Hws|].
        assert (HI : cache_fine (r_fs r) (sst s)).
        { apply cache_ok_coherent; [right; exact Hnew|exact Hc]. }
        assert (Hset : settled (r_fs r) (code vnew) (Some (ftag fnew)) (cache_fine (r_fs r)) s1).
        { unfold s1. destruct force.
          - destruct (check_after_write (r_fs r) fnew vnew Hnew Hparse true now1 u1 s Hws HI Hdue) as [A _].
            destruct (A (or_introl eq_refl)) as (_ & _ & _ & _ & A5). exact A5.
          - destruct Hdue as [Hd|Hd]; [discriminate|].
            apply (stable_check c fs_source (r_fs r) (code vnew) (Some (ftag fnew)) (cache_fine (r_fs r))
                     (Hetag_w (r_fs r) fnew Hnew) (Hload_w (r_fs r) fnew vnew Hnew Hparse)); auto. }
        destruct (settled_after_write (r_fs r) fnew vnew Hnew Hparse s1 Hset) as [A B].
        split; [exact A|]. split; [apply Hset|]. exact B.
      Qed.
    End Through.
  End OneWrite.
End ReloadFile.

(* ================================================================== *)
(* (4) non-vacuity: a concrete deployment                              *)
(* ================================================================== *)
Module Example.
  Local Open Scope string_scope.
  Local Open Scope Q_scope.

  (* a YAML policy file: the old text, the new text, and - what makes tearing dangerous -
     a proper prefix of the new text that is itself a valid, different document *)
  Definition old_text : FileStore.bytes := "v: 1".
  Definition new_text : FileStore.bytes := "v: 22".
  Definition torn_text : FileStore.bytes := "v: 2".
  Definition pol (z : Z) : value := VObj [("v", VNum (NInt z))].
  Definition ex_yaml (b : FileStore.bytes) : res value :=
    if String.eqb b old_text then Ok (pol 1)
    else if String.eqb b new_text then Ok (pol 22)
    else if String.eqb b torn_text then Ok (pol 2)
    else Raise "ScannerError".
  Definition ex_json (_ : FileStore.bytes) : res value := Raise "JSONDecodeError".
  Definition ex_code (v : value) : doc :=
    match v with VObj [(_, VNum (NInt z))] => Z.to_nat z | _ => 0%nat end.
  (* a stand-in digest: the sum of the character codes (the theorems' hypotheses about it are
     discharged below by computation) *)
  Fixpoint csum (s : string) : nat :=
    match s with EmptyString => 0%nat | String a r => (Ascii.nat_of_ascii a + csum r)%nat end.
  Definition ex_h (b : FileStore.bytes) : Reload.bytes := BBad (csum b).

  Definition ex_fcfg : config := mkCfg "policy.yaml" false false.
  Definition ex_c : Reload.cfg := {| bmin := 2; bmax := 30; jratio := 1 # 8 |}.
  Definition ex_src := fs_source ex_h ex_json ex_yaml (fun _ => true) ex_code ex_fcfg.
  Definition ex_run := run_sys ex_h ex_json ex_yaml (fun _ => true) ex_code ex_fcfg ex_c.
  Definition ex_parse := parse_at ex_json ex_yaml (fun _ => true) ex_fcfg.

  Definition fold : file := mkFile old_text 5.
  Definition fs0 : fsys := [("policy.yaml", fold); (".rbacx.tmp.stale", mkFile "LEFTOVER" 3)].
  Definition cands : list string := ["stale"; "k3"].
  Definition ex_write (sc : script) : wresult := atomic_write fs0 "policy.yaml" new_text 9 cands sc.

  (* HotReloader(guard, FilePolicySource("policy.yaml")) with the guard built from the old
     policy: initial_load = False, so construction primes the stored tag on the old file *)
  Definition s0 : Reload.sys fsys (FileStore.source Reload.bytes) :=
    init ex_c ex_src false false 1%nat fs0 (fresh Reload.bytes).

  Example ex_not_candidate : not_candidate "policy.yaml" cands.
  Proof. intros x [<-|[<-|[]]]; discriminate. Qed.
  Example ex_start :
    lookup "policy.yaml" fs0 = Some fold /\ world s0 = fs0 /\ loaded s0 = [] /\ policy (gd s0) = 1%nat
    /\ last_etag (rl s0) = Some (TSha (ex_h old_text)) /\ ex_parse (Some fold) = Ok (pol 1).
  Proof. vm_compute. repeat split. Qed.

  (* --- the writer is killed in the middle of f.write(): "v: 2" has reached the temp file --- *)
  Definition sc_crash : script := mkScript Done Done [(4%nat, Done); (1%nat, Crash)] Done Done Done.
  Definition its_crash : list item :=
    [IWrite; ISpawn true; IStep 0 10 0; IWrite; IStep 0 10 0; IWrite; IStep 0 10 0; IStep 0 10 0;
     IWrite;                                       (* the writer is dead: nothing happens *)
     ISpawn false; IStep 1 20 0; IStep 1 20 0; IStep 1 20 0; IStep 1 20 0].

  Example ex_crash_in_the_middle :
    let r := ex_write sc_crash in
    let cf := ex_run its_crash (aw_states r) {| cs := s0; thr := [] |} in
    r_out r = Crashed /\ map fst (r_trace r) = [EMkstemp; EFdopen; EPiece]
    (* the partial text is on the disk, and it WOULD parse to a valid policy ... *)
    /\ lookup ".rbacx.tmp.k3" (world (cs cf)) = Some (mkFile torn_text 9)
    /\ ex_parse (Some (mkFile torn_text 9)) = Ok (pol 2)
    (* ... but the path holds the old file; the forced check reloaded the old policy, the
       unforced one found the tag unchanged *)
    /\ lookup "policy.yaml" (world (cs cf)) = Some fold
    /\ thr cf = [PDone true; PDone false] /\ policy (gd (cs cf)) = 1%nat /\ sets (gd (cs cf)) = 1%nat
    /\ loaded (cs cf) = [1%nat] /\ last_etag (rl (cs cf)) = Some (TSha (ex_h old_text)).
  Proof. vm_compute. repeat split. Qed.

  (* --- a completed write, with a forced check that straddles the rename: it hashes the old
         file, loads the new one, and stores the OLD tag with the NEW policy; an unforced check
         before the rename finds nothing to do --- *)
  Definition sc_done : script := mkScript Done Done [(4%nat, Done)] Done Done Done.
  Definition its_done : list item :=
    [ISpawn false; IWrite; IStep 0 10 0; IWrite; IStep 0 10 0; IWrite;       (* check 0: tag unchanged *)
     ISpawn true; IStep 1 11 0; IStep 1 11 0;                               (* check 1: etag() of the old file *)
     IWrite; IWrite;                                                        (* close, os.replace *)
     IStep 1 11 0; IStep 1 11 0;                                            (* check 1: load() of the new file, apply *)
     IWrite].                                                               (* the finally-unlink *)

  Example ex_completed_write :
    let r := ex_write sc_done in
    let cf := ex_run its_done (aw_states r) {| cs := s0; thr := [] |} in
    let r1 := run_check ex_c ex_src false 20 0 idw (cs cf) in
    let r2 := run_check ex_c ex_src false 30 0 idw (fst r1) in
    r_out r = Returned
    /\ map fst (r_trace r) = [EMkstemp; EFdopen; EPiece; EClose; EReplace; EUnlink]
    /\ pending its_done (aw_states r) = []
    /\ world (cs cf) = [("policy.yaml", mkFile new_text 9); (".rbacx.tmp.stale", mkFile "LEFTOVER" 3)]
    /\ thr cf = [PDone false; PDone true] /\ policy (gd (cs cf)) = 22%nat
    /\ last_etag (rl (cs cf)) = Some (TSha (ex_h old_text))          (* the stale tag *)
    (* the next due check sees the new tag: True, parse(new) installed (again), new tag stored *)
    /\ snd r1 = PDone true /\ policy (gd (fst r1)) = 22%nat /\ sets (gd (fst r1)) = 2%nat
    /\ last_etag (rl (fst r1)) = Some (TSha (ex_h new_text))
    (* and the one after it: False, no load *)
    /\ snd r2 = PDone false /\ gd (fst r2) = gd (fst r1) /\ n_load (fst r2) = n_load (fst r1).
  Proof. vm_compute. repeat split. Qed.

  (* the hypotheses of reload_converges_through_atomic_write hold of this deployment *)
  Example ex_hypotheses :
    let fnew := mkFile new_text 9 in
    ex_parse (Some fnew) = Ok (pol 22)
    /\ ftag ex_h ex_fcfg fold <> ftag ex_h ex_fcfg fnew
    /\ (sig_of fold = sig_of fnew -> ex_h (f_data fold) = ex_h new_text)
    /\ cache_ok ex_h fold new_text 9 (sst s0)
    /\ coh (ex_code (pol 22)) (Some (ftag ex_h ex_fcfg fnew)) s0
    /\ coherent Reload.bytes ex_h ex_fcfg (sst s0) (r_fs (ex_write sc_done)).
  Proof.
    cbv zeta. split; [vm_compute; reflexivity|]. split; [vm_compute; discriminate|].
    split; [vm_compute; discriminate|]. split; [vm_compute; left; split; reflexivity|].
    split; [intros t Et El; vm_compute in Et, El; congruence|].
    unfold coherent. vm_compute. discriminate.
  Qed.

  (* the theorems applied to it: whatever the schedule and whatever the fault script *)
  Example ex_never_torn (sc : script) (its : list item) :
    let cf := ex_run its (aw_states (ex_write sc)) {| cs := s0; thr := [] |} in
    policy (gd (cs cf)) = 1%nat \/ policy (gd (cs cf)) = 22%nat.
  Proof.
    intro cf.
    destruct (reload_never_sees_torn_policy ex_h ex_json ex_yaml (fun _ => true) ex_code ex_fcfg ex_c
                fs0 fold new_text 9 cands sc ex_not_candidate eq_refl s0 its eq_refl eq_refl)
      as (_ & [A|[(v & Hv & A)|(v & Hv & A)]] & _); fold ex_run in A; fold cf in A.
    - left. exact A.
    - left. vm_compute in Hv. inversion Hv; subst v. exact A.
    - right. vm_compute in Hv. inversion Hv; subst v. exact A.
  Qed.

  (* What atomic_write buys.  An operator who rewrites the file IN PLACE exposes the prefix:
     a check between the two writes installs the policy parsed from "v: 2" - neither the
     guard's initial policy, nor parse(old), nor parse(new). *)
  Example ex_in_place_write_tears :
    let cf := Reload.run ex_c ex_src
                [LWorld (apply_wop "policy.yaml" (WSet torn_text 9));        (* first piece of an in-place write *)
                 LSpawn false; LStep 0 10 0; LStep 0 10 0; LStep 0 10 0; LStep 0 10 0;
                 LWorld (apply_wop "policy.yaml" (WSet new_text 9))]         (* the rest *)
                {| cs := s0; thr := [] |} in
    thr cf = [PDone true] /\ policy (gd (cs cf)) = 2%nat
    /\ lookup "policy.yaml" (world (cs cf)) = Some (mkFile new_text 9).
  Proof. vm_compute. repeat split. Qed.
End Example.
