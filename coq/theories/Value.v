(* Value.v — JSON-like values as the Python code sees them, and the Python
   primitives on them that the modelled code uses: ==, bool(), str(), `in`.
   No proofs here (so the model still runs when a proof breaks). *)
From Coq Require Import ZArith List Bool String Ascii DecimalString.
Import ListNotations.
Local Open Scope string_scope.
Local Open Scope Z_scope.

(* ---------- numbers ---------- *)
(* A Python float is NaN, +-inf, or the exact dyadic rational m * 2^e. *)
Inductive flt := FNaN | FInf (neg : bool) | FFin (m e : Z).

(* repr = Python's str()/repr() of the float, supplied by the harness (the
   model never computes a float repr; it only copies it). *)
Inductive num := NInt (z : Z) | NFlt (f : flt) (repr : string).

Inductive value :=
| VNull
| VBool (b : bool)
| VNum (n : num)
| VStr (s : string)                      (* UTF-8 bytes *)
| VList (l : list value)
| VObj (kvs : list (string * value))     (* insertion order kept; keys unique *)
| VDate (aware : bool) (us : Z).         (* datetime: microseconds since epoch, naive read as UTC *)

(* Results of evaluating something Python might raise on. *)
Inductive res (A : Type) :=
| Ok (a : A)
| TypeErr                 (* ConditionTypeError *)
| Raise (what : string)   (* any other exception escaping *)
| Ood.                    (* outside the model's declared domain *)
Arguments Ok {A} a.
Arguments TypeErr {A}.
Arguments Raise {A} what.
Arguments Ood {A}.

Definition rbind {A B} (r : res A) (f : A -> res B) : res B :=
  match r with Ok a => f a | TypeErr => TypeErr | Raise w => Raise w | Ood => Ood end.
Notation "x <- r ;; k" := (rbind r (fun x => k)) (at level 61, r at next level, right associativity).

(* ---------- dict access ---------- *)
Fixpoint assoc (k : string) (kvs : list (string * value)) : option value :=
  match kvs with
  | [] => None
  | (k', v) :: r => if String.eqb k k' then Some v else assoc k r
  end.

(* d.get(k) on a value known (or not) to be a dict; None for non-dicts is the
   caller's business.  get_key returns VNull for a missing key, as dict.get does. *)
Definition get_key (k : string) (v : value) : value :=
  match v with
  | VObj kvs => match assoc k kvs with Some x => x | None => VNull end
  | _ => VNull
  end.
Definition has_key (k : string) (v : value) : bool :=
  match v with
  | VObj kvs => match assoc k kvs with Some _ => true | None => false end
  | _ => false
  end.
Definition is_obj (v : value) : bool := match v with VObj _ => true | _ => false end.
Definition is_list (v : value) : bool := match v with VList _ => true | _ => false end.
Definition is_str (v : value) : bool := match v with VStr _ => true | _ => false end.
Definition is_null (v : value) : bool := match v with VNull => true | _ => false end.

(* ---------- exact numeric comparison ---------- *)
(* compare m1*2^e1 with m2*2^e2 exactly *)
Definition dy_cmp (m1 e1 m2 e2 : Z) : comparison :=
  let e := Z.min e1 e2 in
  Z.compare (m1 * 2 ^ (e1 - e)) (m2 * 2 ^ (e2 - e)).

(* numeric view: bools are ints in Python *)
Inductive nview := NvNaN | NvInf (neg : bool) | NvFin (m e : Z).
Definition num_view (n : num) : nview :=
  match n with
  | NInt z => NvFin z 0
  | NFlt FNaN _ => NvNaN
  | NFlt (FInf s) _ => NvInf s
  | NFlt (FFin m e) _ => NvFin m e
  end.

(* Python's exact int/float comparison; None when a NaN is involved. *)
Definition nv_cmp (a b : nview) : option comparison :=
  match a, b with
  | NvNaN, _ | _, NvNaN => None
  | NvInf s1, NvInf s2 => Some (if Bool.eqb s1 s2 then Eq else if s1 then Lt else Gt)
  | NvInf s, NvFin _ _ => Some (if s then Lt else Gt)
  | NvFin _ _, NvInf s => Some (if s then Gt else Lt)
  | NvFin m1 e1, NvFin m2 e2 => Some (dy_cmp m1 e1 m2 e2)
  end.
Definition nv_eq (a b : nview) : bool :=
  match nv_cmp a b with Some Eq => true | _ => false end.

Definition as_number (v : value) : option nview :=
  match v with
  | VBool b => Some (NvFin (if b then 1 else 0) 0)
  | VNum n => Some (num_view n)
  | _ => None
  end.

(* ---------- Python == ---------- *)
(* Written with nested fixes so that the guard checker accepts it. *)
Fixpoint py_eq (a b : value) {struct a} : bool :=
  match a, b with
  | VNull, VNull => true
  | VStr s, VStr t => String.eqb s t
  | VDate a1 u1, VDate a2 u2 => Bool.eqb a1 a2 && Z.eqb u1 u2
  | VList l1, VList l2 =>
      (fix go (l1 l2 : list value) : bool :=
         match l1, l2 with
         | [], [] => true
         | x :: xs, y :: ys => py_eq x y && go xs ys
         | _, _ => false
         end) l1 l2
  | VObj k1, VObj k2 =>
      Nat.eqb (List.length k1) (List.length k2) &&
      (fix go (k1 : list (string * value)) : bool :=
         match k1 with
         | [] => true
         | (k, v) :: r =>
             match assoc k k2 with
             | Some w => py_eq v w && go r
             | None => false
             end
         end) k1
  | _, _ =>
      match as_number a, as_number b with
      | Some x, Some y => nv_eq x y
      | _, _ => false
      end
  end.

(* x in list  (list.__contains__: any(e == x)); identity shortcut on NaN is
   outside the model — see nan_free. *)
Definition py_in_list (x : value) (l : list value) : bool :=
  existsb (fun e => py_eq e x) l.

(* ---------- bool(x) ---------- *)
Definition py_truthy (v : value) : bool :=
  match v with
  | VNull => false
  | VBool b => b
  | VNum n => match num_view n with
              | NvNaN => true | NvInf _ => true
              | NvFin m _ => negb (Z.eqb m 0)
              end
  | VStr s => negb (String.eqb s "")
  | VList l => match l with [] => false | _ => true end
  | VObj k => match k with [] => false | _ => true end
  | VDate _ _ => true
  end.

(* `x or d` *)
Definition py_or (x d : value) : value := if py_truthy x then x else d.

(* ---------- NaN-freeness (domain guard for container equality) ---------- *)
Fixpoint has_nan (v : value) : bool :=
  match v with
  | VNum (NFlt FNaN _) => true
  | VList l => existsb has_nan l
  | VObj kvs => existsb (fun kv => has_nan (snd kv)) kvs
  | _ => false
  end.
Definition nested_nan (v : value) : bool :=
  match v with
  | VList l => existsb has_nan l
  | VObj kvs => existsb (fun kv => has_nan (snd kv)) kvs
  | _ => false
  end.

(* ---------- str(x) ---------- *)
Definition z_to_string (z : Z) : string := NilZero.string_of_int (Z.to_int z).

Definition printable_ascii (c : ascii) : bool :=
  let n := nat_of_ascii c in (Nat.leb 32 n && Nat.leb n 126)%bool.

Fixpoint str_forall (p : ascii -> bool) (s : string) : bool :=
  match s with EmptyString => true | String c r => p c && str_forall p r end.
Fixpoint str_exists (p : ascii -> bool) (s : string) : bool :=
  match s with EmptyString => false | String c r => p c || str_exists p r end.

(* repr() of a printable-ASCII str: Python prefers single quotes, switches to
   double quotes when the string has a single quote and no double quote, and
   escapes backslash and the chosen quote. *)
Fixpoint esc_with (q : ascii) (s : string) : string :=
  match s with
  | EmptyString => EmptyString
  | String c r =>
      if Ascii.eqb c "\"%char then String "\"%char (String "\"%char (esc_with q r))
      else if Ascii.eqb c q then String "\"%char (String c (esc_with q r))
      else String c (esc_with q r)
  end.
Definition sq : ascii := "'"%char.
Definition dq : ascii := """"%char.
Definition py_repr_str (s : string) : option string :=
  if str_forall printable_ascii s then
    let has_s := str_exists (Ascii.eqb sq) s in
    let has_d := str_exists (Ascii.eqb dq) s in
    let q := if has_s && negb has_d then dq else sq in
    Some (String q (esc_with q s ++ String q EmptyString))
  else None.

Fixpoint join (sep : string) (l : list string) : string :=
  match l with
  | [] => ""
  | [x] => x
  | x :: r => x ++ sep ++ join sep r
  end.

Fixpoint opt_all {A} (l : list (option A)) : option (list A) :=
  match l with
  | [] => Some []
  | None :: _ => None
  | Some x :: r => match opt_all r with Some r' => Some (x :: r') | None => None end
  end.

(* repr(x) for values; None = outside the modelled domain (non-ASCII or
   non-printable strings inside containers, datetimes). *)
Fixpoint py_repr (v : value) : option string :=
  match v with
  | VNull => Some "None"
  | VBool true => Some "True"
  | VBool false => Some "False"
  | VNum (NInt z) => Some (z_to_string z)
  | VNum (NFlt _ r) => Some r
  | VStr s => py_repr_str s
  | VList l =>
      match opt_all (map py_repr l) with
      | Some parts => Some ("[" ++ join ", " parts ++ "]")
      | None => None
      end
  | VObj kvs =>
      match opt_all (map (fun kv =>
               match py_repr_str (fst kv), py_repr (snd kv) with
               | Some k, Some x => Some (k ++ ": " ++ x)
               | _, _ => None
               end) kvs) with
      | Some parts => Some ("{" ++ join ", " parts ++ "}")
      | None => None
      end
  | VDate _ _ => None
  end.

(* str(x): strings are themselves, everything else is repr. *)
Definition py_str (v : value) : option string :=
  match v with
  | VStr s => Some s
  | _ => py_repr v
  end.

(* ---------- ASCII lower() ---------- *)
Definition lower_ascii (c : ascii) : ascii :=
  let n := nat_of_ascii c in
  if (Nat.leb 65 n && Nat.leb n 90)%bool then ascii_of_nat (n + 32) else c.
Fixpoint str_lower (s : string) : string :=
  match s with EmptyString => EmptyString | String c r => String (lower_ascii c) (str_lower r) end.
Definition is_ascii_str (s : string) : bool :=
  str_forall (fun c => Nat.ltb (nat_of_ascii c) 128) s.

(* ---------- substring tests (bytes = code points on valid UTF-8) ---------- *)
Fixpoint str_prefix (p s : string) : bool :=
  match p, s with
  | EmptyString, _ => true
  | String a p', String b s' => Ascii.eqb a b && str_prefix p' s'
  | _, _ => false
  end.
Fixpoint str_contains (needle hay : string) : bool :=
  str_prefix needle hay ||
  match hay with
  | EmptyString => false
  | String _ r => str_contains needle r
  end.
Fixpoint str_rev_acc (s acc : string) : string :=
  match s with EmptyString => acc | String c r => str_rev_acc r (String c acc) end.
Definition str_rev (s : string) : string := str_rev_acc s EmptyString.
Definition str_suffix (p s : string) : bool := str_prefix (str_rev p) (str_rev s).

Fixpoint split_on (sep : ascii) (s : string) (cur : string) : list string :=
  match s with
  | EmptyString => [str_rev cur]
  | String c r => if Ascii.eqb c sep then str_rev cur :: split_on sep r EmptyString
                  else split_on sep r (String c cur)
  end.
Definition str_split (sep : ascii) (s : string) : list string := split_on sep s EmptyString.
