(* CacheGuard.v — model of Guard with a decision cache (src/rbacx/core/engine.py:
   _cache_key, _normalize_env_for_cache, the cache get/set of _evaluate_core_async,
   set_policy -> _install_policy + clear_cache, clear_cache) for ONE OR TWO guards
   that share ONE cache object, over histories of operations.  Definitions only.

   What is modelled, as the code is now:
   * key = f"{etag}:{json.dumps(env, sort_keys=True, ...)}": the pair
     (tag policy, norm env).  [tag] stands for sha3_256(json.dumps(policy,
     sort_keys=True)) and is a parameter; [norm] is the normal form the dumped text
     determines — CacheKey.canon for the code as it is (sort_keys=True), the identity
     for an engine that would key on the env as given (the reading in which finding
     F16 is absent); strict mode adds the key "__strict_types__" to the env
     (Engine.build_env), hence to the cache key.
   * the cache is any implementation of get/set/clear ([cache_impl]); two instances:
     the built-in DefaultInMemoryCache (Cache.v, any capacity, per-guard TTL, clock)
     and a dict-backed custom cache.  A set that raises (negative maxsize) is logged
     and swallowed by Guard: the result of the set step is ignored.
   * DefaultInMemoryCache stores the raw decision dict BY REFERENCE, and Guard writes
     raw["reason"] = "obligation_failed" into that very dict when an obligation is
     not met.  Raw decisions therefore live in a heap of cells; the cache holds cell
     numbers; [copying = true] is a cache that pickles (stores and returns copies).
   * a hit skips the decision functions only; effect/allowed/challenge are recomputed
     from the cached raw decision and the CURRENT context by the obligation checker
     of the evaluating guard ([oblig w]; the built-in checker is Engine.builtin_oblig).
   * `if key and self._current_policy_version() == version` is always true in a
     sequential history (no set_policy runs during an evaluation; C09 has the races).
   * no role resolver (C18); the relationship checker is the parameter [relh]. *)
From Coq Require Import ZArith List Bool String Ascii.
From Rbacx Require Import Value Cond Target Policy PolicySet Compiler Oblig Engine Cache CacheKey.
Import ListNotations.
Local Open Scope string_scope.
Local Open Scope list_scope.

(* raw["reason"] = s *)
Definition with_reason (r : raw) (s : string) : raw :=
  {| r_decision := r_decision r; r_reason := s; r_rule_id := r_rule_id r;
     r_obligations := r_obligations r; r_policy_id := r_policy_id r |}.
Definition mutated (r : raw) : raw := with_reason r "obligation_failed".

(* heap of raw decision dicts: a cell number is its position *)
Fixpoint heap_put (h : list raw) (l : nat) (r : raw) : list raw :=
  match h, l with
  | [], _ => []
  | _ :: t, O => r :: t
  | x :: t, Datatypes.S n => x :: heap_put t n r
  end.

(* one guard: Guard(policy, strict_types=..., cache_ttl=...) *)
Record gcfg := { g_strict : bool; g_policy : value; g_ttl : option Z }.
Definition with_policy (g : gcfg) (p : value) : gcfg :=
  {| g_strict := g_strict g; g_policy := p; g_ttl := g_ttl g |}.

(* operations of a history; [w] says which guard: false = the first, true = the second *)
Inductive hop :=
| HEval (w : bool) (req : value)
| HSetPolicy (w : bool) (p : value)       (* set_policy / update_policy *)
| HClear (w : bool)                       (* clear_cache *)
| HTick (dt : Z).                         (* the clock advances *)

Section CacheGuard.
  Variable S : Type.
  Variable relh : rel_query -> S -> bool * S.
  Variable T : Type.
  Variable tag : value -> T.
  Variable teqb : T -> T -> bool.
  Variable norm : value -> value.
  (* the obligation checker of guard w on (raw decision, context attrs); None = it raised *)
  Variable oblig : bool -> raw -> value -> option (bool * option string).

  Definition key : Type := T * value.
  Definition keqb (a b : key) : bool := teqb (fst a) (fst b) && veqb (snd a) (snd b).

  (* a cache object: state, fresh state, one operation (the operations and answers
     of Cache.v: get k now / set k v ttl t1 t2 / delete k / clear) *)
  Record cache_impl := {
    cst : Type;
    c_empty : cst;
    c_step : Cache.op key nat -> cst -> cst * Cache.result nat
  }.

  (* DefaultInMemoryCache(maxsize = cap) *)
  Definition lru_cache (cap : Z) : cache_impl :=
    {| cst := Cache.store key nat; c_empty := Cache.empty; c_step := Cache.step keqb cap |}.

  (* a custom cache backed by a plain dict: no capacity, ttl ignored *)
  Definition dict_step (o : Cache.op key nat) (s : list (key * nat)) : list (key * nat) * Cache.result nat :=
    match o with
    | OGet k _ => (s, match Cache.lfind keqb k s with Some v => RHit v | None => RMiss end)
    | OSet k v _ _ _ => ((k, v) :: Cache.lremove keqb k s, RDone)
    | ODelete k => (Cache.lremove keqb k s, RDone)
    | OClear => ([], RDone)
    end.
  Definition dict_cache : cache_impl := {| cst := list (key * nat); c_empty := []; c_step := dict_step |}.

  Variable M : cache_impl.
  Variable copying : bool.

  Record state := {
    s_g1 : gcfg; s_g2 : gcfg;
    s_cache : cst M;          (* the one cache object both guards hold *)
    s_heap : list raw;        (* raw decision dicts that exist *)
    s_now : Z;                (* time.monotonic() *)
    s_rel : S
  }.
  Definition guard_of (w : bool) (s : state) : gcfg := if w then s_g2 s else s_g1 s.
  Definition upd (s : state) (c : cst M) (h : list raw) (st : S) : state :=
    {| s_g1 := s_g1 s; s_g2 := s_g2 s; s_cache := c; s_heap := h; s_now := s_now s; s_rel := st |}.
  Definition init (g1 g2 : gcfg) (st : S) : state :=
    {| s_g1 := g1; s_g2 := g2; s_cache := c_empty M; s_heap := []; s_now := 0%Z; s_rel := st |}.

  Definition failed_verdict (x : option (bool * option string)) : bool :=
    match x with Some (false, _) => true | _ => false end.

  (* "determine effect/allowed with obligations" on the dict in cell l, including
     raw["reason"] = "obligation_failed" written into that cell *)
  Definition finish_at (w : bool) (ctx : value) (h : list raw) (l : nat) : option (list raw * decision) :=
    match nth_error h l with
    | None => None
    | Some r =>
        let failed := String.eqb (r_decision r) "permit" && failed_verdict (oblig w r ctx) in
        Some (if failed then heap_put h l (mutated r) else h, finish (oblig w) r ctx)
    end.

  (* _evaluate_core_async of guard w; answer: (was it a cache hit, what the caller gets) *)
  Definition eval_cached (w : bool) (req : value) (s : state) : state * (bool * gres) :=
    let g := guard_of w s in
    match build_env (g_strict g) req None with
    | None => (s, (false, GOod))
    | Some env =>
        let k := (tag (g_policy g), norm env) in
        let ctx := get_key "context" env in
        let '(c1, r) := c_step M (OGet k (s_now s)) (s_cache s) in
        let found := match r with
                     | RHit l => match nth_error (s_heap s) l with Some x => Some (l, x) | None => None end
                     | _ => None
                     end in
        match found with
        | Some (l, x) =>
            (* cached is not None: raw = cached (a copying cache hands out a new dict) *)
            let '(h1, l1) := if copying then (s_heap s ++ [x], List.length (s_heap s)) else (s_heap s, l) in
            match finish_at w ctx h1 l1 with
            | Some (h2, d) => (upd s c1 h2 (s_rel s), (true, GDecision d))
            | None => (upd s c1 h1 (s_rel s), (true, GOod))
            end
        | None =>
            match guard_decide S relh (g_policy g) env (s_rel s) with
            | (ERaw x, st') =>
                let l := List.length (s_heap s) in
                let h1 := s_heap s ++ [x] in
                (* cache.set(key, raw, ttl=self.cache_ttl): the dict itself, or a copy of it *)
                let '(h2, lc) := if copying then (h1 ++ [x], Datatypes.S l) else (h1, l) in
                let c2 := fst (c_step M (OSet k lc (g_ttl g) (s_now s) (s_now s)) c1) in
                match finish_at w ctx h2 l with
                | Some (h3, d) => (upd s c2 h3 st', (false, GDecision d))
                | None => (upd s c2 h2 st', (false, GOod))
                end
            | (EErr e, st') => (upd s c1 (s_heap s) st', (false, GRaise e))
            | (EOod, st') => (upd s c1 (s_heap s) st', (false, GOod))
            end
        end
    end.

  Definition clear_cache (s : state) : state :=
    upd s (fst (c_step M OClear (s_cache s))) (s_heap s) (s_rel s).

  Definition set_policy (w : bool) (p : value) (s : state) : state :=
    let s1 := {| s_g1 := if w then s_g1 s else with_policy (s_g1 s) p;
                 s_g2 := if w then with_policy (s_g2 s) p else s_g2 s;
                 s_cache := s_cache s; s_heap := s_heap s; s_now := s_now s; s_rel := s_rel s |} in
    clear_cache s1.

  Definition tick (dt : Z) (s : state) : state :=
    {| s_g1 := s_g1 s; s_g2 := s_g2 s; s_cache := s_cache s; s_heap := s_heap s;
       s_now := (s_now s + dt)%Z; s_rel := s_rel s |}.

  (* a history on the engine(s) with the cache: final state, answers of the evaluations in order *)
  Fixpoint run_cached (h : list hop) (s : state) : state * list (bool * gres) :=
    match h with
    | [] => (s, [])
    | HEval w req :: r =>
        let '(s1, o) := eval_cached w req s in
        let '(s2, os) := run_cached r s1 in (s2, o :: os)
    | HSetPolicy w p :: r => run_cached r (set_policy w p s)
    | HClear w :: r => run_cached r (clear_cache s)
    | HTick dt :: r => run_cached r (tick dt s)
    end.

  (* the same history on engines WITHOUT a cache holding the same current policies:
     every evaluation is Engine.guard_eval on the current policy of that guard *)
  Fixpoint run_ref (h : list hop) (g1 g2 : gcfg) (st : S) : list gres :=
    match h with
    | [] => []
    | HEval w req :: r =>
        let g := if w then g2 else g1 in
        let '(o, st') := guard_eval S relh (oblig w) (g_strict g) (g_policy g) req None st in
        o :: run_ref r g1 g2 st'
    | HSetPolicy w p :: r =>
        run_ref r (if w then g1 else with_policy g1 p) (if w then with_policy g2 p else g2) st
    | HClear _ :: r => run_ref r g1 g2 st
    | HTick _ :: r => run_ref r g1 g2 st
    end.

  (* what the history mentions: policies ever installed, envs ever evaluated *)
  Fixpoint policies_of (h : list hop) : list value :=
    match h with
    | [] => []
    | HSetPolicy _ p :: r => p :: policies_of r
    | _ :: r => policies_of r
    end.
  Fixpoint envs_of (strict1 strict2 : bool) (h : list hop) : list value :=
    match h with
    | [] => []
    | HEval w req :: r =>
        match build_env (if w then strict2 else strict1) req None with
        | Some e => e :: envs_of strict1 strict2 r
        | None => envs_of strict1 strict2 r
        end
    | _ :: r => envs_of strict1 strict2 r
    end.
End CacheGuard.

(* both guards use the built-in checker (BasicObligationChecker) *)
Definition builtin_both (_ : bool) : raw -> value -> option (bool * option string) := builtin_oblig.

Arguments cst {T}.
Arguments c_empty {T}.
Arguments c_step {T}.
