(* SwapRun.v — wire entry points for the Swap model (current and old protocol)
   on the concrete instance of Swap.v part 4. *)
From Coq Require Import List Bool String ZArith.
From Rbacx Require Import Value Wire Swap.
Import ListNotations.
Local Open Scope string_scope.

Definition dec_nat (v : value) : option nat :=
  match v with
  | VNum (NInt z) => if (z <? 0)%Z then None else Some (Z.to_nat z)
  | _ => None
  end.
Definition dec_nats (v : value) : option (list nat) :=
  match v with
  | VList l => opt_all (map dec_nat l)
  | VNull => Some []
  | _ => None
  end.
Definition dec_bool (v : value) : option bool :=
  match v with VBool b => Some b | _ => None end.

Definition dec_op (v : value) : option (op nat nat) :=
  match v with
  | VList [VStr "eval"; x] => match dec_nat x with Some e => Some (OpEval e) | None => None end
  | VList [VStr "set"; x] => match dec_nat x with Some p => Some (OpSet p) | None => None end
  | _ => None
  end.
Definition dec_prog (v : value) : option (list (op nat nat)) :=
  match v with VList l => opt_all (map dec_op l) | _ => None end.
Definition dec_progs (v : value) : option (list (list (op nat nat))) :=
  match v with VList l => opt_all (map dec_prog l) | _ => None end.

Definition dec_label (v : value) : option (label (envlab nat nat)) :=
  match v with
  | VList [VStr "drop"; k; e] =>
      match dec_nat k, dec_nat e with
      | Some k', Some e' => Some (Env (Drop k' e'))
      | _, _ => None
      end
  | _ => match dec_nat v with Some i => Some (Run i) | None => None end
  end.
Definition dec_sched (v : value) : option (list (label (envlab nat nat))) :=
  match v with VList l => opt_all (map dec_label l) | _ => None end.
Definition dec_osched (v : value) : option (list (label unit)) :=
  match v with
  | VList l => opt_all (map (fun x => match dec_nat x with Some i => Some (Run i) | None => None end) l)
  | _ => None
  end.

Definition enc_optnat (o : option nat) : value := vopt vnat o.
Definition enc_dec (d : nat * nat) : value := VList [vnat (fst d); vnat (snd d)].
Definition enc_event (ev : event nat nat (nat * nat)) : value :=
  match ev with
  | EvStart t e => vtag "start" [vnat t; vnat e]
  | EvRet t e d => vtag "ret" [vnat t; vnat e; enc_dec d]
  | UpStart u p => vtag "upstart" [vnat u; vnat p]
  | Pub u p => vtag "pub" [vnat u; vnat p]
  | UpRet u p => vtag "upret" [vnat u; vnat p]
  end.
Definition enc_lock (l : lockst) : value :=
  match l with
  | Free => vtag "free" []
  | HeldU u => vtag "u" [vnat u]
  | HeldE t => vtag "e" [vnat t]
  end.
Definition enc_cache (c : cache_t nat nat (nat * nat)) : value :=
  VList (map (fun x => VList [vnat (fst (fst x)); vnat (snd (fst x)); enc_dec (snd x)]) c).

Definition pc_name (c : pc nat nat nat (nat * nat)) : string :=
  match c with
  | Idle => "idle"
  | UAcq _ => "u_acq" | UWPol _ => "u_wpol" | UWTag _ => "u_wtag" | UWComp _ => "u_wcomp"
  | UInc _ => "u_inc" | URel _ => "u_rel" | UClear _ => "u_clear"
  | EAcq1 _ => "e_acq1" | ERdV1 _ => "e_rdv1" | ERel1 _ _ => "e_rel1" | ERdTag _ _ => "e_rdtag"
  | EGet _ _ _ => "e_get" | ERdComp _ _ _ => "e_rdcomp" | ERdPol _ _ _ _ => "e_rdpol"
  | ECompute _ _ _ _ _ => "e_compute" | EAcq2 _ _ _ _ => "e_acq2" | ERdV2 _ _ _ _ => "e_rdv2"
  | ERel2 _ _ _ _ _ => "e_rel2" | ESet _ _ _ => "e_set" | EFin _ _ => "e_fin"
  end.
Definition opc_name (c : opc nat nat nat (nat * nat)) : string :=
  match c with
  | OIdle _ _ _ _ => "idle"
  | OWPol _ _ _ _ _ => "u_wpol" | OWTag _ _ _ _ => "u_wtag" | OWComp _ _ _ _ => "u_wcomp" | OClear _ _ _ _ _ => "u_clear"
  | ORdTag _ _ _ _ _ => "e_rdtag" | OGet _ _ _ _ _ _ => "e_get" | ORdComp _ _ _ _ _ _ => "e_rdcomp"
  | ORdPol _ _ _ _ _ _ _ => "e_rdpol" | OCompute _ _ _ _ _ _ _ _ => "e_compute"
  | OSet _ _ _ _ _ _ _ => "e_set" | OFin _ _ _ _ _ _ => "e_fin"
  end.

Definition cfg_get (cfg : value) (k : string) : value := get_key k cfg.

(* ["swap.run", cfg, progs, sched]: run the schedule on the current protocol *)
Definition run_swap (args : list value) : value :=
  match args with
  | [cfg; pv; sv] =>
      match dec_nat (cfg_get cfg "p0"), dec_bool (cfg_get cfg "has_cache"),
            dec_nats (cfg_get cfg "untagged"), dec_nats (cfg_get cfg "uncompilable"),
            dec_progs pv, dec_sched sv with
      | Some p0, Some hc, Some ut, Some uc, Some progs, Some sched =>
          let stepf := ntstep ut uc hc in
          let (c, flags) := run stepf nestep (ninit ut uc p0 progs) sched in
          let s := sh c in
          let n := List.length progs in
          VObj [("policy", vnat (s_policy s));
                ("etag", enc_optnat (s_etag s));
                ("comp", enc_optnat (s_comp s));
                ("ver", vnat (s_ver s));
                ("lock", enc_lock (s_lock s));
                ("cache", enc_cache (s_cache s));
                ("log", VList (map enc_event (rev (s_log s))));
                ("enabled", VList (map vbool flags));
                ("pcs", VList (map (fun i => vstr (pc_name (snd (th c i)))) (seq 0 n)));
                ("todo", VList (map (fun i => vnat (List.length (fst (th c i)))) (seq 0 n)));
                ("can_step", VList (map (fun i => vbool (match stepf i s (th c i) with Some _ => true | None => false end)) (seq 0 n)))]
      | _, _, _, _, _, _ => vtag "ood" []
      end
  | _ => vtag "badargs" []
  end.

(* ["swap.runold", cfg, progs, sched]: the protocol before commit 40ecad2 *)
Definition run_oldswap (args : list value) : value :=
  match args with
  | [cfg; pv; sv] =>
      match dec_nat (cfg_get cfg "p0"),
            dec_nats (cfg_get cfg "untagged"), dec_nats (cfg_get cfg "uncompilable"),
            dec_progs pv, dec_osched sv with
      | Some p0, Some ut, Some uc, Some progs, Some sched =>
          let stepf := notstep ut uc in
          let (c, flags) := run stepf (oestep nat nat nat (nat * nat)) (noinit ut uc p0 progs) sched in
          let s := sh c in
          let n := List.length progs in
          VObj [("policy", vnat (o_policy s));
                ("etag", enc_optnat (o_etag s));
                ("comp", enc_optnat (o_comp s));
                ("cache", enc_cache (o_cache s));
                ("log", VList (map enc_event (rev (o_log s))));
                ("enabled", VList (map vbool flags));
                ("pcs", VList (map (fun i => vstr (opc_name (snd (th c i)))) (seq 0 n)));
                ("todo", VList (map (fun i => vnat (List.length (fst (th c i)))) (seq 0 n)))]
      | _, _, _, _, _ => vtag "ood" []
      end
  | _ => vtag "badargs" []
  end.

(* ---------- coarse steps, used by the harness to enumerate and replay schedules ----------
   A coarse step of thread i = the thread's local steps up to its next access to shared
   state (a "stop" pc), that access — with the groups (acquire; write policy),
   (increment; release) and (acquire; read version; release) taken as one — and the local
   steps after it.  On the implementation a coarse step is "run from one located source
   line to the next" (harness/c09.py); here it is a sequence of steps of the verified
   step function, so every coarse schedule is one of the interleavings the theorems cover. *)
Definition stop_pc (hc : bool) (c : pc nat nat nat (nat * nat)) : bool :=
  match c with
  | UClear _ => hc          (* clear_cache() touches nothing when the Guard has no cache *)
  | UAcq _ | UWTag _ | UWComp _ | UInc _
  | EAcq1 _ | EAcq2 _ _ _ _ | ERdTag _ _ | EGet _ _ _ | ERdComp _ _ _ | ERdPol _ _ _ _ | ESet _ _ _ => true
  | _ => false
  end.

Section Coarse.
  Variable hc : bool.
  Variable stepf : nat -> shared nat nat nat (nat * nat) -> local nat nat nat (nat * nat) ->
                   option (shared nat nat nat (nat * nat) * local nat nat nat (nat * nat)).
  Notation cf := (conf (shared nat nat nat (nat * nat)) (local nat nat nat (nat * nat))).

  Fixpoint advance (fuel : nat) (c : cf) (i : nat) : cf :=
    match fuel with
    | O => c
    | S f => if stop_pc hc (snd (th c i)) then c
             else match cstep stepf nestep c (Run i) with
                  | Some c' => advance f c' i
                  | None => c
                  end
    end.

  (* None: thread i has nothing left to do, or its next access is blocked *)
  Definition coarse_step (c : cf) (i : nat) : option (cf * string) :=
    let c1 := advance 16 c i in
    if stop_pc hc (snd (th c1 i)) then
      match cstep stepf nestep c1 (Run i) with
      | Some c2 => Some (advance 16 c2 i, pc_name (snd (th c1 i)))
      | None => None
      end
    else None.

  (* a step of a thread that has nothing left to do is skipped ("-"); a blocked one stops the run *)
  Fixpoint coarse_run (c : cf) (sched : list (label (envlab nat nat))) : cf * list string :=
    match sched with
    | [] => (c, [])
    | Run i :: r =>
        match coarse_step c i with
        | Some (c', nm) => let (cf', nms) := coarse_run c' r in (cf', nm :: nms)
        | None => if stop_pc hc (snd (th (advance 16 c i) i)) then (c, ["!disabled"])
                  else let (cf', nms) := coarse_run c r in (cf', "-" :: nms)
        end
    | Env x :: r =>
        match cstep stepf nestep c (Env x) with
        | Some c' => let (cf', nms) := coarse_run c' r in (cf', "env" :: nms)
        | None => (c, ["!disabled"])
        end
    end.

  (* every complete coarse schedule from c (threads 0..n-1), depth first; fuel = maximal length *)
  Fixpoint coarse_all (fuel : nat) (n : nat) (c : cf) : list (list nat) :=
    match fuel with
    | O => [[]]
    | S f =>
        let next := map (fun i => (i, coarse_step c i)) (seq 0 n) in
        let succ := flat_map (fun ic => match snd ic with
                                        | Some (c', _) => map (cons (fst ic)) (coarse_all f n c')
                                        | None => []
                                        end) next in
        match succ with [] => [[]] | _ => succ end
    end.

  (* a walk: at every step the (r mod #enabled)-th enabled thread, r taken from rs *)
  Fixpoint coarse_walk (rs : list nat) (n : nat) (c : cf) : list nat :=
    match rs with
    | [] => []
    | r :: rs' =>
        let en := flat_map (fun i => match coarse_step c i with Some (c', _) => [(i, c')] | None => [] end)
                           (seq 0 n) in
        match en with
        | [] => []
        | x :: _ => let ic := nth (Nat.modulo r (List.length en)) en x in
                    fst ic :: coarse_walk rs' n (snd ic)
        end
    end.

  (* what thread i would do next: the stop pc it would execute, and whether it can *)
  Definition coarse_next (c : cf) (i : nat) : string * bool :=
    let c1 := advance 16 c i in
    if stop_pc hc (snd (th c1 i)) then
      (pc_name (snd (th c1 i)), match cstep stepf nestep c1 (Run i) with Some _ => true | None => false end)
    else ("done", false).
End Coarse.

(* ["swap.runc", cfg, progs, coarse sched] *)
Definition run_swapc (args : list value) : value :=
  match args with
  | [cfg; pv; sv] =>
      match dec_nat (cfg_get cfg "p0"), dec_bool (cfg_get cfg "has_cache"),
            dec_nats (cfg_get cfg "untagged"), dec_nats (cfg_get cfg "uncompilable"),
            dec_progs pv, dec_sched sv with
      | Some p0, Some hc, Some ut, Some uc, Some progs, Some sched =>
          let stepf := ntstep ut uc hc in
          let (c, names) := coarse_run hc stepf (ninit ut uc p0 progs) sched in
          let s := sh c in
          let n := List.length progs in
          VObj [("policy", vnat (s_policy s));
                ("etag", enc_optnat (s_etag s));
                ("comp", enc_optnat (s_comp s));
                ("ver", vnat (s_ver s));
                ("lock", enc_lock (s_lock s));
                ("cache", enc_cache (s_cache s));
                ("log", VList (map enc_event (rev (s_log s))));
                ("steps", VList (map vstr names));
                ("next", VList (map (fun i => vstr (fst (coarse_next hc stepf c i))) (seq 0 n)));
                ("en", VList (map (fun i => vbool (snd (coarse_next hc stepf c i))) (seq 0 n)))]
      | _, _, _, _, _, _ => vtag "ood" []
      end
  | _ => vtag "badargs" []
  end.

(* ["swap.all", cfg, progs]: every complete coarse schedule; ["swap.walk", cfg, progs, rs]: one walk *)
Definition run_swapall (args : list value) : value :=
  match args with
  | cfg :: pv :: rest =>
      match dec_nat (cfg_get cfg "p0"), dec_bool (cfg_get cfg "has_cache"),
            dec_nats (cfg_get cfg "untagged"), dec_nats (cfg_get cfg "uncompilable"), dec_progs pv with
      | Some p0, Some hc, Some ut, Some uc, Some progs =>
          let stepf := ntstep ut uc hc in
          let n := List.length progs in
          match rest with
          | [] => VList (map (fun l => VList (map vnat l)) (coarse_all hc stepf 64 n (ninit ut uc p0 progs)))
          | [rs] => match dec_nats rs with
                    | Some rs' => VList (map vnat (coarse_walk hc stepf rs' n (ninit ut uc p0 progs)))
                    | None => vtag "ood" []
                    end
          | _ => vtag "badargs" []
          end
      | _, _, _, _, _ => vtag "ood" []
      end
  | _ => vtag "badargs" []
  end.

Definition entries : list (string * (list value -> value)) :=
  [("swap.run", run_swap); ("swap.runc", run_swapc); ("swap.all", run_swapall); ("swap.walk", run_swapall); ("swap.runold", run_oldswap)].

Definition run_line : string -> string := run_with entries.
