(* FileStoreProofs.v — proofs about the FileStore model (property C16). *)
From Coq Require Import List Bool String Ascii ZArith Lia.
From Rbacx Require Import Value FileStore.
Import ListNotations.
Local Open Scope string_scope.

(* ------------------------------------------------------------------ *)
(* the finite map                                                      *)
(* ------------------------------------------------------------------ *)
Lemma eqb_neq_sym (a b : string) : a <> b -> String.eqb a b = false.
Proof. intros. now apply String.eqb_neq. Qed.

Lemma lookup_remove_same p fs : lookup p (remove p fs) = None.
Proof.
  induction fs as [|[q f] r IH]; simpl; [reflexivity|].
  destruct (String.eqb p q) eqn:E; [exact IH|]. simpl. now rewrite E.
Qed.
Lemma lookup_remove_other p q fs : q <> p -> lookup q (remove p fs) = lookup q fs.
Proof.
  intros N. induction fs as [|[k f] r IH]; simpl; [reflexivity|].
  destruct (String.eqb p k) eqn:E.
  - apply String.eqb_eq in E. subst k. rewrite IH. now rewrite (eqb_neq_sym q p N).
  - simpl. now rewrite IH.
Qed.
Lemma remove_absent p fs : lookup p fs = None -> remove p fs = fs.
Proof.
  induction fs as [|[q f] r IH]; simpl; [reflexivity|].
  destruct (String.eqb p q); [discriminate|]. intros E. now rewrite IH.
Qed.
Lemma lookup_remove_none t p fs : lookup t fs = None -> lookup t (remove p fs) = None.
Proof.
  intros E. destruct (String.eqb t p) eqn:Q.
  - apply String.eqb_eq in Q. subst. apply lookup_remove_same.
  - apply String.eqb_neq in Q. now rewrite lookup_remove_other.
Qed.
Lemma lookup_bind_same p f fs : lookup p (bind p f fs) = Some f.
Proof. unfold bind. simpl. now rewrite String.eqb_refl. Qed.
Lemma lookup_bind_other p q f fs : q <> p -> lookup q (bind p f fs) = lookup q fs.
Proof. intros N. unfold bind. simpl. rewrite (eqb_neq_sym q p N). now apply lookup_remove_other. Qed.
Lemma bind_fresh p f fs : lookup p fs = None -> bind p f fs = (p, f) :: fs.
Proof. intros E. unfold bind. now rewrite remove_absent. Qed.

Lemma sappend_assoc (a b c : string) : (a ++ b) ++ c = a ++ (b ++ c).
Proof. induction a as [|x a IH]; simpl; [reflexivity|]. now rewrite IH. Qed.
Lemma sappend_nil_r (a : string) : a ++ "" = a.
Proof. induction a as [|x a IH]; simpl; [reflexivity|]. now rewrite IH. Qed.
Lemma stake_sdrop n : forall s, stake n s ++ sdrop n s = s.
Proof.
  induction n as [|n IH]; intros s; simpl; [reflexivity|].
  destruct s as [|c r]; simpl; [reflexivity|]. now rewrite IH.
Qed.

(* ------------------------------------------------------------------ *)
(* atomic_write                                                        *)
(* ------------------------------------------------------------------ *)
Definition not_candidate (path : string) (cands : list string) : Prop :=
  forall c, In c cands -> path <> tmp_prefix ++ c.

Lemma pick_name_spec cands fs t :
  pick_name cands fs = Some t -> lookup t fs = None /\ exists c, In c cands /\ t = tmp_prefix ++ c.
Proof.
  induction cands as [|c r IH]; [discriminate|].
  cbn [pick_name]. destruct (lookup (tmp_prefix ++ c) fs) eqn:E.
  - intros P. destruct (IH P) as [A [c' [I Q]]]. split; [exact A|]. exists c'. split; [now right|exact Q].
  - intros P. inversion P; subst. split; [exact E|]. exists c. split; [now left|reflexivity].
Qed.

Section AW.
  Variables (fs0 : fsys) (tmp path : string) (data : bytes) (now : Z).
  Hypothesis Hfresh : lookup tmp fs0 = None.
  Hypothesis Hneq : tmp <> path.

  (* the temp file holds a prefix of the data; everything else is as at the start *)
  Definition tmp_state (s : fsys) : Prop :=
    exists d rest, s = (tmp, mkFile d now) :: fs0 /\ d ++ rest = data.
  Definition new_fs : fsys := bind path (mkFile data now) fs0.
  Definition pre_ev (es : ev * fsys) : Prop := is_replace (fst es) = false /\ tmp_state (snd es).

  Lemma append_to_shape d s :
    append_to tmp s now ((tmp, mkFile d now) :: fs0) = (tmp, mkFile (d ++ s) now) :: fs0.
  Proof.
    unfold append_to. simpl. rewrite String.eqb_refl. unfold bind. simpl.
    rewrite String.eqb_refl. now rewrite remove_absent.
  Qed.

  Lemma write_pieces_spec ps : forall d rest w rest' fs2 tr,
    d ++ rest = data ->
    write_pieces tmp now rest ps ((tmp, mkFile d now) :: fs0) = (w, rest', fs2, tr) ->
    exists d2, fs2 = (tmp, mkFile d2 now) :: fs0 /\ d2 ++ rest' = data /\ Forall pre_ev tr.
  Proof.
    induction ps as [|[n o] ps IH]; intros d rest w rest' fs2 tr Hd Hw; simpl in Hw.
    - inversion Hw; subst. exists d. repeat split; auto.
    - destruct o.
      + rewrite append_to_shape in Hw.
        destruct (write_pieces tmp now (sdrop n rest) ps ((tmp, mkFile (d ++ stake n rest) now) :: fs0))
          as [[[w1 r1] f1] t1] eqn:E.
        inversion Hw; subst.
        assert (Hd' : (d ++ stake n rest) ++ sdrop n rest = data)
          by (rewrite sappend_assoc; now rewrite stake_sdrop).
        destruct (IH _ _ _ _ _ _ Hd' E) as [d2 [A [B C]]].
        exists d2. repeat split; auto. constructor; [|exact C].
        split; [reflexivity|]. simpl. exists (d ++ stake n rest), (sdrop n rest). split; [reflexivity|exact Hd'].
      + inversion Hw; subst. exists d. repeat split; auto.
      + inversion Hw; subst. exists d. repeat split; auto.
  Qed.

  Lemma tmp_state_init : tmp_state ((tmp, mkFile "" now) :: fs0).
  Proof. exists "", data. split; reflexivity. Qed.

  Lemma rename_shape d :
    rename tmp path ((tmp, mkFile d now) :: fs0) = Some (bind path (mkFile d now) fs0).
  Proof.
    unfold rename. simpl. rewrite String.eqb_refl. now rewrite remove_absent.
  Qed.

  Definition raised_inside (b : body_res) : Prop :=
    match b with
    | BRaised e => e <> EUnlink /\ e <> EMkstemp
    | BCrashed => True
    | BOk => False
    end.

  Lemma body_spec sc b fs2 tr :
    body tmp path data now sc ((tmp, mkFile "" now) :: fs0) = (b, fs2, tr) ->
    (b = BOk /\ fs2 = new_fs /\ exists pre, tr = (pre ++ [(EReplace, new_fs)])%list /\ Forall pre_ev pre)
    \/ (raised_inside b /\ tmp_state fs2 /\ Forall pre_ev tr).
  Proof.
    unfold body. intros Hb.
    destruct (k_fdopen sc).
    2:{ inversion Hb; subst. right. repeat split; try discriminate; auto using tmp_state_init. }
    2:{ inversion Hb; subst. right. repeat split; auto using tmp_state_init. }
    destruct (write_pieces tmp now data (k_pieces sc) ((tmp, mkFile "" now) :: fs0))
      as [[[w rest] f2] trw] eqn:E.
    assert (H0 : "" ++ data = data) by reflexivity.
    destruct (write_pieces_spec _ _ _ _ _ _ _ H0 E) as [d2 [A [B C]]]. subst f2.
    assert (Hfd : pre_ev (EFdopen, (tmp, mkFile "" now) :: fs0))
      by (split; [reflexivity|apply tmp_state_init]).
    assert (Hd2 : tmp_state ((tmp, mkFile d2 now) :: fs0)) by (exists d2, rest; split; auto).
    destruct w.
    - (* write completed *)
      destruct (k_close sc).
      2:{ inversion Hb; subst. right. repeat split; try discriminate; auto. }
      2:{ inversion Hb; subst. right. repeat split; auto. }
      rewrite append_to_shape in Hb. rewrite B in Hb.
      assert (Hfull : tmp_state ((tmp, mkFile data now) :: fs0))
        by (exists data, ""; split; [reflexivity|apply sappend_nil_r]).
      assert (Hpre : Forall pre_ev ((EFdopen, (tmp, mkFile "" now) :: fs0)
                                     :: trw ++ [(EClose, (tmp, mkFile data now) :: fs0)])%list).
      { constructor; [exact Hfd|]. apply Forall_app. split; [exact C|].
        constructor; [|constructor]. split; [reflexivity|exact Hfull]. }
      destruct (k_replace sc).
      2:{ inversion Hb; subst. right. repeat split; try discriminate; auto. }
      2:{ inversion Hb; subst. right. repeat split; auto. }
      rewrite rename_shape in Hb. inversion Hb; subst.
      left. repeat split; auto.
      exists ((EFdopen, (tmp, mkFile "" now) :: fs0) :: trw ++ [(EClose, (tmp, mkFile data now) :: fs0)])%list.
      split; [reflexivity|exact Hpre].
    - (* write raised *)
      destruct (k_close sc).
      + inversion Hb; subst. right. repeat split; try discriminate; auto.
        constructor; [exact Hfd|]. apply Forall_app. split; [exact C|].
        constructor; [|constructor]. split; [reflexivity|exact Hd2].
      + inversion Hb; subst. right. repeat split; try discriminate; auto.
      + inversion Hb; subst. right. repeat split; auto.
    - (* crashed while writing *)
      inversion Hb; subst. right. repeat split; auto.
  Qed.

  Lemma remove_tmp_tmp_state s : tmp_state s -> remove tmp s = fs0.
  Proof.
    intros [d [rest [-> _]]]. simpl. rewrite String.eqb_refl. now apply remove_absent.
  Qed.
  Lemma remove_tmp_new : remove tmp new_fs = new_fs.
  Proof.
    apply remove_absent. unfold new_fs. rewrite lookup_bind_other by exact Hneq. exact Hfresh.
  Qed.
  Lemma lookup_path_tmp_state s : tmp_state s -> lookup path s = lookup path fs0.
  Proof.
    intros [d [rest [-> _]]]. simpl. rewrite eqb_neq_sym; [reflexivity|]. intro E. now apply Hneq.
  Qed.
  Lemma lookup_path_new : lookup path new_fs = Some (mkFile data now).
  Proof. apply lookup_bind_same. Qed.
  Lemma has_replace_pre pre : Forall pre_ev pre -> has_replace pre = false.
  Proof.
    induction 1 as [|x l [A _] _ IH]; [reflexivity|]. unfold has_replace in *. simpl. now rewrite A, IH.
  Qed.
End AW.

(* Every run of atomic_write, whatever fails and wherever the process dies, is
   of one of five kinds. *)
Inductive aw_kind (fs0 : fsys) (path : string) (data : bytes) (now : Z) (cands : list string) (r : wresult) : Prop :=
| K_nothing :                                   (* mkstemp failed / died before it *)
    r_trace r = [] -> r_fs r = fs0 -> (r_out r = Crashed \/ r_out r = Raised EMkstemp) ->
    aw_kind fs0 path data now cands r
| K_temp_left tmp :                             (* died before the rename, or the cleanup itself failed *)
    pick_name cands fs0 = Some tmp ->
    Forall (pre_ev fs0 tmp data now) (r_trace r) -> r_trace r <> [] -> tmp_state fs0 tmp data now (r_fs r) ->
    (r_out r = Crashed \/ r_out r = Raised EUnlink) ->
    aw_kind fs0 path data now cands r
| K_failed_clean tmp pre e :                    (* a step before the rename raised; cleaned up *)
    pick_name cands fs0 = Some tmp ->
    Forall (pre_ev fs0 tmp data now) pre -> r_trace r = (pre ++ [(EUnlink, fs0)])%list -> r_fs r = fs0 ->
    r_out r = Raised e -> e <> EUnlink -> e <> EMkstemp ->
    aw_kind fs0 path data now cands r
| K_replaced_then_stopped tmp pre :             (* renamed, then died / the (vacuous) cleanup raised *)
    pick_name cands fs0 = Some tmp ->
    Forall (pre_ev fs0 tmp data now) pre -> r_trace r = (pre ++ [(EReplace, new_fs fs0 path data now)])%list ->
    r_fs r = new_fs fs0 path data now -> (r_out r = Crashed \/ r_out r = Raised EUnlink) ->
    aw_kind fs0 path data now cands r
| K_done tmp pre :
    pick_name cands fs0 = Some tmp ->
    Forall (pre_ev fs0 tmp data now) pre ->
    r_trace r = (pre ++ [(EReplace, new_fs fs0 path data now); (EUnlink, new_fs fs0 path data now)])%list ->
    r_fs r = new_fs fs0 path data now -> r_out r = Returned ->
    aw_kind fs0 path data now cands r.

Theorem aw_master fs0 path data now cands sc :
  not_candidate path cands ->
  aw_kind fs0 path data now cands (atomic_write fs0 path data now cands sc).
Proof.
  intros Hnc. unfold atomic_write.
  destruct (k_mkstemp sc).
  2:{ apply K_nothing; simpl; auto. }
  2:{ apply K_nothing; simpl; auto. }
  destruct (pick_name cands fs0) as [tmp|] eqn:Hp.
  2:{ apply K_nothing; simpl; auto. }
  destruct (pick_name_spec _ _ _ Hp) as [Hfresh [c [Hc Ht]]].
  assert (Hneq : tmp <> path) by (intro E; subst path; exact (Hnc c Hc Ht)).
  rewrite (bind_fresh _ _ _ Hfresh).
  destruct (body tmp path data now sc ((tmp, mkFile "" now) :: fs0)) as [[b fs2] tr] eqn:Hb.
  assert (Hmk : pre_ev fs0 tmp data now (EMkstemp, (tmp, mkFile "" now) :: fs0))
    by (split; [reflexivity|apply tmp_state_init]).
  destruct (body_spec fs0 tmp path data now Hfresh sc b fs2 tr Hb)
    as [[-> [-> [pre [-> Hpre]]]] | [Hr [Hs Htr]]].
  - (* renamed *)
    unfold finally_unlink.
    destruct (k_unlink sc).
    + rewrite (remove_tmp_new fs0 tmp path data now Hfresh Hneq).
      eapply (K_done _ _ _ _ _ _ tmp ((EMkstemp, (tmp, mkFile "" now) :: fs0) :: pre)); simpl; auto.
      now rewrite <- app_assoc.
    + eapply (K_replaced_then_stopped _ _ _ _ _ _ tmp ((EMkstemp, (tmp, mkFile "" now) :: fs0) :: pre));
        simpl; auto.
    + eapply (K_replaced_then_stopped _ _ _ _ _ _ tmp ((EMkstemp, (tmp, mkFile "" now) :: fs0) :: pre));
        simpl; auto.
  - (* not renamed *)
    unfold finally_unlink.
    destruct b as [|e|]; [contradiction| |].
    + destruct Hr as [Hr1 Hr2].
      destruct (k_unlink sc).
      * rewrite (remove_tmp_tmp_state fs0 tmp data now Hfresh _ Hs).
        eapply (K_failed_clean _ _ _ _ _ _ tmp ((EMkstemp, (tmp, mkFile "" now) :: fs0) :: tr) e); simpl; auto.
      * eapply (K_temp_left _ _ _ _ _ _ tmp); simpl; auto. discriminate.
      * eapply (K_temp_left _ _ _ _ _ _ tmp); simpl; auto. discriminate.
    + eapply (K_temp_left _ _ _ _ _ _ tmp); simpl; auto. discriminate.
Qed.

(* ---- consequences ---- *)
Definition newfile (data : bytes) (now : Z) : file := mkFile data now.

Lemma has_replace_app a b : has_replace (a ++ b)%list = has_replace a || has_replace b.
Proof. unfold has_replace. apply existsb_app. Qed.

Section Consequences.
  Variables (fs0 : fsys) (path : string) (data : bytes) (now : Z) (cands : list string) (sc : script).
  Hypothesis Hnc : not_candidate path cands.
  Let r := atomic_write fs0 path data now cands sc.

  Ltac fresh_of Hp :=
    let Hf := fresh "Hfresh" in let c := fresh "c" in let Hc := fresh "Hc" in let Ht := fresh "Ht" in
    let Hn := fresh "Hneq" in
    destruct (pick_name_spec _ _ _ Hp) as [Hf [c [Hc Ht]]];
    match type of Hp with pick_name _ _ = Some ?tmp =>
      assert (Hn : tmp <> path) by (let X := fresh "X" in intro X; subst path; exact (Hnc c Hc Ht)) end.

  Lemma aw_all_or_nothing :
    (replaced r = false /\ lookup path (r_fs r) = lookup path fs0)
    \/ (replaced r = true /\ lookup path (r_fs r) = Some (newfile data now)).
  Proof.
    pose proof (aw_master fs0 path data now cands sc Hnc) as K. fold r in K. unfold replaced.
    destruct K as [T F _ | tmp Hp Htr _ Hs _ | tmp pre e Hp Hpre T F _ _ _ | tmp pre Hp Hpre T F _ | tmp pre Hp Hpre T F _].
    - left. rewrite T, F. auto.
    - fresh_of Hp. left. split; [now apply (has_replace_pre fs0 tmp data now)|].
      now apply (lookup_path_tmp_state fs0 tmp path data now).
    - left. rewrite T, F, has_replace_app, (has_replace_pre _ _ _ _ _ Hpre). auto.
    - right. rewrite T, F, has_replace_app. split; [simpl; apply orb_true_r|apply lookup_path_new].
    - right. rewrite T, F, has_replace_app. split; [simpl; apply orb_true_r|apply lookup_path_new].
  Qed.

  Lemma aw_returned_replaced : r_out r = Returned -> replaced r = true.
  Proof.
    pose proof (aw_master fs0 path data now cands sc Hnc) as K. fold r in K. unfold replaced.
    destruct K as [T F O | tmp Hp Htr _ Hs O | tmp pre e Hp Hpre T F O _ _ | tmp pre Hp Hpre T F O | tmp pre Hp Hpre T F O];
      intros R; rewrite R in O; try (destruct O; discriminate); try discriminate.
    rewrite T, has_replace_app. simpl. apply orb_true_r.
  Qed.

  (* a failed write whose cleanup did not itself fail leaves the file system exactly as it was *)
  Lemma aw_failed_untouched e : r_out r = Raised e -> e <> EUnlink -> r_fs r = fs0.
  Proof.
    pose proof (aw_master fs0 path data now cands sc Hnc) as K. fold r in K.
    destruct K as [T F O | tmp Hp Htr _ Hs O | tmp pre e' Hp Hpre T F O _ _ | tmp pre Hp Hpre T F O | tmp pre Hp Hpre T F O];
      intros R N; rewrite R in O; auto.
    - destruct O as [O|O]; [discriminate|]. inversion O. congruence.
    - destruct O as [O|O]; [discriminate|]. inversion O. congruence.
    - discriminate.
  Qed.

  (* an exception after the rename (only the cleanup can raise then): no temp file either *)
  Lemma aw_failed_after_replace e : r_out r = Raised e -> replaced r = true -> r_fs r = new_fs fs0 path data now.
  Proof.
    pose proof (aw_master fs0 path data now cands sc Hnc) as K. fold r in K. unfold replaced.
    destruct K as [T F O | tmp Hp Htr _ Hs O | tmp pre e' Hp Hpre T F O _ _ | tmp pre Hp Hpre T F O | tmp pre Hp Hpre T F O];
      intros R N; auto.
    - rewrite T in N. discriminate.
    - rewrite (has_replace_pre _ _ _ _ _ Htr) in N. discriminate.
    - rewrite T, has_replace_app, (has_replace_pre _ _ _ _ _ Hpre) in N. discriminate.
  Qed.

  (* files that existed and are not the target are never touched, in no state of the run *)
  Lemma aw_others_untouched q f :
    lookup q fs0 = Some f -> q <> path ->
    lookup q (r_fs r) = Some f /\ forall e s, In (e, s) (r_trace r) -> lookup q s = Some f.
  Proof.
    intros Hq Nq.
    assert (Hts : forall tmp, lookup tmp fs0 = None -> forall s, tmp_state fs0 tmp data now s -> lookup q s = Some f).
    { intros tmp Hf s [d [rest [-> _]]]. simpl.
      destruct (String.eqb q tmp) eqn:E; [|exact Hq]. apply String.eqb_eq in E. subst. congruence. }
    assert (Hnew : lookup q (new_fs fs0 path data now) = Some f)
      by (unfold new_fs; now rewrite lookup_bind_other).
    assert (Hall : forall tmp pre, lookup tmp fs0 = None -> Forall (pre_ev fs0 tmp data now) pre ->
                     forall e s, In (e, s) pre -> lookup q s = Some f).
    { intros tmp pre Hf Hpre e s I. rewrite Forall_forall in Hpre. destruct (Hpre _ I) as [_ S]. now apply (Hts tmp). }
    pose proof (aw_master fs0 path data now cands sc Hnc) as K. fold r in K.
    destruct K as [T F O | tmp Hp Htr _ Hs O | tmp pre e' Hp Hpre T F O _ _ | tmp pre Hp Hpre T F O | tmp pre Hp Hpre T F O].
    - rewrite T, F. split; [exact Hq|]. intros e s [].
    - fresh_of Hp. split; [now apply (Hts tmp)|]. now apply (Hall tmp).
    - fresh_of Hp. rewrite T, F. split; [exact Hq|]. intros e s I. apply in_app_or in I. destruct I as [I|[I|[]]].
      + now apply (Hall tmp pre Hfresh Hpre e s).
      + injection I as _ <-. exact Hq.
    - fresh_of Hp. rewrite T, F. split; [exact Hnew|]. intros e s I. apply in_app_or in I. destruct I as [I|[I|[]]].
      + now apply (Hall tmp pre Hfresh Hpre e s).
      + injection I as _ <-. exact Hnew.
    - fresh_of Hp. rewrite T, F. split; [exact Hnew|]. intros e s I. apply in_app_or in I.
      destruct I as [I|[I|[I|[]]]].
      + now apply (Hall tmp pre Hfresh Hpre e s).
      + injection I as _ <-. exact Hnew.
      + injection I as _ <-. exact Hnew.
  Qed.

  (* nothing new appears in the directory except the target and (while it exists) the one temp file *)
  Lemma aw_no_stray_names q :
    lookup q (r_fs r) <> None ->
    lookup q fs0 <> None \/ q = path \/ (pick_name cands fs0 = Some q /\ replaced r = false /\
                                        (r_out r = Crashed \/ r_out r = Raised EUnlink)).
  Proof.
    pose proof (aw_master fs0 path data now cands sc Hnc) as K. fold r in K. unfold replaced.
    assert (Hnew : lookup q (new_fs fs0 path data now) <> None -> lookup q fs0 <> None \/ q = path).
    { unfold new_fs. destruct (String.eqb q path) eqn:E.
      - apply String.eqb_eq in E. now right.
      - apply String.eqb_neq in E. rewrite lookup_bind_other by exact E. now left. }
    destruct K as [T F O | tmp Hp Htr _ Hs O | tmp pre e' Hp Hpre T F O _ _ | tmp pre Hp Hpre T F O | tmp pre Hp Hpre T F O];
      try (rewrite F; intros L; first [now left | destruct (Hnew L); auto]).
    destruct Hs as [d [rest [-> _]]]. simpl.
    destruct (String.eqb q tmp) eqn:E.
    - apply String.eqb_eq in E. subst q. intros _. right. right.
      split; [exact Hp|]. split; [now apply (has_replace_pre fs0 tmp data now)|exact O].
    - intros L. now left.
  Qed.

  (* the timeline of the target: old in every state up to the rename, new from the rename on *)
  Definition old_ev (es : ev * fsys) : Prop :=
    is_replace (fst es) = false /\ lookup path (snd es) = lookup path fs0.
  Lemma pre_old tmp : lookup tmp fs0 = None -> tmp <> path ->
    forall l, Forall (pre_ev fs0 tmp data now) l -> Forall old_ev l.
  Proof.
    intros Hf Hn l. induction 1 as [|x l [A B] _ IH]; constructor; auto.
    split; [exact A|]. now apply (lookup_path_tmp_state fs0 tmp path data now).
  Qed.

  Lemma timeline_gen pre : Forall old_ev pre -> forall post,
    Forall (fun es => snd es = new_fs fs0 path data now) post ->
    (match post with [] => True | x :: _ => is_replace (fst x) = true end) ->
    forall t1 e s t2, (pre ++ post)%list = (t1 ++ (e, s) :: t2)%list ->
    lookup path s = if has_replace (t1 ++ [(e, s)])%list then Some (newfile data now) else lookup path fs0.
  Proof.
    induction 1 as [|x pre [A B] Hpre IH]; intros post Hpost Hhd t1' e' s' t2' E.
    - simpl in E. subst post.
      assert (Hs : s' = new_fs fs0 path data now).
      { rewrite Forall_forall in Hpost. apply (Hpost (e', s')). apply in_or_app. right. now left. }
      subst s'. rewrite (lookup_path_new fs0 path data now).
      destruct t1' as [|y t1']; simpl in Hhd; unfold has_replace; simpl.
      * now rewrite Hhd.
      * now rewrite Hhd.
    - destruct t1' as [|y t1'].
      + simpl in E. injection E as Ex Et. subst x. simpl in A, B.
        unfold has_replace. simpl. rewrite A. simpl. exact B.
      + simpl in E. injection E as Ex Et. subst y.
        rewrite (IH post Hpost Hhd t1' e' s' t2' Et).
        unfold has_replace. simpl. now rewrite A.
  Qed.

  Lemma aw_timeline t1 e s t2 :
    r_trace r = (t1 ++ (e, s) :: t2)%list ->
    lookup path s = if has_replace (t1 ++ [(e, s)])%list then Some (newfile data now) else lookup path fs0.
  Proof.
    pose proof (aw_master fs0 path data now cands sc Hnc) as K. fold r in K.
    destruct K as [T F O | tmp Hp Htr _ Hs O | tmp pre e' Hp Hpre T F O _ _ | tmp pre Hp Hpre T F O | tmp pre Hp Hpre T F O];
      intros EQ.
    - rewrite T in EQ. destruct t1; discriminate.
    - fresh_of Hp. apply (timeline_gen (r_trace r) (pre_old tmp Hfresh Hneq _ Htr) [] (Forall_nil _) I t1 e s t2).
      now rewrite app_nil_r.
    - fresh_of Hp. rewrite T in EQ.
      assert (Hpre' : Forall old_ev (pre ++ [(EUnlink, fs0)])%list).
      { apply Forall_app. split; [exact (pre_old tmp Hfresh Hneq _ Hpre)|].
        constructor; [|constructor]. split; reflexivity. }
      apply (timeline_gen _ Hpre' [] (Forall_nil _) I t1 e s t2). now rewrite app_nil_r.
    - fresh_of Hp. rewrite T in EQ.
      assert (Hpost : Forall (fun es : ev * fsys => snd es = new_fs fs0 path data now)
                             [(EReplace, new_fs fs0 path data now)]) by (repeat constructor).
      exact (timeline_gen pre (pre_old tmp Hfresh Hneq _ Hpre) _ Hpost eq_refl t1 e s t2 EQ).
    - fresh_of Hp. rewrite T in EQ.
      assert (Hpost : Forall (fun es : ev * fsys => snd es = new_fs fs0 path data now)
                             [(EReplace, new_fs fs0 path data now); (EUnlink, new_fs fs0 path data now)])
        by (repeat constructor).
      exact (timeline_gen pre (pre_old tmp Hfresh Hneq _ Hpre) _ Hpost eq_refl t1 e s t2 EQ).
  Qed.

  Lemma aw_reader_sees_whole e s :
    In (e, s) (r_trace r) ->
    lookup path s = lookup path fs0 \/ lookup path s = Some (newfile data now).
  Proof.
    intros I. destruct (in_split _ _ I) as [t1 [t2 E]].
    rewrite (aw_timeline t1 e s t2 E). destruct (has_replace _); auto.
  Qed.
End Consequences.

(* ------------------------------------------------------------------ *)
(* FilePolicySource: etag() and load() over histories                  *)
(* ------------------------------------------------------------------ *)
Definition sig_of (f : file) : nat * Z := (String.length (f_data f), f_mtime f).

(* Along the history, (size, mtime) determines the content: whenever the content
   differs, its size or its modification time differs too. *)
Definition sig_determines (vs : list (option file)) : Prop :=
  forall f1 f2, In (Some f1) vs -> In (Some f2) vs -> sig_of f1 = sig_of f2 -> f_data f1 = f_data f2.

(* No modification of the file falls between the stat and the read inside one etag() call. *)
Definition quiet (ops : list op) : Prop := forall mid, In (OEtag mid) ops -> mid = WNone.

Section SourceProofs.
  Variable H : Type.
  Variable h : bytes -> H.
  Variables (json_loads yaml_safe_load : bytes -> res value) (schema_ok : value -> bool).
  Variable cfg : config.
  Let path := c_path cfg.
  Let run' := run H h json_loads yaml_safe_load schema_ok cfg.

  Definition exact_tag (fo : option file) : tagres H :=
    match fo with
    | None => TagNone H
    | Some f => Tag H (h (f_data f)) (if c_incl_mtime cfg then Some (f_mtime f) else None)
    end.

  Definition obs_exact (fo : option file) (o : obs H) : Prop :=
    match o with
    | ObsTag _ t => t = exact_tag fo
    | ObsLoad _ r => r = parse_file json_loads yaml_safe_load schema_ok cfg fo
    end.

  (* the cached pair stems from a file that was at the path at some earlier instant *)
  Definition justified (s : source H) (P : list (option file)) : Prop :=
    match csig H s, csha H s with
    | Some sg, Some sha => exists f, In (Some f) P /\ sig_of f = sg /\ sha = h (f_data f)
    | _, _ => True
    end.

  Lemma justified_mono s P P' : incl P P' -> justified s P -> justified s P'.
  Proof.
    unfold justified. destruct (csig H s); [|auto]. destruct (csha H s); [|auto].
    intros I [f [A B]]. exists f. split; [now apply I|exact B].
  Qed.

  Lemma sig_eqb_eq a b : sig_eqb a b = true <-> a = b.
  Proof.
    destruct a as [n1 z1], b as [n2 z2]. unfold sig_eqb. simpl.
    rewrite andb_true_iff, Nat.eqb_eq, Z.eqb_eq. split; [intros [-> ->]; reflexivity|].
    intros E. inversion E. auto.
  Qed.

  Lemma mk_tag_exact f : mk_tag H cfg (h (f_data f)) (sig_of f) = exact_tag (Some f).
  Proof. unfold mk_tag, exact_tag. simpl. destruct (c_incl_mtime cfg); reflexivity. Qed.

  Lemma stat_sig_lookup fs : stat_sig path fs = option_map sig_of (lookup path fs).
  Proof. unfold stat_sig. destruct (lookup path fs); reflexivity. Qed.

  (* one sequential etag() call *)
  Lemma etag_call_quiet fs s P t s' fs' :
    etag_call H h cfg WNone fs s = (t, s', fs') ->
    justified s P ->
    sig_determines (P ++ [lookup path fs]) ->
    fs' = fs /\ t = exact_tag (lookup path fs) /\ justified s' (P ++ [lookup path fs]).
  Proof.
    unfold etag_call. fold path. rewrite stat_sig_lookup. simpl apply_wop.
    destruct (lookup path fs) as [f|] eqn:L; simpl.
    2:{ intros E _ _. inversion E; subst. repeat split; auto. }
    intros E J D.
    assert (Rehash : (mk_tag H cfg (h (f_data f)) (String.length (f_data f), f_mtime f),
                      mkSrc H (Some (String.length (f_data f), f_mtime f)) (Some (h (f_data f))), fs) = (t, s', fs') ->
                     fs' = fs /\ t = exact_tag (Some f) /\ justified s' (P ++ [Some f])).
    { intros R. inversion R; subst. repeat split; auto.
      - apply (mk_tag_exact f).
      - unfold justified. simpl. exists f. split; [apply in_or_app; right; now left|]. split; reflexivity. }
    destruct (csha H s) as [sha|] eqn:Csha; [|apply Rehash; exact E].
    destruct (csig H s) as [c|] eqn:Csig; [|apply Rehash; exact E].
    destruct (sig_eqb c (sig_of f)) eqn:Q; [|apply Rehash; exact E].
    apply sig_eqb_eq in Q. inversion E; subst t s' fs'.
    unfold justified in J. rewrite Csig, Csha in J. destruct J as [f0 [I0 [S0 ->]]].
    assert (Dd : f_data f0 = f_data f).
    { apply D.
      - apply in_or_app. now left.
      - apply in_or_app. right. now left.
      - rewrite S0, Q. reflexivity. }
    rewrite Dd. split; [reflexivity|]. split; [apply (mk_tag_exact f)|].
    apply (justified_mono s P); [apply incl_appl, incl_refl|].
    unfold justified. rewrite Csig, Csha. exists f0. repeat split; auto.
  Qed.

  Lemma sig_determines_incl A B : incl A B -> sig_determines B -> sig_determines A.
  Proof. intros I D f1 f2 I1 I2. apply D; now apply I. Qed.

  Lemma quiet_tail o ops : quiet (o :: ops) -> quiet ops.
  Proof. intros Q mid I. apply Q. now right. Qed.

  Lemma run_exact ops : forall fs s P,
    quiet ops -> justified s P -> sig_determines (P ++ visited path ops fs) ->
    forall fo o, In (fo, o) (run' ops fs s) -> obs_exact fo o.
  Proof.
    unfold run'. induction ops as [|o ops IH]; intros fs s P Q J D fo ob I; simpl in I; [contradiction|].
    destruct o as [w|mid|].
    - (* the world moves *)
      fold path in I. simpl in D.
      apply (IH (apply_wop path w fs) s (P ++ [lookup path fs])%list); auto.
      + exact (quiet_tail _ _ Q).
      + apply (justified_mono s P); [apply incl_appl, incl_refl|exact J].
      + rewrite <- app_assoc. exact D.
    - (* etag() *)
      assert (mid = WNone) by (apply Q; now left). subst mid.
      destruct (etag_call H h cfg WNone fs s) as [[t s'] fs'] eqn:E.
      simpl in D.
      assert (D1 : sig_determines (P ++ [lookup path fs])).
      { apply (sig_determines_incl (P ++ [lookup path fs])%list (P ++ lookup path fs :: visited path ops fs)%list); [|exact D].
        intros x Hx. apply in_app_or in Hx. apply in_or_app. destruct Hx as [Hx|[Hx|[]]]; [now left|right; now left]. }
      destruct (etag_call_quiet fs s P t s' fs' E J D1) as [-> [Ht Js]].
      fold path in I. destruct I as [I|I].
      + inversion I; subst. simpl. reflexivity.
      + apply (IH fs s' (P ++ [lookup path fs])%list); auto.
        * exact (quiet_tail _ _ Q).
        * rewrite <- app_assoc. exact D.
    - (* load() *)
      fold path in I. destruct I as [I|I].
      + inversion I; subst. simpl. reflexivity.
      + simpl in D. apply (IH fs s (P ++ [lookup path fs])%list); auto.
        * exact (quiet_tail _ _ Q).
        * apply (justified_mono s P); [apply incl_appl, incl_refl|exact J].
        * rewrite <- app_assoc. exact D.
  Qed.

  (* etag() is exact in every reachable state of a history along which
     (size, mtime) determines the content *)
  Theorem etag_tracks_content ops fs0 :
    quiet ops -> sig_determines (visited path ops fs0) ->
    forall fo t, In (fo, ObsTag H t) (run' ops fs0 (fresh H)) -> t = exact_tag fo.
  Proof.
    intros Q D fo t I.
    apply (run_exact ops fs0 (fresh H) [] Q) in I; [exact I| |exact D].
    unfold justified. simpl. exact Logic.I.
  Qed.

  (* load() needs no hypothesis at all: it has no state *)
  Theorem load_parses_current ops : forall fs s fo r,
    In (fo, ObsLoad H r) (run' ops fs s) -> r = parse_file json_loads yaml_safe_load schema_ok cfg fo.
  Proof.
    unfold run'. induction ops as [|o ops IH]; intros fs s fo r I; simpl in I; [contradiction|].
    destruct o as [w|mid|].
    - now apply (IH _ _ _ _ I).
    - destruct (etag_call H h cfg mid fs s) as [[t s'] fs'].
      destruct I as [I|I]; [discriminate|]. now apply (IH _ _ _ _ I).
    - destruct I as [I|I]; [|now apply (IH _ _ _ _ I)].
      inversion I; subst. reflexivity.
  Qed.

  (* ---- what exact tags say about two observations ---- *)
  Hypothesis h_inj : forall a b, h a = h b -> a = b.

  Lemma exact_tag_equal f1 f2 :
    f_data f1 = f_data f2 -> (c_incl_mtime cfg = true -> f_mtime f1 = f_mtime f2) ->
    exact_tag (Some f1) = exact_tag (Some f2).
  Proof.
    intros D M. unfold exact_tag. rewrite D. destruct (c_incl_mtime cfg); [|reflexivity]. now rewrite M.
  Qed.
  Lemma exact_tag_differs_content f1 f2 :
    f_data f1 <> f_data f2 -> exact_tag (Some f1) <> exact_tag (Some f2).
  Proof. intros D E. unfold exact_tag in E. inversion E. apply D. now apply h_inj. Qed.
  Lemma exact_tag_differs_mtime f1 f2 :
    c_incl_mtime cfg = true -> f_mtime f1 <> f_mtime f2 -> exact_tag (Some f1) <> exact_tag (Some f2).
  Proof. intros C D E. unfold exact_tag in E. rewrite C in E. inversion E. now apply D. Qed.
  Lemma exact_tag_none fo : exact_tag fo = TagNone H <-> fo = None.
  Proof. destruct fo; simpl; split; intros; congruence. Qed.

  Theorem etag_pairs ops fs0 :
    quiet ops -> sig_determines (visited path ops fs0) ->
    forall fo1 t1 fo2 t2,
      In (fo1, ObsTag H t1) (run' ops fs0 (fresh H)) ->
      In (fo2, ObsTag H t2) (run' ops fs0 (fresh H)) ->
      (* a missing file has the tag None and nothing else has *)
      (t1 = TagNone H <-> fo1 = None) /\
      forall f1 f2, fo1 = Some f1 -> fo2 = Some f2 ->
        (* unchanged content: equal tags (with include_mtime: when the mtime is unchanged too) *)
        (f_data f1 = f_data f2 -> (c_incl_mtime cfg = true -> f_mtime f1 = f_mtime f2) -> t1 = t2) /\
        (* different content: different tags *)
        (f_data f1 <> f_data f2 -> t1 <> t2) /\
        (* include_mtime: different mtime alone: different tags *)
        (c_incl_mtime cfg = true -> f_mtime f1 <> f_mtime f2 -> t1 <> t2).
  Proof.
    intros Q D fo1 t1 fo2 t2 I1 I2.
    rewrite (etag_tracks_content ops fs0 Q D _ _ I1), (etag_tracks_content ops fs0 Q D _ _ I2).
    split; [apply exact_tag_none|].
    intros f1 f2 -> ->. split; [apply exact_tag_equal|]. split; [apply exact_tag_differs_content|apply exact_tag_differs_mtime].
  Qed.

  (* ---- one call, precisely: the answer is exact iff the cached pair is coherent ---- *)
  Definition coherent (s : source H) (fs : fsys) : Prop :=
    match lookup path fs, csig H s, csha H s with
    | Some f, Some c, Some sha => c = sig_of f -> sha = h (f_data f)
    | _, _, _ => True
    end.

  Theorem etag_exact_iff_coherent fs s :
    fst (fst (etag_call H h cfg WNone fs s)) = exact_tag (lookup path fs) <-> coherent s fs.
  Proof.
    unfold etag_call, coherent. fold path. rewrite stat_sig_lookup. simpl apply_wop.
    destruct (lookup path fs) as [f|] eqn:L; simpl; [|tauto].
    pose proof (mk_tag_exact f) as MT. unfold exact_tag in MT.
    destruct (csha H s) as [sha|]; [|destruct (csig H s); simpl; split; auto].
    destruct (csig H s) as [c|]; [|simpl; split; auto].
    destruct (sig_eqb c (sig_of f)) eqn:Q; simpl.
    - apply sig_eqb_eq in Q. subst c. split.
      + intros E _. rewrite <- MT in E. unfold mk_tag in E.
        destruct (c_incl_mtime cfg); inversion E; reflexivity.
      + intros C. rewrite (C eq_refl). exact MT.
    - split; [|intros _; exact MT].
      intros _ E. exfalso. rewrite E in Q.
      assert (X : sig_eqb (sig_of f) (sig_of f) = true) by now apply sig_eqb_eq.
      congruence.
  Qed.
End SourceProofs.

(* ---- format by extension ---- *)
Lemma detect_format_yaml fn :
  fn <> "" -> str_suffix ".yaml" (str_lower fn) = true \/ str_suffix ".yml" (str_lower fn) = true ->
  detect_format fn = FYaml.
Proof.
  intros N S. unfold detect_format. rewrite (eqb_neq_sym _ _ N).
  destruct S as [-> | ->]; [reflexivity|now rewrite orb_true_r].
Qed.
Lemma detect_format_json fn :
  str_suffix ".yaml" (str_lower fn) = false -> str_suffix ".yml" (str_lower fn) = false ->
  detect_format fn = FJson.
Proof.
  intros A B. unfold detect_format. destruct (String.eqb fn ""); [reflexivity|].
  rewrite A, B. simpl. destruct (str_suffix ".json" (str_lower fn)); reflexivity.
Qed.

(* ---- the decidable forms of the two history hypotheses (FileStore.v) are sound ---- *)

Lemma sig_determines_b_sound vs : sig_determines_b vs = true -> sig_determines vs.
Proof.
  unfold sig_determines_b, sig_determines. rewrite forallb_forall. intros A f1 f2 I1 I2 S.
  specialize (A _ I1). rewrite forallb_forall in A. specialize (A _ I2). simpl in A.
  unfold sig_of in S. inversion S as [[S1 S2]]. rewrite S1, S2, Nat.eqb_refl, Z.eqb_refl in A. simpl in A.
  now apply String.eqb_eq.
Qed.
Lemma quiet_b_sound ops : quiet_b ops = true -> quiet ops.
Proof.
  unfold quiet_b, quiet. rewrite forallb_forall. intros A mid I. specialize (A _ I). simpl in A.
  destruct mid; congruence.
Qed.
