(* Num.v — the float conversions the modelled code performs, in exact Z
   arithmetic: float(int) with round-to-nearest-even and OverflowError, the
   binary64 product used by datetime.fromtimestamp, round-half-even to integers. *)
From Coq Require Import ZArith Bool.
From Rbacx Require Import Value.
Local Open Scope Z_scope.

(* number of bits of |z| (0 for 0) *)
Definition bitlen (z : Z) : Z :=
  match z with
  | Z0 => 0
  | Zpos p | Zneg p => Z.log2 (Zpos p) + 1
  end.

(* round |m|*2^e to at most 53 significant bits, ties to even; exact result
   returned as (m', e').  No subnormal/overflow handling here. *)
Definition rnd53 (m e : Z) : Z * Z :=
  let a := Z.abs m in
  let n := bitlen a in
  if n <=? 53 then (m, e)
  else
    let sh := n - 53 in
    let q := Z.shiftr a sh in
    let r := a - Z.shiftl q sh in
    let half := Z.shiftl 1 (sh - 1) in
    let q' := if (r >? half) || ((r =? half) && Z.odd q) then q + 1 else q in
    ((if m <? 0 then - q' else q'), e + sh).

(* float(z) for a Python int: None = OverflowError ("int too large to convert to float") *)
Definition float_of_int (z : Z) : option nview :=
  let '(m, e) := rnd53 z 0 in
  if bitlen m + e >? 1024 then None else Some (NvFin m e).

(* float(x) for an int-or-float numeric view coming from a value: floats are
   themselves; ints are rounded. *)
Definition to_double (n : num) : option nview :=
  match n with
  | NInt z => float_of_int z
  | NFlt _ _ => Some (num_view n)
  end.

(* trunc / frac of a finite dyadic m*2^e : intpart (as Z) and frac as dyadic (fm, fe), same sign as m *)
Definition dy_modf (m e : Z) : Z * (Z * Z) :=
  if e >=? 0 then (m * 2 ^ e, (0, 0))
  else
    let d := 2 ^ (- e) in
    let ip := Z.quot m d in
    (ip, (Z.rem m d, e)).

(* round-half-even of the dyadic m*2^e to an integer *)
Definition dy_rne (m e : Z) : Z :=
  if e >=? 0 then m * 2 ^ e
  else
    let d := 2 ^ (- e) in
    let q := Z.div m d in           (* floor *)
    let r := m - q * d in           (* 0 <= r < d *)
    let twice := 2 * r in
    if twice <? d then q
    else if twice >? d then q + 1
    else if Z.even q then q else q + 1.

(* C: floatpart = modf(d, &intpart); floatpart *= 1e6 (binary64 product);
   floatpart = round_half_even(floatpart); carry into intpart.
   Result: microseconds since the epoch. *)
Definition timestamp_us (m e : Z) : Z :=
  let '(ip, (fm, fe)) := dy_modf m e in
  let '(pm, pe) := rnd53 (fm * 1000000) fe in
  ip * 1000000 + dy_rne pm pe.
