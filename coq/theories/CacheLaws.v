(* CacheLaws.v — the everyday laws of the built-in cache as corollaries of the
   C15 theorems (str keys): read-your-write, delete-then-miss, clear-then-miss,
   a key never set is never found.  Proofs only. *)
From Coq Require Import List String ZArith Lia.
From Rbacx Require Import Cache CacheProofs.
Import ListNotations.
Local Open Scope Z_scope.

Section Laws.
Variable V : Type.
Notation sop := (op string V).
Notation seqb := String.eqb.

(* read your write: right after [set k v] (capacity >= 1, the clock has not gone
   back and the entry's deadline, if any, has not been reached) a lookup finds v —
   whatever happened before *)
Theorem read_your_write (cap : Z) (pre : list sop) (k : string) (v : V) ttl t1 t2 now :
  1 <= cap -> t2 <= now -> unexpired (expiry ttl t1) now ->
  snd (cget seqb k now (final seqb cap (pre ++ [OSet k v ttl t1 t2]) empty)) = RHit v.
Proof.
  intros Hc Ht Hu.
  apply (str_lru_after_set V cap pre [] k v ttl t1 t2 now).
  - constructor.
  - constructor; [|constructor]. simpl. constructor; [exact Ht|constructor].
  - exact Hu.
  - simpl. lia.
Qed.

Lemma contract_miss (cap : Z) (ops : list sop) (k : string) (now : Z) :
  stored seqb k ops = None ->
  snd (cget seqb k now (final seqb cap ops empty)) = RMiss.
Proof.
  intros Hs. destruct (str_contract V cap ops k now) as [H|[v [_ H]]]; [exact H|].
  rewrite Hs in H. discriminate H.
Qed.

(* after [delete k] a lookup of k misses, at every capacity and clock *)
Theorem delete_then_miss (cap : Z) (pre : list sop) (k : string) (now : Z) :
  snd (cget seqb k now (final seqb cap (pre ++ [ODelete k]) empty)) = RMiss.
Proof.
  apply contract_miss. rewrite (stored_snoc string V seqb). rewrite String.eqb_refl. reflexivity.
Qed.

(* after [clear] every lookup misses *)
Theorem clear_then_miss (cap : Z) (pre : list sop) (k : string) (now : Z) :
  snd (cget seqb k now (final seqb cap (pre ++ [OClear]) empty)) = RMiss.
Proof.
  apply contract_miss. rewrite (stored_snoc string V seqb). reflexivity.
Qed.

(* a key that no operation ever set is never found *)
Theorem never_set_never_found (cap : Z) (ops : list sop) (k : string) (now : Z) :
  (forall v ttl t1 t2, ~ In (OSet k v ttl t1 t2) ops) ->
  snd (cget seqb k now (final seqb cap ops empty)) = RMiss.
Proof.
  intros Hn. destruct (snd (cget seqb k now (final seqb cap ops empty))) eqn:E; try reflexivity;
    try (destruct (str_contract V cap ops k now) as [H|[v' [H _]]]; rewrite E in H; discriminate H).
  apply str_get_sound in E. destruct E as [pre [ttl [t1 [t2 [post [Ho _]]]]]].
  exfalso. apply (Hn v ttl t1 t2). rewrite Ho. apply in_or_app. right. left. reflexivity.
Qed.
End Laws.
